"""C10  Rendering is pure: colours never change layout and output has no memory
(ak/color.py caches, ak/ppobj.py CHTextResult / enum cell cache, rendering entry points of ppobj, ghist, hdoc)

A case is a *history*: objects (json, table, record formatter, git history report, h-doc item), enum
field types shared between tables, and a list of operations (new/drop configuration, register syntax,
set global configuration, render, new HCommand, help).  impl_run
  1. resets the package's global state, builds the objects twice and takes a *probe* of every object:
     the object is rendered once with an instrumented palette whose accessors return marker chunks, which
     yields the object's chunk program (lines of (palette, accessor, text) items; enum cells as
     (field type, value, modifier)) and the order of the first get_sub_palette calls;
  2. runs the history, recording every text and the identity of every palette object created;
  3. resets the global state again and renders every (object, configuration content in force) of the
     history on fresh objects / fresh configurations: the reference the oracle compares with.
The Coq model gets the chunk programs and the identities as oracle values and must predict every text.
References of histories marked "fp" (every second one, all environment histories) come from fresh PROCESSES instead
(_FreshServer: a process started under the environment in force, forked per reference); ["env", {...}] operations change the
process environment (TZ, NO_COLOR, TERM, COLUMNS, locale ...) between renderings.
Structural operations (build a late table from another table's .fmt, set_fmt, remove_columns) render nothing: probe and
reference are taken on a world that replays only the structural operations before the rendering (epochs).  The title
block of a table is computed by the model (Titles.v).  Every argument object handed to the library is pictured before
and after each operation of the history (the caller's objects are never modified).
"""
import ast
import os
import re

from harness.lib import sx as SX

ID = "C10"
COQ_DIR = "C10"
RUN_MOD = "C10.Run"
MODEL_TARGETS = ["C10/Titles.vo", "C10/Run.vo"]
PROOF_TARGETS = ["C10/SgrLemmas.vo", "C10/Lemmas.vo", "C10/LemmasInv.vo", "C10/LemmasRun.vo", "C10/LemmasPure.vo", "C10/LemmasTop.vo", "C10/LemmasSub.vo", "C10/LemmasWit.vo", "C10/LemmasLayout.vo", "C10/LemmasHandle.vo", "C10/LemmasTitles.vo"]
PROPS = ["C10/Props.v"]
ALLOWED_AXIOMS = []
IMPL_TIMEOUT = 180.0    # per history; an environment history starts 3-6 python processes (about 1 s on an idle machine, but 60 s were exceeded twice with seven checks running at once at load 130)
COQ_SHARD = 16      # cases per coqc file: the printed result of a file (one line per case, (length, hash) of every text) must stay below ~30 000 characters -- at 40 cases the lazy-result histories (up to 3 000 characters each) made coqc end in "Stack overflow" in the thorough tier

ESC = "\x1b"
SEQ_RE = re.compile(r"\x1b\[[;:\d]*m")
MODULES = ["color", "ppobj", "hdoc", "ghist"]
COLORS = ["BLACK", "RED", "GREEN", "YELLOW", "BLUE", "MAGENTA", "CYAN", "WHITE"]


class ExtractError(Exception):
    pass


# ====================================================================== extraction (ast, fail closed)
def parse_descr(s):
    """colour description -> (parent or None, fg: 'inherit' | 'dash' | int, bold: None/True/False);
    only the sub-language the model knows (named foreground colours, bold / no_bold)."""
    if not isinstance(s, str):
        raise ExtractError(f"colour description is not a string: {s!r}")
    chunks = s.split(":")
    if len(chunks) > 3:
        raise ExtractError(f"colour description outside the modelled language: {s!r}")

    def colour(c):
        c = c.strip()
        if c == "":
            return "inherit"
        if c == "-":
            return "dash"
        if c in COLORS:
            return COLORS.index(c)
        return None

    def mods(c):
        out = None
        for m in [x.strip() for x in c.split(",") if x.strip()]:
            if m == "bold":
                out = True
            elif m == "no_bold":
                out = False
            else:
                raise ExtractError(f"modifier outside the modelled language: {s!r}")
        return out
    parent, fg, bold = None, "inherit", None
    first = colour(chunks[0])
    if first is None:
        if "/" in chunks[0] or "," in chunks[0] or chunks[0] in ("bold", "no_bold") or not re.fullmatch(r"[A-Za-z_][\w.]*", chunks[0]):
            raise ExtractError(f"colour description outside the modelled language: {s!r}")
        parent = chunks[0]
    else:
        fg = first
    if len(chunks) == 1:
        return parent, fg, bold
    second = colour(chunks[1])
    if second is None or (chunks[1].strip() == "" and len(chunks) == 2):
        if len(chunks) > 2:
            raise ExtractError(f"colour description outside the modelled language: {s!r}")
        return parent, fg, mods(chunks[1])
    if parent is None:
        raise ExtractError(f"colour given twice: {s!r}")
    fg = second
    if len(chunks) == 3:
        bold = mods(chunks[2])
    return parent, fg, bold


def _dotted(node):
    if isinstance(node, ast.Name):
        return node.id
    if isinstance(node, ast.Attribute):
        b = _dotted(node.value)
        return None if b is None else b + "." + node.attr
    return None


def _c3(name, bases_of):
    def merge(seqs):
        out = []
        seqs = [list(s) for s in seqs if s]
        while seqs:
            for s in seqs:
                h = s[0]
                if not any(h in t[1:] for t in seqs):
                    break
            else:
                raise ExtractError("inconsistent class hierarchy")
            out.append(h)
            seqs = [[x for x in s if x != h] for s in seqs]
            seqs = [s for s in seqs if s]
        return out
    bs = bases_of[name]
    return [name] + merge([_c3(b, bases_of) for b in bs] + [list(bs)])


_EXTRACT_CACHE = {}


def extract(repo, strict=True):
    """-> dict with classes (list of dicts), names of syntax ids / accessors, builtin config and the
    two source facts.  Raises ExtractError when the source does not have the recognised shape.
    strict=False (implementation side, oracle): an unrecognised *source fact* (enum cache key, cache reset
    clause) is recorded in res["fact_error"] instead of raised, so that the history can still be run and a
    failing input reported; gen_consts stays strict (fail closed: the proofs do not build)."""
    res = _extract(repo)
    if strict and res.get("fact_error"):
        raise ExtractError(res["fact_error"])
    return res


def _extract(repo):
    key = os.path.abspath(repo)
    mt = tuple(os.path.getmtime(os.path.join(repo, "ak", m + ".py")) for m in MODULES)
    if key in _EXTRACT_CACHE and _EXTRACT_CACHE[key][0] == mt:
        return _EXTRACT_CACHE[key][1]
    trees = {m: ast.parse(open(os.path.join(repo, "ak", m + ".py")).read()) for m in MODULES}
    # every class definition (module, qualified name) -> node
    cdefs = {}
    for m, tree in trees.items():
        def walk(body, prefix):
            for n in body:
                if isinstance(n, ast.ClassDef):
                    q = prefix + n.name
                    cdefs[(m, q)] = n
                    walk(n.body, q + ".")
        walk(tree.body, "")
    imported = {}   # names imported from ak.color in other modules
    for m, tree in trees.items():
        for n in tree.body:
            if isinstance(n, ast.ImportFrom) and n.module == "ak.color":
                for a in n.names:
                    imported[(m, a.asname or a.name)] = ("color", a.name)

    def own_assign(node, name):
        for n in node.body:
            if isinstance(n, ast.Assign) and len(n.targets) == 1 and isinstance(n.targets[0], ast.Name) and n.targets[0].id == name:
                return n.value
        return None

    def resolve(m, dotted, inside=None):
        """dotted name used in module m -> (module, qualname) of a class definition, or None"""
        parts = dotted.split(".")
        if len(parts) == 1:
            if inside and (m, inside + "." + parts[0]) in cdefs:
                return (m, inside + "." + parts[0])
            if (m, parts[0]) in cdefs:
                return (m, parts[0])
            if (m, parts[0]) in imported and imported[(m, parts[0])] in cdefs:
                return imported[(m, parts[0])]
            return None
        owner = resolve(m, ".".join(parts[:-1]), inside)
        if owner is None:
            return None
        attr = parts[-1]
        if (owner[0], owner[1] + "." + attr) in cdefs:
            return (owner[0], owner[1] + "." + attr)
        # class attribute holding a class (PALETTE_CLASS = Name), own or inherited
        seen = set()
        todo = [owner]
        while todo:
            o = todo.pop(0)
            if o in seen:
                continue
            seen.add(o)
            v = own_assign(cdefs[o], attr)
            if v is not None:
                d = _dotted(v)
                if d is None:
                    return None
                return resolve(o[0], d, o[1])
            for b in cdefs[o].bases:
                d = _dotted(b)
                r = resolve(o[0], d, None) if d else None
                if r:
                    todo.append(r)
        return None

    root = ("color", "Palette")
    if root not in cdefs or ("color", "CompoundPalette") not in cdefs:
        raise ExtractError("ak.color.Palette / CompoundPalette not found")
    bases_of = {root: []}
    changed = True
    while changed:
        changed = False
        for (m, q), node in cdefs.items():
            if (m, q) in bases_of or not node.bases:
                continue
            rs = []
            for b in node.bases:
                d = _dotted(b)
                outer = q.rsplit(".", 1)[0] if "." in q else None
                rs.append(resolve(m, d, outer) if d else None)
            if all(r is not None and r in bases_of for r in rs):
                bases_of[(m, q)] = rs
                changed = True
    for (m, q), node in cdefs.items():
        uses = any(isinstance(n, ast.Assign) and isinstance(n.value, ast.Call) and _dotted(n.value.func) == "ConfColor" for n in node.body)
        if (uses or q.endswith("Palette")) and (m, q) not in bases_of and (m, q) != ("color", "_PaletteMeta"):
            raise ExtractError(f"class {m}.{q} looks like a palette but its bases are not recognised")
    order = [k for k in cdefs if k in bases_of]
    own = {}
    for k in order:
        node = cdefs[k]
        o = {"defaults": "absent", "parents": "absent", "local": {}, "submap": "absent"}
        for n in node.body:
            if isinstance(n, ast.Assign) and len(n.targets) == 1 and isinstance(n.targets[0], ast.Name):
                t = n.targets[0].id
                if t == "SYNTAX_DEFAULTS":
                    try:
                        o["defaults"] = ast.literal_eval(n.value)
                    except Exception:
                        raise ExtractError(f"{k}: SYNTAX_DEFAULTS is not a literal")
                    if o["defaults"] is not None and not (isinstance(o["defaults"], dict) and all(isinstance(a, str) and isinstance(b, str) for a, b in o["defaults"].items())):
                        raise ExtractError(f"{k}: SYNTAX_DEFAULTS is not a flat dict of strings")
                elif t == "PARENT_PALETTES":
                    if isinstance(n.value, ast.Constant) and n.value.value is None:
                        o["parents"] = None
                    elif isinstance(n.value, (ast.List, ast.Tuple)):
                        ps = []
                        for e in n.value.elts:
                            d = _dotted(e)
                            outer = k[1].rsplit(".", 1)[0] if "." in k[1] else None
                            r = resolve(k[0], d, outer) if d else None
                            if r is None or r not in bases_of:
                                raise ExtractError(f"{k}: PARENT_PALETTES entry not recognised")
                            ps.append(r)
                        o["parents"] = ps
                    else:
                        raise ExtractError(f"{k}: PARENT_PALETTES not recognised")
                elif t == "SUB_PALETTES_MAP":
                    if isinstance(n.value, ast.Constant) and n.value.value is None:
                        o["submap"] = None
                    elif isinstance(n.value, ast.Dict) and not n.value.keys:
                        o["submap"] = {}
                    else:
                        raise ExtractError(f"{k}: non-empty SUB_PALETTES_MAP is not modelled")
                elif isinstance(n.value, ast.Call) and _dotted(n.value.func) == "ConfColor":
                    a = n.value.args
                    if len(a) != 1:
                        raise ExtractError(f"{k}.{t}: ConfColor call not recognised")
                    if isinstance(a[0], ast.Constant) and isinstance(a[0].value, str):
                        o["local"][t] = a[0].value
                    elif _dotted(a[0]) == "ColorsConfig.DFLT_SYNTAX_ID":
                        o["local"][t] = "@dflt"
                    else:
                        raise ExtractError(f"{k}.{t}: ConfColor argument is not a literal")
        own[k] = o
    # ColorsConfig constants
    cc = cdefs.get(("color", "ColorsConfig"))
    if cc is None:
        raise ExtractError("ColorsConfig not found")
    dflt = own_assign(cc, "DFLT_SYNTAX_ID")
    builtin = own_assign(cc, "BUILT_IN_CONFIG")
    try:
        dflt = ast.literal_eval(dflt)
        builtin = ast.literal_eval(builtin)
    except Exception:
        raise ExtractError("DFLT_SYNTAX_ID / BUILT_IN_CONFIG are not literals")
    if not isinstance(dflt, str) or not isinstance(builtin, dict) or not all(isinstance(a, str) and isinstance(b, str) for a, b in builtin.items()):
        raise ExtractError("BUILT_IN_CONFIG is not a flat dict of strings")
    classes = []
    for k in order:
        mro = _c3(k, bases_of)

        def eff(attr):
            for c in mro:
                if own[c][attr] != "absent":
                    return own[c][attr]
            return None

        def local(c):
            out = {}
            for b in bases_of[c]:
                out.update(local(b))
            out.update(own[c]["local"])
            return out
        loc = {a: (dflt if s == "@dflt" else s) for a, s in local(k).items()}
        classes.append({"mod": k[0], "q": k[1], "defaults": eff("defaults"), "parents": [order.index(p) for p in (eff("parents") or [])],
                        "parents_none": eff("parents") is None, "local": loc, "compound": ("color", "CompoundPalette") in mro})
    # source facts ------------------------------------------------------------
    fact_error = None
    try:
        key_is_object, reset = _source_facts(cdefs, cc)
        val_key_literal = _enum_value_key(cdefs)
        help_at_call = _help_palette_at_call(cdefs)
    except ExtractError as e:
        key_is_object, reset, val_key_literal, help_at_call, fact_error = None, None, None, None, str(e)
    synts = sorted({dflt} | set(builtin) | {s for c in classes for s in c["local"].values()} | {s for c in classes for s in (c["defaults"] or {})}
                   | {p for d in [builtin] + [c["defaults"] or {} for c in classes] for p in [parse_descr(x)[0] for x in d.values()] if p})
    accs = sorted({a for c in classes for a in c["local"]})
    res = {"classes": classes, "synts": synts, "accs": accs, "dflt": dflt, "builtin": builtin,
           "key_is_object": key_is_object, "reset": reset, "val_key_literal": val_key_literal, "help_at_call": help_at_call,
           "fact_error": fact_error}
    _EXTRACT_CACHE[key] = (mt, res)
    return res


def _source_facts(cdefs, cc):
    # (1) key of the enum cell cache
    ef = None
    node = cdefs.get(("ppobj", "PPEnumFieldType"))
    if node is None:
        raise ExtractError("PPEnumFieldType not found")
    for n in node.body:
        if isinstance(n, ast.FunctionDef) and n.name == "make_desired_cell_ch_chunks":
            ef = n
    if ef is None:
        raise ExtractError("PPEnumFieldType.make_desired_cell_ch_chunks not found")
    params = [a.arg for a in ef.args.args]
    keys = [n for n in ast.walk(ef) if isinstance(n, ast.Assign) and len(n.targets) == 1 and isinstance(n.targets[0], ast.Name) and n.targets[0].id == "cache_key"]
    if len(keys) != 1 or "field_palette" not in params:
        raise ExtractError("enum cache: expected exactly one assignment to cache_key")
    v = keys[0].value
    if isinstance(v, ast.Name) and v.id == "field_palette":
        key_is_object = True
    elif isinstance(v, ast.Call) and isinstance(v.func, ast.Name) and v.func.id == "id" and len(v.args) == 1 and isinstance(v.args[0], ast.Name) and v.args[0].id == "field_palette":
        key_is_object = False
    else:
        raise ExtractError("enum cache: cache_key expression not recognised")
    subs = [n for n in ast.walk(ef) if isinstance(n, ast.Subscript) and _dotted(n.value) == "self._cache"]
    if not subs or not all(isinstance(n.slice, ast.Name) and n.slice.id == "cache_key" for n in subs):
        raise ExtractError("enum cache: self._cache is not indexed by cache_key only")
    # (2) add_new_items resets the palette cache when a new syntax id arrives
    an = None
    for n in cc.body:
        if isinstance(n, ast.FunctionDef) and n.name == "add_new_items":
            an = n
    if an is None:
        raise ExtractError("ColorsConfig.add_new_items not found")
    reset = False
    for n in ast.walk(an):
        if isinstance(n, ast.If):
            t = ast.unparse(n.test).replace(" ", "")
            if t == "any((synt_idnotinself.syntax_mapforsynt_idinnew_items))" or t == "any(synt_idnotinself.syntax_mapforsynt_idinnew_items)":
                for b in n.body:
                    if isinstance(b, ast.Assign) and _dotted(b.targets[0]) == "self._cache" and isinstance(b.value, ast.Dict) and not b.value.keys:
                        reset = True
    others = [n for n in ast.walk(an) if isinstance(n, ast.Assign) and any(_dotted(t) == "self._cache" for t in n.targets)]
    if len(others) != (1 if reset else 0):
        raise ExtractError("add_new_items: assignments to self._cache not recognised")
    return key_is_object, reset


def _methods(node):
    return {n.name: n for n in node.body if isinstance(n, ast.FunctionDef)}


def _enum_value_key(cdefs):
    """(3) what the by-value dicts of PPEnumFieldType (cells: self._cache[palette][modifier], lengths:
    self._cache_lengths[modifier]) are indexed with.
    True  = only with val_key = self._val_cache_key(value), _val_cache_key returning (type(value), str(value), value):
            one entry per literal (the repair of enum-cache-equal-keys);
    False = with the value itself (Python-equal values 1 / True / 1.0 share an entry: the old code).
    Anything else is not recognised."""
    node = cdefs.get(("ppobj", "PPEnumFieldType"))
    if node is None:
        raise ExtractError("PPEnumFieldType not found")
    ms = _methods(node)
    need = ["make_desired_cell_ch_chunks", "_make_text_cache_for_val", "get_cell_text_len", "_make_len_cache_for_val"]
    for nm in need:
        if nm not in ms:
            raise ExtractError(f"PPEnumFieldType.{nm} not found")
    by_value = {"make_desired_cell_ch_chunks": ["by_value_cache"], "get_cell_text_len": ["by_val_lenghs"],
                "_make_text_cache_for_val": ["by_fmt_cache[*]"], "_make_len_cache_for_val": ["self._cache_lengths[*]"]}
    used = set()        # names the by-value dicts are indexed / tested with
    nsites = 0
    for nm in need:
        f = ms[nm]
        for n in ast.walk(f):
            # <dict>[k]  and  k (not) in <dict>
            if isinstance(n, ast.Subscript):
                base = ast.unparse(n.value)
                inner = None
                if isinstance(n.value, ast.Subscript):
                    inner = ast.unparse(n.value.value) + "[*]"
                if base in by_value[nm] or inner in by_value[nm]:
                    if not isinstance(n.slice, ast.Name):
                        raise ExtractError(f"PPEnumFieldType.{nm}: by-value cache indexed with an expression")
                    used.add(n.slice.id)
                    nsites += 1
            elif isinstance(n, ast.Compare) and len(n.ops) == 1 and isinstance(n.ops[0], (ast.In, ast.NotIn)):
                if ast.unparse(n.comparators[0]) in by_value[nm]:
                    if not isinstance(n.left, ast.Name):
                        raise ExtractError(f"PPEnumFieldType.{nm}: by-value cache tested with an expression")
                    used.add(n.left.id)
                    nsites += 1
    if nsites < 16:
        raise ExtractError(f"PPEnumFieldType: only {nsites} accesses to the by-value caches recognised (16 expected)")
    # other writers / readers of the caches would escape the analysis
    for nm, f in ms.items():
        if nm in need or nm == "__init__":
            continue
        src = ast.unparse(f)
        if "self._cache" in src or "by_fmt_cache" in src:
            raise ExtractError(f"PPEnumFieldType.{nm} touches the caches")
    if used == {"value"}:
        return False
    if used != {"val_key"}:
        raise ExtractError(f"PPEnumFieldType: by-value caches indexed with {sorted(used)}")
    kf = ms.get("_val_cache_key")
    if kf is None or [a.arg for a in kf.args.args] != ["value"]:
        raise ExtractError("PPEnumFieldType._val_cache_key(value) not found")
    body = [n for n in kf.body if not (isinstance(n, ast.Expr) and isinstance(n.value, ast.Constant))]
    if len(body) != 1 or not isinstance(body[0], ast.Return) or ast.unparse(body[0].value).replace(" ", "") != "(type(value),str(value),value)":
        raise ExtractError("PPEnumFieldType._val_cache_key: expected 'return type(value), str(value), value'")
    for nm in need:
        asg = [n for n in ast.walk(ms[nm]) if isinstance(n, ast.Assign) and any(isinstance(t, ast.Name) and t.id == "val_key" for t in n.targets)]
        if len(asg) != 1 or ast.unparse(asg[0].value).replace(" ", "") != "self._val_cache_key(value)" or asg[0] not in ms[nm].body:
            raise ExtractError(f"PPEnumFieldType.{nm}: expected exactly one top-level 'val_key = self._val_cache_key(value)'")
    return True


def _help_palette_at_call(cdefs):
    """(4) when HCommand / LLImpl obtain their palette.
    True  = `_c` is a read-only property returning self._mk_palette(None, None, None) and nothing else binds self._c:
            the palette is looked up when help is printed (the repair of hdoc-captured-palette);
    False = __init__ assigns self._c = self._mk_palette(None, None, None) (captured at construction: the old code).
    Anything else is not recognised."""
    res = []
    for q in ("HCommand", "LLImpl"):
        node = cdefs.get(("hdoc", q))
        if node is None:
            raise ExtractError(f"hdoc.{q} not found")
        ms = _methods(node)
        assigns = [(nm, n) for nm, f in ms.items() for n in ast.walk(f)
                   if isinstance(n, (ast.Assign, ast.AugAssign, ast.AnnAssign))
                   and any(_dotted(t) == "self._c" for t in (n.targets if isinstance(n, ast.Assign) else [n.target]))]
        mk = "self._mk_palette(None,None,None)"
        prop = ms.get("_c")
        if prop is not None:
            decos = [ast.unparse(d) for d in prop.decorator_list]
            body = [n for n in prop.body if not (isinstance(n, ast.Expr) and isinstance(n.value, ast.Constant))]
            if (decos != ["property"] or assigns or len(body) != 1 or not isinstance(body[0], ast.Return)
                    or ast.unparse(body[0].value).replace(" ", "") != mk):
                raise ExtractError(f"hdoc.{q}._c: expected a read-only property returning self._mk_palette(None, None, None)")
            if any(isinstance(n, ast.Assign) and any(isinstance(t, ast.Name) and t.id == "_c" for t in n.targets) for n in node.body):
                raise ExtractError(f"hdoc.{q}: class attribute _c besides the property")
            res.append(True)
        else:
            if len(assigns) != 1 or assigns[0][0] != "__init__" or ast.unparse(assigns[0][1].value).replace(" ", "") != mk:
                raise ExtractError(f"hdoc.{q}: how self._c is bound is not recognised")
            res.append(False)
        # the palette must reach the formatters only through self._c
        for nm, f in ms.items():
            if nm == "_c":
                continue
            calls = [n for n in ast.walk(f) if isinstance(n, ast.Call) and _dotted(n.func) in ("self._mk_palette", "self.PALETTE_CLASS", "cls._mk_palette")]
            if calls and not (nm == "__init__" and not res[-1]):
                raise ExtractError(f"hdoc.{q}.{nm} builds a palette of its own")
    if res[0] != res[1]:
        raise ExtractError("hdoc: HCommand and LLImpl obtain their palettes differently")
    return res[0]


def c_descr(s, synt_id):
    parent, fg, bold = parse_descr(s)
    p = "None" if parent is None else f"(Some {SX.cZ(synt_id(parent))})"
    f = {"inherit": "FInherit", "dash": "FDash"}.get(fg) or f"(FCol {fg})"
    b = "None" if bold is None else f"(Some {SX.cbool(bold)})"
    return f"(mkDescr {p} {f} {b})"


def c_items(d, synt_id):
    if not d:
        return "(@nil (Z * descr))"
    return "[" + "; ".join(f"({SX.cZ(synt_id(k))}, {c_descr(v, synt_id)})" for k, v in d.items()) + "]"


def _cls_index(ex, mod, q):
    for i, c in enumerate(ex["classes"]):
        if c["mod"] == mod and c["q"] == q:
            return i
    raise ExtractError(f"palette class {mod}.{q} not found")


def gen_consts(repo):
    ex = extract(repo)
    sid = {s: i for i, s in enumerate(ex["synts"])}
    aid = {a: i for i, a in enumerate(ex["accs"])}
    rows = []
    for i, c in enumerate(ex["classes"]):
        dfl = "None" if c["defaults"] is None else f"(Some {c_items(c['defaults'], sid.__getitem__)})"
        loc = "[" + "; ".join(f"({aid[a]}, {sid[s]})" for a, s in sorted(c["local"].items())) + "]"
        rows.append(f"  ({i}, mkClass {SX.cZlist(c['parents'])} {dfl} {loc} {SX.cbool(c['compound'])})  (* {c['mod']}.{c['q']} *)")
    names = {"pp_cls": ("ppobj", "PrettyPrinter.PPPalette"), "table_cls": ("ppobj", "PPTable.TablePalette"),
             "record_cls": ("ppobj", "FieldType.RecordPalette"), "title_cls": ("ppobj", "_DefaultTitleFieldType.TitlePalette"),
             "enum_cls": ("ppobj", "PPEnumFieldType.EnumPalette"), "pprec_cls": ("ppobj", "PPRecordFmt.PPRecordPalette"),
             "hcmd_cls": ("hdoc", "HCommand.HCmdPalette"), "ghist_cls": ("ghist", "GHistReport.GHistPalette")}
    text = ("(* generated from ak/color.py, ak/ppobj.py, ak/hdoc.py, ak/ghist.py by harness/props/c10.py -- do not edit *)\n"
            "From Coq Require Import ZArith List Bool.\nFrom AK Require Import C10.Base.\nImport ListNotations.\nOpen Scope Z_scope.\n"
            f"(* syntax ids: {', '.join(f'{i}={s!r}' for s, i in sid.items())} *)\n"
            f"(* accessors: {', '.join(f'{i}={a}' for a, i in aid.items())} *)\n"
            f"Definition dflt_synt : Z := {sid[ex['dflt']]}.\n"
            f"Definition builtin_config : list (Z * descr) := {c_items(ex['builtin'], sid.__getitem__)}.\n"
            "Definition class_table : list (Z * classinfo) := [\n" + ";\n".join(rows) + "\n].\n"
            f"(* PPEnumFieldType.make_desired_cell_ch_chunks: cache_key = field_palette (true) / id(field_palette) (false) *)\n"
            f"Definition enum_key_is_object : bool := {SX.cbool(ex['key_is_object'])}.\n"
            f"(* ColorsConfig.add_new_items: 'if any(new id): self._cache = {{}}' is present *)\n"
            f"Definition reset_cache_on_new : bool := {SX.cbool(ex['reset'])}.\n"
            f"(* PPEnumFieldType: the by-value caches are indexed with _val_cache_key(value) = (type(value), str(value), value) (true) / with the value (false) *)\n"
            f"Definition enum_val_key_literal : bool := {SX.cbool(ex['val_key_literal'])}.\n"
            f"(* hdoc.HCommand / LLImpl: the palette is looked up when it is used (property _c: true) / captured by __init__ (false) *)\n"
            f"Definition help_palette_at_call : bool := {SX.cbool(ex['help_at_call'])}.\n"
            + "".join(f"Definition {n} : Z := {_cls_index(ex, *mq)}.\n" for n, mq in names.items())
            + "".join(f"Definition acc_{a} : Z := {aid[a]}.\n" for a in ("text", "name", "number", "keyword", "col_title", "border")))
    return {"C10_Consts": text}


# ====================================================================== cases
RULE = ("random histories of 4-14 operations over 1-3 objects (json values, tables and record formatters with "
        "number/text/enum columns sharing enum field types, git history reports, h-doc items), 2-4 colours "
        "configurations created, registered into, made global and dropped, every way of passing the palette "
        "(configuration, palette object, synced palette, global) and of consuming the result (whole, by line, both "
        "orders); plus hunts that repeat 'render under A, drop A, create B, render' until a palette identity is "
        "re-used, and targeted 'render, register (new + existing ids), render' and 'synced palette, replace the global configuration, synced palette' histories.  Non-trivial = the history renders some object at least twice under different configurations or "
        "after a registration / drop.  Plus 90 (thorough 900) histories over objects AT the layout thresholds, a fixed share per object kind: "
        "json values whose one-line measure is 200 +-3 at nesting depth 0-2 (lists, dicts, both formats), lists of 30-140 simple values wrapped "
        "at 150 with items of every colour class and now and then an item longer than a line; tables / record formatters whose cells (number, "
        "keyword, text, enum with every modifier, plain FieldType() columns) are longer than, exactly as long as and shorter than their columns, "
        "headers / footers / titles / skipped-records and break lines around the table width; git history reports with continuation lines and "
        "author names around 18; console help with attribute names of several lengths -- each rendered coloured and no_color under a "
        "configuration that colours EVERY syntax id (TEXT included), under a second configuration and, in 40% of them, with an unrelated global "
        "configuration in place; on the fresh reference renderings the result object is also measured (len, plain_text, fixed_len, format, slices).  "
        "Plus 60 (thorough 600) shared-state / lazy-result histories: 2-4 tables built from ONE format object (fmt_obj = a template or the first "
        "table's .fmt), some sharing the records list and the enum field types, with records that need different column widths, rendered in "
        "random order; and results created first (make = obj.ch_text(...)) and consumed later: two or three results of one object under "
        "different settings (coloured / no_color / other configuration) consumed alternately step by step (next), with whole consumptions "
        "(str / full iteration) and ordinary renderings in between, drained at the end, or consumed whole only after other renderings; "
        "tables there have break columns and record limits (service lines), json / report results share one printer / formatter.  "
        "Plus 40 (thorough 300) equal-values histories (cells and keys 1 / True / 1.0, 0 / False / 0.0 / -0.0, 2 / 2.0, '1' through ONE enum field type "
        "shared by 2-3 tables, every modifier, rendered alternately; in two cases of three all cells come from one class of equal values, in four of ten no key of the field type matches, so that the length cache decides the widths) and 12 (160) outliving-help histories (HCommand objects created before / under "
        "another global configuration, set_global_colors_config / registrations in between, help through the OLD objects): regressions of the two "
        "repaired findings.  "
        "Plus 36 (thorough 300) titles / re-format histories: tables whose column titles have DIFFERENT numbers of lines (1-4; strings with new-lines, "
        "lists with numbers / keywords), showing different column subsets of ONE record structure -- built from one template format with "
        "skip_columns, from the .fmt of a table that was rendered before (late construction), over one RecordField list made by the caller, or "
        "one table re-formatted between renderings (set_fmt, .fmt = ..., remove_columns: structural operations; the reference and the chunk "
        "program are those of a fresh process that replays the structural operations only).  "
        "Plus 24 (200) shared-notes histories: console help for a class whose _get_hdoc_method_notes() hook returns ready BoundMethodNotes "
        "objects (class attributes) / fresh ones / fresh coloured ones, for objects with and without a token, their bound methods, the class "
        "and its plain functions, through h and hh, in changing order, under a coloured, a no_color and the default global configuration; "
        "16 (160) enum-width histories (one enum field type, tables whose enum column has different explicit widths, wide before narrow and "
        "back).  In EVERY history every argument object handed to the library (records, field lists, title / type dicts, RecordField and "
        "PPTableFormat objects, enum dicts and field types, printed values, report data, notes objects, _HDOC_ATTRS, the dicts given to "
        "ColorsConfig / add_new_items / remove_columns, the SYNTAX_DEFAULTS of the palette classes, every table's str(fmt)) is pictured before "
        "and after each operation; one render mode in six USES the result as a text first (get_ch_text / + / += / fixed_len / slices and "
        "writing to what they return).  "
        "Plus 24 (thorough 240) environment histories: 2-3 git history reports whose build / commit times lie on both sides of a daylight-saving "
        "switch (a January report, a July report, one whose times are seconds / hours around the switch of the zone in force), sometimes with a "
        "table / json value at the layout thresholds, rendered in 2-3 rounds in different orders in ONE process while the process environment "
        "changes between the rounds (operation env: os.environ + time.tzset() + locale.setlocale): POSIX TZ strings with daylight saving time "
        "(central Europe, US east, Sydney, Lord Howe +30 min), fixed odd offsets, NO_COLOR / FORCE_COLOR / CLICOLOR(_FORCE) / TERM / COLORTERM / "
        "COLUMNS / LINES / LC_ALL / LANG.  Their reference -- and that of every second history of all the other kinds -- is rendered by a FRESH "
        "PROCESS started under the environment in force at the operation (forked from a python process that has imported the package and rendered "
        "nothing), not in the worker process after a reset of the known globals; that reference must also stay the same when every variable "
        "except TZ is taken away (environment-dependent).")
TRUSTED_BASE = [
    "the chunk program of tables, record formatters, git history reports and console help (which palette accessor colours which text) is taken from the implementation by a probe rendering with an instrumented palette on a fresh copy of the object; their layout code is NOT modelled in Coq (tested: strip(coloured) = no_color on the implementation for objects at the layout thresholds, and the model, fed with the probe's layout, must reproduce the coloured text)",
    "lazy results: which line a generator step yields and which sub-palettes it requests first (the probe records, per line, how many sub-palettes had been requested when the line was yielded) are taken from the probe; the model has no state of its own for the object (format objects, records, service lines): that sibling objects and concurrent generators share nothing is exactly what the comparison with the model (programs of fresh copies) and the fresh-state oracle test",
    "pretty-printer values: the layout IS modelled (coq/C10/Layout.v, pp_obj); str() of numbers and of non-string keys and the order of dict keys (the implementation's _mk_type_sort_value) enter as oracle values",
    "table title blocks: the rows ARE modelled (coq/C10/Titles.v, title_lines: as many rows as the tallest title among the visible columns, '' below a shorter one; cells padded to the column); the title_lines of the fields and the visible columns are read from a FRESH table before anything is rendered (public attributes table.fmt.repr_structure.columns[i].name / .field.title_lines), the widths from the border line of the probe's program; titles that do not fit their column (truncation) fall back to the probe's rows",
    "structural operations (late construction from another table's .fmt, set_fmt, remove_columns) have no model operation: they select WHICH program a fresh process prints (programs are probed per epoch on a world that replays the structural operations only)",
    "CPython: id() of a live object is never handed to a new object; an object referenced from a dict key stays alive",
    "fresh-process references: a child forked from a python process that was STARTED under the environment in force (TZ, NO_COLOR, TERM, COLUMNS, locale variables ...), has imported ak.color / ppobj / hdoc / ghist and has rendered nothing stands for 'a fresh process'; the process environment has no model operation (the model's texts do not depend on it: the local times a git history report prints enter through the probe's program of the epoch, the pretty-printer layout model has no environment argument); POSIX TZ strings with rules are interpreted by the C library (glibc) identically in the worker and in the reference process",
    "the colour description language is modelled for named foreground colours and bold only; add_new_items' eager resolution loop is modelled as following the parent chain in the current map; the re-entrant set_global_colors_config calls are flattened (harness/props/c10.notes.md)",
    "gen/C10_Consts.v: palette class table (SYNTAX_DEFAULTS, PARENT_PALETTES, ConfColor fields through the mro), BUILT_IN_CONFIG, the enum cache key expressions (cache_key = field_palette; val_key = _val_cache_key(value) = (type(value), str(value), value) at all 16 accesses to the by-value dicts), the cache-reset clause of add_new_items and the way HCommand / LLImpl obtain their palette (read-only property _c = self._mk_palette(None, None, None), nothing bound in __init__) are read from the source by harness/props/c10.py:extract (ast, fail-closed) and cross-checked against the imported classes in every implementation run",
]
ASSUMPTIONS = [
    "texts handed to the formatters (cell values, keys, strings, commit messages, doc strings) contain no ESC character",
    "enum values: == / hash are an equivalence and str() is a function of the value (the by-value caches are keyed by (type(value), str(value), value))",
    "a CHTextResult is consumed under the configuration in force when ch_text() was called (the generated histories put no registration / drop / set-global between the creation of a lazy result and its last consumption); lines are turned into text with str(CHText(line)) (table rows are yielded as lists of chunks)",
    "palette classes do not declare conflicting defaults for the same syntax id and configurations do not form parent cycles",
]
MODELLED = ("ak/color.py ColorsConfig caches / Palette metaclass / CompoundPalette / _mk_palette / global + synced palettes, "
            "ak/ppobj.py CHTextResult (palette selected by ch_text(), lines produced lazily: OMake / ONext / OWholeH -- results created first, "
            "consumed later, step by step, interleaved) and the PPEnumFieldType cell cache (per palette object, per literal), ak/hdoc.py HCommand (palette looked up per call: help = Render under the global configuration); "
            "ak/ppobj.py PrettyPrinter layout (_gen_ch_lines, _gen_ch_chunks_for_obj: one line below 200, wrapping at 150, indentation) in Layout.v; "
            "ak/ppobj.py table title block (gen_title_lines_ch_chunks_all, _make_table_line, fit_to_width for fitting texts) and the record structure shared by "
            "the tables of a family (fmt_obj= / set_fmt / remove_columns) in Titles.v; "
            "ghist and hdoc formatters, the rest of the table / record layout: correspondence (with the probe's layout) and oracle only")

WORDS = ["alpha", "beta", "gamma", "delta", "x", "yy", "zzz", "Active", "Blocked", "n/a", "", "a b", "k9", "Q"]
USER_SYNTS = ["U.A", "U.B", "U.C", "MYSYN"]


def _rand_descr(rng, parents):
    form = rng.randrange(8)
    col = rng.choice(COLORS)
    par = rng.choice(parents) if parents else None
    if form == 0 or par is None and form >= 4:
        return col
    if form == 1:
        return col + ":bold"
    if form == 2:
        return rng.choice(["", "-", ":bold", col + ":no_bold"])
    if form == 3:
        return col
    if form == 4:
        return par
    if form == 5:
        return par + ":bold"
    if form == 6:
        return par + ":" + col
    return par + rng.choice([":-", ":no_bold", ":" + col + ":bold"])


PKG_SYNTS = ["TEXT", "NAME", "KEYWORD", "NUMBER", "OK", "WARN", "ERROR", "TABLE.BORDER", "TABLE.WARN", "TABLE.HEADER",
             "RECORD.NUMBER", "RECORD.KEYWORD", "RECORD.TITLE", "RECORD.COL_TITLE", "HDOC.ATTR", "HDOC.FUNC_NAME", "HDOC.TAG",
             "HDOC.WARN", "GHIST.REPO", "GHIST.BRANCH", "GHIST.HASH", "GHIST.COMMIT_TIME", "GHIST.VERSION", "GHIST.VER_NOT_MERGED"]
BUILTIN = ["TEXT", "NAME", "KEYWORD", "NUMBER", "OK", "WARN", "ERROR"]


def _rand_conf_items(rng, n, user_only=False):
    """items whose parents are built-in ids, ids of the same dict, or user ids (possibly defined later).
    user_only: ids of USER_SYNTS only -- add_new_items never overrides an id that exists already, and package ids
    come into existence when a palette class registers, so registering them later would make the *content* of
    the configuration depend on what was rendered before (that is add_new_items' documented contract)."""
    items = {}
    for _ in range(n):
        s = rng.choice(USER_SYNTS if user_only else PKG_SYNTS + USER_SYNTS)
        if s in items:
            continue
        # parents are strictly smaller in the order built-in < user ids < package ids: no cycles, ever
        order = BUILTIN + USER_SYNTS + [p for p in PKG_SYNTS if p not in BUILTIN]
        parents = order[:order.index(s)] if s not in BUILTIN else []
        parents = [p for p in parents if p in BUILTIN or p in USER_SYNTS or p in items]
        items[s] = _rand_descr(rng, parents)
    return items


def _rand_json(rng, depth=0):
    r = rng.random()
    if depth >= 2 or r < 0.35:
        return rng.choice([rng.randrange(-5, 2000), rng.choice(WORDS), True, False, None, 1.5, [], {}])
    if r < 0.7:
        return {rng.choice(WORDS + ["id", "name"]) if rng.random() < 0.9 else rng.randrange(9): _rand_json(rng, depth + 1)
                for _ in range(rng.randrange(1, 4))}
    return [_rand_json(rng, depth + 1) for _ in range(rng.randrange(1, 4))]


def _fix_keys(v):
    # JSON object keys are strings: keep the pretty-printer's int keys as a list of pairs
    if isinstance(v, dict):
        return {"__d": [[k, _fix_keys(x)] for k, x in v.items()]}
    if isinstance(v, list):
        return [_fix_keys(x) for x in v]
    return v


def _unfix(v):
    if isinstance(v, dict):
        return {k: _unfix(x) for k, x in v["__d"]}
    if isinstance(v, list):
        return [_unfix(x) for x in v]
    return v


def _rand_ft(rng):
    vals = rng.sample([1, 2, 3, 10, 20, 300, "A", "B"], rng.randrange(2, 5))
    ev = []
    for v in vals:
        nm = rng.choice(["Active", "Blocked", "New", "Old", "x"])
        syn = rng.choice([None, None, "name_good", "name_warn", "error", "number", "nosuch"])
        ev.append([v, nm, syn])
    return {"values": ev, "missing": rng.choice([None, None, ["<?>", "error"]])}


def _rand_table(rng, nfts, kind="table"):
    fields = ["id", "nm"]
    ftmap = {}
    if nfts:
        fields.append("st")
        ftmap["st"] = rng.randrange(nfts)
        if rng.random() < 0.3:
            fields.append("s2")
            ftmap["s2"] = rng.randrange(nfts)
    nrec = 1 if kind == "rec" else rng.randrange(0, 5)
    recs = []
    for _ in range(nrec):
        r = [rng.choice([rng.randrange(0, 3000), None, True]), rng.choice(WORDS)]
        for f in fields[2:]:
            r.append(rng.choice([1, 2, 3, 10, 20, 300, "A", "B", None, 77]))
        recs.append(r)
    cols = []
    for f in fields:
        if rng.random() < 0.15 and len(fields) > 1 and kind == "table":
            continue
        c = f
        if f in ftmap and rng.random() < 0.6:
            c += "/" + rng.choice(["full", "val", "name"])
        if f == "id" and rng.random() < 0.2 and kind == "table":
            c += "!"
        if f not in ftmap and rng.random() < 0.3 and kind == "table":
            c += ":" + rng.choice(["3", "2-6", "1-20", "8"])
        cols.append(c)
    if not cols:
        cols = [fields[0]]
    fmt = ",".join(cols)
    if kind == "table" and rng.random() < 0.2:
        fmt += ";" + rng.choice(["1:1", "*", "2:0"])
    spec = {"k": kind, "fields": fields, "ft": ftmap, "fmt": fmt if (kind == "rec" or rng.random() < 0.8) else None}
    if rng.random() < 0.06:
        spec["gft"] = rng.choice([["id"], ["nm"], ["id", "nm"]])       # outside the model (oracle only), hence rare
    if kind == "rec":
        spec["rec"] = recs[0]
    else:
        spec["recs"] = recs
        spec["header"] = rng.choice([None, None, "Hdr", "a longer table header text"])
        spec["footer"] = rng.choice([None, "", "done"])
        spec["titles"] = rng.choice([None, None, {"id": "Id\nnum"}, {"nm": ["Name", 7]}])
    return spec


def _rand_ghist(rng):
    def bn():
        return rng.choice([[1, 2, rng.randrange(50)], [10, 20, 30, 31], "nb", "nm"])
    repos = []
    for ri in range(rng.randrange(1, 3)):
        branches = []
        for bi in range(rng.randrange(1, 3)):
            builds = []
            for _ in range(rng.randrange(1, 3)):
                builds.append({"bn": bn(), "date": rng.choice([None, 1600000000 + rng.randrange(10 ** 6)]),
                               "incl": [["par", "release/1", bn()] for _ in range(rng.randrange(0, 3))],
                               "bumps": [["lib" + str(i), bn(), [bn() for _ in range(rng.randrange(0, 3))]] for i in range(rng.randrange(0, 2))],
                               "commits": [{"sha": "%040x" % rng.getrandbits(160), "date": 1600000000 + rng.randrange(10 ** 6),
                                            "author": rng.choice(["Ann", "Bob Builder The Very Long Name"]), "msg": rng.choice(["fix BUG-1\nbody", "BUG-1 more"])}
                                           for _ in range(rng.randrange(0, 3))]})
            branches.append({"name": "release/%d" % bi, "builds": builds})
        repos.append({"id": "repo%d" % ri, "branches": branches})
    return {"k": "ghist", "repos": repos}


def _rand_hdoc(rng):
    if rng.random() < 0.5:
        return {"k": "hdoc", "kind": "func", "name": rng.choice(["f", "do_it"]), "args": [a for a in ["a", "b", "k=1", "*args"] if rng.random() < 0.5],
                "doc": rng.choice(["Short.\n\n    body line\n\n    #tag1 #t2\n    ", "Only short", "S.\n\n    #zz\n    "])}
    return {"k": "hdoc", "kind": "cls", "name": "TCls", "attrs": [["x", "the x"], ["missing", "not there"]][:rng.randrange(0, 3)],
            "methods": [["m1", ["p"], "Method one.\n\n        #grp\n        "], ["m2", [], "Second.\n\n        more\n        "]][:rng.randrange(1, 3)],
            "doc": "Class doc.\n\n    details\n    "}


def _rand_history(rng, big):
    nfts = rng.randrange(0, 3)
    fts = [_rand_ft(rng) for _ in range(nfts)]
    objs = []
    for _ in range(rng.randrange(1, 4)):
        k = rng.choice(["json", "table", "table", "rec", "ghist", "hdoc"])
        if k == "json" and rng.random() < 0.1:
            objs.append(_threshold_json(rng))       # a value AT the one-line / wrapping thresholds inside a random history
        elif k == "json":
            objs.append({"k": "json", "v": _fix_keys(_rand_json(rng)), "fj": rng.random() < 0.3})
        elif k in ("table", "rec"):
            objs.append(_rand_table(rng, nfts, k))
        elif k == "ghist":
            objs.append(_rand_ghist(rng))
        else:
            objs.append(_rand_hdoc(rng))
    ops = []
    live = []
    nextc = 0
    hs = []
    has_global = False
    n = rng.randrange(4, 15)
    renderable = [i for i, o in enumerate(objs) if o["k"] != "hdoc"]
    hdocs = [i for i, o in enumerate(objs) if o["k"] == "hdoc"]
    for step in range(n):
        r = rng.random()
        if not live or (r < 0.15 and len(live) < 4):
            ops.append(["newconf", nextc, rng.random() < 0.12, _rand_conf_items(rng, rng.randrange(0, 5))])
            live.append(nextc)
            nextc += 1
        elif r < 0.22:
            c = rng.choice(live)
            live.remove(c)
            ops.append(["drop", c])
        elif r < 0.30:
            ops.append(["reg", rng.choice(live), _rand_conf_items(rng, rng.randrange(1, 3), user_only=True)])
        elif r < 0.38:
            ops.append(["setglobal", rng.choice(live + [None])])
            has_global = True
        elif r < 0.46 and hdocs:
            h = len(hs)
            hs.append(h)
            ops.append(["newh", h, rng.choice([1, 2])])
        elif r < 0.56 and hs and hdocs:
            ops.append(["help", rng.choice(hs), rng.choice(hdocs)])
        elif renderable:
            o = rng.choice(renderable)
            kind = objs[o]["k"]
            pa = rng.choice(["none"] * 6 + ["obj", "synced"])
            if pa == "synced" and kind != "json":
                pa = "none"
            conf = rng.choice(live + ([None] if has_global or rng.random() < 0.1 else []))
            if pa == "obj":
                pa = ["obj", rng.choice(live)]
                conf = None
            if pa == "synced":
                conf = None
            mode = 0 if kind == "rec" else rng.choice([0, 0, 1, 2, 3, 4])
            ops.append(["render", o, conf, rng.random() < 0.2, pa, mode])
    return {"fts": fts, "objs": objs, "ops": ops}


def _hunt_case(rng):
    ft = {"values": [[1, "Active", "name_good"], [2, "Blocked", "name_warn"], [3, "Old", None]], "missing": None}
    tbl = {"k": "table", "fields": ["id", "st"], "ft": {"st": 0}, "fmt": "id,st", "recs": [[1, 1], [2, 2], [3, 3]],
           "header": None, "footer": "", "titles": None}
    a, b = rng.sample(COLORS[1:], 2)
    return {"fts": [ft], "objs": [tbl], "hunt": 40,
            "ops": [["newconf", 0, False, {"RECORD.NUMBER": a, "NAME": a + ":bold"}], ["render", 0, 0, False, "none", 0], ["drop", 0],
                    ["newconf", 1, False, {"RECORD.NUMBER": b, "NAME": b}], ["render", 0, 1, False, "none", 0], ["drop", 1]]}


def _reg_case(rng):
    """registration after a rendering: a built-in id whose parent is a user id that is only registered later,
    together with (or without) ids that exist already -- the palette cached by the first rendering must not
    survive the registration"""
    a, b, c = rng.sample(COLORS[1:], 3)
    target = rng.choice(["NUMBER", "NAME", "KEYWORD"])
    init = {target: rng.choice(["U.B", "U.B:bold", "U.B:" + c])}
    if rng.random() < 0.7:
        init["U.A"] = a
    reg = {"U.B": rng.choice([b, b + ":bold"])}
    if rng.random() < 0.7:
        reg = dict([("U.A", c)] + list(reg.items())) if rng.random() < 0.5 else dict(list(reg.items()) + [("U.A", c)])
    obj = rng.choice([
        {"k": "json", "v": _fix_keys({"id": 7, "name": "x", "ok": True, "l": [1, "two", None]}), "fj": False},
        {"k": "table", "fields": ["id", "nm"], "ft": {}, "fmt": None, "recs": [[1, "a"], [22, "bb"]], "header": None, "footer": "", "titles": None},
    ])
    ops = [["newconf", 0, False, init], ["render", 0, 0, False, "none", rng.choice([0, 1])]]
    if rng.random() < 0.3:
        ops.append(["setglobal", 0])
    ops += [["reg", 0, reg], ["render", 0, 0, False, rng.choice(["none", "none", ["obj", 0]]), 0]]
    if isinstance(ops[-1][4], list):
        ops[-1][2] = None
    return {"fts": [], "objs": [obj], "ops": ops}


def _synced_case(rng):
    """palettes synced with the global configuration: the global configuration is replaced (by a coloured one,
    a no_color one, the default one) and registered into between renderings through palette=K(synced=True)"""
    a, b, c = rng.sample(COLORS[1:], 3)
    confs = [["newconf", 0, False, {"NUMBER": a, "NAME": a + ":bold"}],
             ["newconf", 1, rng.random() < 0.5, {"NUMBER": b, "KEYWORD": rng.choice([b, "U.B"])}]]
    obj = {"k": "json", "v": _fix_keys({"id": 7, "name": "x", "ok": True, "l": [1, "two", None]}), "fj": rng.random() < 0.3}
    rs = lambda nc=False: ["render", 0, None, nc, "synced", rng.choice([0, 0, 1, 2])]
    ops = confs + [["setglobal", 0], rs(), ["setglobal", 1], rs()]
    tail = [[["reg", 1, {"U.B": c}], rs()], [["setglobal", None], rs()], [["setglobal", 0], rs(rng.random() < 0.3)],
            [["render", 0, 1, False, "none", 0], rs()]]
    rng.shuffle(tail)
    for t in tail[:rng.randrange(1, 4)]:
        ops += t
    return {"fts": [], "objs": [obj], "ops": ops}


# ---------------------------------------------------------------------- objects AT the layout thresholds
# Every layout decision of the formatters (one line or several, where a long list wraps, how much a cell is
# padded or truncated, how wide a column / the table is, where the continuation lines of a report start) must be
# taken on the visible text.  A decision taken on a coloured string only shows on objects that reach the
# thresholds (pretty-printer: 200 characters for the one-line form, 150 per line of a wrapped list; tables and
# record formatters: cells longer / exactly as long / shorter than the column, headers and footers longer than
# the table, the 'skipped' line) rendered under a configuration that colours the measured pieces.  The generators
# below aim the sizes AT those thresholds (+-3 characters) and render under configurations that colour everything,
# TEXT included.
def _all_colours(rng, text=True):
    """user content that gives every package syntax id a colour of its own (no parents: nothing dangling)"""
    items = {}
    for s in PKG_SYNTS:
        if s == "TEXT" and not text:
            continue
        items[s] = rng.choice(COLORS[1:]) + rng.choice(["", "", ":bold"])
    return items


def _plain_len(v, fj):
    """visible length of a simple value in the pretty-printer (aims the generator only; never an oracle)"""
    if isinstance(v, str):
        return len(v) + 2
    if v is True:
        return 4
    if v is False:
        return 5
    if v is None:
        return 4
    if isinstance(v, (list, dict)):
        return 2
    return len(str(v))


def _rand_simple(rng, kinds):
    k = rng.choice(kinds)
    if k == "n":
        return rng.choice([rng.randrange(10), rng.randrange(-999, 100000), rng.randrange(10 ** 9, 10 ** 13), 1.5, -0.25, 0])
    if k == "k":
        return rng.choice([True, False, None])
    if k == "s":
        return "".join(rng.choice("abcdefgh XYZ_-") for _ in range(rng.randrange(0, 14)))
    return rng.choice([[], {}])


def _rand_kinds(rng):
    return rng.choice(["n", "k", "nk", "nks", "nkse", "s", "nnnk", "ksss", "nnnnnnns"])


def _list_at(rng, total, fj, kinds):
    """list of simple values whose one-line measure (texts + 2 per item) is exactly `total`"""
    items = []
    cur = 0
    while True:
        v = _rand_simple(rng, kinds)
        l = _plain_len(v, fj) + 2
        if cur + l > total - 4:
            break
        items.append(v)
        cur += l
    rest = total - cur - 4          # the closing item is a string: 2 quotes + 2 for the item itself
    closing = "q" * max(rest, 0)
    pos = rng.randrange(len(items) + 1)
    items.insert(pos, closing)
    return items


def _dict_at(rng, total, fj, kinds):
    """dict of simple values whose one-line measure is exactly `total` ({ + k: v pairs joined by ', ' + })"""
    d = {}
    cur = 2
    i = 0
    while True:
        key = rng.choice(["k", "key", "id", "name_of_it"]) + str(i)
        v = _rand_simple(rng, kinds)
        l = len(key) + 2 + 2 + _plain_len(v, fj) + 2
        if cur + l > total - 12:
            break
        d[key] = v
        cur += l
        i += 1
    key = "z" + str(i)
    rest = total - cur - (len(key) + 2 + 2 + 2) - (2 if d else 0)
    if rng.random() < 0.5:
        items = list(d.items())
        items.insert(rng.randrange(len(items) + 1), (key, "q" * max(rest, 0)))
        d = dict(items)
    else:
        d[key] = "q" * max(rest, 0)
    return d


def _wrap_list(rng, fj, kinds):
    """long list of simple values: several lines of 150; now and then one item longer than a line"""
    n = rng.choice([30, 45, 60, 90, 140])
    items = [_rand_simple(rng, kinds) for _ in range(n)]
    if rng.random() < 0.25:
        items.insert(rng.randrange(n), "L" * rng.choice([146, 147, 148, 149, 150, 151, 160]))
    if not any(True for v in items if _plain_len(v, fj) > 0) or sum(_plain_len(v, fj) + 2 for v in items) < 200:
        items += [123456789] * 25
    return items


def _threshold_json(rng):
    fj = rng.random() < 0.4
    kinds = _rand_kinds(rng)
    shape = rng.choice(["list", "list", "dict", "wrap", "wrap", "mixed"])
    depth = rng.choice([0, 0, 1, 2])        # the container sits at offset 2 * depth
    delta = rng.choice([-3, -2, -1, 0, 0, 1, 2, 3, 9])
    total = 200 - 2 * depth + delta

    def nest(v, depth):
        for d in range(depth):
            if rng.random() < 0.6:
                v = {"a": 1, "deep": v} if rng.random() < 0.5 else {"deep": v}
            else:
                v = [v, [1, [2]]] if rng.random() < 0.5 else [[0, [1]], v]
        return v
    if shape == "list":
        v = nest(_list_at(rng, total, fj, kinds), depth)
    elif shape == "dict":
        v = nest(_dict_at(rng, total, fj, kinds), depth)
    elif shape == "wrap":
        v = nest(_wrap_list(rng, fj, kinds), depth)
    else:
        v = {"short": [1, True, "x"], "at": _list_at(rng, 198 + delta, fj, kinds), "d": _dict_at(rng, 198 - delta, fj, kinds),
             "w": {"inner": _wrap_list(rng, fj, kinds)}, "n": None}
    return {"k": "json", "v": _fix_keys(v), "fj": fj}


LONGWORDS = ["", "a", "ab", "abc", "abcd", "abcde", "Blocked", "a longer cell", "x" * 19, "x" * 20, "x" * 21, "quite a long text that never fits anywhere"]


def _threshold_table(rng, kind="table"):
    """table / record formatter whose cells are longer than, exactly as long as and shorter than their columns
    (all four field kinds: number, keyword, text, enum), with headers / footers / skipped lines around the table width"""
    nfts = rng.randrange(1, 3)
    fts = []
    for _ in range(nfts):
        vals = rng.sample([1, 2, 3, 10, 20, 300, 4000, "A", "BB"], rng.randrange(2, 5))
        fts.append({"values": [[v, rng.choice(["Active", "Blocked", "New", "Old", "x", "Waiting for it"]),
                                rng.choice([None, "name_good", "name_warn", "error", "number", "keyword"])] for v in vals],
                    "missing": rng.choice([None, None, ["<?>", "error"]])})
    fields = ["id", "nm", "kw", "st"] + (["s2"] if rng.random() < 0.4 else [])
    ftmap = {"st": rng.randrange(nfts)}
    if "s2" in fields:
        ftmap["s2"] = rng.randrange(nfts)
    nrec = 1 if kind == "rec" else rng.randrange(1, 7)
    recs = []
    for _ in range(nrec):
        r = [rng.choice([rng.randrange(10), rng.randrange(-99, 3000), rng.randrange(10 ** 6, 10 ** 9), 2.5, None, True]),
             rng.choice(LONGWORDS[:-1] if kind == "rec" else LONGWORDS), rng.choice([True, False, None, 7, "no"])]
        for f in fields[3:]:
            r.append(rng.choice([1, 2, 3, 10, 20, 300, 4000, "A", "BB", None, 77, 123456]))
        recs.append(r)
    widths = ["1", "2", "3", "4", "5", "7", "2-6", "1-20", "8", "3-3", "0-2", "20", "19-21", "6-30"]
    cols = []
    for f in fields:
        if rng.random() < 0.12 and kind == "table":
            continue
        c = f
        if f in ftmap and rng.random() < 0.7:
            c += "/" + rng.choice(["full", "val", "name"])
        if f in ("id", "kw") and rng.random() < 0.15 and kind == "table":
            c += "!"
        if kind == "rec":
            # a record formatter cannot truncate (PPRecordPalette has no 'warn' accessor: fit_to_width raises
            # AttributeError in every colour mode -- noted in c10.notes.md, not a C10 matter): padding only
            if rng.random() < 0.75:
                c += ":" + (rng.choice(["60", "52-70", "6-80"]) if f in ftmap else rng.choice(["21", "19-21", "6-30", "1-21", "9-44"]))
        elif rng.random() < 0.75:
            c += ":" + rng.choice(widths)
        cols.append(c)
    if not cols:
        cols = ["nm:" + rng.choice(widths)]
    fmt = ",".join(cols)
    if kind == "table" and rng.random() < 0.35:
        fmt += ";" + rng.choice(["1:1", "*", "2:0", "0:1", "1:2"])
    spec = {"k": kind, "fields": fields, "ft": ftmap, "fmt": fmt}
    if rng.random() < 0.3:
        spec["gft"] = rng.choice([["id"], ["id", "kw"], ["nm"], ["id", "nm", "kw"]])      # outside the model (oracle only)
    if kind == "rec":
        spec["rec"] = recs[0]
    else:
        spec["recs"] = recs
        spec["header"] = rng.choice([None, "H", "Hdr", "a longer table header text", "h" * rng.randrange(4, 40)])
        spec["footer"] = rng.choice([None, "", "done", "f" * rng.randrange(4, 40), "a footer that is much longer than the whole table is wide"])
        spec["titles"] = rng.choice([None, None, {"id": "Id\nnum"}, {"nm": ["Name", 7]}, {"st": "a long title of the column", "kw": [True, "kw"]},
                                     {"id": 123456, "nm": "N\n\nlonger title"}])
    return fts, spec


def _threshold_ghist(rng):
    """report whose build lines have continuation lines (second and later 'included at' entries start under the
    first one: the offset is measured on the title line), bumps with several origins, author names around 18"""
    def bn():
        return rng.choice([[1, 2, rng.randrange(5000)], [10, 20, 30, 31], [rng.randrange(100), rng.randrange(1000), rng.randrange(10)], "nb", "nm"])
    repos = []
    for ri in range(rng.randrange(1, 3)):
        branches = []
        for bi in range(rng.randrange(1, 3)):
            builds = []
            for _ in range(rng.randrange(1, 4)):
                builds.append({"bn": bn(), "date": rng.choice([None, 1600000000 + rng.randrange(10 ** 6)]),
                               "incl": [[rng.choice(["par", "a_parent_repository"]), rng.choice(["release/1", "m"]), bn()] for _ in range(rng.randrange(0, 4))],
                               "bumps": [["lib" + str(i), bn(), [bn() for _ in range(rng.randrange(0, 4))]] for i in range(rng.randrange(0, 3))],
                               "commits": [{"sha": "%040x" % rng.getrandbits(160), "date": 1600000000 + rng.randrange(10 ** 6),
                                            "author": "N" * rng.choice([0, 1, 5, 17, 18, 19, 30]), "msg": rng.choice(["fix BUG-1\nbody", "  BUG-1 more  ", ""])}
                                           for _ in range(rng.randrange(0, 4))]})
            branches.append({"name": rng.choice(["release/%d" % bi, "b%d" % bi]), "builds": builds})
        repos.append({"id": rng.choice(["repo%d", "r%d", "the_long_repo_name_%d"]) % ri, "branches": branches})
    return {"k": "ghist", "repos": repos}


def _threshold_hdoc(rng):
    """console help whose attribute names (padded to the longest one), argument lists and tags vary in length"""
    if rng.random() < 0.35:
        return {"k": "hdoc", "kind": "func", "name": rng.choice(["f", "do_it", "a_function_with_a_long_name"]),
                "args": [a for a in ["a", "b_long_argument_name", "k=1", "*args", "**kw"] if rng.random() < 0.6],
                "doc": rng.choice(["Short.\n\n    body line\n      indented more\n\n    #tag1 #t2 #a_long_tag\n    ", "Only short", "S.\n\n    #zz\n    ", ""])}
    attrs = [["x", "the x"], ["missing", "not there"], ["x_longer_name", "another"], ["none5", "five"]]
    rng.shuffle(attrs)
    return {"k": "hdoc", "kind": "cls", "name": "TCls", "attrs": attrs[:rng.randrange(0, 5)],
            "methods": [["m1", ["p"], "Method one.\n\n        #grp\n        "], ["m2", [], "Second.\n\n        more\n        "],
                        ["method_three", ["a", "b=2"], "Third.\n\n        #grp #other\n        "]][:rng.randrange(1, 4)],
            "doc": "Class doc.\n\n    details\n    "}


def _threshold_case(rng, what=None):
    """one or two objects AT the layout thresholds, rendered coloured and no_color under a configuration that
    colours every syntax id (TEXT included, so that fillers and separators carry escapes too), under the default
    configuration and under a random one, whole and by line"""
    what = what or rng.choice(["json", "json", "json", "table", "table", "rec", "ghist", "hdoc"])
    fts = []
    if what == "json":
        objs = [_threshold_json(rng)]
    elif what in ("table", "rec"):
        fts, spec = _threshold_table(rng, what)
        objs = [spec]
        if rng.random() < 0.3:
            # a second table / record formatter over the same enum field types (shared cell caches)
            fts2, spec2 = _threshold_table(rng, rng.choice(["table", "rec"]))
            spec2["ft"] = {f: rng.randrange(len(fts)) for f in spec2["ft"]}
            objs.append(spec2)
    elif what == "ghist":
        objs = [_threshold_ghist(rng)]
    else:
        objs = [_threshold_hdoc(rng)]
    confs = [["newconf", 0, False, _all_colours(rng)],
             ["newconf", 1, False, rng.choice([{}, _all_colours(rng, text=False), _rand_conf_items(rng, 4)])]]
    ops = list(confs)
    if what == "hdoc":
        ops += [["setglobal", 0], ["newh", 0, 2], ["help", 0, 0], ["newh", 1, 1], ["help", 1, 0],
                ["setglobal", 1], ["newh", 2, rng.choice([1, 2])], ["help", 2, 0]]
        return {"fts": fts, "objs": objs, "ops": ops, "thr": 1}
    if rng.random() < 0.4:
        # a different GLOBAL configuration is in place while everything is rendered under explicit ones: nothing of
        # it may show (the reference renders with a pristine global state)
        ops += [["newconf", 2, rng.random() < 0.5, _all_colours(rng)], ["setglobal", 2]]
    plan = []
    for o in range(len(objs)):
        mode = lambda: 0 if objs[o]["k"] == "rec" else rng.choice([0, 0, 1, 2, 3, 4])
        plan += [["render", o, 0, False, "none", mode()], ["render", o, 0, True, "none", mode()], ["render", o, 1, False, "none", mode()]]
        if rng.random() < 0.3:
            plan.append(["render", o, None, False, ["obj", 0], mode()])
    if rng.random() < 0.5:
        rng.shuffle(plan)
    return {"fts": fts, "objs": objs, "ops": ops + plan, "thr": 1}


# ---------------------------------------------------------------------- shared state and lazy results
# "Rendering other objects, or the same object under another configuration, before or in between never changes it;
# consuming a result line by line gives the same text as consuming it whole."  Two channels the histories above do
# not exercise: (1) state that sibling objects share by construction -- tables built from one PPTableFormat
# (fmt_obj=template or another table's .fmt), one records list, one enum field type, one printer / formatter;
# (2) results are LAZY: ch_text() only selects the palette, the lines are produced by a generator when the result
# is consumed, so two results (of the same object, under different settings) can be consumed alternately, a whole
# rendering can happen in between, and a result can be consumed long after it was created.
def _service_table(rng, nfts):
    """table with service lines: a break column whose value changes and / or record limits that hide records"""
    fields = ["grp", "id", "nm"] + (["st"] if nfts else [])
    ftmap = {"st": rng.randrange(nfts)} if nfts else {}
    nrec = rng.randrange(3, 9)
    recs = []
    g = 0
    for _ in range(nrec):
        if rng.random() < 0.5:
            g += 1
        r = [rng.choice([g, "g%d" % g]), rng.choice([rng.randrange(10), rng.randrange(3000), None, True]), rng.choice(LONGWORDS[:9])]
        if nfts:
            r.append(rng.choice([1, 2, 3, 10, 20, 300, "A", None, 77]))
        recs.append(r)
    cols = ["grp!" if rng.random() < 0.8 else "grp", "id" + rng.choice(["", "", ":3", ":2-6"]), "nm" + rng.choice(["", "", ":5", ":3-12"])]
    if nfts:
        cols.append("st" + rng.choice(["", "/full", "/val", "/name"]))
    fmt = ",".join(cols)
    if rng.random() < 0.6:
        fmt += ";" + rng.choice(["1:1", "2:0", "0:1", "1:2", "2:2"])
    return {"k": "table", "fields": fields, "ft": ftmap, "fmt": fmt, "recs": recs,
            "header": rng.choice([None, "Hdr", "a longer table header text"]), "footer": rng.choice([None, "", "done"]),
            "titles": rng.choice([None, None, {"id": "Id\nnum"}])}


def _sibling_case(rng):
    """two to four tables built from ONE format object (a template, or the .fmt of the first table), some sharing the
    records list and the enum field types, with records that need different column widths; rendered in a random
    order, coloured and no_color, some of them through lazy results"""
    nfts = rng.randrange(0, 2)
    fts = [_rand_ft(rng) for _ in range(nfts)]
    base = _service_table(rng, nfts)
    base["fmt"] = base["fmt"].replace(":3-12", "").replace(":2-6", "")       # widths come from the records
    tm = {"fields": base["fields"], "ft": base["ft"], "fmt": base["fmt"], "titles": base["titles"]}
    use_tmpl = rng.random() < 0.6
    objs = []
    for i in range(rng.randrange(2, 5)):
        t = _service_table(rng, nfts)
        t.update(fields=base["fields"], ft=base["ft"], fmt=base["fmt"], titles=base["titles"])
        for r in t["recs"]:
            r[2] = rng.choice(LONGWORDS) if rng.random() < 0.7 else r[2]
            r[1] = rng.choice([r[1], rng.randrange(10 ** (1 + 2 * i), 10 ** (2 + 2 * i))])
        if use_tmpl:
            t["tmpl"] = 0
        elif i > 0:
            t["fmt_of"] = 0
        if i > 0 and rng.random() < 0.25:
            t["recs_of"] = rng.randrange(i)
            t["recs"] = objs[t["recs_of"]]["recs"]
        objs.append(t)
    ops = [["newconf", 0, False, rng.choice([{}, _all_colours(rng)])], ["newconf", 1, rng.random() < 0.3, _rand_conf_items(rng, 3)]]
    order = list(range(len(objs)))
    rng.shuffle(order)
    nh = 0
    for o in order + [rng.choice(order)]:
        r = rng.random()
        if r < 0.7:
            ops.append(["render", o, rng.choice([0, 0, 1]), rng.random() < 0.3, "none", rng.choice([0, 0, 1, 2, 3, 4])])
        else:
            ops += [["make", nh, o, rng.choice([0, 1]), rng.random() < 0.3, "none"], ["next", nh, rng.choice([2, 400])]]
            if rng.random() < 0.5:
                ops.append(["whole", nh, rng.choice([0, 1, 4])])
            nh += 1
    case = {"fts": fts, "objs": objs, "ops": ops, "shr": 1}
    if use_tmpl:
        case["tmpls"] = [tm]
    return case


def _interleave_case(rng):
    """lazy results: two or three results (of one object under different settings, or of different objects) are
    created first, then consumed alternately step by step, with whole consumptions and ordinary renderings in
    between, and drained at the end -- or consumed whole only after other renderings"""
    what = rng.choice(["table", "table", "table", "json", "json", "ghist", "ghist", "mixed"])
    nfts = rng.randrange(0, 3)
    fts = [_rand_ft(rng) for _ in range(nfts)]
    if what == "table":
        objs = [_service_table(rng, nfts)] + ([_service_table(rng, nfts)] if rng.random() < 0.4 else [])
    elif what == "json":
        objs = [_threshold_json(rng) if rng.random() < 0.5 else {"k": "json", "v": _fix_keys({"id": 7, "l": [1, "two", None, {"a": [True, 2.5]}], "n": "x"}), "fj": rng.random() < 0.3}]
    elif what == "ghist":
        objs = [_threshold_ghist(rng)]
    else:
        objs = [_service_table(rng, nfts), {"k": "json", "v": _fix_keys({"id": 7, "l": [1, "two", None], "t": {"k": [False]}}), "fj": False}, _rand_ghist(rng)]
    ops = [["newconf", 0, False, _all_colours(rng)], ["newconf", 1, rng.random() < 0.2, rng.choice([{}, _rand_conf_items(rng, 3), _all_colours(rng)])]]
    if rng.random() < 0.25:
        ops.append(["setglobal", rng.choice([0, 1])])
    settings = [(0, False), (0, True), (1, False), (1, True)]
    nres = rng.randrange(2, 4)
    handles = []
    for h in range(nres):
        o = 0 if (h < 2 and rng.random() < 0.8) else rng.randrange(len(objs))
        conf, nc = settings[h] if rng.random() < 0.7 else rng.choice(settings)
        pa = ["obj", conf] if rng.random() < 0.15 else "none"
        ops.append(["make", h, o, None if isinstance(pa, list) else conf, nc, pa])
        handles.append(h)
    renderable = list(range(len(objs)))
    if rng.random() < 0.3:
        # created first, consumed last: other renderings in between, then everything whole
        for _ in range(rng.randrange(1, 4)):
            ops.append(["render", rng.choice(renderable), rng.choice([0, 1]), rng.random() < 0.3, "none", rng.choice([0, 1])])
        rng.shuffle(handles)
        for h in handles:
            ops.append(["whole", h, rng.choice([0, 0, 1, 2, 3])])
        return {"fts": fts, "objs": objs, "ops": ops, "shr": 1}
    wholes = set()
    for step in range(rng.randrange(6, 26)):
        r = rng.random()
        if r < 0.08:
            ops.append(["render", rng.choice(renderable), rng.choice([0, 1]), rng.random() < 0.3, "none", rng.choice([0, 1])])
        elif r < 0.16:
            h = rng.choice(handles)
            if h not in wholes:
                wholes.add(h)
                ops.append(["whole", h, rng.choice([0, 0, 1])])
        else:
            ops.append(["next", handles[step % len(handles)] if rng.random() < 0.8 else rng.choice(handles), rng.choice([1, 1, 1, 2])])
    for h in handles:
        ops.append(["next", h, 400])
    return {"fts": fts, "objs": objs, "ops": ops, "shr": 1}


ALIAS_VALUES = [1, True, 1.0, 0, False, 0.0, -0.0, 2, 2.0, "1", "True", None, 3, 1, True, 1.0]


def _alias_case(rng):
    """Python-equal values that print differently (1 / True / 1.0, 0 / False / 0.0 / -0.0, 2 / 2.0) as cells -- and as
    keys -- of ONE enum field type shared by two or three tables, rendered one after the other and
    again, coloured and no_color, with every modifier: each cell must be what a fresh field type prints for that very
    value (regression of the repaired finding enum-cache-equal-keys: the cell and length caches were keyed by the value)"""
    # four cases in ten: no key of the field type equals any cell (every cell is a 'missing' value, measured by len(str(value)):
    # the LENGTH cache decides the column width, and equal values of different printed length -- 0 / False / 0.0 / -0.0 -- must not share it)
    keys = rng.sample([1, 0, 2, True, 1.0, "1", 0.0], rng.randrange(2, 5)) if rng.random() < 0.6 else rng.sample([5, 7, "x", 300], 2)
    ft = {"values": [[k, rng.choice(["one", "Active", "x", "Blocked"]), rng.choice([None, None, "name_good", "name_warn", "error"])] for k in keys],
          "missing": rng.choice([None, None, ["<?>", "error"]])}
    # two cases in three draw all their cells from ONE class of equal values (so that the literals of the class meet in
    # the caches in every order, 0.0 / -0.0 included), the others from everything
    pool = rng.choice([[1, True, 1.0], [0, False, 0.0, -0.0], [0.0, -0.0, 0], [2, 2.0, 1, True], ALIAS_VALUES, ALIAS_VALUES])
    objs = []
    for _ in range(rng.randrange(2, 4)):
        # tables only: a value found in the enum dict through == but printed longer than the key (True for key 1) is
        # truncated, and PPRecordFmt cannot truncate (AttributeError: no 'warn' accessor -- see the notes, outside C10)
        kind = "table"
        fields = ["st"] + (["id"] if rng.random() < 0.4 else [])
        col = "st" + rng.choice(["", "/full", "/val", "/name"]) + rng.choice(["", "", ":1-20", ":12", ":1-20"])
        fmt = ",".join([col] + fields[1:])
        nrec = 1 if kind == "rec" else rng.randrange(1, 4)
        recs = [[rng.choice(pool)] + [rng.randrange(100)] * (len(fields) - 1) for _ in range(nrec)]
        spec = {"k": kind, "fields": fields, "ft": {"st": 0}, "fmt": fmt}
        if kind == "rec":
            spec["rec"] = recs[0]
        else:
            spec.update(recs=recs, header=None, footer=rng.choice([None, ""]), titles=None)
        objs.append(spec)
    a, b = rng.sample(COLORS[1:], 2)
    ops = [["newconf", 0, False, {"RECORD.NUMBER": a, "RECORD.KEYWORD": b + ":bold"} if rng.random() < 0.7 else {}]]
    order = list(range(len(objs))) * 2
    rng.shuffle(order)
    for o in order:
        ops.append(["render", o, 0, rng.random() < 0.3, "none", 0 if objs[o]["k"] == "rec" else rng.choice([0, 0, 1, 2])])
    return {"fts": [ft], "objs": objs, "ops": ops, "alias": 1}


def _help_case(rng):
    """console help objects that OUTLIVE the global configuration they were created under: h = HCommand() before any
    configuration exists / under configuration A, then set_global_colors_config(B) (coloured, no_color, None = reset), a
    registration into the global configuration, and help through the OLD object again -- it must print what a new
    HCommand prints now (regression of the repaired finding hdoc-captured-palette: the palette was captured by __init__)"""
    objs = [_threshold_hdoc(rng) if rng.random() < 0.5 else _rand_hdoc(rng)]
    if rng.random() < 0.3:
        objs.append({"k": "json", "v": _fix_keys({"id": 7, "ok": True}), "fj": False})
    a, b = rng.sample(COLORS[1:], 2)
    ops = []
    nh = 0
    if rng.random() < 0.5:
        ops += [["newh", nh, rng.choice([1, 2])]]          # before any global configuration exists
        nh += 1
    ops += [["newconf", 0, False, {"HDOC.FUNC_NAME": a, "HDOC.ATTR": a + ":bold", "HDOC.TAG": "U.B"} if rng.random() < 0.7 else _all_colours(rng)],
            ["newconf", 1, rng.random() < 0.5, {"HDOC.FUNC_NAME": b, "HDOC.TAG": b}]]
    if rng.random() < 0.6:
        ops += [["setglobal", 0]]
    ops += [["newh", nh, rng.choice([1, 2])]]
    nh += 1
    ops += [["help", rng.randrange(nh), 0]]
    steps = [[["setglobal", 1]], [["setglobal", None]], [["setglobal", 0]], [["reg", 0, {"U.B": rng.choice(COLORS[1:])}]]]
    if len(objs) > 1:
        steps.append([["render", 1, None, False, "none", 0]])
    rng.shuffle(steps)
    for st in steps[:rng.randrange(2, 5)]:
        ops += st
        ops += [["help", rng.randrange(nh), 0]]
        if rng.random() < 0.3:
            ops += [["newh", nh, rng.choice([1, 2])], ["help", nh, 0]]
            nh += 1
    return {"fts": [], "objs": objs, "ops": ops, "hlp": 1}


# ---------------------------------------------------------------------- objects that share what the caller gave them
# "Output has no memory": the memory may also sit in an object the renderings share -- the RecordField objects of a record
# structure (shared, un-cloned, by every table built with fmt_obj= / by the format objects set_fmt() makes; kept by
# remove_columns()), a RecordField list the caller built and gave to several tables, the BoundMethodNotes objects a class
# returns from its _get_hdoc_method_notes() hook.  An in-place += / extend / sort on such an object during a rendering shows
# in every later rendering that uses it.  Two families: tables whose column titles have DIFFERENT numbers of lines, showing
# different column subsets of one record structure, re-formatted (set_fmt / .fmt = / remove_columns) between renderings and
# built from the format of a table that was rendered before; console help for classes whose hook returns shared notes objects.
TITLES_BY_HEIGHT = {
    1: [None, "Id", "a title", 7, ["one"]],
    2: ["Id\nnum", ["Name", 7], "amount\n(usd)", [True, "kw"], "x\n"],
    3: ["a\nb\nc", ["N", "", "longer title"], "x\n\ny", [1, "two", None]],
    4: ["l1\nl2\nl3\nl4", [1, 2, 3, 4]],
}


def _titles_case(rng):
    nfts = rng.randrange(0, 2)
    fts = [_rand_ft(rng) for _ in range(nfts)]
    fields = ["id", "nm", "amt", "kw"][:rng.randrange(3, 5)] + (["st"] if nfts else [])
    # heights: at least one one-line title and one taller one, preferably three different heights
    heights = {f: rng.choice([1, 1, 2, 3]) for f in fields}
    hs = rng.sample(fields, 3)
    heights[hs[0]] = 1
    heights[hs[1]] = rng.choice([2, 3, 4])
    heights[hs[2]] = rng.choice([1, 2, 3])
    titles = {f: rng.choice(TITLES_BY_HEIGHT[heights[f]]) for f in fields}
    tall = [f for f in fields if heights[f] == max(heights.values())]
    ftmap = {"st": 0} if nfts else {}

    def rec():
        r = [rng.choice([rng.randrange(10), rng.randrange(3000), None]), rng.choice(LONGWORDS[:8]), rng.choice([1250, 2.5, 42]), rng.choice([True, False, None, "no"])][:len(fields) - (1 if nfts else 0)]
        return r + ([rng.choice([1, 2, 3, 10, 20, 300, "A", None, 77])] if nfts else [])

    def recs():
        return [rec() for _ in range(rng.randrange(1, 4))]

    def subset(keep_some_short=True):
        """names to hide: all the tallest columns (the rendering that shows the defect), or a random proper subset"""
        if rng.random() < 0.6:
            sk = list(tall)
        else:
            sk = rng.sample(fields, rng.randrange(0, len(fields)))
        if len(sk) >= len(fields):
            sk = sk[:-1]
        return sk
    base = {"k": "table", "fields": fields, "ft": ftmap, "fmt": None, "titles": {f: t for f, t in titles.items() if t is not None},
            "header": None, "footer": ""}
    mode = rng.choice(["tmpl", "tmpl", "fmt_of", "fmt_of", "rfields", "single"])
    case = {"fts": fts, "ttl": 1}
    objs = []
    cols = {}       # object index -> visible columns (bookkeeping of the generator: a table always keeps one column)
    n = 1 if mode == "single" else rng.randrange(2, 5)
    if mode == "tmpl":
        case["tmpls"] = [{"fields": fields, "ft": ftmap, "fmt": None, "titles": base["titles"]}]
    if mode == "rfields":
        case["rfields"] = [[[f, titles[f], (0 if f == "st" else None)] for f in fields]]
    for i in range(n):
        t = dict(base, recs=recs(), header=rng.choice([None, None, "Hdr"]), footer=rng.choice(["", "", None, "done"]))
        if rng.random() < 0.3:
            t["reclist"] = 1
        sk = [] if i == 0 else subset()
        if i == 1:
            sk = list(tall) if len(tall) < len(fields) else sk
        if mode == "tmpl":
            t["tmpl"] = 0
            t["skip"] = sk + (["nosuch"] if rng.random() < 0.2 else [])
        elif mode == "fmt_of" and i > 0:
            t["fmt_of"] = 0
            t["skip"] = sk
            if rng.random() < 0.5:
                t["late"] = 1
        elif mode == "rfields":
            t["rf"] = 0
            vis = [f for f in fields if f not in sk]
            if rng.random() < 0.4:
                rng.shuffle(vis)
            t["fmt"] = ",".join(vis)
        if i > 0 and rng.random() < 0.25:
            t["recs_of"] = rng.randrange(i)
            t["recs"] = objs[t["recs_of"]]["recs"]
            t.pop("reclist", None)
        cols[i] = [f for f in fields if f not in sk]
        objs.append(t)
    case["objs"] = objs
    ops = [["newconf", 0, False, rng.choice([{}, _all_colours(rng)])], ["newconf", 1, rng.random() < 0.4, _rand_conf_items(rng, 3)]]
    built = {i for i, t in enumerate(objs) if not t.get("late")}
    nh = 0

    def render(o):
        nonlocal nh
        if rng.random() < 0.85:
            ops.append(["render", o, rng.choice([0, 0, 1]), rng.random() < 0.3, "none", rng.choice([0, 0, 1, 2, 3])])
        else:
            ops.extend([["make", nh, o, rng.choice([0, 1]), rng.random() < 0.3, "none"], ["whole", nh, rng.choice([0, 1])]])
            nh += 1

    def restructure(o):
        r = rng.random()
        if r < 0.45 and len(cols[o]) > 1:
            rm = [f for f in cols[o] if f in tall] if rng.random() < 0.6 else [rng.choice(cols[o])]
            rm = rm or [rng.choice(cols[o])]
            if len(rm) >= len(cols[o]):
                rm = rm[:-1]
            cols[o] = [f for f in cols[o] if f not in rm]
            ops.append(["trm", o, rm + (["nosuch"] if rng.random() < 0.2 else [])])
        elif "rf" in objs[o] or r < 0.9:
            # (a table over caller-made RecordFields knows only those fields too: any subset of them is a valid format)
            vis = rng.sample(fields, rng.randrange(1, len(fields) + 1))
            if rng.random() < 0.5:
                vis = [f for f in vis if f not in tall] or vis
            cols[o] = vis
            f = ",".join(c + ("!" if j == 0 and rng.random() < 0.15 else "") + (":" + rng.choice(["1-20", "3", "2-6"]) if c != "st" and rng.random() < 0.2 else "")
                         for j, c in enumerate(vis))
            if rng.random() < 0.2:
                f += ";" + rng.choice(["1:1", "*", "2:0"])
            ops.append(["tset", o, f, rng.random() < 0.3])
        else:
            cols[o] = list(fields)
            ops.append(["tset", o, "*", False])
    render(0)
    for _ in range(rng.randrange(4, 10)):
        r = rng.random()
        pending = [i for i in range(n) if i not in built]
        if pending and r < 0.35:
            o = pending[0]
            ops.append(["build", o])
            cols[o] = [f for f in cols[objs[o]["fmt_of"]] if f not in objs[o]["skip"]] if objs[o].get("fmt_of") is not None else cols[o]
            if not cols[o]:
                # nothing would be left: the late table shows what its source shows
                objs[o]["skip"] = []
                cols[o] = list(cols[objs[o]["fmt_of"]])
            built.add(o)
            render(o)
        elif r < 0.55:
            restructure(rng.choice(sorted(built)))
        else:
            render(rng.choice(sorted(built)))
    for o in range(n):
        if o not in built:
            ops.append(["build", o])
            cols[o] = [f for f in cols[objs[o]["fmt_of"]] if f not in objs[o]["skip"]]
            if not cols[o]:
                objs[o]["skip"] = []
            built.add(o)
    order = list(range(n))
    rng.shuffle(order)
    for o in order:
        ops.append(["render", o, rng.choice([0, 1]), rng.random() < 0.5, "none", 0])
    case["ops"] = ops
    return case


def _enumwidth_case(rng):
    """ONE enum field type, two or three tables whose enum column has DIFFERENT explicit widths (wide first, narrow later and the
    other way round), every modifier: the cells of an enum value are cached per palette object inside the field type -- a cell that
    was padded / truncated for one width must not come back for another"""
    names = ["x", "New", "Active", "Blocked", "Waiting for it"]
    vals = rng.sample([1, 2, 3, 10, 20, 300, "A", "BB"], rng.randrange(2, 5))
    ft = {"values": [[v, rng.choice(names), rng.choice([None, "name_good", "name_warn", "error"])] for v in vals],
          "missing": rng.choice([None, None, ["<?>", "error"]])}
    mod = rng.choice(["", "/full", "/full", "/val", "/name", "/name"])
    # most widths are at or above the longest cell (mvl + 1 + name): a narrower column truncates whatever the cell was before
    L = max(len(str(v)) for v in vals) + 1 + max(len(r[1]) for r in ft["values"])
    widths = [str(x) for x in rng.sample([L, L + 1, L + 3, L + 8, L + 15], 3)]
    if rng.random() < 0.25:
        widths[rng.randrange(3)] = rng.choice(["2-40", str(max(L - 2, 1)), "3"])
    objs = []
    pool = vals + [None, 77]
    recs = [[rng.choice(pool), rng.randrange(100)] for _ in range(rng.randrange(1, 4))]
    for i in range(rng.randrange(2, 4)):
        m = mod if rng.random() < 0.8 else rng.choice(["", "/full", "/val", "/name"])
        objs.append({"k": "table", "fields": ["st", "id"], "ft": {"st": 0}, "fmt": f"st{m}:{widths[i]},id",
                     "recs": recs if rng.random() < 0.85 else [[rng.choice(pool), rng.randrange(100)] for _ in range(rng.randrange(1, 4))],
                     "header": None, "footer": rng.choice([None, ""]), "titles": None})
    ops = [["newconf", 0, False, rng.choice([{}, _all_colours(rng)])], ["newconf", 1, rng.random() < 0.3, _all_colours(rng)]]
    order = list(range(len(objs))) * 2
    rng.shuffle(order)
    for o in order:
        ops.append(["render", o, rng.choice([0, 0, 0, 0, 0, 1]), rng.random() < 0.12, "none", rng.choice([0, 0, 1])])
    return {"fts": [ft], "objs": objs, "ops": ops, "ew": 1}


def _notes_case(rng):
    """console help for a class whose _get_hdoc_method_notes() hook returns ready BoundMethodNotes objects (class attributes,
    shared by all methods / objects / calls), or fresh ones, or both; help for objects with and without a token, for their
    bound methods, for the class and for the plain functions, through h and hh, in changing order, under a coloured, a
    no_color and the default global configuration, with another object rendered in between"""
    methods = [["ping", [], "Check connection.\n\n        #misc\n        "], ["get_user", ["user_id"], "Fetch user by id.\n\n        details\n\n        #users\n        "],
               ["delete_user", ["user_id", "force=False"], "Delete user.\n\n        #users #admin\n        "], ["list_all", [], "List everything."],
               ["sync", ["*what"], "Synchronise.\n\n        #admin\n        "]]
    rng.shuffle(methods)
    methods = methods[:rng.randrange(2, 6)]
    names = [m[0] for m in methods]
    style = rng.choice(["shared", "shared", "shared", "mixed", "fresh"])
    rules = {}
    for nm in names:
        if rng.random() < 0.8:
            rules[nm] = [rng.randrange(len(NOTE_DEFS)), rng.choice([0, 0, 2, 4])]
    attrs = [["x", "the x"], ["missing", ["ch", "not there"]], ["x_longer_name", ["ch", "another"]], ["none5", "five"]]
    rng.shuffle(attrs)
    spec = {"k": "hdoc", "kind": "cls", "name": "Svc", "attrs": attrs[:rng.randrange(0, 4)], "methods": methods, "doc": "Client of some service.\n\n    details\n    ",
            "notes": {"style": style, "rules": rules, "col": [nm for nm in names if rng.random() < 0.5]}, "insts": [None, "t0ken"] + ([None] if rng.random() < 0.3 else [])}
    objs = [spec]
    if rng.random() < 0.5:
        objs.append(rng.choice([_rand_hdoc(rng), {"k": "json", "v": _fix_keys({"id": 7, "ok": True}), "fj": False}]))
    a, b = rng.sample(COLORS[1:], 2)
    ops = [["newconf", 0, False, rng.choice([{"HDOC.FUNC_NAME": a, "HDOC.WARN": b + ":bold", "HDOC.TAG": a}, _all_colours(rng), {}])],
           ["newconf", 1, rng.random() < 0.6, {"HDOC.FUNC_NAME": b}]]
    if rng.random() < 0.7:
        ops.append(["setglobal", 0])
    ops += [["newh", 0, 1], ["newh", 1, 2]]
    ninst = len(spec["insts"])

    def target():
        r = rng.random()
        if r < 0.45:
            return ["obj", rng.randrange(ninst)]
        if r < 0.8:
            return ["meth", rng.randrange(ninst), rng.choice(names)]
        if r < 0.9:
            return ["cls"]
        return ["func", rng.choice(names)]
    asked = []
    for _ in range(rng.randrange(5, 11)):
        r = rng.random()
        if r < 0.15:
            ops.append(["setglobal", rng.choice([0, 1, None])])
        elif r < 0.25 and len(objs) > 1:
            if objs[1]["k"] == "hdoc":
                ops.append(["help", rng.randrange(2), 1])
            else:
                ops.append(["render", 1, None, False, "none", 0])
        else:
            t = rng.choice(asked) if asked and rng.random() < 0.35 else target()
            asked.append(t)
            ops.append(["help", rng.choice([0, 1, 1]), 0, t])
    # the first request once more, at the end
    if asked:
        ops.append(["help", 1, 0, asked[0]])
    return {"fts": [], "objs": objs, "ops": ops, "nts": 1}


# ---------------------------------------------------------------------- the process environment between renderings
# POSIX TZ strings (no tz database needed) and the instants of their two switches in 2023
TZ_DST = {"CET-1CEST,M3.5.0,M10.5.0/3": [1679792400, 1698541200], "EST5EDT,M3.2.0,M11.1.0": [1678604400, 1699164000],
          "AEST-10AEDT,M10.1.0,M4.1.0/3": [1680364800, 1696089600], "LHST-10:30LHDT-11,M10.1.0,M4.1.0": [1680361200, 1696087800]}
TZ_FIXED = ["UTC0", "IST-5:30", "XXX+9:45"]
MIDWINTER = [1610712000, 1642248000, 1673784000, 1705320000]       # 15 January 12:00 UTC 2021-2024
MIDSUMMER = [1626350400, 1657886400, 1689422400, 1721044800]       # 15 July
ENV_EXTRAS = [{"NO_COLOR": "1"}, {"NO_COLOR": "1"}, {"NO_COLOR": ""}, {"TERM": "dumb"}, {"TERM": "xterm-256color", "COLORTERM": "truecolor"}, {"COLUMNS": "40", "LINES": "10"},
              {"COLUMNS": "80"}, {"COLUMNS": "100", "LINES": "24"}, {"COLUMNS": "132"}, {"COLUMNS": "0"}, {"COLUMNS": "wide"}, {"FORCE_COLOR": "1"}, {"CLICOLOR": "0"},
              {"CLICOLOR_FORCE": "1", "NO_COLOR": "1"}, {"LC_ALL": "C", "_setlocale": 1}, {"LC_ALL": "C.UTF-8", "_setlocale": 1}, {"LANG": "POSIX", "LC_ALL": "POSIX"},
              {"LANG": "de_DE.UTF-8", "_setlocale": 1}, {"NO_COLOR": "1", "TERM": "dumb", "COLUMNS": "20"}]


def _env_ghist(rng, date, rid):
    """a report whose build and commit times come from `date()`"""
    def bn():
        return rng.choice([[1, 2, rng.randrange(50)], [10, 20, 30, 31], "nb", "nm"])
    branches = []
    for bi in range(rng.randrange(1, 3)):
        builds = []
        for _ in range(rng.randrange(1, 3)):
            builds.append({"bn": bn(), "date": rng.choice([None, date(), date()]),
                           "incl": [["par", "release/1", bn()] for _ in range(rng.randrange(0, 2))],
                           "bumps": [["lib" + str(i), bn(), [bn() for _ in range(rng.randrange(0, 2))]] for i in range(rng.randrange(0, 2))],
                           "commits": [{"sha": "%040x" % rng.getrandbits(160), "date": date(), "author": rng.choice(["Ann", "Bob Builder The Very Long Name"]),
                                        "msg": rng.choice(["fix BUG-1\nbody", "BUG-1 more"])} for _ in range(rng.randrange(1, 4))]})
        branches.append({"name": "release/%d" % bi, "builds": builds})
    return {"k": "ghist", "repos": [{"id": rid, "branches": branches}]}


def _env_case(rng):
    """Git history reports with times on both sides of a daylight-saving switch (a 'winter' report, a 'summer' report, one whose commits
    straddle a switch by seconds / hours) and, sometimes, a table / json value, rendered in several rounds in different orders inside one process
    while the process environment changes between the rounds: a time zone with daylight saving time, another zone, NO_COLOR / TERM / COLUMNS /
    locale variables.  Every text must be what a fresh process started under the environment in force prints for the object alone ("fp")."""
    tz1 = rng.choice(sorted(TZ_DST))
    tz2 = rng.choice([z for z in sorted(TZ_DST) if z != tz1] + TZ_FIXED)
    sw = TZ_DST[tz1]
    near = [-86400 * 3, -86400, -7200, -3601, -3600, -1801, -1, 0, 1, 1799, 1800, 3599, 3600, 7200, 86400, 86400 * 3]
    kinds = {"winter": lambda: rng.choice(MIDWINTER) + rng.randrange(-3 * 86400, 3 * 86400),
             "summer": lambda: rng.choice(MIDSUMMER) + rng.randrange(-3 * 86400, 3 * 86400),
             "switch": lambda: rng.choice(sw) + rng.choice(near)}
    names = ["winter", "summer"] + (["switch"] if rng.random() < 0.6 else [])
    rng.shuffle(names)
    objs = [_env_ghist(rng, kinds[n], "repo_" + n) for n in names]
    fts = []
    r = rng.random()
    if r < 0.25:
        fts = [_rand_ft(rng)]
        objs.append(_rand_table(rng, 1, "table"))
    elif r < 0.40:
        fts, spec = _threshold_table(rng, "table")
        objs.append(spec)
    elif r < 0.75:
        # (long wrapped lists / values at the one-line threshold: where a terminal width would show)
        objs.append(rng.choice([_threshold_json(rng), _threshold_json(rng), {"k": "json", "v": _fix_keys(_rand_json(rng)), "fj": rng.random() < 0.3}]))
    if len(objs) > 3 and rng.random() < 0.5:
        del objs[rng.randrange(3)]          # (one report less)
    ops = [["newconf", 0, False, _all_colours(rng)], ["newconf", 1, False, rng.choice([{}, _rand_conf_items(rng, 4)])]]
    nh = 0
    tz = None
    for rnd in range(rng.randrange(2, 4)):
        # the environment of the round: mostly the zone with daylight saving time stays (the reports of both seasons are rendered under ONE zone),
        # sometimes another zone or the worker's own environment; the other variables come and go
        env = {}
        if rnd == 0:
            tz = tz1 if rng.random() < 0.85 else None
        elif rng.random() < 0.35:
            tz = rng.choice([tz2, tz2, tz1, None])
        if tz is not None:
            env["TZ"] = tz
        if rng.random() < 0.6:
            env.update(rng.choice(ENV_EXTRAS))
            if rng.random() < 0.3:
                env.update(rng.choice(ENV_EXTRAS))
        if rnd > 0 or env:
            ops.append(["env", env])
        order = list(range(len(objs)))
        rng.shuffle(order)
        if rng.random() < 0.5:
            order.append(rng.choice(order))
        lazy = None
        if rng.random() < 0.3:
            lazy = [nh, rng.choice(order)]
            nh += 1
            ops.append(["make", lazy[0], lazy[1], rng.choice([0, 1]), rng.random() < 0.25, "none"])
        for o in order:
            ops.append(["render", o, rng.choice([0, 0, 1]), rng.random() < 0.25, "none", rng.choice([0, 0, 1, 2, 3])])
        if lazy:
            ops.append(["whole", lazy[0], rng.choice([0, 1, 2, 3])])
    return {"fts": fts, "objs": objs, "ops": ops, "fp": 1, "envc": 1}


def _spread(cases, extra):
    """`extra` inserted at evenly spaced positions (consecutive cases run in one worker process: the cases that start reference
    processes of their own are not left to one worker)"""
    out = list(cases)
    step = max(1, len(out) // (len(extra) + 1))
    for k, c in enumerate(extra):
        out.insert(min(len(out), (k + 1) * step + k), c)
    return out


def gen_cases(rng, tier):
    big = tier == "thorough"
    cases = [_rand_history(rng, big) for _ in range(4000 if big else 420)]
    # objects AT the layout thresholds: a fixed share per object kind (never left to chance in the quick tier)
    for what, n in (("json", 36), ("table", 30), ("rec", 8), ("ghist", 8), ("hdoc", 8)):
        cases += [_threshold_case(rng, what) for _ in range(n * 10 if big else n)]
    cases += [_sibling_case(rng) for _ in range(240 if big else 24)]
    cases += [_interleave_case(rng) for _ in range(360 if big else 36)]
    cases += [_reg_case(rng) for _ in range(200 if big else 12)]
    cases += [_synced_case(rng) for _ in range(200 if big else 12)]
    cases += [_alias_case(rng) for _ in range(300 if big else 40)]
    cases += [_help_case(rng) for _ in range(160 if big else 12)]
    cases += [_titles_case(rng) for _ in range(300 if big else 36)]
    cases += [_notes_case(rng) for _ in range(200 if big else 24)]
    cases += [_enumwidth_case(rng) for _ in range(160 if big else 16)]
    cases += [_hunt_case(rng) for _ in range(12 if big else 3)]
    # a share of all these histories is compared with renderings of fresh PROCESSES (forked from a process that has imported the package
    # and rendered nothing) instead of in-process renderings after _reset_globals(): state the harness does not know how to reset
    # (a class attribute, a module-level memo) would otherwise be in the reference too
    for k, c in enumerate(cases):
        if k % FP_SHARE == 0 and not c.get("hunt"):
            c["fp"] = 1
    return _spread(cases, [_env_case(rng) for _ in range(240 if big else 24)])


FP_SHARE = 2        # every second history gets fresh-process references (all environment histories do)


def search_cases(rng, tier):
    return [_env_case(rng) for _ in range(60)] + [_titles_case(rng) for _ in range(100)] + [_notes_case(rng) for _ in range(60)] + [_enumwidth_case(rng) for _ in range(60)] + [_sibling_case(rng) for _ in range(80)] + [_interleave_case(rng) for _ in range(120)] + [_threshold_case(rng) for _ in range(240)] + [_hunt_case(rng) for _ in range(30)] + [_reg_case(rng) for _ in range(60)] + [_synced_case(rng) for _ in range(60)] + [_alias_case(rng) for _ in range(120)] + [_help_case(rng) for _ in range(60)] + [_rand_history(rng, True) for _ in range(600)]


def kind(case):
    if case.get("hunt"):
        return "hunt"
    return ("environment:" if case.get("envc") else "") + ("threshold:" if case.get("thr") else "") + ("shared/lazy:" if case.get("shr") else "") + ("equal-values:" if case.get("alias") else "") + ("outliving-help:" if case.get("hlp") else "") + ("titles/re-format:" if case.get("ttl") else "") + ("shared-notes:" if case.get("nts") else "") + ("enum-widths:" if case.get("ew") else "") + "+".join(sorted({o["k"] for o in case["objs"]}))


# ====================================================================== implementation side
def _all_subclasses(c):
    out = []
    for s in type.__subclasses__(c):
        out.append(s)
        out += _all_subclasses(s)
    return out


_IMPORT_STATE = {}


def _reset_globals():
    """back to the state of a fresh process: no global configuration, no synced palettes, the per-class no_color
    slots as they were right after import (a class that had no slot of its own gets none: resetting must not
    paper over a slot shared through inheritance)"""
    import gc
    from ak import color
    color._GLOBAL_COLORS_CONF = None
    color._GSYNCED_PALETTES.clear()
    for c in [color.Palette] + _all_subclasses(color.Palette):
        if c not in _IMPORT_STATE:
            # first sight of the class: nothing has been rendered through it yet
            _IMPORT_STATE[c] = ("_PALETTE_NO_COLOR" in c.__dict__, c.__dict__.get("_PALETTE_NO_COLOR"))
        own, val = _IMPORT_STATE[c]
        if own:
            type.__setattr__(c, "_PALETTE_NO_COLOR", val)
        elif "_PALETTE_NO_COLOR" in c.__dict__:
            type.__delattr__(c, "_PALETTE_NO_COLOR")
    gc.collect()


def _classes(ex):
    import importlib
    out = []
    for c in ex["classes"]:
        o = importlib.import_module("ak." + c["mod"])
        for part in c["q"].split("."):
            o = getattr(o, part)
        out.append(o)
    return out


_CHECKED = {}


def _check_table(ex, klasses):
    """the ast-extracted class table must agree with the imported classes"""
    from ak import color
    if _CHECKED.get(id(ex)):
        return
    for c, k in zip(ex["classes"], klasses):
        if dict(k._LOCAL_SYNTAX) != c["local"]:
            raise ExtractError(f"class table mismatch (_LOCAL_SYNTAX) for {c['q']}: {k._LOCAL_SYNTAX} vs {c['local']}")
        if k.SYNTAX_DEFAULTS != c["defaults"]:
            raise ExtractError(f"class table mismatch (SYNTAX_DEFAULTS) for {c['q']}")
        pp = [klasses.index(p) for p in (k.PARENT_PALETTES or [])]
        if pp != c["parents"]:
            raise ExtractError(f"class table mismatch (PARENT_PALETTES) for {c['q']}")
        if issubclass(k, color.CompoundPalette) != c["compound"]:
            raise ExtractError(f"class table mismatch (compound) for {c['q']}")
        if c["compound"] and k.SUB_PALETTES_MAP:
            raise ExtractError(f"non-empty SUB_PALETTES_MAP for {c['q']}")
    known = set(klasses)
    for k in _all_subclasses(color.Palette):
        if k.__module__.startswith("ak.") and k not in known:
            raise ExtractError(f"palette class {k} is missing from the extracted table")
    if dict(color.ColorsConfig.BUILT_IN_CONFIG) != ex["builtin"] or color.ColorsConfig.DFLT_SYNTAX_ID != ex["dflt"]:
        raise ExtractError("BUILT_IN_CONFIG mismatch")
    _CHECKED[id(ex)] = True


MODS = {None: 0, "full": 0, "val": 1, "name": 2}
MODNAMES = ["full", "val", "name"]


class _Rec:
    """stands in for a ColorFmt: returns a chunk whose prefix names the palette and the accessor"""
    def __init__(self, marker):
        self.m = marker

    def __call__(self, text):
        from ak.color import CHText
        return CHText.Chunk(self.m, text, "")


def _instrument(pal, tag, ex, klasses, aid, sublog):
    """replace every colour formatter of palette object `pal` by a recorder; tag = '-' (top) or the
    index of the palette class it was requested as"""
    from ak import color
    k = type(pal)
    newlocal = {}
    for a, syn in k._LOCAL_SYNTAX.items():
        r = _Rec(f"\x00C|{tag}|{aid[a]}\x00")
        object.__setattr__(pal, a, r)
        newlocal[a] = (syn, r)
    pal._local_colors = newlocal
    if isinstance(pal, color.CompoundPalette):
        subs = {}

        def get_sub_palette(palette_class, modifier_name=None):
            if modifier_name is not None:
                raise ExtractError("get_sub_palette with a modifier is not modelled")
            if palette_class not in subs:
                actual = pal.SUB_PALETTES_MAP.get(palette_class, palette_class)
                sp = actual(pal.colors_conf, False)
                ki = klasses.index(palette_class)
                _instrument(sp, str(ki), ex, klasses, aid, sublog)
                subs[palette_class] = sp
                sublog.append(ki)
            return subs[palette_class]
        pal.get_sub_palette = get_sub_palette
    return pal


class _Lits:
    """literals of an enum field type: lit = literal (type, printed text and value: the key of the by-value caches since
    the repair of enum-cache-equal-keys), vkey = class of the literal under == / hash (the key before the repair; the
    model ignores it, Props.enum_equality_irrelevant)"""
    def __init__(self):
        self.lits = []      # python values
        self.keys = []      # vkey per literal

    def index(self, v):
        for i, x in enumerate(self.lits):
            if type(x) is type(v) and str(x) == str(v) and x == v:
                return i
        vk = None
        for i, x in enumerate(self.lits):
            try:
                if x == v and hash(x) == hash(v):
                    vk = self.keys[i]
                    break
            except Exception:
                pass
        if vk is None:
            vk = max(self.keys, default=-1) + 1
        self.lits.append(v)
        self.keys.append(vk)
        return len(self.lits) - 1


def _mk_enum(ftspec, with_dict=False):
    from ak.ppobj import PPEnumFieldType
    d = {}
    for v, nm, syn in ftspec["values"]:
        d[v] = nm if syn is None else (nm, syn)
    if ftspec.get("missing"):
        d[PPEnumFieldType.MISSING] = tuple(ftspec["missing"])
    ft = PPEnumFieldType(d)
    return (ft, d) if with_dict else ft


STRUCT_OPS = ("build", "tset", "trm", "env")      # operations that build / re-format an object -- or change the process environment -- without rendering anything


# ---------------------------------------------------------------------- the process environment
# What a rendering prints may depend on the object, the format and the colours configuration -- and on nothing the process
# remembers.  The environment variables a console program commonly consults are varied BETWEEN the renderings of a history
# (["env", {...}] operations: os.environ + time.tzset() + locale.setlocale); the one dependency the code has (the git history
# report prints commit times in local time, so TZ) is part of "the object as rendered in this environment": every text is
# compared with the rendering of a FRESH PROCESS started under the environment in force (`_FreshServer`), and that reference
# must not change when every variable except TZ is taken away (oracle clause environment-dependent).
ENV_VARS = ("TZ", "NO_COLOR", "FORCE_COLOR", "CLICOLOR", "CLICOLOR_FORCE", "TERM", "COLORTERM", "COLUMNS", "LINES", "LC_ALL", "LANG")
_BASE_ENV = {k: os.environ.get(k) for k in ENV_VARS}
_ENV_FROZEN = False         # True in a fresh reference process: it was STARTED under its environment, env operations are not replayed


def _set_env(over=None):
    """the controlled variables: `over` on top of the values the worker process was started with"""
    import time
    import locale
    if _ENV_FROZEN:
        return
    for k in ENV_VARS:
        v = (over or {}).get(k, _BASE_ENV[k])
        if v is None:
            os.environ.pop(k, None)
        else:
            os.environ[k] = v
    time.tzset()
    try:
        # a process started under this environment has LC_CTYPE from it and "C" elsewhere; with "_setlocale" the program has
        # adopted the user's locale for every category
        locale.setlocale(locale.LC_ALL, "C")
        locale.setlocale(locale.LC_ALL if (over or {}).get("_setlocale") else locale.LC_CTYPE, "")
    except locale.Error:
        pass


def _env_at(case, i):
    """the environment operation in force at operation i (None: the environment the worker was started with)"""
    env = None
    for op in case["ops"][:i]:
        if op[0] == "env":
            env = op[1]
    return env or None


def _has_env(case):
    return any(op[0] == "env" for op in case["ops"])


class _FreshServer:
    """a python process STARTED under a given environment that has imported the package and rendered nothing; every request
    is answered by a forked child (= a process in the state right after import), which renders the reference and exits"""
    def __init__(self, env):
        import subprocess
        import sys
        e = dict(os.environ)
        for k in ENV_VARS:
            v = (env or {}).get(k, _BASE_ENV[k])
            if v is None:
                e.pop(k, None)
            else:
                e[k] = v
        e["VERIF_C10_SETLOCALE"] = "1" if (env or {}).get("_setlocale") else ""
        self.p = subprocess.Popen([sys.executable, "-c", "from harness.props import c10; c10._fresh_server()"], env=e,
                                  stdin=subprocess.PIPE, stdout=subprocess.PIPE, stderr=subprocess.DEVNULL, text=True)
        self.case_id = None

    def ask(self, case, msg):
        import json
        if self.case_id != _CASE_SERIAL[0]:
            self.p.stdin.write(json.dumps({"case": case}) + "\n")
            self.case_id = _CASE_SERIAL[0]
        self.p.stdin.write(json.dumps(msg) + "\n")
        self.p.stdin.flush()
        line = self.p.stdout.readline()
        if not line:
            raise RuntimeError("the fresh reference process ended (rc %r)" % self.p.poll())
        return json.loads(line)

    def close(self):
        try:
            self.p.kill()
            self.p.stdin.close()
            self.p.stdout.close()
            self.p.wait()
        except Exception:  # noqa
            pass


_CASE_SERIAL = [0]  # number of the impl_run call (a server is told the case once)
_FRESH = {}        # environment key -> _FreshServer; the one of the worker's own environment lives as long as the worker


FRESH_KEEP = 4      # reference processes kept between histories besides the one of the worker's own environment (most recently used first out last)


def _fresh_close(everything=False):
    keep = [] if everything else ["null"] + [k for k in _FRESH if k != "null"][-FRESH_KEEP:]
    for k in list(_FRESH):
        if k not in keep:
            _FRESH.pop(k).close()


def _fresh_reference(case, i, op, snap, env):
    import json
    key = json.dumps(env, sort_keys=True)
    if key not in _FRESH:
        _FRESH[key] = _FreshServer(env)
    else:
        _FRESH[key] = _FRESH.pop(key)       # (dicts keep insertion order: most recently used last)
    return _FRESH[key].ask(case, {"i": i, "op": op, "snap": snap})


def _fresh_server():
    """main loop of a fresh reference process (see _FreshServer)"""
    global _ENV_FROZEN
    import sys
    import json
    import signal
    import locale
    import importlib
    _ENV_FROZEN = True
    if os.environ.get("VERIF_C10_SETLOCALE"):
        try:
            locale.setlocale(locale.LC_ALL, "")
        except locale.Error:
            pass
    import ak
    repo = os.environ.get("VERIF_REPO", "/repo")
    if not os.path.abspath(ak.__file__).startswith(os.path.abspath(repo) + os.sep):
        sys.exit(3)
    for m in MODULES:
        importlib.import_module("ak." + m)
    sys.setrecursionlimit(10000)
    case = None
    for line in sys.stdin:
        msg = json.loads(line)
        if "case" in msg:
            case = msg["case"]
            continue
        sys.stdout.flush()
        pid = os.fork()
        if pid == 0:
            rc = 1
            try:
                signal.alarm(int(IMPL_TIMEOUT))
                res = _safe_reference(case, msg["i"], msg["op"], msg["snap"], None, None)
                os.write(1, (json.dumps(res) + "\n").encode())
                rc = 0
            finally:
                os._exit(rc)
        _, st = os.waitpid(pid, 0)
        if st != 0:
            os.write(1, (json.dumps({"ref_err": "the fresh reference process died (status %d)" % st}) + "\n").encode())


def _epochs(case):
    """epoch of operation i = number of structural operations (build a late object, set_fmt, remove_columns) before it:
    what an object prints may only depend on the structural operations before the rendering, never on the renderings"""
    out, e = [], 0
    for op in case["ops"]:
        out.append(e)
        if op[0] in STRUCT_OPS:
            e += 1
    return out


def _snap(x, depth=0, seen=()):
    """canonical, address-free picture of an object the CALLER handed to the library (plain data deep; objects through
    their public attributes: RecordField, PPTableFormat, BoundMethodNotes, CHText, namespaces)"""
    if x is None or isinstance(x, (bool, int, float, str, bytes)):
        return [type(x).__name__, repr(x)]
    if depth > 9 or id(x) in seen:
        return ["..."]
    seen = seen + (id(x),)
    if isinstance(x, (list, tuple)):
        return [type(x).__name__, [_snap(e, depth + 1, seen) for e in x]]
    if isinstance(x, dict):
        return ["dict", [[_snap(k, depth + 1, seen), _snap(v, depth + 1, seen)] for k, v in x.items()]]
    if isinstance(x, (set, frozenset)):
        return ["set", sorted(repr(_snap(e, depth + 1, seen)) for e in x)]
    if isinstance(x, type) or callable(x):
        return ["callable"]
    tn = type(x).__name__
    if tn == "CHText" and hasattr(x, "chunks"):
        return ["CHText", str(x), len(x), [[getattr(c, "c_prefix", None), getattr(c, "text", None), getattr(c, "c_suffix", None)] for c in x.chunks]]
    names = []
    for k in type(x).__mro__:
        sl = k.__dict__.get("__slots__", ())
        names += [sl] if isinstance(sl, str) else list(sl)
    names += list(getattr(x, "__dict__", {}))
    out = []
    for n in sorted(set(names)):
        if n.startswith("_"):
            continue
        try:
            v = getattr(x, n)
        except AttributeError:
            continue
        out.append([n, _snap(v, depth + 1, seen)])
    return ["obj", tn, out]


class _HObj:
    """an h-doc capable class (or function) with the objects help can be requested for:
    None / ["obj", k] = instance k, ["meth", k, name] = bound method of instance k, ["cls"] = the class, ["func", name] = the plain function in the class"""
    def __init__(self, main, cls=None, insts=None):
        self.main = main
        self.cls = cls
        self.insts = insts or []

    def get(self, target=None):
        if not target:
            return self.main
        if target[0] == "obj":
            return self.insts[target[1]]
        if target[0] == "meth":
            return getattr(self.insts[target[1]], target[2])
        if target[0] == "cls":
            return self.cls
        if target[0] == "func":
            return getattr(self.cls, target[1])
        raise ValueError(target)


class _World:
    """objects of one case built from their specs (for every probe, for the history, for every reference).
    upto = i: the structural operations among ops[:i] are replayed (no rendering): the state a FRESH process is in
    when it renders at operation i.  track: keep every argument object handed to the library (for the clause
    'the caller's objects are never modified')."""
    def __init__(self, case, probe=None, upto=0, track=False):
        if _has_env(case):
            _set_env(None)              # a world starts in the environment the process was started with
        self.case = case
        self.probe = probe          # _Probe or None
        self.tracked = [] if track else None        # [(name, owner object index or None, object, view function or None)]
        self.base = {}                              # name -> the picture taken when the object was handed over / after the last operation
        self.ftdicts = []
        self.fts = [self._ft(i, s) for i, s in enumerate(case["fts"])]
        # state that sibling objects legitimately share: RecordField lists made by the caller, format templates
        # (PPTable(fmt_obj=...)), records lists, one PrettyPrinter per format, one ReportFormatter
        self.rfields = [self._rfields(i, s) for i, s in enumerate(case.get("rfields", []))]
        self.tmpls = [self._tmpl(i, s) for i, s in enumerate(case.get("tmpls", []))]
        self.tables = {}
        self.recs = {}
        self.pps = {}
        self.rfmt = None
        self.objs = [None] * len(case["objs"])
        for i, s in enumerate(case["objs"]):
            if not s.get("late"):
                self.objs[i] = self._obj(s, i)
        if track:
            # what every configuration and every rendering reads, and none may write: the defaults the palette classes declare
            from ak import color
            self.track("SYNTAX_DEFAULTS of the palette classes / BUILT_IN_CONFIG",
                       [color.ColorsConfig.BUILT_IN_CONFIG] + [[c.__module__, c.__qualname__, c.__dict__.get("SYNTAX_DEFAULTS")]
                                                               for c in _all_subclasses(color.Palette) if c.__module__.startswith("ak.")])
        for op in case["ops"][:upto]:
            if op[0] in STRUCT_OPS:
                self.apply(op)

    def track(self, name, obj, owner=None, view=None):
        if self.tracked is not None:
            self.tracked.append((name, owner, obj, view))
            # (an argument of a call inside the history -- ColorsConfig(d), add_new_items(d), remove_columns(names) -- is
            # pictured right before the call)
            self.base[name] = self._picture(obj, view)

    base = None

    @staticmethod
    def _picture(obj, view):
        import json
        try:
            return json.dumps(_snap(view(obj) if view else obj))
        except Exception as e:  # noqa
            return "raises " + SX.exc_name(e)

    def snapshot(self):
        return {name: self._picture(obj, view) for name, owner, obj, view in self.tracked or []}

    def apply(self, op):
        """structural operations"""
        k = op[0]
        if k == "env":
            _set_env(op[1])
        elif k == "build":
            self.objs[op[1]] = self._obj(self.case["objs"][op[1]], op[1])
        elif k == "tset":
            t = self.tables[op[1]]
            if len(op) > 3 and op[3]:
                t.fmt = op[2]           # the property setter
            else:
                t.set_fmt(op[2])
        elif k == "trm":
            names = list(op[2])
            self.track(f"argument of remove_columns call {len(self.tracked or [])} {op[:2]}", names)
            self.tables[op[1]].remove_columns(names)

    def _ft(self, i, spec):
        if self.probe is None:
            ft, d = _mk_enum(spec, True)
            self.track(f"enum field type {i}: the values dict", d)
            self.track(f"enum field type {i}", ft)
            return ft
        return self.probe.enum(i, spec)

    def _field_types(self, s):
        """enum field types by index; "gft": fields printed through a plain FieldType() -- the base class, whose
        get_cell_text_len builds the cell (universal path) instead of measuring str(value)"""
        from ak.ppobj import FieldType
        d = {f: self.fts[i] for f, i in s["ft"].items()}
        for f in s.get("gft", []):
            d[f] = FieldType()
        return d

    def _rfields(self, i, s):
        """RecordField objects made by the caller: [name, title, enum field type index or None]; the position in the
        list is the position of the value in the record"""
        from ak.ppobj import RecordField, ReprStructure, FieldType
        dflt = getattr(ReprStructure, "_DFLT_FIELD_TYPE", None) or FieldType()
        out = []
        for pos, (name, title, fti) in enumerate(s):
            title = list(title) if isinstance(title, list) else title
            out.append(RecordField(name, self.fts[fti] if fti is not None else dflt, pos, title))
            self.track(f"rfields[{i}][{pos}] (RecordField {name!r})", out[-1])
        self.track(f"rfields[{i}] (the list)", out)
        return out

    def _table_args(self, s, who):
        """(fields, fields_types, fields_titles) for PPTable / PPTableFormat.make / PPRecordFmt: argument objects are kept"""
        if s.get("rf") is not None:
            return self.rfields[s["rf"]], None, None
        fields = list(s["fields"])
        ftypes = self._field_types(s)
        titles = s.get("titles")
        if isinstance(titles, dict):
            titles = {k: (list(v) if isinstance(v, list) else v) for k, v in titles.items()}
        self.track(f"{who}: fields", fields)
        self.track(f"{who}: fields_types", ftypes)
        self.track(f"{who}: fields_titles", titles)
        return fields, ftypes, titles

    def _tmpl(self, i, s):
        from ak.ppobj import PPTableFormat
        fields, ftypes, titles = self._table_args(s, f"tmpls[{i}]")
        t = PPTableFormat.make(s["fmt"], fields, ftypes, titles)
        self.track(f"tmpls[{i}] (PPTableFormat passed as fmt_obj)", t)
        self.track(f"tmpls[{i}]: str()", t, view=str)
        return t

    def _obj(self, s, idx=None):
        k = s["k"]
        if k == "json":
            from ak.ppobj import PrettyPrinter
            if s["fj"] not in self.pps:
                self.pps[s["fj"]] = PrettyPrinter(fmt_json=s["fj"])
            pp = self.pps[s["fj"]]
            v = _unfix(s["v"])
            self.track(f"objs[{idx}]: the value", v)
            return ("json", PrettyPrinter.PPPalette, lambda **kw: pp(v, **kw))
        if k == "table":
            from ak.ppobj import PPTable
            if s.get("recs_of") is not None and s["recs_of"] in self.recs:
                recs = self.recs[s["recs_of"]]          # the very same list object as the sibling table
            else:
                recs = [(list(r) if s.get("reclist") else tuple(r)) for r in s["recs"]]
                self.track(f"objs[{idx}]: records", recs)
            self.recs[idx] = recs
            kw = {"header": s["header"], "footer": s["footer"]}
            if s.get("skip") is not None:
                kw["skip_columns"] = list(s["skip"])
                self.track(f"objs[{idx}]: skip_columns", kw["skip_columns"])
            if s.get("tmpl") is not None:
                t = PPTable(recs, fmt_obj=self.tmpls[s["tmpl"]], **kw)
            elif s.get("fmt_of") is not None:
                t = PPTable(recs, fmt_obj=self.tables[s["fmt_of"]].fmt, **kw)
            else:
                fields, ftypes, titles = self._table_args(s, f"objs[{idx}]")
                t = PPTable(recs, fields=fields, fmt=s["fmt"], fields_types=ftypes, fields_titles=titles, **kw)
            self.tables[idx] = t
            # the format of a table belongs to the table: only operations on this very table may change what it says
            self.track(f"objs[{idx}]: str(table.fmt)", t, owner=idx, view=lambda t: str(t.fmt))
            return ("table", PPTable.TablePalette, lambda **kw: t.ch_text(**kw))
        if k == "rec":
            from ak.ppobj import PPRecordFmt
            fields, ftypes, titles = self._table_args(s, f"objs[{idx}]")
            f = PPRecordFmt(s["fmt"], fields=fields, fields_types=ftypes)
            rec = list(s["rec"]) if s.get("reclist") else tuple(s["rec"])
            self.track(f"objs[{idx}]: the record", rec)
            return ("rec", PPRecordFmt.PPRecordPalette, lambda **kw: f(rec, **kw))
        if k == "ghist":
            from ak.ghist import GHistReport, ReportFormatter
            if self.rfmt is None:
                self.rfmt = ReportFormatter()
            keep = []
            data = _ghist_data(s, keep)
            self.track(f"objs[{idx}]: the report data", data)
            self.track(f"objs[{idx}]: the builds and commits of the report data", keep)
            rep = GHistReport(data, self.rfmt)
            return ("ghist", GHistReport.GHistPalette, lambda **kw: rep.ch_text(**kw))
        if k == "hdoc":
            return ("hdoc", None, _hdoc_obj(s, self, idx))
        raise ValueError(k)


def _ghist_data(s, keep=None):
    """keep: a list that receives every build / commit namespace (they are reachable from the report data only through
    the accessor functions, which the pictures of the caller's objects do not call)"""
    from types import SimpleNamespace as NS
    from ak.ghist import BuildNumData

    def bn(x):
        if x == "nb":
            return BuildNumData.mk_fake_not_built()
        if x == "nm":
            return BuildNumData.mk_fake_not_merged()
        return BuildNumData(x[0], x[1], x[2], build=(x[3] if len(x) > 3 else None))

    def commit(c):
        return NS(commit=NS(hexsha=c["sha"], committed_date=c["date"], author=NS(name=c["author"]), message=c["msg"]))
    data = []
    for r in s["repos"]:
        branches = []
        for b in r["branches"]:
            builds = []
            for x in b["builds"]:
                commits = [commit(c) for c in x["commits"]]
                rb = NS(build_num=bn(x["bn"]),
                        rcommit=(NS(commit=NS(committed_date=x["date"])) if x["date"] is not None else None),
                        included_at=[(i[0], i[1], bn(i[2])) for i in x["incl"]],
                        bumps={c: NS(to_buildnum=bn(t), from_build_nums=[bn(f) for f in fr]) for c, t, fr in x["bumps"]},
                        get_printable_rcommits=(lambda cs=commits: cs))
                builds.append(rb)
                if keep is not None:
                    keep.append([rb, commits])
            branches.append(NS(branch_name=b["name"], get_rbuilds_list=(lambda bs=builds: bs)))
        data.append((r["id"], NS(branches=branches)))
    return data


NOTE_DEFS = [[True, "", "", 0], [False, "<n/a>", "! requires access token !", 0], [True, "[beta]", "experimental", 1],
             [False, "<off>", "", 1], [True, "(v2)", "", 0]]


def _hdoc_obj(s, world=None, idx=None):
    """-> _HObj.  Classes may implement the documented hook _get_hdoc_method_notes(bound_method, _c); spec "notes":
    {"style": "shared" (ready BoundMethodNotes objects kept as class attributes and returned again and again) | "fresh" (a new
    object per call) | "mixed" (fresh ones, coloured with the palette handed to the hook, for the methods in "col"),
    "rules": {method name: [note index without token, note index with token]}}, "insts": [token or None, ...]"""
    from ak.hdoc import h_doc
    ns = {}
    if s["kind"] == "func":
        src = f"def {s['name']}({', '.join(s['args'])}):\n    {s['doc']!r}\n"
        exec(src, ns)
        f = ns[s["name"]]
        f.__doc__ = s["doc"]
        return _HObj(h_doc(f))
    body = f"class {s['name']}:\n    {s['doc']!r}\n    x = 5\n    missing = None\n"
    for nm, _descr in s["attrs"]:
        if nm not in ("x", "missing"):
            body += f"    {nm} = {None if nm.startswith(('missing', 'none')) else 5!r}\n"
    body += "    def __init__(self, token=None):\n        self.token = token\n"
    for nm, args, doc in s["methods"]:
        body += f"    def {nm}({', '.join(['self'] + args)}):\n        {doc!r}\n"
    exec(body, ns)
    cls = ns[s["name"]]
    from ak.color import CHText
    # attribute descriptions: plain strings, or CHText objects made by the caller (['ch', text])
    cls._HDOC_ATTRS = [(a[0], CHText(a[1][1]) if isinstance(a[1], list) else a[1]) for a in s["attrs"]]
    notes = s.get("notes")
    if notes:
        from ak.hdoc import BoundMethodNotes

        def mk(i, _c=None):
            avail, short, line, ch = NOTE_DEFS[i]
            if _c is not None and short:
                return BoundMethodNotes(avail, CHText(_c.warn(short)), CHText(_c.text(line)) if line else line)
            return BoundMethodNotes(avail, CHText(short) if ch else short, CHText(line) if ch and line else line)
        cls._NOTES = [mk(i) for i in range(len(NOTE_DEFS))]
        rules = notes["rules"]
        style = notes["style"]
        col = set(notes.get("col", []))

        def _get_hdoc_method_notes(self, bound_method, _c):
            r = rules.get(bound_method.__name__, [0, 0])
            i = r[1] if self.token is not None else r[0]
            if style == "fresh":
                return mk(i)
            if style == "mixed" and bound_method.__name__ in col:
                return mk(i, _c)
            return type(self)._NOTES[i]
        cls._get_hdoc_method_notes = _get_hdoc_method_notes
        if world is not None:
            world.track(f"objs[{idx}]: the BoundMethodNotes objects the hook returns", cls._NOTES)
    if world is not None:
        world.track(f"objs[{idx}]: _HDOC_ATTRS", cls._HDOC_ATTRS)
    cls = h_doc(cls)
    insts = [cls(token=t) for t in s.get("insts", [None])]
    return _HObj(insts[0], cls, insts)


def _tkey(target):
    import json
    return json.dumps(target)


def _htarget(op):
    """["help", h, obj] or ["help", h, obj, target]"""
    return op[3] if len(op) > 3 and op[3] else None


class _Probe:
    def __init__(self, case, ex, klasses):
        from ak.color import ColorsConfig
        self.ex = ex
        self.klasses = klasses
        self.aid = {a: i for i, a in enumerate(ex["accs"])}
        self.conf = ColorsConfig({})
        self.lits = [_Lits() for _ in case["fts"]]
        self.ftdefs = [dict() for _ in case["fts"]]     # lit index -> {mod: ([(acc, text)], align)}
        self.ftspecs = case["fts"]
        self.oom = None
        self.aliased = False

    def enum_def(self, fti, value):
        li = self.lits[fti].index(value)
        if li not in self.ftdefs[fti]:
            from ak.ppobj import PPEnumFieldType
            d = {}
            for mi, mn in enumerate(MODNAMES):
                ft = _mk_enum(self.ftspecs[fti])
                from ak.color import ColorsConfig
                pal = _instrument(PPEnumFieldType.EnumPalette(ColorsConfig({})), "E", self.ex, self.klasses, self.aid, [])
                chunks, align = ft.make_desired_cell_ch_chunks(value, mn, pal)
                items = []
                for c in chunks:
                    m = re.fullmatch(r"\x00C\|E\|(\d+)\x00", c.c_prefix)
                    if not m:
                        raise ExtractError(f"enum chunk without recorder prefix: {c!r}")
                    items.append([int(m.group(1)), c.text])
                d[mi] = (items, align)
            self.ftdefs[fti][li] = d
            ks = self.lits[fti].keys
            if len(set(ks)) != len(ks):
                self.aliased = True
        return li, self.ftdefs[fti][li]

    def enum(self, fti, spec):
        from ak.ppobj import PPEnumFieldType
        from ak.color import CHText
        probe = self

        class ProbeEnum(PPEnumFieldType):
            def make_desired_cell_ch_chunks(self, value, fmt_modifier, field_palette):
                if fmt_modifier not in MODS:
                    self._verify_fmt_modifier(fmt_modifier)
                li, d = probe.enum_def(fti, value)
                mi = MODS[fmt_modifier]
                items, align = d[mi]
                return [CHText.Chunk(f"\x00E|{fti}|{li}|{mi}\x00", "".join(t for _, t in items), "")], align
        d = {}
        for v, nm, syn in spec["values"]:
            d[v] = nm if syn is None else (nm, syn)
        if spec.get("missing"):
            d[PPEnumFieldType.MISSING] = tuple(spec["missing"])
        return ProbeEnum(d)

    def program(self, obj, targets=()):
        """-> {"cls": class index, "subs": [class index], "lines": [[item]]}; console help: "levels" = the lines of h / hh
        for the main object, "tl" = {target key: the same for every other object help is requested for in the history}"""
        from ak.color import CHText
        kind, K, call = obj
        sublog = []
        if kind == "hdoc":
            from ak.hdoc import HCommand
            K = HCommand.HCmdPalette
        pal = _instrument(K(self.conf), "-", self.ex, self.klasses, self.aid, sublog)
        if kind == "hdoc":
            progs = []
            # `_c` is a read-only property (the palette is looked up per call) since the repair of hdoc-captured-palette,
            # an instance attribute before: a class attribute of a subclass shadows both
            ProbeH = type("ProbeH", (HCommand,), {"_c": pal})
            def levels(target):
                out = []
                for level in (1, 2):
                    h = ProbeH.__new__(ProbeH)
                    h.dets_level = level
                    out.append([self._line(l.chunks) for l in h._gen_ch_lines(call.get(target), HCommand._DFLT_FILT_ARG, level, False)])
                return out
            return {"cls": self.klasses.index(K), "subs": [], "levels": levels(None), "tl": {_tkey(t): levels(t) for t in targets}}
        r = call(palette=pal)
        if kind == "rec":
            line = []
            for i, col in enumerate(r.columns):
                if i:
                    line.append(["p", " "])
                line += self._line(col.chunks)
            lines = [line]
            marks = None
        else:
            lines = []
            marks = []          # marks[i] = number of sub-palettes requested when line i was yielded (lazy generators)
            for l in r:
                marks.append(len(sublog))
                lines.append(self._line(l.chunks if isinstance(l, CHText) else list(l)))
        return {"cls": self.klasses.index(K), "subs": sublog, "lines": lines, "marks": marks}

    def _line(self, chunks):
        out = []
        for c in chunks:
            if not c.text:
                continue
            if c.c_prefix == "":
                out.append(["p", c.text])
                continue
            m = re.fullmatch(r"\x00C\|(-|\d+)\|(\d+)\x00", c.c_prefix)
            if m:
                out.append(["c", None if m.group(1) == "-" else int(m.group(1)), int(m.group(2)), c.text])
                continue
            m = re.fullmatch(r"\x00E\|(\d+)\|(\d+)\|(\d+)\x00", c.c_prefix)
            if m:
                fti, li, mi = int(m.group(1)), int(m.group(2)), int(m.group(3))
                full = "".join(t for _, t in self.ftdefs[fti][li][mi][0])
                if c.text != full:
                    self.oom = "enum cell truncated"
                out.append(["e", fti, self.lits[fti].keys[li], li, mi, c.text])
                continue
            raise ExtractError(f"chunk with an unknown prefix in a probe rendering: {c!r}")
        return out


def _title_info(table):
    """[(column name, title_lines of its field)] of the columns a FRESH table shows, taken before anything is rendered
    (public attributes: table.fmt.repr_structure.columns[i].name / .field.title_lines) -- 'the fields as they were made'
    of the title model (Titles.v); None when the format object does not have this shape"""
    from numbers import Number
    try:
        out = []
        for c in table.fmt.repr_structure.columns:
            lines = []
            for it in c.field.title_lines:
                if isinstance(it, str):
                    lines.append(["s", it])
                elif it is True or it is False or it is None:
                    lines.append(["o", "keyword", 1, str(it)])
                elif isinstance(it, Number):
                    lines.append(["o", "number", 1, str(it)])
                else:
                    lines.append(["o", "text", 0, str(it)])
            out.append([c.name, lines])
        return out
    except Exception:  # noqa
        return None


def _title_block(prog, tinfo, has_header):
    """locate the title block in the probe's program of a table (between the first border line, the header line if there is
    one, and the second border line) and attach what the title MODEL needs: prog["tb"] = {"t0", "t1", "cols": [[width, lines]]};
    nothing is attached when a title does not fit its column (truncation is not modelled) or the program has another shape"""
    lines = prog.get("lines") or []
    if not lines or len(lines[0]) != 1 or lines[0][0][0] != "c":
        return
    border = lines[0][0][3]
    if not re.fullmatch(r"\+(-*\+)+", border):
        return
    widths = [len(x) for x in border.split("+")[1:-1]]
    if len(widths) != len(tinfo):
        return
    t0 = 1 + (1 if has_header else 0)
    t1 = next((i for i in range(t0, len(lines)) if lines[i] == lines[0]), None)
    if t1 is None:
        return
    if any(len(it[-1]) > w or "\n" in it[-1] for w, (_n, ls) in zip(widths, tinfo) for it in ls):
        return
    prog["tb"] = {"t0": t0, "t1": t1, "cols": [[w, ls] for w, (_n, ls) in zip(widths, tinfo)]}


def _c_titem(it):
    if it[0] == "s":
        return f"TStr {SX.cstr(it[1])}"
    return f"TObj acc_{it[1]} {SX.cbool(bool(it[2]))} {SX.cstr(it[3])}"


def _jv(v, sortkey):
    """json-like value -> the layout model's jv (Layout.v): ["s", text] | ["k", 0/1/2] | ["n", str(number)] | ["ed"] | ["el"] |
    ["d", [[is_str, key text]], [values]] (keys in the implementation's printing order) | ["l", [values]];
    None = a value the layout model does not cover (the probe's program is used then)"""
    from numbers import Number
    if isinstance(v, str):
        return ["s", v]
    for i, kw in enumerate((True, False, None)):
        if v is kw:
            return ["k", i]
    if isinstance(v, dict):
        if not v:
            return ["ed"]
        keys = sorted(v.keys(), key=sortkey)
        vals = [_jv(v[k], sortkey) for k in keys]
        if any(x is None for x in vals):
            return None
        return ["d", [[isinstance(k, str), k if isinstance(k, str) else str(k)] for k in keys], vals]
    if isinstance(v, list):
        if not v:
            return ["el"]
        vals = [_jv(x, sortkey) for x in v]
        if any(x is None for x in vals):
            return None
        return ["l", vals]
    if isinstance(v, Number) and not isinstance(v, bool):
        return ["n", str(v)]
    return None


def _c_jv(j):
    k = j[0]
    if k == "s":
        return f"JStr {SX.cstr(j[1])}"
    if k == "k":
        return f"JKw {j[1]}"
    if k == "n":
        return f"JNum {SX.cstr(j[1])}"
    if k == "ed":
        return "JEmptyD"
    if k == "el":
        return "JEmptyL"
    if k == "d":
        ks = SX.clist(f"{'KStr' if is_str else 'KRaw'} {SX.cstr(t)}" for is_str, t in j[1])
        return f"JD {ks} {SX.clist('(' + _c_jv(x) + ')' for x in j[2])}"
    return f"JL {SX.clist('(' + _c_jv(x) + ')' for x in j[1])}"


def _measures(r, kind):
    """what a user can measure on a result object besides printing it: len(), plain_text(), fixed_len (cut and
    padded), format with a width, a slice -- all defined on VISIBLE characters"""
    if kind == "rec":
        r = r.ch_text()
    n = len(r)
    return [str(n), r.plain_text(), str(r.fixed_len(max(n - 3, 0))), str(r.fixed_len(n + 3)) + "|", format(r, ">%d" % (n + 2)),
            format(r, "_^%d" % (n + 5)), str(r[1:-1]), str(r[-4:])]


_FL_STRICT = []


def _fixed_len_strict():
    """the exact-length case of result.fixed_len() is part of consumption mode 4 when KNOWN_FINDINGS.json lists the signature
    fixed-len-returns-self for C10 (open: reported as KNOWN-FINDING; fixed: a regression is a violation) or VERIF_C10_FIXED_LEN=1"""
    if not _FL_STRICT:
        on = os.environ.get("VERIF_C10_FIXED_LEN") == "1"
        try:
            import json
            kf = json.load(open(os.path.join(os.path.dirname(os.path.dirname(os.path.dirname(os.path.abspath(__file__)))), "KNOWN_FINDINGS.json")))
            on = on or any(e.get("property") == "C10" and e.get("signature") == "fixed-len-returns-self" for e in kf.get("findings", []))
        except Exception:  # noqa
            pass
        _FL_STRICT.append(on)
    return _FL_STRICT[0]


def _consume(r, mode, kind):
    from ak.color import CHText
    if kind == "rec":
        return [str(r)]

    def by_line():
        return "\n".join(str(CHText(l)) for l in r)
    if mode == 4:
        # the result is USED as a text before it is printed: what these operations return belongs to the user, who goes on
        # writing to it; the result must still print what it printed (aliasing of returned mutable objects)
        t = r.get_ch_text()
        t += " <t>"
        u = r + " <u>"
        u += "!"
        v = "<v> " + r
        v += "!"
        x = r
        x += " <x>"         # CHTextResult.__iadd__ hands out a new CHText
        x += "!"
        f = r.fixed_len(len(r) + 2)
        f += "#"
        f = r.fixed_len(max(len(r) - 1, 0))
        f += "#"
        sl = r[0:2]
        sl += "#"
        if _fixed_len_strict():
            # candidate finding fixed-len-returns-self (see the notes): CHText.fixed_len(n) returns SELF when n == len, so
            # result.fixed_len(len(result)) hands out the result's memoised text; only exercised once the finding is registered
            e = r.fixed_len(len(r))
            e += "#"
        return [str(r), by_line()]
    if mode == 0:
        return [str(r)]
    if mode == 1:
        return [by_line()]
    if mode == 2:
        a = by_line()
        return [a, str(r)]
    a = str(r)
    return [a, by_line()]


def _content_tracker(case):
    """pure bookkeeping: for every op index, the content (nocolor, items in order) of each configuration and
    which one is global.  content = [nocolor, [dict, dict, ...]]"""
    confs = {}
    glob = None          # None | cid | "dflt"
    per_op = []
    hctor = {}
    hmade = {}
    for op in case["ops"]:
        k = op[0]
        if k == "newconf":
            confs[op[1]] = [op[2], [dict(op[3])]]
        elif k == "reg":
            confs[op[1]] = [confs[op[1]][0], confs[op[1]][1] + [dict(op[2])]]
        elif k == "setglobal":
            glob = op[1] if op[1] is not None else "dflt"
        snap = {"glob": (confs[glob] if glob not in (None, "dflt") else [False, [{}]])}
        if k in ("next", "whole"):
            snap["conf"] = hmade[op[1]]
        if k == "make":
            # r = obj.ch_text(...): ["make", h, obj, conf, no_color, palette arg] -- the palette is selected now
            op = ["render", op[2], op[3], op[4], op[5], 0]
            k = "render"
            made = True
        else:
            made = False
        if k == "render":
            pa = op[4]
            if isinstance(pa, list):
                snap["conf"] = confs[pa[1]]
            elif pa == "synced" or op[2] is None:
                snap["conf"] = snap["glob"]
                if glob is None:
                    glob = "dflt"
            else:
                snap["conf"] = confs[op[2]]
            if op[3] and glob is None and (isinstance(pa, list) or pa == "synced"):
                glob = "dflt"
            if made:
                hmade[case["ops"][len(per_op)][1]] = snap["conf"]
        elif k == "newh":
            if glob is None:
                glob = "dflt"
            hctor[op[1]] = snap["glob"]
            snap["conf"] = snap["glob"]
        elif k == "help":
            snap["conf"] = snap["glob"]
            snap["ctor"] = hctor[op[1]]
        per_op.append(snap)
    return per_op


def _mk_conf(content):
    from ak.color import ColorsConfig
    nocolor, dicts = content
    c = ColorsConfig(dict(dicts[0]), no_color=nocolor)
    for d in dicts[1:]:
        c.add_new_items(dict(d), "test")
    return c


def _hlevel(case, h):
    for op in case["ops"]:
        if op[0] == "newh" and op[1] == h:
            return op[2]
    return 1


def _reference(case, i, op, snap, ex, klasses):
    """fresh objects, fresh configuration with the content in force at op i, pristine global state"""
    from ak import color
    from ak.hdoc import HCommand
    _reset_globals()
    w = _World(case, upto=i)
    out = {}
    if op[0] == "render":
        kind, K, call = w.objs[op[1]]
        conf = _mk_conf(snap["conf"])
        out["ref"] = _consume(call(colors_conf=conf, no_color=op[3]), 0, kind)[0]
        _reset_globals()
        w = _World(case, upto=i)
        kind, K, call = w.objs[op[1]]
        out["ref_nc"] = _consume(call(colors_conf=_mk_conf(snap["conf"]), no_color=True), 0, kind)[0]
        try:
            out["ref_m"] = _measures(call(colors_conf=_mk_conf(snap["conf"]), no_color=op[3]), kind)
            out["ref_nc_m"] = _measures(call(colors_conf=_mk_conf(snap["conf"]), no_color=True), kind)
        except Exception as e:  # noqa
            out["ref_m"], out["ref_nc_m"] = ["raises " + SX.exc_name(e)], []
    else:
        level = _hlevel(case, op[1])
        tg = _htarget(op)
        color.set_global_colors_config(_mk_conf(snap["conf"]))
        obj = w.objs[op[2]][2].get(tg)
        out["ref"] = HCommand(level)._make_help_text(obj)
        _reset_globals()
        w = _World(case, upto=i)
        color.set_global_colors_config(_mk_conf(snap["ctor"]))
        out["ref_ctor"] = HCommand(level)._make_help_text(w.objs[op[2]][2].get(tg))
        _reset_globals()
        w = _World(case, upto=i)
        color.set_global_colors_config(color.ColorsConfig(no_color=True))
        out["ref_nc"] = HCommand(level)._make_help_text(w.objs[op[2]][2].get(tg))
    return out


def _safe_reference(case, i, op, snap, ex, klasses):
    try:
        return _reference(case, i, op, snap, ex, klasses)
    except Exception as e:  # noqa  the fresh-state rendering itself raises
        return {"ref_err": SX.exc_name(e)}


def _run_history(case, w, klasses, log):
    """-> per-op records; raises nothing from the implementation (exceptions are recorded)"""
    import gc
    from ak import color
    from ak.hdoc import HCommand
    confs = {}
    hcmds = {}
    results = {}        # lazy results (CHTextResult) and their iterators live until the end of the history
    iters = {}
    made = {}
    canon = {}
    recs = []
    for op in case["ops"]:
        k = op[0]
        del log[:]
        rec = {}
        try:
            if k in STRUCT_OPS:
                w.apply(op)
            elif k == "newconf":
                d = dict(op[3])
                w.track(f"the dict passed to ColorsConfig() by op {len(recs)}", d)
                confs[op[1]] = color.ColorsConfig(d, no_color=op[2])
            elif k == "drop":
                del confs[op[1]]
            elif k == "reg":
                d = dict(op[2])
                w.track(f"the dict passed to add_new_items() by op {len(recs)}", d)
                confs[op[1]].add_new_items(d, "test")
            elif k == "setglobal":
                color.set_global_colors_config(confs[op[1]] if op[1] is not None else None)
            elif k == "render":
                kind, K, call = w.objs[op[1]]
                pa = op[4]
                if isinstance(pa, list):
                    kw = {"palette": K(colors_conf=confs[pa[1]]), "no_color": op[3]}
                elif pa == "synced":
                    kw = {"palette": K(synced=True), "no_color": op[3]}
                else:
                    kw = {"colors_conf": confs[op[2]] if op[2] is not None else None, "no_color": op[3]}
                r = call(**kw)
                del kw
                rec["out"] = _consume(r, op[5], kind)
                del r
            elif k == "newh":
                hcmds[op[1]] = HCommand(op[2])
            elif k == "help":
                rec["out"] = [hcmds[op[1]]._make_help_text(w.objs[op[2]][2].get(_htarget(op)))]
            elif k == "make":
                kind, K, call = w.objs[op[2]]
                pa = op[5]
                if isinstance(pa, list):
                    kw = {"palette": K(colors_conf=confs[pa[1]]), "no_color": op[4]}
                else:
                    kw = {"colors_conf": confs[op[3]] if op[3] is not None else None, "no_color": op[4]}
                results[op[1]] = call(**kw)
                del kw
            elif k == "next":
                # up to op[2] steps of THE iterator of result op[1] (created at its first step); one text and one
                # list of palette identities per step
                from ak.color import CHText
                if op[1] not in iters:
                    iters[op[1]] = iter(results[op[1]])
                rec["out"], rec["lids"] = [], []
                for _ in range(op[2]):
                    del log[:]
                    try:
                        l = next(iters[op[1]])
                    except StopIteration:
                        rec["end"] = 1
                        rec["tail_ids"] = len(log)
                        break
                    rec["out"].append(str(CHText(l)))
                    rec["lids"].append([canon.setdefault(raw, len(canon) + 1) for raw in log])
                    del l
                del log[:]
            elif k == "whole":
                kind = w.objs[made[op[1]]][0]
                rec["out"] = _consume(results[op[1]], op[2], kind)
            if k == "make":
                made[op[1]] = op[2]
        except Exception as e:  # noqa
            rec["err"] = SX.exc_name(e)
        ids = []
        for raw in log:
            ids.append(canon.setdefault(raw, len(canon) + 1))
        rec["ids"] = ids
        # the caller's objects: whatever was handed to the library (records, field lists, title dicts, RecordField and format
        # objects, enum dicts, values, notes objects ...) must be what it was -- a table's own format string may change only
        # through an operation on that very table
        if w.tracked:
            acted = {"render": 1, "make": 2, "help": 2, "build": 1, "tset": 1, "trm": 1}.get(k)
            acted = op[acted] if acted is not None else (made.get(op[1]) if k in ("next", "whole") else None)
            after = w.snapshot()
            mod = []
            for name, owner, _o, _v in w.tracked:
                if w.base[name] != after[name] and not (owner is not None and owner == acted):
                    mod.append([name, w.base[name][:400], after[name][:400]])
            if mod:
                rec["mod"] = mod
            w.base = after
        recs.append(rec)
        gc.collect()
    return recs


def impl_run(case):
    import gc
    from ak import color
    repo = os.environ.get("VERIF_REPO", "/repo")
    try:
        ex = extract(repo, strict=False)
        klasses = _classes(ex)
        _check_table(ex, klasses)
        extract_error = None
    except ExtractError as e:
        # the palette class table of the source is not recognised: no probe, no model comparison (the proof
        # step fails closed on the same error); the history is still run for the oracle
        ex, klasses, extract_error = None, None, str(e)
    _reset_globals()
    # 1. probe
    if ex is not None:
        probe = _Probe(case, ex, klasses)
        progs = []
        progs_e = {}
        targets = {}
        for op in case["ops"]:
            if op[0] == "help" and _htarget(op):
                ts = targets.setdefault(op[2], [])
                if _htarget(op) not in ts:
                    ts.append(_htarget(op))
        # programs of the objects as a FRESH process would print them: at epoch 0 (no structural operation yet) and at
        # every later epoch in which the object is rendered
        eps = _epochs(case)
        need = [(oi, 0) for oi in range(len(case["objs"]))]
        for op, ep in zip(case["ops"], eps):
            oi = {"render": 1, "make": 2, "help": 2}.get(op[0])
            if oi is not None and ep and (op[oi], ep) not in need:
                need.append((op[oi], ep))
        for oi, ep in need:
            upto = 0 if ep == 0 else eps.index(ep)
            prog = None
            try:
                pw = _World(case, probe, upto=upto)        # fresh field types for every probe
                if pw.objs[oi] is not None:                 # (a late object does not exist at epoch 0)
                    tinfo = _title_info(pw.tables.get(oi)) if case["objs"][oi]["k"] == "table" else None
                    prog = probe.program(pw.objs[oi], targets.get(oi, ()))
                    if tinfo is not None:
                        _title_block(prog, tinfo, bool(case["objs"][oi].get("header")))
            except ExtractError as e:
                # the object prints something that does not come from its palette (e.g. a hard-coded colour):
                # no chunk program, the case is outside the model; the oracle still sees the history
                probe.oom = "probe: " + str(e)[:200]
            except Exception as e:  # noqa  the implementation raised under the instrumented palette
                probe.oom = "probe raised " + SX.exc_name(e)
            if ep == 0:
                progs.append(prog)
            else:
                progs_e[f"{oi}:{ep}"] = prog
        ftdefs = [[[li, probe.lits[i].keys[li], {str(mi): d[mi][0] for mi in d}] for li, d in sorted(fd.items())] for i, fd in enumerate(probe.ftdefs)]
        pw = None
        if probe.oom is None and any(o.get("gft") for o in case["objs"]):
            # FieldType.get_cell_text_len (base class) builds the cell with PALETTE_CLASS(no_color=True): a palette requested
            # through the GLOBAL configuration in the middle of the width detection -- the model has no such step
            probe.oom = "plain FieldType() column: width detection requests a no_color palette through the global configuration"
        oom, aliased = probe.oom, probe.aliased
    else:
        progs, progs_e, ftdefs, oom, aliased = None, None, None, "extractor: " + extract_error, False
    # 1b. pretty-printer values for the layout model (str() of numbers and the key order are oracle values)
    jvs = []
    for spec in case["objs"]:
        j = None
        if spec["k"] == "json":
            try:
                from ak.ppobj import PrettyPrinter
                j = _jv(_unfix(spec["v"]), PrettyPrinter._mk_type_sort_value)
            except Exception:  # noqa  e.g. keys the implementation cannot order: the rendering itself will raise
                j = None
        jvs.append(j)
    # 2. the history, with palette creations logged
    log = []
    orig_init = color.Palette.__init__

    def init(self, *a, **kw):
        orig_init(self, *a, **kw)
        log.append(id(self))
    snaps = _content_tracker(case)
    attempts = 0
    _CASE_SERIAL[0] += 1
    fresh = bool(case.get("fp")) and not case.get("hunt")

    def reference(i, op):
        if not fresh:
            return _safe_reference(case, i, op, snaps[i], ex, klasses)
        # the rendering of a FRESH PROCESS started under the environment in force at operation i ...
        env = _env_at(case, i)
        r = _fresh_reference(case, i, op, snaps[i], env)
        tz_only = ({"TZ": env["TZ"]} if "TZ" in env else None) if env else None
        if env != tz_only and "ref" in r:
            # ... which no variable except TZ (local time in the git history report) may influence
            r2 = _fresh_reference(case, i, op, snaps[i], tz_only)
            r["ref_envfree"] = r2.get("ref", "raises " + str(r2.get("ref_err")))
        return r
    try:
        type.__setattr__(color.Palette, "__init__", init)
        if case.get("hunt"):
            # reference first, then repeat the pattern until some text differs from it
            refs = [(_safe_reference(case, i, op, snaps[i], ex, klasses) if op[0] in ("render", "help") else None) for i, op in enumerate(case["ops"])]
            _reset_globals()
            w = _World(case, track=True)
            recs = None
            for attempts in range(1, int(case["hunt"]) + 1):
                recs = _run_history(case, w, klasses, log)
                if any(r is not None and "ref" in r and "out" in rec and any(o != r["ref"] for o in rec["out"]) for rec, r in zip(recs, refs)):
                    break
        else:
            _reset_globals()
            w = _World(case, track=True)
            recs = _run_history(case, w, klasses, log)
            refs = None
    finally:
        type.__setattr__(color.Palette, "__init__", orig_init)
        if _has_env(case):
            _set_env(None)
    del w
    gc.collect()
    # 3. references in pristine state
    if refs is None:
        try:
            refs = [(reference(i, op) if op[0] in ("render", "help") and "out" in recs[i] else None) for i, op in enumerate(case["ops"])]
            for i, op in enumerate(case["ops"]):
                if op[0] == "make" and "err" not in recs[i]:
                    # what the result must print, whenever and however it is consumed
                    refs[i] = reference(i, ["render", op[2], op[3], op[4], op[5], 0])
        except BaseException:
            _fresh_close(True)      # (a time-out while waiting for a reference process: never read its answer later)
            raise
        finally:
            _fresh_close()
            if _has_env(case):
                _set_env(None)
    _reset_globals()
    for rec, r in zip(recs, refs):
        if r:
            rec.update(r)
    return {"progs": progs, "progs_e": progs_e, "ftdefs": ftdefs, "ops": recs, "oom": oom, "aliased": aliased, "attempts": attempts, "jvs": jvs}


# ====================================================================== model side
def in_model(case, obs):
    if "__hang__" in obs or case.get("hunt") or obs.get("oom"):
        return False
    return not any("err" in r for r in obs["ops"])


def _c_item(it):
    if it[0] == "p":
        return f"IPlain {SX.cstr(it[1])}"
    if it[0] == "c":
        return f"IChunk {SX.copt(it[1], SX.cZ)} {it[2]} {SX.cstr(it[3])}"
    return f"IEnum {it[1]} enum_cls {it[2]} {it[3]} {it[4]}"


def _c_lines(lines):
    return SX.clist(SX.clist(_c_item(it) for it in l) if l else "(@nil item)" for l in lines) if lines else "(@nil (list item))"


def _c_obj(prog, level=None, target=None):
    if "levels" in prog:
        lines = (prog["tl"][_tkey(target)] if target else prog["levels"])[level - 1]
    else:
        lines = prog["lines"]
    return f"(mkObj {prog['cls']} {SX.cZlist(prog['subs'])} {_c_lines(lines)})"


def _prog(obs, oi, ep=0):
    """chunk program of object oi as a fresh process prints it after the structural operations of epoch ep"""
    if ep:
        return (obs.get("progs_e") or {}).get(f"{oi}:{ep}")
    return obs["progs"][oi] if obs.get("progs") is not None else None


class _Synt:
    def __init__(self, ex):
        self.m = {s: i for i, s in enumerate(ex["synts"])}

    def __call__(self, name):
        if name not in self.m:
            self.m[name] = 1000 + len(self.m)
        return self.m[name]


def _handle_obj(case, obs, oi, first, n=None, ep=0):
    """Coq objspec of lines [first, first+n) (n None: all) of object oi, with the sub-palettes first requested
    while those lines are produced"""
    j = (obs.get("jvs") or [None] * len(case["objs"]))[oi]
    if j is not None:
        full = f"(pp_obj {SX.cbool(case['objs'][oi]['fj'])} ({_c_jv(j)}))"
        if n is None:
            return full
        return f"(mkObj pp_cls (@nil Z) (firstn {n} (skipn {first} (o_lines {full}))))"
    prog = _prog(obs, oi, ep)
    if n is None and prog.get("tb"):
        # a table: the title block is COMPUTED by the title model (Titles.v) from the fields as they were made and the columns
        # the table shows in this epoch; border / header before it and records / footer after it come from the probe
        tb = prog["tb"]
        cols = SX.clist(f"({w}%nat, {SX.clist(_c_titem(it) for it in ls) if ls else '(@nil titem)'})" for w, ls in tb["cols"])
        return (f"(mkObj {prog['cls']} {SX.cZlist(prog['subs'])} ({_c_lines(prog['lines'][:tb['t0']])} ++ title_lines {cols} ++ "
                f"{_c_lines(prog['lines'][tb['t1']:])}))")
    if n is None:
        return _c_obj(prog)
    marks = prog["marks"]
    lo = marks[first - 1] if first > 0 else 0
    hi = marks[first + n - 1]
    return f"(mkObj {prog['cls']} {SX.cZlist(prog['subs'][lo:hi])} {_c_lines(prog['lines'][first:first + n])})"


def _model_ops(case, obs):
    """-> [(Coq op term, [texts the implementation printed])]: one model operation per history operation, except
    that a "next" operation of k steps becomes k ONext operations"""
    from harness.lib import implrun
    ex = extract(implrun.REPO, strict=False)
    sid = _Synt(ex)
    hlevel = {}
    made = {}
    pos = {}
    out = []
    for op, rec, ep in zip(case["ops"], obs["ops"], _epochs(case)):
        k = op[0]
        ids = SX.cZlist(rec.get("ids", []))
        texts = rec.get("out", [])
        if k == "newconf":
            out.append((f"ONewConf {op[1]} {SX.cbool(op[2])} {c_items(op[3], sid)}", texts))
        elif k == "drop":
            out.append((f"ODrop {op[1]}", texts))
        elif k == "reg":
            out.append((f"ORegister {op[1]} {c_items(op[2], sid)}", texts))
        elif k == "setglobal":
            out.append((f"OSetGlobal {SX.copt(op[1], SX.cZ)}", texts))
        elif k == "render":
            pa = op[4]
            cpa = f"(PObj {pa[1]})" if isinstance(pa, list) else {"none": "PNone", "synced": "PSynced"}[pa]
            copt = None if (isinstance(pa, list) or pa == "synced") else op[2]
            out.append((f"ORender {_handle_obj(case, obs, op[1], 0, None, ep)} {SX.copt(copt, SX.cZ)} {SX.cbool(op[3])} {cpa} {min(op[5], 3)} {ids}", texts))
        elif k == "newh":
            # HCommand(level) does nothing to the world (the palette is looked up when help is printed): no model operation.
            # Should the constructor create a palette after all, the model is made to disagree (one text against none)
            hlevel[op[1]] = op[2]
            if rec.get("ids"):
                out.append((f"ORender (mkObj hcmd_cls (@nil Z) (@nil (list item))) None false PNone 1 {ids}", texts))
        elif k == "help":
            # h(obj): PALETTE_CLASS(None, None) = the palette of the global configuration NOW, lines joined with "\n"
            out.append((f"ORender {_c_obj(_prog(obs, op[2], ep), hlevel[op[1]], _htarget(op))} None false PNone 1 {ids}", texts))
        elif k == "make":
            made[op[1]] = (op[2], ep)
            pos[op[1]] = 0
            pa = op[5]
            cpa = f"(PObj {pa[1]})" if isinstance(pa, list) else "PNone"
            copt = None if isinstance(pa, list) else op[3]
            prog = _prog(obs, op[2], ep)
            out.append((f"OMake {100 + op[1]} {prog['cls']} {SX.copt(copt, SX.cZ)} {SX.cbool(op[4])} {cpa} {ids}", texts))
        elif k == "next":
            for t, lids in zip(texts, rec.get("lids", [])):
                out.append((f"ONext {100 + op[1]} {_handle_obj(case, obs, made[op[1]][0], pos[op[1]], 1, made[op[1]][1])} {SX.cZlist(lids)}", [t]))
                pos[op[1]] += 1
        elif k == "whole":
            out.append((f"OWholeH {100 + op[1]} {_handle_obj(case, obs, made[op[1]][0], 0, None, made[op[1]][1])} {min(op[2], 3)} {ids}", texts))
        # structural operations (build / set_fmt / remove_columns) render nothing and do nothing to the colours world: no model
        # operation; what they change is WHICH program a fresh process prints (the programs of the later epochs)
    return out


def coq_case(case, obs):
    fts = []
    for i, fd in enumerate(obs["ftdefs"]):
        rows = []
        for li, vk, d in fd:
            mods = SX.clist(f"({mi}, {SX.clist(f'({a}, {SX.cstr(t)})' for a, t in d[str(mi)]) if d[str(mi)] else '(@nil (Z * list (Z * list Z)))'})" for mi in (0, 1, 2))
            rows.append(f"({li}, {mods})")
        fts.append(f"({i}, {SX.clist(rows) if rows else '(@nil (Z * list (Z * list (Z * list Z))))'})")
    ops = [t for t, _ in _model_ops(case, obs)]
    return f"Case {SX.clist(fts) if fts else '(@nil (Z * list (Z * list (Z * list (Z * list Z)))))'} {SX.clist(ops) if ops else '(@nil op)'}"


def _hash_text(t):
    h = 7
    for ch in t:
        h = (h * 1000003 + ord(ch) + 1) & 2305843009213693951
    return [len(t), h]


def expected_sx(case, obs):
    return SX.dumps(SX.ok([[_hash_text(t) for t in texts] for _, texts in _model_ops(case, obs)]))


# ====================================================================== oracle (the statement, independently of the model)
def _colour_map(text):
    """-> (plain text, active SGR sequence per plain character)"""
    plain = []
    cols = []
    cur = ""
    pos = 0
    for m in SEQ_RE.finditer(text):
        for ch in text[pos:m.start()]:
            plain.append(ch)
            cols.append(cur)
        cur = "" if m.group(0) == "\x1b[0m" else m.group(0)
        pos = m.end()
    for ch in text[pos:]:
        plain.append(ch)
        cols.append(cur)
    return "".join(plain), cols


def _enum_ranges(prog):
    """plain-text character ranges of enum cells in the whole text of a table / record program"""
    out = []
    pos = 0
    for li, line in enumerate(prog.get("lines", [])):
        if li:
            pos += 1
        for it in line:
            t = it[-1] if it[0] != "c" else it[3]
            if it[0] == "e":
                out.append((pos, pos + len(t)))
            pos += len(t)
    return out


def _dangling_package_parent(content):
    """the configuration (user content) refers, as a parent, to a syntax id that only comes into existence when
    a palette class registers its SYNTAX_DEFAULTS"""
    from harness.lib import implrun
    try:
        ex = extract(implrun.REPO, strict=False)
    except ExtractError:
        return False
    defaults = {s for c in ex["classes"] for s in (c["defaults"] or {})}
    have = set(ex["builtin"])
    for d in content[1]:
        have |= set(d)
    for d in content[1]:
        for v in d.values():
            try:
                p = parse_descr(v)[0]
            except ExtractError:
                continue
            if p is not None and p not in have and p in defaults:
                return True
    return False


def _classify(case, obs, snaps, i, oi, t, ref):
    """signature of 'text t of object oi (operation i) differs from the fresh reference'"""
    sig = "history-dependent"
    prog = _prog(obs, oi, _epochs(case)[i]) if oi is not None else None
    if prog is not None:
        has_enum = any(it[0] == "e" for l in prog.get("lines", []) for it in l)
        if _dangling_package_parent(snaps[i]["conf"]):
            sig = "late-registered-parent"
        elif has_enum and obs.get("aliased"):
            sig = "enum-cache-equal-keys"
        elif has_enum:
            p1, c1 = _colour_map(t)
            p2, c2 = _colour_map(ref)
            if p1 == p2:
                rng_ = _enum_ranges(prog)
                diff = [j for j in range(len(c1)) if c1[j] != c2[j]]
                if diff and all(any(a <= j < b for a, b in rng_) for j in diff):
                    sig = "enum-cache-id-reuse"
    return sig


def oracle(case, obs):
    if "__hang__" in obs:
        return [("hang", "the history did not finish")]
    out = []
    snaps = _content_tracker(case)
    made = {}       # handle -> (index of its make op, record of the make op)
    hlines = {}     # handle -> texts of the lines its iterator yielded so far
    for i, (op, rec) in enumerate(zip(case["ops"], obs["ops"])):
        where = f"op {i} {op[:3]}"
        for name, b, a in rec.get("mod", []):
            # output has no memory -- and the memory must not sit in the caller's objects either: whatever was handed to the
            # library is read, never written (an in-place += / extend / sort on it shows in every later rendering that uses it)
            out.append(("caller-object-modified", f"{where}: {name} was changed by the operation: {b} -> {a}"))
        if "err" in rec:
            out.append(("render-raises", f"{where} raised {rec['err']}"))
            continue
        if op[0] == "make":
            made[op[1]] = (i, rec)
            hlines[op[1]] = []
        if op[0] in ("next", "whole"):
            # a lazy result consumed later / step by step / interleaved with others: every text must be what a fresh
            # copy of the object prints under the configuration in force when the result was created
            mi, mrec = made.get(op[1], (None, None))
            if mrec is None or "ref" not in mrec:
                continue
            mop = case["ops"][mi]
            ref = mrec["ref"]
            for t in rec.get("out", []):
                if mop[4] and ESC in t:
                    out.append(("esc-in-no-color", f"{where}: a no_color result (created by op {mi}) yields an escape character: {t!r}"))
            if op[0] == "whole":
                texts = rec["out"]
                fl = op[2] == 4 and len(texts) == 2 and texts[0] == ref + "#" and texts[1] == ref
                if len(texts) == 2 and texts[0] != texts[1] and not fl:
                    out.append(("whole-ne-lines", f"{where}: consuming the result by line and whole gives different texts: {texts[0]!r} vs {texts[1]!r}"))
                for t in texts:
                    if t != ref:
                        out.append(("fixed-len-returns-self" if fl else _classify(case, obs, snaps, mi, mop[2], t, ref),
                                    f"{where}: the result created by op {mi} prints {t!r}; a fresh copy under a fresh configuration with the same content prints {ref!r}"))
                        break
            else:
                n0 = len(hlines[op[1]])
                hlines[op[1]] += rec.get("out", [])
                want = ref.split("\n")
                got = hlines[op[1]]
                if got[n0:] != want[n0:len(got)]:
                    k = next(x for x in range(n0, len(got)) if x >= len(want) or got[x] != want[x])
                    out.append((_classify(case, obs, snaps, mi, mop[2], got[k], want[k] if k < len(want) else ""),
                                f"{where}: line {k} of the result created by op {mi}, consumed step by step, is {got[k]!r}; a fresh copy "
                                f"under a fresh configuration with the same content prints {(want[k] if k < len(want) else None)!r} there"))
                if rec.get("end") and len(got) != len(want):
                    out.append(("whole-ne-lines", f"{where}: the iterator of the result created by op {mi} ended after {len(got)} lines, the whole text has {len(want)}"))
            continue
        if op[0] != "make" and "out" not in rec:
            continue
        if "ref_err" in rec:
            out.append(("render-raises", f"{where}: rendering a fresh copy under a fresh configuration raised {rec['ref_err']}"))
            continue
        if "ref" not in rec:
            continue
        ref, ref_nc = rec["ref"], rec["ref_nc"]
        if "ref_envfree" in rec and rec["ref_envfree"] != ref:
            out.append(("environment-dependent", f"{where}: a fresh process started under the environment {_env_at(case, i)} prints {ref!r}; with every variable "
                                                 f"except TZ taken away it prints {rec['ref_envfree']!r}"))
        nocolor = op[0] == "render" and op[3]
        texts = rec.get("out", [])
        if len(texts) == 2 and texts[0] != texts[1] and not (op[0] == "render" and op[5] == 4 and texts[0] == ref + "#" and texts[1] == ref):
            out.append(("whole-ne-lines", f"{where}: consuming the result by line and whole gives different texts: {texts[0]!r} vs {texts[1]!r}"))
        if ESC in ref_nc:
            out.append(("esc-in-no-color", f"{where}: no_color rendering contains an escape character: {ref_nc!r}"))
        if SEQ_RE.sub("", ref) != ref_nc:
            out.append(("layout-differs", f"{where}: coloured rendering without escape sequences {SEQ_RE.sub('', ref)!r} is not the no_color rendering {ref_nc!r}"))
        if "ref_m" in rec and [SEQ_RE.sub("", x) for x in rec["ref_m"]] != rec["ref_nc_m"]:
            names = ["len()", "plain_text()", "fixed_len(len-3)", "fixed_len(len+3)", "format '>len+2'", "format '_^len+5'", "[1:-1]", "[-4:]"]
            bad = [nm for nm, a, b in zip(names, rec["ref_m"], rec["ref_nc_m"] + [None] * 8) if SEQ_RE.sub("", a) != b]
            out.append(("layout-differs", f"{where}: measuring the coloured result and the no_color result gives different visible texts for {bad or rec['ref_m'][:1]}"))
        for t in texts:
            if nocolor and ESC in t:
                out.append(("esc-in-no-color", f"{where}: no_color rendering contains an escape character: {t!r}"))
            if t == ref:
                continue
            # the text depends on something else than object, format and configuration in force
            if op[0] == "help" and t == rec.get("ref_ctor"):
                sig = "hdoc-captured-palette"
            elif op[0] == "render" and op[5] == 4 and t == ref + "#" and texts[-1] == ref:
                sig = "fixed-len-returns-self"
            elif op[0] == "render":
                sig = _classify(case, obs, snaps, i, op[1], t, ref)
            else:
                sig = "history-dependent"
            out.append((sig, f"{where}: text {t!r} differs from the rendering of a fresh copy under a fresh configuration with the same content {ref!r}"
                             + (f" (attempt {obs.get('attempts')})" if case.get("hunt") else "")))
            break
    return out


def nontrivial(case, obs):
    seen = {}
    for i, op in enumerate(case["ops"]):
        if op[0] == "render":
            seen.setdefault(op[1], set()).add((str(op[2]), op[3], str(op[4])))
    return any(len(v) > 1 for v in seen.values()) or bool(case.get("hunt"))


def outcome(case, obs):
    if "__hang__" in obs:
        return "hang"
    if any("err" in r for r in obs["ops"]):
        return "raises"
    return "hunt" if case.get("hunt") else ("outside-model" if obs.get("oom") else "ok")


def shrink_candidates(case):
    if case.get("hunt"):
        return
    ops = case["ops"]
    for i in range(len(ops) - 1, -1, -1):
        cand = ops[:i] + ops[i + 1:]
        if _well_formed(cand, case["objs"]):
            yield dict(case, ops=cand)


def _well_formed(ops, objs=None):
    live = set()
    hs = set()
    rs = set()
    late = {i for i, o in enumerate(objs or []) if o.get("late")}
    built = set()
    for op in ops:
        k = op[0]
        oi = {"render": 1, "make": 2, "help": 2, "tset": 1, "trm": 1}.get(k)
        if oi is not None and op[oi] in late and op[oi] not in built:
            return False
        if k == "build" and objs and objs[op[1]].get("fmt_of") in late - built:
            return False
        if k == "newconf":
            live.add(op[1])
        elif k == "drop":
            if op[1] not in live:
                return False
            live.discard(op[1])
        elif k == "reg":
            if op[1] not in live:
                return False
        elif k == "setglobal":
            if op[1] is not None and op[1] not in live:
                return False
        elif k == "render":
            pa = op[4]
            if isinstance(pa, list) and pa[1] not in live:
                return False
            if op[2] is not None and op[2] not in live:
                return False
        elif k == "newh":
            hs.add(op[1])
        elif k == "help":
            if op[1] not in hs:
                return False
        elif k == "build":
            built.add(op[1])
        elif k == "make":
            pa = op[5]
            if isinstance(pa, list) and pa[1] not in live:
                return False
            if op[3] is not None and op[3] not in live:
                return False
            rs.add(op[1])
        elif k in ("next", "whole"):
            if op[1] not in rs:
                return False
    return True


TECHNIQUE = ("Coq proofs over an executable Gallina world model with explicit object identities (heap, allocation oracle, pinned set): "
             "every model function is shown to change the world by a sequence of nine primitive moves, four cache-coherence invariants "
             "are proved once per move and hence for every history and every allocation oracle; on top of them the Render operation is "
             "given in closed form.  Per-run correspondence of whole render histories (vm_compute vs implementation, chunk programs and "
             "identities as oracle values; the layout of pretty-printer values is computed by a Gallina model of the layout code and compared "
             "at the 200 / 150 thresholds) + class table / enum cache keys (palette object; (type, text, value) of the cell value) / cache reset clause / "
             "'HCommand looks its palette up per call' regenerated from the source (the proofs need all four: source_facts) + independent "
             "fresh-state oracle on the implementation (strip(coloured) = no_color on objects AT the layout thresholds of every formatter; "
             "the reference of a rendering is a fresh process that replays only the structural operations; every argument object handed to the "
             "library is compared with its picture before the operation: the caller's objects are never modified)")
LEVEL_TEXT = ("Model level, unbounded histories / objects / allocation oracles, guards: user syntax items in the modelled colour language, "
              "no palette requested with synced=True (the former guard 'no Python-equal enum values in one field type' is gone: "
              "enum_equality_irrelevant).  "
              "FULL: caches_coherent (inv: no stale enum cell, cached palettes carry the colours of their configuration's current map, "
              "no_color palettes have no colours, prefixes are well-formed SGR), enum_cache_transparent, cache_reset_conf + cache_reset, "
              "whole_eq_lines_chunks + whole_eq_lines (whole / by line / both orders give one text), strip_layout_chunks + strip_layout "
              "(strip of ANY rendering of an object = its no_color rendering, which has no ESC; texts assumed ESC-free), "
              "no_color_closed_form + history_independent_no_color (the property's history clause for no_color, every object, against a "
              "fresh configuration), single_palette_closed_form + history_independent_single_palette (coloured renderings through one "
              "palette -- pretty-printer, git history report programs: a closed formula of the object and of the configuration's own state "
              "(no_color flag, syntax map, registered classes); caches, identities, other configurations and earlier renderings do not enter).  "
              "PRETTY-PRINTER WITH ITS LAYOUT (Layout.v models _gen_ch_chunks_for_obj: one line below 200 visible characters, long lists wrapped at "
              "150, every measure on visible text; no colour enters the layout function): pp_layout_guards (the program of ANY json-like value meets "
              "simple_obj / obj_noesc), pp_strip_layout (strip of any rendering = the no_color rendering, layout included), pp_closed_form "
              "(text = formula of value, format and configuration state), pp_layout_thresholds (the model at 192/204 and 144/156).  "
              "LAZY RESULTS (histories may create results first and consume them later, line by line, interleaved: operations OMake / ONext / "
              "OWholeH; reach and caches_coherent cover them): handle_created, handle_closed_forms (what a step / a whole consumption prints in ANY "
              "reachable world is a formula of the line and of the colours of the palette the result holds; single-palette objects), "
              "interleaved_no_color (a no_color result prints the plain text of every line and of the whole, whatever guarded operations -- other "
              "results of the same object created and consumed, renderings, registrations, drops -- happen between its creation and its "
              "consumption; every object, tables included), interleave_example.  Not a theorem: the coloured history form for compound objects "
              "(sub-palettes are requested when the lines are produced; same cold/warm caveat as below).  "
              "TABLE TITLE BLOCK (Titles.v models gen_title_lines_ch_chunks_all + the record structure a family of tables shares): title_block_height "
              "(rows = the tallest title among the VISIBLE columns), title_block_strip_layout (a table program with the model's title block meets the guard "
              "of strip_layout), title_block_no_memory (after any history of renderings / new column sets / removed columns over the tables of a family the "
              "fields are what they were when made, a table prints the block of its current columns over them, and the same block as after the history "
              "with the renderings left out), title_block_example (the shape of seeded change C10-m5); tied to the code by correspondence: every table program "
              "of every history carries the model's title block (fitting titles).  "
              "GUARDED: history_independent_compound_warm (tables / record formatters in colour: closed formula of object + configuration "
              "once every syntax id used by the object's palette classes is present and resolved in the configuration, i.e. from the second "
              "rendering on; warm_satisfiable shows a fresh configuration is cold and one rendering warms it).  "
              "PARTIAL: history_independent_compound_partial (cold case: top palette colours in closed form, enum cells transparent, every "
              "sub-palette has the colours of SOME registration-extension of the configuration in force -- which one depends on when it was "
              "first requested); all closed forms are relative to the configuration's CURRENT syntax map, which grows when palette classes "
              "register their defaults.  "
              "REPAIRED AND PROVED (the two former *_refuted theorems are replaced by positive ones at full strength): "
              "enum_equality_irrelevant (which enum values are equal under Python's == -- the key of the cell / length caches before the fix of "
              "enum-cache-equal-keys -- enters NO operation: re-labelling the classes arbitrarily changes neither texts nor world; no theorem "
              "carries the guard obj_ok any more) + enum_alias_repaired (the old witness, True after 1, now prints the fresh text); "
              "help_closed_form + help_history_independent + help_no_color_global (console help = a formula of the help program and of the "
              "state of the GLOBAL configuration in force at the call; when the HCommand was created and what was global then do not enter; "
              "under a no_color global configuration it is plain text) + help_follows_global (the old witness) -- the fix of "
              "hdoc-captured-palette; both rest on source_facts (enum_val_key_literal, help_palette_at_call read from the source, fail closed).  "
              "REFUTED on the faithful model: history_independent_statement (the full wording: equal to the rendering under a fresh "
              "configuration with the same user content) by history_independent_refuted / _statement_false = open finding late-registered-parent "
              "(no small repair: any user entry whose parent id only comes into existence when another palette class registers is resolved late -- "
              "lazy class registration is the design of ColorsConfig); "
              "id_keyed_cache_refuted shows the repaired defect enum-cache-id-reuse on the model with the cache keyed by id(palette) (the proofs need source_facts).  "
              "TESTED ONLY (correspondence + fresh-state oracle, not theorems): the layout code of tables and record formatters (column widths, "
              "padding, truncation, header / footer / service lines), the git history report and console help formatters (for them strip(colored) = "
              "no_color, no ESC in no_color, whole = lines and order independence are checked on the implementation's output -- console help also for classes whose "
              "_get_hdoc_method_notes() hook returns shared notes objects, for objects / bound methods / classes in changing order --, on objects generated "
              "AT the layout thresholds under configurations that colour every syntax id, TEXT included), len / fixed_len / format / slices of result "
              "objects and that what they return may be written to, 'the caller's objects are never modified' (pictures of every argument object before / after each "
              "operation: oracle clause caller-object-modified), re-formatting between renderings (set_fmt / remove_columns / late fmt_obj: compared with the model through "
              "the per-epoch programs), synced palettes, equality with a FRESH configuration for coloured renderings, independence from the process (state outside the objects: "
              "class attributes, module-level memos -- references rendered by fresh processes for every second history) and from the process environment (env operations "
              "between renderings: time zones with daylight saving time and report times on both sides of a switch, NO_COLOR / TERM / COLUMNS / locale variables; only TZ may "
              "show, and only as a fresh process under that TZ shows it: oracle clauses history-dependent / environment-dependent); the pretty-printer layout model is tied to the "
              "code by correspondence only (values at 200 +-3 and wrapped lists in every run).")
LEVEL_NOTE = ("Trusted: Coq kernel + vm_compute; fidelity of the hand-written world model (checked by correspondence on whole histories, not "
              "proved); the chunk programs of the objects are taken from the implementation by a probe rendering; the ast extractor "
              "(class table, enum cache keys, cache reset clause, where HCommand / LLImpl obtain their palette) and the harness.  'Every printable object' is covered by theorems only "
              "through its chunk program; the producer of the programs is modelled for the pretty-printer (Layout.v) and tested for the others.")
DESIGN_REF = "DESIGN.md section 8, C10"
