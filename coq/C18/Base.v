(* C18/Base.v -- the cell value type shared by the generated constants
   (gen/C18_Consts.v) and the model.  No proofs in this file. *)
From Coq Require Import ZArith List.
Import ListNotations.

(* strings are lists of code points *)
Notation str := (list Z).

(* value of a worksheet cell: None | str | int | bool, or any other python value (a float, a
   datetime, ...) described by what ak/xlsread.py can observe of it: the text of str(v), and the int
   it is == to (and hashes like), if any: 2.0 -> COther "2.0" (Some 2), 2.5 -> COther "2.5" None.
   Such a value is not an int (CellInt rejects it) and has no .split (CellList / CellSet reject it). *)
Inductive cval : Type :=
| CNone
| CStr (s : str)
| CInt (z : Z)
| CBool (b : bool)
| COther (txt : str) (num : option Z).
