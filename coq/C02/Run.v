(* C02/Run.v -- correspondence entry point.  A case is a user grammar (ONE productions
   dict), a list of token strings and a PROGRAM over two parser objects (the dict built
   with smart_factorization False / True): constructor calls, is_ambiguous() calls and
   parse() calls in any order, any number of times (C02/Session.v).  Printed: the
   observation of every operation of the program; per smart value the validators
   [wf_grammar] and [hyps_ok] the C02 theorems assume; and (thorough tier only) the internal
   sets and the table of the objects AS THE PROGRAM LEAVES THEM.
   Second kind of case (SessionTok, C02/SessionTok.v): the same programs on parsers that are
   built with a TOKENIZER CONFIGURATION and a skip_tokens argument (None / a collection,
   possibly empty) and are used on TEXTS: the constructor, the token sequence of a text
   (tokenizer output minus the skipped tokens) and parse(text) are C01's end-to-end model
   over the tokenizer model of C04; additionally the model's token sequence of every text
   is compared with the one the generator rendered the text from.
   Third kind (SessionAny, C02/AnyExcept.v): as SessionTok, the productions lists may hold an
   AnyTokenExcept item; the model expands it with the terminals of the case's configuration.
   Phases: several such sessions whose parsers the implementation builds from ONE productions
   dict (the same AnyTokenExcept objects) with DIFFERENT tokenizers, their operations
   interleaved; in the model the sessions are independent of each other. *)
From Coq Require Import ZArith List Bool.
From AK Require Export LLP.Build C02.Model C02.Session C02.SessionTok C02.AnyExcept.
From AK Require C01.Run.      (* hyps_ok: C01's validator of the factorization, hypothesis of ll1_reject *)
From AK Require C01.RunTok.   (* build_cfg / text_tokens / parse_text: the constructor with a tokenizer configuration, parse(text) *)
Import ListNotations.

Inductive case :=
| Session2 (ug : list (sym * list (list sym))) (terminals : list sym) (start : sym)
           (fuel : nat) (inputs : list (list (sym * list Z))) (ops : list op) (diag : bool)
  (* the same programs on parsers built with a tokenizer configuration and a skip_tokens argument, used on
     TEXTS (C02/SessionTok.v); [expected]: per text the token sequence (names, values; skipped tokens left
     out) the GENERATOR rendered the text from -- compared here with the model tokenizer's *)
| SessionTok (cfg : lexcfg) (skip : option (list sym))
             (ug : list (sym * list (list sym))) (start : sym) (fuel : nat)
             (texts : list (list Z)) (expected : list sx) (ops : list op) (diag : bool)
| SessionAny (cfg : lexcfg) (skip : option (list sym)) (ug : ugany) (start : sym) (fuel : nat)
             (texts : list (list Z)) (expected : list sx) (ops : list op)
| Phases (l : list case).

Definition sx_keyed_sets (keys : list sym) (m : setmap) : sx :=
  sx_list (fun k => SL [sx_str k; sx_list sx_str (sort_syms (sm_get m k))]) (sort_syms keys).

Definition sx_diag (p : parser) : sx :=
  let T := p_tables p in
  SL [sx_list sx_str (sort_syms (t_nulls T));
      sx_keyed_sets (gkeys (t_grammar T)) (t_first T);
      sx_keyed_sets (gkeys (t_grammar T)) (t_follow T);
      sx_list (fun c => SL [sx_str (fst (fst c)); sx_str (snd (fst c)); sx_list SZ (snd c)]) (diag_table T)].

Definition sx_diag_obj (o : option parser) : sx :=
  match o with Some p => sx_diag p | None => SL [] end.

(* the hypotheses of the theorems, evaluated on what the constructor returns *)
Definition run_validators (ug : list (sym * list (list sym))) (terminals : list sym) (start : sym)
           (smart : bool) : sx :=
  match build ug terminals smart start with
  | Err e => SL [SZ 1; SZ (err_code e)]
  | Ok p =>
      SL [SZ 0; sx_bool (wf_grammar (p_grammar p) (p_terminals p) (p_start p));
          sx_bool (C01.Run.hyps_ok ug start p)]
  end.

Definition run_validators_t (cfg : lexcfg) (skip : option (list sym)) (ug : list (sym * list (list sym)))
           (start : sym) (smart : bool) : sx :=
  match t_build cfg skip ug start smart with
  | Err e => SL [SZ 1; SZ (err_code e)]
  | Ok p =>
      SL [SZ 0; sx_bool (wf_grammar (p_grammar p) (p_terminals p) (p_start p));
          sx_bool (C01.Run.hyps_ok ug start p)]
  end.

Definition run_validators_any (cfg : lexcfg) (skip : option (list sym)) (ug : ugany)
           (start : sym) (smart : bool) : sx :=
  match t_build_any cfg skip ug start smart, expand_ug (C04.Model.cfg_terminals cfg) ug with
  | Ok p, Ok ug' =>
      SL [SZ 0; sx_bool (wf_grammar (p_grammar p) (p_terminals p) (p_start p));
          sx_bool (C01.Run.hyps_ok ug' start p)]
  | Ok _, Err e => SL [SZ 2]
  | Err e, _ => SL [SZ 1; SZ (err_code e)]
  end.

(* () when the model's token sequence of the text is the generator's, otherwise (-1 model's) *)
Fixpoint check_tokens (cfg : lexcfg) (skip : option (list sym)) (texts : list (list Z)) (expected : list sx) : list sx :=
  match texts, expected with
  | tx :: texts', e :: expected' =>
      let m := C01.RunTok.sx_tokens (t_tokens cfg skip tx) in
      (match C01.RunTok.sx_diff m e with None => SL [] | Some _ => SL [SZ (-1); m] end)
        :: check_tokens cfg skip texts' expected'
  | [], [] => []
  | _, _ => [SL [SZ (-2)]]
  end.

Fixpoint run (c : case) : sx :=
  match c with
  | Phases l => SL (map run l)
  | SessionAny cfg skip ug start fuel texts expected ops =>
      let '(bs, Wf) := session_any_w cfg skip ug start fuel texts no_objects ops in
      SL [SL (map sx_obs bs);
          run_validators_any cfg skip ug start false;
          run_validators_any cfg skip ug start true;
          SL [];
          SL (check_tokens cfg skip texts expected)]
  | SessionTok cfg skip ug start fuel texts expected ops diag =>
      let '(bs, Wf) := session_t_w cfg skip ug start fuel texts no_objects ops in
      SL [SL (map sx_obs bs);
          run_validators_t cfg skip ug start false;
          run_validators_t cfg skip ug start true;
          (if diag then SL [sx_diag_obj (w_plain Wf); sx_diag_obj (w_smart Wf)] else SL []);
          SL (check_tokens cfg skip texts expected)]
  | Session2 ug terminals start fuel inputs ops diag =>
      let '(bs, Wf) := session_w ug terminals start fuel inputs no_objects ops in
      SL [SL (map sx_obs bs);
          run_validators ug terminals start false;
          run_validators ug terminals start true;
          if diag then SL [sx_diag_obj (w_plain Wf); sx_diag_obj (w_smart Wf)] else SL []]
  end.
