(* C01/FactFuel.v -- the fuel of the modelled factorization recursion always suffices:
   factorize never answers Hang; its only failure is an assertion of the code. *)
From Coq Require Import ZArith List Bool Lia.
From AK Require Import Common.Err LLP.Base LLP.Factor C01.Basics C01.Spec C01.FactList.
Import ListNotations.
Local Open Scope nat_scope.

Definition tlen (rules : list rule) : nat := list_sum (map (fun r => length (rprod r)) rules).

Lemma tlen_nil : tlen [] = 0.
Proof. reflexivity. Qed.

Lemma tlen_cons : forall r rules, tlen (r :: rules) = length (rprod r) + tlen rules.
Proof. reflexivity. Qed.

Lemma total_len_acc : forall rules a,
  fold_left (fun a r => (a + length (rprod r))%nat) rules a = a + tlen rules.
Proof.
  induction rules as [|r rules IH]; intros a; cbn [fold_left].
  - rewrite tlen_nil. lia.
  - rewrite IH, tlen_cons. lia.
Qed.

Lemma total_len_tlen : forall rules, total_len rules = tlen rules.
Proof. intros. unfold total_len. now rewrite total_len_acc. Qed.

Lemma tlen_app : forall a b, tlen (a ++ b) = tlen a + tlen b.
Proof. intros. unfold tlen. now rewrite map_app, list_sum_app. Qed.

Lemma tlen_concat_le : forall chunks c, In c chunks -> tlen c <= tlen (concat chunks).
Proof.
  induction chunks as [|c0 chunks IH]; intros c Hin; [contradiction|].
  cbn [concat]. rewrite tlen_app. destruct Hin as [->|Hin]; [lia|]. specialize (IH c Hin). lia.
Qed.

Lemma list_sum_cons : forall x l, list_sum (x :: l) = x + list_sum l.
Proof. reflexivity. Qed.

(* removing a non-empty common prefix from a non-empty chunk makes it strictly shorter *)
Lemma tlen_suffix_rules : forall g chunk pre, chunk <> [] -> pre <> [] ->
  (forall r, In r chunk -> prefix pre (rprod r)) ->
  tlen (number_rules g (map (fun r => skipn (length pre) (rprod r)) chunk) 0) < tlen chunk.
Proof.
  intros g chunk pre Hne Hpre Hall. unfold tlen.
  rewrite <- (map_map rprod (@length sym) (number_rules _ _ _)), number_rules_prods, map_map.
  assert (Hlen : 1 <= length pre) by (destruct pre; [contradiction|cbn; lia]).
  induction chunk as [|r chunk IH]; [contradiction|].
  cbn [map]. rewrite !list_sum_cons.
  assert (Hr : length (skipn (length pre) (rprod r)) + 1 <= length (rprod r)).
  { destruct (Hall r (or_introl eq_refl)) as [t ->]. rewrite skipn_app, skipn_all, Nat.sub_diag. cbn [app skipn]. rewrite app_length. lia. }
  destruct chunk as [|r2 chunk'].
  - clear IH. cbn [map list_sum fold_right]. lia.
  - assert (IH' : list_sum (map (fun x => length (skipn (length pre) (rprod x))) (r2 :: chunk')) <
                 list_sum (map (fun r0 => length (rprod r0)) (r2 :: chunk'))).
    { apply IH; [discriminate|]. intros r0 Hr0. apply Hall. now right. }
    clear IH. revert IH'.
    generalize (list_sum (map (fun x => length (skipn (length pre) (rprod x))) (r2 :: chunk'))).
    generalize (list_sum (map (fun r0 => length (rprod r0)) (r2 :: chunk'))). intros; lia.
Qed.

Lemma fact_go_no_hang : forall rec s bound,
  (forall g rules, tlen rules < bound -> rec g rules <> Err Hang) ->
  forall chunks gid, (forall c, In c chunks -> tlen c <= bound) -> fact_go rec s chunks gid <> Err Hang.
Proof.
  intros rec s bound Hrec. induction chunks as [|chunk rest IH]; intros gid Hb; [discriminate|].
  assert (IH' : forall gid', fact_go rec s rest gid' <> Err Hang).
  { intros gid'. apply IH. intros c Hc. apply Hb. now right. }
  destruct chunk as [|r1 [|r2 l]].
  - cbn. discriminate.
  - cbn [fact_go]. specialize (IH' gid). destruct (fact_go rec s rest gid) as [[[rs0 sfxp0] ss0]|e]; cbn [bind]; [discriminate|].
    intros H. apply IH'. exact H.
  - cbn [fact_go]. destruct (lcp (map rprod (r1 :: r2 :: l))) as [|x pre'] eqn:Ep; [discriminate|].
    assert (Hlt : tlen (number_rules (suffix_name s gid) (map (fun r => skipn (length (x :: pre')) (rprod r)) (r1 :: r2 :: l)) 0) < bound).
    { eapply Nat.lt_le_trans; [|apply (Hb (r1 :: r2 :: l)); now left].
      apply tlen_suffix_rules; try discriminate. intros r Hr. rewrite <- Ep. apply lcp_prefix. now apply in_map. }
    specialize (Hrec (suffix_name s gid) _ Hlt).
    destruct (rec (suffix_name s gid) _) as [[[gr sub_p] sub_s]|e]; cbn [bind].
    + specialize (IH' (gid + 1)%Z). destruct (fact_go rec s rest (gid + 1)) as [[[rs0 sfxp0] ss0]|e]; cbn [bind]; [discriminate|].
      intros H. apply IH'. exact H.
    + intros H. apply Hrec. exact H.
Qed.

Lemma factorize_list_no_hang : forall f s rules, tlen rules < f -> factorize_list f s rules <> Err Hang.
Proof.
  induction f as [|f IH]; intros s rules Hlt; [lia|].
  rewrite factorize_list_S. apply (fact_go_no_hang (factorize_list f) s f).
  - intros g rules' H. now apply IH.
  - intros c Hc. pose proof (tlen_concat_le _ c Hc) as H. rewrite split_chunks_concat in H. lia.
Qed.

Lemma factorize_all_no_hang : forall g, factorize_all g <> Err Hang.
Proof.
  induction g as [|[s rules] rest IH]; [discriminate|].
  cbn [factorize_all].
  pose proof (factorize_list_no_hang (S (S (total_len rules))) s rules) as H.
  rewrite total_len_tlen in H. specialize (H ltac:(lia)). rewrite total_len_tlen.
  destruct (factorize_list (S (S (tlen rules))) s rules) as [[[rs sfxp] ss]|e]; cbn [bind].
  - destruct (factorize_all rest) as [[g' ss']|e]; cbn [bind]; [discriminate|]. intros H'. apply IH. exact H'.
  - intros H'. apply H. injection H' as ->. reflexivity.
Qed.

Lemma fact_go_err : forall rec s,
  (forall g rules e, rec g rules = Err e -> e = AssertErr \/ e = Hang) ->
  forall chunks gid e, fact_go rec s chunks gid = Err e -> e = AssertErr \/ e = Hang.
Proof.
  intros rec s Hrec. induction chunks as [|chunk rest IH]; intros gid e H; [discriminate|].
  destruct chunk as [|r1 [|r2 l]].
  - cbn in H. injection H as <-. now left.
  - cbn [fact_go] in H. destruct (fact_go rec s rest gid) as [[[rs0 sfxp0] ss0]|e0] eqn:E; cbn [bind] in H; [discriminate|].
    injection H as <-. eapply IH; eassumption.
  - cbn [fact_go] in H. destruct (lcp (map rprod (r1 :: r2 :: l))) as [|x pre'] eqn:Ep; [injection H as <-; now left|].
    destruct (rec (suffix_name s gid) _) as [[[gr sub_p] sub_s]|e0] eqn:Er; cbn [bind] in H.
    + destruct (fact_go rec s rest (gid + 1)) as [[[rs0 sfxp0] ss0]|e1] eqn:E; cbn [bind] in H; [discriminate|].
      injection H as <-. eapply IH; eassumption.
    + injection H as <-. eapply Hrec; eassumption.
Qed.

Lemma factorize_list_err : forall f s rules e, factorize_list f s rules = Err e -> e = AssertErr \/ e = Hang.
Proof.
  induction f as [|f IH]; intros s rules e H.
  - cbn in H. injection H as <-. now right.
  - rewrite factorize_list_S in H. eapply fact_go_err; [|exact H]. intros g rules' e' H'. eapply IH; eassumption.
Qed.

Lemma factorize_all_err : forall g e, factorize_all g = Err e -> e = AssertErr \/ e = Hang.
Proof.
  induction g as [|[s rules] rest IH]; intros e0 E; [discriminate|].
  cbn [factorize_all] in E.
  destruct (factorize_list (S (S (total_len rules))) s rules) as [[[rs sfxp] ss]|e1] eqn:E1; cbn [bind] in E.
  - destruct (factorize_all rest) as [[g' ss']|e2]; cbn [bind] in E; [discriminate|]. injection E as <-. now apply IH.
  - injection E as <-. eapply factorize_list_err; eassumption.
Qed.

(* the model of _factorize_productions fails only where the code raises AssertionError *)
Theorem factorize_err_l : forall ug terminals smart e, factorize ug terminals smart = Err e -> e = AssertErr.
Proof.
  intros ug terminals smart e H. unfold factorize in H.
  destruct (existsb has_dunder (map fst ug) || existsb (fun kv => existsb (existsb has_dunder) (snd kv)) ug); [congruence|].
  destruct (factorize_all (create_productions ug 0)) as [[g ss]|e0] eqn:E; cbn [bind] in H.
  - destruct (negb (nodup_syms (gkeys g))); [congruence|]. destruct smart; discriminate.
  - injection H as <-. destruct (factorize_all_err _ _ E) as [-> | ->]; [reflexivity|].
    exfalso. exact (factorize_all_no_hang _ E).
Qed.
