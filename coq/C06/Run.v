(* C06/Run.v -- entry point of the correspondence check. *)
From Coq Require Import ZArith List Bool.
From AK Require Export Common.Sx Common.Err C06.Model C06.Spec.
Import ListNotations.
Open Scope Z_scope.

Inductive case :=
| Report (chk : bool) (h : history)            (* chk: also evaluate the verified statement checker *)
| Session (steps : list (bool * history))       (* one long-lived ReposCollection asked for several reports while
                                                   the repository changes in between: every report must be the
                                                   report of the repository as it is at that moment (the model is a
                                                   pure function of the history, it keeps nothing between reports) *)
| SortKey (name : list Z)                       (* BranchName(name)._sort_items *)
| Cmp (a b : list Z).                           (* sign of BranchName(a).cmp(BranchName(b)) *)

Definition sx_bnum (b : bnum) : sx :=
  let '(x1, x2, x3, x4) := b in SL [SZ x1; SZ x2; SZ x3; SZ x4].

Definition sx_obuild (b : obuild) : sx :=
  SL [SZ (ob_type b); sx_bnum (ob_num b);
      SZ (match ob_commit b with Some c => Z.of_nat c | None => -1 end);
      sx_list (fun p : nat * bool => SL [sx_nat (fst p); sx_bool (snd p)]) (ob_all b);
      sx_list sx_nat (ob_listed b)].

Definition sx_obranch (b : obranch) : sx :=
  SL [sx_str (obr_name b); sx_list sx_obuild (obr_builds b)].

Definition sx_item (i : item) : sx :=
  match i with IInt n => SL [SZ 0; SZ n] | IStr s => SL [SZ 1; sx_str s] end.

Definition run_report (chk : bool) (h : history) : sx :=
  SL [sx_res (sx_list sx_obranch) (report h);
      SZ (if chk then (if acyclicb h && report_okb h (all_branches h) then 1 else 0) else 2)].

Definition run (c : case) : sx :=
  match c with
  | Report chk h => run_report chk h
  | Session steps => SL (map (fun st : bool * history => run_report (fst st) (snd st)) steps)
  | SortKey n => sx_list sx_item (mk_sort_items n)
  | Cmp a b => SZ (Z.sgn (cmp_items (mk_sort_items a) (mk_sort_items b)))
  end.
