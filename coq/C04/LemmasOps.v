(* C04/LemmasOps.v -- the span-preserving operations of the tree API: clone is the identity on
   (name, value, span); in-parse flattening of sequence elements keeps the covering invariant;
   every element picked from a tree by its depth-first index is a subtree. *)
From Coq Require Import ZArith List Bool Lia.
From AK Require Import Common.Err LLP.Base LLP.Parse gen.C04_Consts C04.Model C04.LemmasTree.
Import ListNotations.

Fixpoint clone_id_l (t : tree) : clone t = t.
Proof.
  destruct t as [n v sp|n ch sp]; cbn [clone]; [reflexivity|].
  f_equal. induction ch as [|c ch IH]; cbn [map]; [reflexivity|].
  f_equal; [apply clone_id_l|exact IH].
Qed.

Section Ops.
  Variable toks : list token.
  Variable seqs : list sym.

  Lemma flatten_covers_both :
    (forall t i j, covers toks t i j -> covers toks (flatten_seq seqs t) i j) /\
    (forall l i j, covers_list toks l i j -> covers_list toks (map (flatten_seq seqs) l) i j).
  Proof.
    apply (covers_both toks
             (fun t i j _ => covers toks (flatten_seq seqs t) i j)
             (fun l i j _ => covers_list toks (map (flatten_seq seqs) l) i j)).
    - intros n i tk E S. cbn [flatten_seq]. constructor; auto.
    - intros n ch i j C IH L. cbn [flatten_seq].
      assert (D : covers toks (Node n (map (flatten_seq seqs) ch) (node_span toks i j)) i j) by (constructor; auto).
      destruct (mem n seqs); [|exact D].
      destruct (map (flatten_seq seqs) ch) as [|a [|b [|c r]]] eqn:M; try exact D;
        (destruct a as [|na [|x [|y xs]] spa]; try exact D);
        (destruct b as [|nb tl spb]; try exact D).
      apply cl_cons_inv in IH. destruct IH as [k [A B]].
      apply cl_cons_inv in B. destruct B as [k' [B B']]. apply cl_nil_inv in B'. subst k'.
      apply cov_node_inv in A. destruct A as [A _].
      apply cl_cons_inv in A. destruct A as [k2 [A A']]. apply cl_nil_inv in A'. subst k2.
      apply cov_node_inv in B. destruct B as [B _].
      constructor; auto. econstructor; eauto.
    - intros i. cbn [map]. constructor.
    - intros t r i k j C IH C' IH'. cbn [map]. econstructor; eauto.
  Qed.

  Lemma flatten_covers_l : forall t i j, covers toks t i j -> covers toks (flatten_seq seqs t) i j.
  Proof. exact (proj1 flatten_covers_both). Qed.
End Ops.

(* the elements listed by preorder are subtrees *)
Fixpoint preorder_subtree (t : tree) : forall s, In s (preorder t) -> subtree s t.
Proof.
  destruct t as [n v sp|n ch sp]; intros s I; cbn [preorder] in I.
  - destruct I as [<-|[]]. constructor.
  - destruct I as [<-|I]; [constructor|].
    assert (H : exists c, In c ch /\ subtree s c).
    { clear n sp. induction ch as [|c0 ch IH]; cbn [flat_map] in I; [contradiction|].
      apply in_app_or in I. destruct I as [I|I].
      - exists c0. split; [left; reflexivity|apply preorder_subtree; exact I].
      - destruct (IH I) as [c [A B]]. exists c. split; [right; exact A|exact B]. }
    destruct H as [c [A B]]. eapply sub_child; eauto.
Qed.

Lemma surviving_subtree : forall t ks s, In (Some s) (surviving t ks) -> subtree s t.
Proof.
  intros t ks s I. unfold surviving in I. apply in_map_iff in I. destruct I as [i [E _]].
  apply preorder_subtree. eapply nth_error_In; eauto.
Qed.
