(* C08/LemmasProg.v -- programs: every reachable object is canonical and the
   heap of CHText objects is, object by object, the heap obtained by running the
   same program on plain lists of coloured characters (Spec.sexec). *)
From Coq Require Import ZArith List Bool Lia.
From AK Require Import Common.Sx Common.Err C08.PyStr gen.C08_Consts C08.Model C08.Spec C08.Lemmas.
Import ListNotations.
Open Scope Z_scope.

Section Sim.
Variable sfx : list Z -> list Z.
Hypothesis sfx_nil : sfx [] = [].

Definition P (t : chtext) (l : list cchar) : Prop := good sfx t /\ cchars t = l.
Definition R (st : state) (sst : sstate) : Prop :=
  vars st = svars sst /\ Forall2 P (heap st) (sheap sst).

Lemma P_empty : P empty_text [].
Proof. split; [apply empty_good|reflexivity]. Qed.

Lemma get_P h sh : Forall2 P h sh -> forall id, P (hget h id) (sget sh id).
Proof.
  induction 1 as [|t l h sh Htl _ IH]; intros id; unfold hget, sget in *.
  - destruct id; apply P_empty.
  - destruct id; cbn [nth]; [exact Htl|apply IH].
Qed.

Lemma set_P h sh : Forall2 P h sh -> forall id t l, P t l -> Forall2 P (hset h id t) (sset sh id l).
Proof.
  induction 1 as [|t0 l0 h sh Htl Hrest IH]; intros id t l Ht; [destruct id; constructor|].
  destruct id; cbn [hset sset]; constructor; auto.
Qed.

Lemma app_P h sh t l : Forall2 P h sh -> P t l -> Forall2 P (h ++ [t]) (sh ++ [l]).
Proof. intros H Ht. apply Forall2_app; [exact H|]. constructor; [exact Ht|constructor]. Qed.

Lemma len_P h sh : Forall2 P h sh -> length h = length sh.
Proof. induction 1; cbn; congruence. Qed.

Lemma P_append t l c : P t l -> wfc sfx c -> P (append_chunk t c) (l ++ ccs c).
Proof.
  intros [Hg <-] Hc. destruct (append_chunk_good sfx t c Hg Hc) as [H1 H2]. split; assumption.
Qed.

Lemma P_append_all t l o lo : P t l -> P o lo -> P (append_all t (chunks o)) (l ++ lo).
Proof.
  intros [Hg <-] [[_ Hw] <-]. destruct (append_all_good sfx (chunks o) t Hg Hw) as [H1 H2].
  split; assumption.
Qed.

(* obj += p *)
Lemma iadd_part_sim vs id p : forall h sh, Forall2 P h sh -> part_ok sfx p ->
  exists h', iadd_part vs h id p = Ok h' /\ Forall2 P h' (s_iadd_part vs sh id p).
Proof.
  induction p as [s|c|v| |x IHx r IHr]; intros h sh H Hok; cbn [iadd_part s_iadd_part].
  - eexists. split; [reflexivity|]. apply set_P; [exact H|].
    rewrite <- ccs_plain. apply P_append; [apply get_P; exact H|apply wfc_plain; exact sfx_nil].
  - eexists. split; [reflexivity|]. apply set_P; [exact H|].
    apply P_append; [apply get_P; exact H|exact Hok].
  - rewrite iadd_text_ok. cbn [bind]. eexists. split; [reflexivity|]. apply set_P; [exact H|].
    apply P_append_all; apply get_P; exact H.
  - eexists. split; [reflexivity|exact H].
  - destruct Hok as [Hx Hr]. destruct (IHx h sh H Hx) as (h1 & E1 & H1). rewrite E1. cbn [bind].
    apply IHr; assumption.
Qed.

Lemma new_from_sim vs p h sh : Forall2 P h sh -> part_ok sfx p ->
  exists h', new_from vs h p = Ok (h', length h) /\ Forall2 P h' (fst (s_new_from vs sh p)) /\
             snd (s_new_from vs sh p) = length h.
Proof.
  intros H Hok. unfold new_from, s_new_from. cbn [fst snd]. rewrite <- (len_P _ _ H).
  destruct (iadd_part_sim vs (length h) p (h ++ [empty_text]) (sh ++ [[]])) as (h' & E & H'); [|exact Hok|].
  { apply app_P; [exact H|apply P_empty]. }
  rewrite E. cbn [bind]. exists h'. auto.
Qed.

Lemma join_loop_sim vs id sep ssep items : P sep ssep -> Forall (part_ok sfx) items ->
  forall h sh first, Forall2 P h sh ->
  exists h', join_loop vs h id sep items first = Ok h' /\
             Forall2 P h' (s_join_loop vs sh id ssep items first).
Proof.
  intros Hsep. induction 1 as [|x r Hx _ IH]; intros h sh first H; cbn [join_loop s_join_loop].
  - eexists. split; [reflexivity|exact H].
  - assert (exists h1, (if first then Ok h
                        else bind (iadd_text false (hget h id) sep) (fun t => Ok (hset h id t))) = Ok h1 /\
                       Forall2 P h1 (if first then sh else sset sh id (sget sh id ++ ssep))) as (h1 & E1 & H1).
    { destruct first; [eexists; split; [reflexivity|exact H]|].
      rewrite iadd_text_ok. cbn [bind]. eexists. split; [reflexivity|].
      apply set_P; [exact H|]. apply P_append_all; [apply get_P; exact H|exact Hsep]. }
    rewrite E1. cbn [bind].
    destruct (iadd_part_sim vs id x h1 _ H1 Hx) as (h2 & E2 & H2). rewrite E2. cbn [bind].
    apply IH. exact H2.
Qed.

Lemma join_new_sim vs sep ssep items h sh : P sep ssep -> Forall (part_ok sfx) items -> Forall2 P h sh ->
  exists h', join_new vs h sep items = Ok (h', length h) /\
             Forall2 P h' (fst (s_join_new vs sh ssep items)) /\ snd (s_join_new vs sh ssep items) = length h.
Proof.
  intros Hsep Hit H. unfold join_new, s_join_new. cbn [fst snd]. rewrite <- (len_P _ _ H).
  destruct (join_loop_sim vs (length h) sep ssep items Hsep Hit (h ++ [empty_text]) (sh ++ [[]]) true)
    as (h' & E & H').
  { apply app_P; [exact H|apply P_empty]. }
  rewrite E. cbn [bind]. exists h'. auto.
Qed.

(* a statement's result relates: states related, observation reproduced *)
Definition RR (s : stmt) (r : state * sx) (sr : sstate * sx) : Prop :=
  R (fst r) (fst sr) /\ erase s (snd r) = snd sr.

Lemma finish_sim st sst h' sh' id :
  vars st = svars sst -> Forall2 P h' sh' ->
  R (fst (finish st (Ok (h', id)))) (fst (s_finish sst (Ok (sh', id)))) /\
  snd (finish st (Ok (h', id))) = snd (s_finish sst (Ok (sh', id))).
Proof.
  intros Hv H. unfold finish, s_finish, bind_var, s_bind. cbn [fst snd]. rewrite Hv.
  split; [split; [reflexivity|exact H]|reflexivity].
Qed.

Lemma finish_err_sim st sst e : R st sst ->
  R (fst (finish st (Err e))) (fst (s_finish sst (Err e))) /\
  snd (finish st (Err e)) = snd (s_finish sst (Err e)).
Proof.
  intros [Hv H]. unfold finish, s_finish, bind_err, s_err. cbn [fst snd]. rewrite Hv, (len_P _ _ H).
  split; [split; [reflexivity|apply app_P; [exact H|apply P_empty]]|reflexivity].
Qed.

Lemma alloc_sim st sst t l : R st sst -> P t l ->
  R (fst (finish st (Ok (alloc (heap st) t)))) (fst (s_finish sst (Ok (s_alloc (sheap sst) l)))) /\
  snd (finish st (Ok (alloc (heap st) t))) = snd (s_finish sst (Ok (s_alloc (sheap sst) l))).
Proof.
  intros [Hv H] Ht. unfold alloc, s_alloc. rewrite (len_P _ _ H).
  apply finish_sim; [exact Hv|apply app_P; assumption].
Qed.

Lemma new_sim st sst p : R st sst -> part_ok sfx p ->
  R (fst (finish st (new_from (vars st) (heap st) p)))
    (fst (s_finish sst (Ok (s_new_from (svars sst) (sheap sst) p)))) /\
  snd (finish st (new_from (vars st) (heap st) p)) =
  snd (s_finish sst (Ok (s_new_from (svars sst) (sheap sst) p))).
Proof.
  intros [Hv H] Hok. destruct (new_from_sim (vars st) p _ _ H Hok) as (h' & E & H' & Eid).
  rewrite E. rewrite <- Hv. destruct (s_new_from (vars st) (sheap sst) p) as [sh' sid].
  cbn [fst snd] in *. subst sid. apply finish_sim; assumption.
Qed.

Lemma join_sim st sst sep ssep items : R st sst -> P sep ssep -> Forall (part_ok sfx) items ->
  R (fst (finish st (join_new (vars st) (heap st) sep items)))
    (fst (s_finish sst (Ok (s_join_new (svars sst) (sheap sst) ssep items)))) /\
  snd (finish st (join_new (vars st) (heap st) sep items)) =
  snd (s_finish sst (Ok (s_join_new (svars sst) (sheap sst) ssep items))).
Proof.
  intros [Hv H] Hsep Hok. destruct (join_new_sim (vars st) sep ssep items _ _ Hsep Hok H) as (h' & E & H' & Eid).
  rewrite E. rewrite <- Hv. destruct (s_join_new (vars st) (sheap sst) ssep items) as [sh' sid].
  cbn [fst snd] in *. subst sid. apply finish_sim; assumption.
Qed.

(* plain-list heaps *)
Lemma sget_app_nil sh j : sget (sh ++ [[]]) j = sget sh j.
Proof.
  unfold sget. revert j. induction sh as [|x sh IH]; intros j.
  - destruct j as [|[|j]]; reflexivity.
  - destruct j; cbn [app nth]; [reflexivity|apply IH].
Qed.
Lemma sset_last sh x y : sset (sh ++ [x]) (length sh) y = sh ++ [y].
Proof. induction sh as [|z sh IH]; cbn [app length sset]; [reflexivity|rewrite IH; reflexivity]. Qed.
Lemma sget_last sh x : sget (sh ++ [x]) (length sh) = x.
Proof. unfold sget. rewrite app_nth2 by lia. rewrite Nat.sub_diag. reflexivity. Qed.

Lemma s_iadd_chunks_part vs sh cs : forall x,
  s_iadd_part vs (sh ++ [x]) (length sh) (chunks_part cs) = sh ++ [x ++ cchars_l cs].
Proof.
  induction cs as [|c cs IH]; intros x; cbn [chunks_part fold_right s_iadd_part].
  - cbn. rewrite app_nil_r. reflexivity.
  - fold (chunks_part cs). rewrite sget_last, sset_last, IH, cchars_l_cons, app_assoc. reflexivity.
Qed.

Lemma chunks_part_ok cs : wf_l sfx cs -> part_ok sfx (chunks_part cs).
Proof. induction 1; cbn; auto. Qed.

Lemma bool_eq_iff (a b : bool) : (a = true <-> b = true) -> a = b.
Proof.
  destruct a, b; intros [H1 H2]; try reflexivity;
    [symmetry; apply H1; reflexivity|apply H2; reflexivity].
Qed.

(* ---- a text used as an iterable: iter(t) gives its characters one by one, like a str *)
Lemma py_index_mid {A} (pre : list A) x suf : py_index (pre ++ x :: suf) (zlen pre) = Ok x.
Proof.
  pose proof (zlen_nonneg pre) as Hn.
  assert (zlen pre <? 0 = false) as E by (apply Z.ltb_ge; lia).
  unfold py_index. cbv zeta. rewrite E. cbv iota. rewrite E.
  unfold zlen. rewrite Nat2Z.id, nth_error_app2 by lia. rewrite Nat.sub_diag. reflexivity.
Qed.
Lemma py_index_end {A} (l : list A) : py_index l (zlen l) = Err IndexErr.
Proof.
  pose proof (zlen_nonneg l) as Hn.
  assert (zlen l <? 0 = false) as E by (apply Z.ltb_ge; lia).
  unfold py_index. cbv zeta. rewrite E. cbv iota. rewrite E.
  unfold zlen. rewrite Nat2Z.id.
  replace (nth_error l (length l)) with (@None A); [reflexivity|].
  symmetry. apply nth_error_None. lia.
Qed.

Lemma cchars_cc_text x : cchars (cc_text x) = [x].
Proof. destruct x as [ch [p s]]. reflexivity. Qed.

Lemma single_good t x : good sfx t -> cchars t = [x] -> t = cc_text x.
Proof.
  intros [[Hc Hn] _] E. destruct t as [n cs]. cbn [chunks scrlen] in *. unfold cc_text. f_equal.
  - rewrite Hn, E. reflexivity.
  - apply canon_unique; [exact Hc|cbn; repeat split; discriminate|].
    change (cchars_l cs) with (cchars (CHText n cs)). rewrite E. destruct x as [ch [p s]]. reflexivity.
Qed.

Lemma cc_text_good x : wfc sfx (cc_chunk x) -> good sfx (cc_text x).
Proof.
  intros Hw. destruct x as [ch [p s]].
  split; [split; [cbn; repeat split; discriminate|reflexivity]|constructor; [exact Hw|constructor]].
Qed.

Lemma iter_loop_ok t : good sfx t -> forall suf pre fuel, cchars t = pre ++ suf -> (length suf < fuel)%nat ->
  iter_loop fuel t (zlen pre) = Ok (map cc_text suf).
Proof.
  intros Hg. induction suf as [|x suf IH]; intros pre fuel E Hf; (destruct fuel as [|f]; [cbn [length] in Hf; lia|]);
    cbn [iter_loop]; pose proof (text_index_refines sfx t (zlen pre) Hg) as Hi; rewrite E in Hi.
  - rewrite app_nil_r, py_index_end in Hi. cbv beta iota in Hi. destruct Hi as [Hi _]. rewrite Hi. reflexivity.
  - rewrite py_index_mid in Hi. cbv beta iota in Hi. destruct Hi as (t' & Hi & Hg' & Hc'). rewrite Hi.
    rewrite (single_good t' x Hg' Hc').
    replace (zlen pre + 1) with (zlen (pre ++ [x])) by (rewrite zlen_app, zlen_cons, zlen_nil; lia).
    rewrite (IH (pre ++ [x]) f); [reflexivity|rewrite <- app_assoc; exact E|cbn [length] in Hf; lia].
Qed.

Lemma text_items_ok t l : P t l -> text_items t = Ok (map cc_text l).
Proof.
  intros [Hg <-]. unfold text_items. change 0 with (zlen (@nil cchar)).
  apply (iter_loop_ok t Hg (cchars t) []); [reflexivity|].
  rewrite <- visible_cchars. unfold visible. rewrite map_length. lia.
Qed.

Lemma rev_loop_ok t : good sfx t -> forall k, (k <= length (cchars t))%nat ->
  rev_loop k t = Ok (map cc_text (rev (firstn k (cchars t)))).
Proof.
  intros Hg. induction k as [|k IH]; intros Hk; cbn [rev_loop]; [reflexivity|].
  destruct (nth_error (cchars t) k) as [x|] eqn:Ex; [|apply nth_error_None in Ex; lia].
  apply nth_error_split in Ex. destruct Ex as (pre & suf & El & Elen). subst k.
  pose proof (text_index_refines sfx t (zlen pre) Hg) as Hi. rewrite El, py_index_mid in Hi.
  cbv beta iota in Hi. destruct Hi as (t' & Hi & Hg' & Hc').
  change (Z.of_nat (length pre)) with (zlen pre). rewrite Hi, IH by lia. cbn [bind].
  rewrite (single_good t' x Hg' Hc'), El.
  assert (firstn (length pre) (pre ++ x :: suf) = pre) as F1.
  { rewrite <- (Nat.add_0_r (length pre)), firstn_app_2. cbn [firstn]. apply app_nil_r. }
  assert (firstn (S (length pre)) (pre ++ x :: suf) = pre ++ [x]) as F2.
  { replace (S (length pre)) with (length pre + 1)%nat by lia. rewrite firstn_app_2. reflexivity. }
  rewrite F1, F2, rev_app_distr. reflexivity.
Qed.

Lemma text_rev_items_ok t l : P t l -> text_rev_items t = Ok (map cc_text (rev l)).
Proof.
  intros [Hg <-]. unfold text_rev_items. pose proof Hg as [[_ Hn] _]. rewrite Hn. unfold zlen.
  rewrite Nat2Z.id, (rev_loop_ok t Hg) by lia. rewrite firstn_all. reflexivity.
Qed.

Lemma cc_chunk_wf cs : wf_l sfx cs -> Forall (fun x => wfc sfx (cc_chunk x)) (cchars_l cs).
Proof.
  induction 1 as [|c cs Hc _ IH]; [constructor|]. rewrite cchars_l_cons. apply Forall_app. split; [|exact IH].
  unfold ccs. apply Forall_forall. intros x Hx. apply in_map_iff in Hx. destruct Hx as (ch & <- & _). exact Hc.
Qed.

Lemma iter_parts_sim st sst it : R st sst -> iter_ok sfx it ->
  iter_parts (vars st) (heap st) it = Ok (s_iter_parts (svars sst) (sheap sst) it) /\
  Forall (part_ok sfx) (s_iter_parts (svars sst) (sheap sst) it).
Proof.
  intros [Hv H] Hok. destruct it as [v|c|s]; cbn [iter_parts s_iter_parts].
  - pose proof (get_P _ _ H (var_id (vars st) v)) as HP. rewrite <- Hv.
    rewrite (text_items_ok _ _ HP). cbn [bind]. split.
    + f_equal. rewrite map_map. apply map_ext. intros x. reflexivity.
    + destruct HP as [[_ Hw] <-]. pose proof (cc_chunk_wf _ Hw) as HF. rewrite Forall_forall in HF.
      apply Forall_forall. intros p Hp. apply in_map_iff in Hp. destruct Hp as (x & <- & Hx).
      split; [apply HF; exact Hx|exact I].
  - split; [reflexivity|]. unfold chunk_items. rewrite map_map.
    apply Forall_forall. intros p Hp. apply in_map_iff in Hp. destruct Hp as (ch & <- & _). exact Hok.
  - split; [reflexivity|].
    apply Forall_forall. intros p Hp. apply in_map_iff in Hp. destruct Hp as (ch & <- & _). exact I.
Qed.

Lemma existsb_map_ext {A B} (f : B -> bool) (g : A -> B) (k : A -> bool) l :
  (forall x, In x l -> f (g x) = k x) -> existsb f (map g l) = existsb k l.
Proof.
  induction l as [|x l IH]; intros Hx; cbn [map existsb]; [reflexivity|].
  rewrite Hx by (left; reflexivity). rewrite IH; [reflexivity|]. intros y Hy. apply Hx. right. exact Hy.
Qed.

Lemma stmt_sim st sst s : R st sst -> stmt_ok sfx s -> RR s (exec_stmt st s) (sexec_stmt sst s).
Proof.
  intros HR Hok. pose proof HR as [Hv H]. unfold RR.
  assert (forall a, P (hget (heap st) (var_id (vars st) a)) (sget (sheap sst) (var_id (svars sst) a))) as Hobj.
  { intros a. rewrite <- Hv. apply get_P. exact H. }
  destruct s; cbn [exec_stmt sexec_stmt erase stmt_ok] in *.
  - (* SNew *) apply new_sim; assumption.
  - (* SMake *) destruct Hok as [Hw Hn]. destruct (text_make_good sfx cs Hw Hn) as [Hg Hc].
    apply alloc_sim; [exact HR|split; assumption].
  - (* SMakeResize *) destruct Hok as (Hw & Hn & Hlen).
    destruct (Z.ltb_spec n 0) as [Hneg|Hpos].
    + rewrite resize_negative by exact Hneg. cbn [bind]. apply finish_err_sim. exact HR.
    + destruct Hlen as [Hlen|Hlen]; [lia|].
      destruct (resize_grow sfx cs n sfx_nil Hw Hn Hlen) as (l & E & Hlw & Hln & Hlc).
      rewrite E. cbn [bind]. destruct (text_make_good sfx l Hlw Hln) as [Hg Hc].
      apply alloc_sim; [exact HR|]. split; [exact Hg|]. rewrite Hc. exact Hlc.
  - (* SAdd *) apply new_sim; [exact HR|]. cbn. auto.
  - (* SRadd *) apply new_sim; [exact HR|]. cbn. auto.
  - (* SJoin *) apply join_sim; [exact HR|apply Hobj|exact Hok].
  - (* SIndex *)
    destruct (Hobj a) as [Hg Hc]. pose proof (text_index_refines sfx _ i Hg) as Hi.
    rewrite Hc in Hi. destruct (py_index (sget (sheap sst) (var_id (svars sst) a)) i) as [x|e].
    + destruct Hi as (t' & E & Hg' & Hc'). rewrite E. cbn [bind].
      apply alloc_sim; [exact HR|split; assumption].
    + destruct Hi as [E ->]. rewrite E. cbn [bind]. apply finish_err_sim. exact HR.
  - (* SSlice *)
    destruct (Hobj a) as [Hg Hc]. destruct (text_slice_refines sfx _ lo hi Hg) as [Hg' Hc'].
    apply alloc_sim; [exact HR|]. split; [exact Hg'|]. rewrite Hc', Hc. reflexivity.
  - (* SFixed *)
    destruct (Hobj a) as [Hg Hc]. pose proof Hg as [[_ Hlen] _]. rewrite Hc in Hlen. rewrite Hlen.
    set (l := sget (sheap sst) (var_id (svars sst) a)) in *.
    destruct (Z.ltb_spec (n - zlen l) 0) as [Hlt|Hge].
    + destruct (Z.eqb_spec n (zlen l)); [lia|]. cbn [andb].
      destruct (text_slice_refines sfx _ None (Some n) Hg) as [Hg' Hc'].
      apply alloc_sim; [exact HR|]. split; [exact Hg'|]. rewrite Hc', Hc. fold l.
      rewrite s_fixed_cut by lia. reflexivity.
    + destruct (Z.ltb_spec 0 (n - zlen l)) as [Hgt|Hle].
      * destruct (Z.eqb_spec n (zlen l)); [lia|]. cbn [andb].
        replace (s_alloc (sheap sst) (s_fixed l n))
          with (s_new_from (svars sst) (sheap sst) (PCons (PV a) (PCons (PS (rep ch_space (n - zlen l))) PNil))).
        { apply new_sim; [exact HR|]. cbn. auto. }
        unfold s_new_from, s_alloc. f_equal. cbn [s_iadd_part].
        rewrite sget_last, sset_last, sget_last, sset_last, sget_app_nil. fold l. cbn [app].
        rewrite s_fixed_grow by lia. unfold plain_cc. rewrite rep_map. reflexivity.
      * destruct (Z.eqb_spec n (zlen l)); [|lia]. cbn [andb].
        destruct fixed_len_aliases.
        -- unfold bind_var, s_bind. cbn [fst snd]. rewrite Hv. split; [split; [reflexivity|exact H]|reflexivity].
        -- replace (s_alloc (sheap sst) (s_fixed l n))
             with (s_new_from (svars sst) (sheap sst) (PCons (PV a) PNil)).
           { apply new_sim; [exact HR|]. cbn. auto. }
           unfold s_new_from, s_alloc. f_equal. cbn [s_iadd_part].
           rewrite sget_last, sset_last, sget_app_nil. fold l. cbn [app].
           rewrite s_fixed_grow by lia. replace (n - zlen l) with 0 by lia. cbn. rewrite app_nil_r. reflexivity.
  - (* SChunkAdd *) apply new_sim; [exact HR|]. cbn. tauto.
  - (* SChunkRadd *) apply new_sim; [exact HR|]. cbn. tauto.
  - (* SChunkJoin *) destruct Hok as [Hc Hit]. apply join_sim; [exact HR| |exact Hit].
    change (ccs c) with ([] ++ ccs c). apply P_append; [apply P_empty|exact Hc].
  - (* SChunkFixed *)
    destruct (chunk_fixed_parts_ok sfx c n sfx_nil Hok) as [Hw Hc].
    replace (s_alloc (sheap sst) (s_fixed (ccs c) n))
      with (s_new_from (svars sst) (sheap sst) (chunks_part (chunk_fixed_parts c n))).
    { apply new_sim; [exact HR|]. apply chunks_part_ok. exact Hw. }
    unfold s_new_from, s_alloc. f_equal. rewrite s_iadd_chunks_part. cbn [app]. rewrite Hc. reflexivity.
  - (* SIadd *)
    destruct (iadd_part_sim (vars st) (var_id (vars st) a) p _ _ H Hok) as (h' & E & H').
    rewrite E. cbn [fst snd]. rewrite <- Hv. split; [split; [reflexivity|exact H']|reflexivity].
  - (* OFormat *) cbn [fst snd]. split; [exact HR|reflexivity].
  - (* OEq *)
    cbn [fst snd]. split; [exact HR|].
    destruct (Hobj a) as [Hg Hc].
    destruct p as [s|c|v| |x r]; try reflexivity.
    + f_equal. assert (text_eq_str (hget (heap st) (var_id (vars st) a)) s =
                       cc_eqb (sget (sheap sst) (var_id (svars sst) a)) (plain_cc s)) as ->; [|reflexivity].
      apply bool_eq_iff. rewrite (text_eq_str_iff sfx _ s sfx_nil Hg), cc_eqb_eq, Hc. reflexivity.
    + assert (text_eq_chunk (hget (heap st) (var_id (vars st) a)) c =
              cc_eqb (sget (sheap sst) (var_id (svars sst) a)) (ccs c)) as ->; [|reflexivity].
      apply bool_eq_iff. destruct Hg as [Hi _]. rewrite (text_eq_chunk_iff _ c Hi), cc_eqb_eq, Hc. reflexivity.
    + destruct (Hobj v) as [Hgv Hcv].
      assert (Nat.eqb (var_id (vars st) a) (var_id (vars st) v)
              || text_eq_text (hget (heap st) (var_id (vars st) a)) (hget (heap st) (var_id (vars st) v)) =
              cc_eqb (sget (sheap sst) (var_id (svars sst) a)) (sget (sheap sst) (var_id (svars sst) v))) as ->;
        [|reflexivity].
      apply bool_eq_iff. rewrite orb_true_iff, cc_eqb_eq, <- Hc, <- Hcv.
      destruct Hg as [Hi _], Hgv as [Hiv _]. rewrite (text_eq_text_iff _ _ Hi Hiv).
      split; [|auto]. intros [E|E]; [|exact E]. apply Nat.eqb_eq in E. rewrite E. reflexivity.
  - (* OChunkIndex *) cbn [fst snd]. split; [exact HR|reflexivity].
  - (* OChunkSlice *) cbn [fst snd]. split; [exact HR|reflexivity].
  - (* OChunkEq *) cbn [fst snd]. split; [exact HR|reflexivity].
  - (* OChunkFormat *) cbn [fst snd]. split; [exact HR|reflexivity].
  - (* SJoinIt *)
    destruct (iter_parts_sim st sst it HR Hok) as [E HF]. rewrite E. cbn [bind].
    apply join_sim; [exact HR|apply Hobj|exact HF].
  - (* SChunkJoinIt *)
    destruct Hok as [Hc Hit]. destruct (iter_parts_sim st sst it HR Hit) as [E HF]. rewrite E. cbn [bind].
    apply join_sim; [exact HR| |exact HF].
    change (ccs c) with ([] ++ ccs c). apply P_append; [apply P_empty|exact Hc].
  - (* OIter *) cbn [fst snd]. split; [exact HR|]. rewrite (text_items_ok _ _ (Hobj a)). reflexivity.
  - (* ORevIter *) cbn [fst snd]. split; [exact HR|]. rewrite (text_rev_items_ok _ _ (Hobj a)). reflexivity.
  - (* OIn *)
    cbn [fst snd]. split; [exact HR|]. rewrite (text_items_ok _ _ (Hobj a)). cbn [bind]. do 3 f_equal.
    destruct (Hobj a) as [[_ Hw] Hc]. pose proof (cc_chunk_wf _ Hw) as HF. rewrite Forall_forall in HF.
    fold (cchars (hget (heap st) (var_id (vars st) a))) in HF. rewrite Hc in HF.
    apply existsb_map_ext. intros x Hx. pose proof (cc_text_good x (HF x Hx)) as Hgx.
    destruct p as [s|c|v| |y r]; cbn [item_eq]; try reflexivity; apply bool_eq_iff.
    + rewrite (text_eq_str_iff sfx _ s sfx_nil Hgx), cc_eqb_eq, cchars_cc_text. reflexivity.
    + destruct Hgx as [Hi _]. rewrite (text_eq_chunk_iff _ c Hi), cc_eqb_eq, cchars_cc_text. reflexivity.
    + destruct (Hobj v) as [[Hiv _] Hcv]. destruct Hgx as [Hi _].
      rewrite (text_eq_text_iff _ _ Hi Hiv), cc_eqb_eq, cchars_cc_text, Hcv. reflexivity.
  - (* OChunkIter *) cbn [fst snd]. split; [exact HR|reflexivity].
Qed.

Fixpoint erase_all (prog : list stmt) (obs : list sx) : list sx :=
  match prog, obs with
  | s :: r, o :: os => erase s o :: erase_all r os
  | _, _ => []
  end.

Lemma exec_sim prog : forall st sst, R st sst -> Forall (stmt_ok sfx) prog ->
  R (fst (exec st prog)) (fst (sexec sst prog)) /\
  erase_all prog (snd (exec st prog)) = snd (sexec sst prog).
Proof.
  induction prog as [|s r IH]; intros st sst HR Hok; cbn [exec sexec].
  - split; [exact HR|reflexivity].
  - inversion Hok; subst. pose proof (stmt_sim st sst s HR H1) as [HR1 Ho].
    destruct (exec_stmt st s) as [st1 o]. destruct (sexec_stmt sst s) as [sst1 so].
    cbn [fst snd] in *. specialize (IH st1 sst1 HR1 H2).
    destruct (exec st1 r) as [st2 os]. destruct (sexec sst1 r) as [sst2 sos].
    cbn [fst snd erase_all] in *. destruct IH as [IH1 IH2]. split; [exact IH1|]. congruence.
Qed.

Lemma R_heap st sst : R st sst ->
  vars st = svars sst /\ map cchars (heap st) = sheap sst /\ Forall (good sfx) (heap st).
Proof.
  intros [Hv H]. split; [exact Hv|]. induction H as [|t l h sh [Hg Hc] _ [IH1 IH2]]; [split; constructor|].
  split; [cbn [map]; congruence|constructor; assumption].
Qed.

End Sim.

Definition init_sstate : sstate := SState [] [].

(* the program-level theorems *)
Lemma program_refines_l sfx prog : sfx [] = [] -> Forall (stmt_ok sfx) prog ->
  vars (fst (exec init_state prog)) = svars (fst (sexec init_sstate prog)) /\
  map cchars (heap (fst (exec init_state prog))) = sheap (fst (sexec init_sstate prog)) /\
  erase_all prog (snd (exec init_state prog)) = snd (sexec init_sstate prog).
Proof.
  intros Hs Hok. destruct (exec_sim sfx Hs prog init_state init_sstate) as [HR Ho]; [|exact Hok|].
  { split; [reflexivity|constructor]. }
  destruct (R_heap sfx _ _ HR) as (Hv & Hh & _). auto.
Qed.

Lemma inv_reachable_l sfx prog : sfx [] = [] -> Forall (stmt_ok sfx) prog ->
  Forall (fun t => inv t /\ wf_l sfx (chunks t)) (heap (fst (exec init_state prog))).
Proof.
  intros Hs Hok. destruct (exec_sim sfx Hs prog init_state init_sstate) as [HR Ho]; [|exact Hok|].
  { split; [reflexivity|constructor]. }
  destruct (R_heap sfx _ _ HR) as (_ & _ & Hg). exact Hg.
Qed.

(* ------------------------------------------------------------------ *)
(* corollaries used in Props.v                                          *)

Lemma len_visible_l t : inv t -> scrlen t = zlen (plain_text t).
Proof.
  intros [_ Hn]. rewrite Hn, <- visible_cchars. unfold visible. rewrite zlen_map. reflexivity.
Qed.

(* t += t *)
Lemma iadd_self_l sfx t : good sfx t ->
  exists t', iadd_text true t t = Ok t' /\ good sfx t' /\ cchars t' = cchars t ++ cchars t.
Proof.
  intros Hg. rewrite iadd_text_ok. eexists. split; [reflexivity|].
  destruct Hg as [Hi Hw]. apply (append_all_good sfx (chunks t) t); [split; assumption|exact Hw].
Qed.

(* str() of a text of default-coloured characters is the plain string *)
Lemma str_plain_l sfx t s : sfx [] = [] -> good sfx t -> cchars t = plain_cc s -> text_str t = s.
Proof.
  intros Hs Hg Hc. pose proof Hg as [[Hcan _] _].
  destruct s as [|x s].
  - assert (chunks t = []) as E.
    { apply (canon_unique (chunks t) []); [exact Hcan|exact I|exact Hc]. }
    unfold text_str. rewrite E. reflexivity.
  - assert (chunks t = [make_plain (x :: s)]) as E.
    { apply canon_unique; [exact Hcan|cbn; repeat split; discriminate|].
      fold (cchars t). rewrite Hc. cbn [cchars_l flat_map]. rewrite app_nil_r. reflexivity. }
    unfold text_str. rewrite E. cbn. rewrite !app_nil_r. reflexivity.
Qed.

(* CHText.make keeps an empty chunk; resize_chunks_list that truncates at a chunk
   boundary or inside the last chunk appends one: such texts are not canonical and
   compare unequal to the same characters assembled normally *)
Lemma make_empty_chunk_refuted_l :
  exists cs, cchars (text_make cs) = cchars empty_text /\ text_eq_text (text_make cs) empty_text = false.
Proof. exists [Chunk [27; 91; 51; 49; 109] [] [27; 91; 48; 109]]. split; reflexivity. Qed.

Lemma resize_truncate_refuted_l :
  exists cs n l, nonempty_l cs /\ 0 <= n /\ resize_chunks_list cs n = Ok l /\
    cchars (text_make l) = cchars (append_all empty_text (chunk_fixed_parts (hd (make_plain []) cs) n)) /\
    text_eq_text (text_make l) (append_all empty_text (chunk_fixed_parts (hd (make_plain []) cs) n)) = false.
Proof.
  exists [Chunk [27; 91; 51; 49; 109] [97; 98; 99] [27; 91; 48; 109]], 2.
  eexists. split; [repeat constructor; discriminate|]. split; [lia|]. split; [vm_compute; reflexivity|].
  split; vm_compute; reflexivity.
Qed.
