(* C08/Lemmas.v -- proofs about the pure part of the model of ak/color.py:
   Python slicing facts, chunk appending, canonical form, indexing, slicing,
   equality. *)
From Coq Require Import ZArith List Bool Lia.
From AK Require Import Common.Sx Common.Err C08.PyStr gen.C08_Consts C08.Model C08.Spec.
Import ListNotations.
Open Scope Z_scope.

(* ------------------------------------------------------------------ *)
(* obligations on the facts read from the source                        *)

Lemma iadd_copies_true : iadd_copies = true.
Proof. vm_compute. reflexivity. Qed.
Lemma append_skips_empty_true : append_skips_empty = true.
Proof. vm_compute. reflexivity. Qed.
Lemma align_chars_ok : align_chars = [62; 60; 94].
Proof. vm_compute. reflexivity. Qed.

(* ------------------------------------------------------------------ *)
(* small list facts                                                     *)

Lemma zlen_app {A} (a b : list A) : zlen (a ++ b) = zlen a + zlen b.
Proof. unfold zlen. rewrite app_length. lia. Qed.
Lemma zlen_nonneg {A} (a : list A) : 0 <= zlen a.
Proof. unfold zlen. lia. Qed.
Lemma zlen_nil {A} : zlen (@nil A) = 0. Proof. reflexivity. Qed.
Lemma zlen_cons {A} (x : A) l : zlen (x :: l) = 1 + zlen l.
Proof. unfold zlen. cbn [length]. lia. Qed.
Lemma zlen_map {A B} (f : A -> B) l : zlen (map f l) = zlen l.
Proof. unfold zlen. rewrite map_length. reflexivity. Qed.
Lemma zlen_0_nil {A} (l : list A) : zlen l = 0 -> l = [].
Proof. destruct l; [reflexivity|]. rewrite zlen_cons. pose proof (zlen_nonneg l). lia. Qed.

Lemma str_eqb_eq a b : str_eqb a b = true <-> a = b.
Proof.
  revert b. induction a as [|x a IH]; intros [|y b]; cbn [str_eqb]; split; try congruence; try discriminate.
  - intros H. apply andb_prop in H as [H1 H2]. apply Z.eqb_eq in H1. apply IH in H2. congruence.
  - intros [= -> ->]. rewrite Z.eqb_refl. apply IH. reflexivity.
Qed.
Lemma str_eqb_refl a : str_eqb a a = true.
Proof. apply str_eqb_eq. reflexivity. Qed.
Lemma str_eqb_neq a b : a <> b -> str_eqb a b = false.
Proof. intros H. destruct (str_eqb a b) eqn:E; [apply str_eqb_eq in E; contradiction|reflexivity]. Qed.

Lemma is_nil_true {A} (l : list A) : is_nil l = true <-> l = [].
Proof. destruct l; cbn; split; congruence. Qed.
Lemma is_nil_false {A} (l : list A) : is_nil l = false <-> l <> [].
Proof. destruct l; cbn; split; congruence. Qed.

Lemma skipn_skipn' {A} (n m : nat) (l : list A) : skipn n (skipn m l) = skipn (m + n) l.
Proof.
  revert l. induction m as [|m IH]; intros l; [reflexivity|].
  destruct l; cbn [skipn Nat.add]; [destruct n; reflexivity|apply IH].
Qed.

Lemma firstn_app_le {A} (n : nat) (a b : list A) : (n <= length a)%nat -> firstn n (a ++ b) = firstn n a.
Proof.
  intros H. rewrite firstn_app. replace (n - length a)%nat with 0%nat by lia.
  cbn [firstn]. apply app_nil_r.
Qed.
Lemma firstn_app_ge {A} (n : nat) (a b : list A) : (length a <= n)%nat ->
  firstn n (a ++ b) = a ++ firstn (n - length a) b.
Proof. intros H. rewrite firstn_app. rewrite firstn_all2 by lia. reflexivity. Qed.
Lemma skipn_app_le {A} (n : nat) (a b : list A) : (n <= length a)%nat -> skipn n (a ++ b) = skipn n a ++ b.
Proof.
  intros H. rewrite skipn_app. replace (n - length a)%nat with 0%nat by lia. reflexivity.
Qed.
Lemma skipn_app_ge {A} (n : nat) (a b : list A) : (length a <= n)%nat ->
  skipn n (a ++ b) = skipn (n - length a) b.
Proof. intros H. rewrite skipn_app. rewrite skipn_all2 by lia. reflexivity. Qed.

(* ------------------------------------------------------------------ *)
(* Python slicing, restated with firstn/skipn                           *)

(* the window [s, e) of a list, s e >= 0 not clamped from above *)
Definition zslice {A} (l : list A) (s e : Z) : list A :=
  firstn (Z.to_nat (e - s)) (skipn (Z.to_nat s) l).

Lemma zslice_clamp {A} (l : list A) s e : 0 <= s -> 0 <= e ->
  zslice l s e = zslice l (Z.min s (zlen l)) (Z.min e (zlen l)).
Proof.
  intros Hs He. unfold zslice, zlen.
  destruct (Z_lt_le_dec s (Z.of_nat (length l))) as [Hlt|Hge].
  - rewrite (Z.min_l s) by lia.
    destruct (Z_lt_le_dec e (Z.of_nat (length l))) as [Hlt2|Hge2].
    + rewrite (Z.min_l e) by lia. reflexivity.
    + rewrite (Z.min_r e) by lia.
      rewrite !firstn_all2; [reflexivity| |]; rewrite skipn_length; lia.
  - rewrite (Z.min_r s) by lia.
    rewrite !skipn_all2 by lia. rewrite !firstn_nil. reflexivity.
Qed.

Lemma py_slice_zslice {A} (l : list A) a b :
  py_slice l a b = zslice l (adj (zlen l) a 0) (adj (zlen l) b (zlen l)).
Proof. reflexivity. Qed.

Lemma py_slice_none_some {A} (l : list A) n : 0 <= n -> py_slice l None (Some n) = firstn (Z.to_nat n) l.
Proof.
  intros H. unfold py_slice, adj. destruct (Z.ltb_spec n 0); [lia|].
  cbn [Z.to_nat skipn]. rewrite Z.sub_0_r.
  destruct (Z_le_gt_dec n (zlen l)).
  - rewrite Z.min_l by lia. reflexivity.
  - rewrite Z.min_r by lia. unfold zlen in *. rewrite !firstn_all2 by lia. reflexivity.
Qed.

Lemma py_slice_some_none {A} (l : list A) n : 0 <= n -> py_slice l (Some n) None = skipn (Z.to_nat n) l.
Proof.
  intros H. unfold py_slice, adj. destruct (Z.ltb_spec n 0); [lia|].
  destruct (Z_le_gt_dec n (zlen l)).
  - rewrite Z.min_l by lia. apply firstn_all2. rewrite skipn_length. unfold zlen. lia.
  - rewrite Z.min_r by lia. unfold zlen in *. rewrite !skipn_all2 by lia. apply firstn_nil.
Qed.

Lemma py_slice_map {A B} (f : A -> B) (l : list A) a b : py_slice (map f l) a b = map f (py_slice l a b).
Proof. unfold py_slice. rewrite zlen_map. rewrite skipn_map, firstn_map. reflexivity. Qed.

Lemma py_index_map {A B} (f : A -> B) (l : list A) i :
  py_index (map f l) i = match py_index l i with Ok x => Ok (f x) | Err e => Err e end.
Proof.
  unfold py_index. rewrite zlen_map.
  destruct (_ <? 0); [reflexivity|]. rewrite nth_error_map.
  destruct (nth_error l _); reflexivity.
Qed.

(* ------------------------------------------------------------------ *)
(* abstraction                                                          *)

Lemma ccs_len c : zlen (ccs c) = zlen (c_text c).
Proof. apply zlen_map. Qed.
Lemma cchars_l_app a b : cchars_l (a ++ b) = cchars_l a ++ cchars_l b.
Proof. apply flat_map_app. Qed.
Lemma cchars_l_cons c l : cchars_l (c :: l) = ccs c ++ cchars_l l.
Proof. reflexivity. Qed.
Lemma ccs_clone c s : ccs (clone c s) = map (fun ch => (ch, colour_of c)) s.
Proof. reflexivity. Qed.
Lemma ccs_nil_iff c : ccs c = [] <-> c_text c = [].
Proof. unfold ccs. destruct (c_text c); cbn; split; congruence. Qed.
Lemma wfc_clone sfx c s : wfc sfx c -> wfc sfx (clone c s).
Proof. exact (fun H => H). Qed.
Lemma visible_cchars_l l : visible (cchars_l l) = flat_map c_text l.
Proof.
  induction l as [|c l IH]; [reflexivity|].
  rewrite cchars_l_cons. unfold visible in *. rewrite map_app, IH. cbn [flat_map]. f_equal.
  unfold ccs. rewrite map_map. cbn [fst]. apply map_id.
Qed.
Lemma visible_cchars t : visible (cchars t) = plain_text t.
Proof. apply visible_cchars_l. Qed.

(* ------------------------------------------------------------------ *)
(* _append_chunk                                                        *)

Lemma has_same_type_true a b : has_same_type a b = true <-> c_prefix a = c_prefix b.
Proof. apply str_eqb_eq. Qed.

Lemma append_to_cchars sfx l c : wf_l sfx l -> wfc sfx c ->
  cchars_l (append_to l c) = cchars_l l ++ ccs c.
Proof.
  intros Hl Hc. induction l as [|x r IH]; [cbn; rewrite app_nil_r; reflexivity|].
  destruct r as [|y r'].
  - cbn [append_to]. destruct (has_same_type c x) eqn:E.
    + apply has_same_type_true in E. inversion Hl as [|? ? Hx _]; subst.
      cbn [cchars_l flat_map]. rewrite !app_nil_r. unfold ccs at 1. cbn [clone c_text].
      rewrite map_app. f_equal. unfold ccs, colour_of. cbn [c_prefix c_suffix clone].
      unfold wfc in *. rewrite Hx, Hc, E. reflexivity.
    + cbn [cchars_l flat_map]. rewrite !app_nil_r. reflexivity.
  - change (append_to (x :: y :: r') c) with (x :: append_to (y :: r') c).
    rewrite !cchars_l_cons. inversion Hl; subst. rewrite IH by assumption.
    rewrite cchars_l_cons. rewrite !app_assoc. reflexivity.
Qed.

Lemma append_to_wf sfx l c : wf_l sfx l -> wfc sfx c -> wf_l sfx (append_to l c).
Proof.
  intros Hl Hc. induction l as [|x r IH]; [repeat constructor; exact Hc|].
  destruct r as [|y r'].
  - cbn [append_to]. inversion Hl; subst. destruct (has_same_type c x); repeat constructor; assumption.
  - change (append_to (x :: y :: r') c) with (x :: append_to (y :: r') c).
    inversion Hl; subst. constructor; [assumption|apply IH; assumption].
Qed.

Lemma append_to_head l c x r : append_to (x :: l) c = r ->
  exists x' r', r = x' :: r' /\ c_prefix x' = c_prefix x.
Proof.
  intros <-. destruct l as [|y l'].
  - cbn [append_to]. destruct (has_same_type c x); eexists; eexists; split; reflexivity.
  - change (append_to (x :: y :: l') c) with (x :: append_to (y :: l') c).
    eexists; eexists; split; reflexivity.
Qed.

Lemma append_to_canon l c : canon_l l -> c_text c <> [] -> canon_l (append_to l c).
Proof.
  intros Hl Hc. induction l as [|x r IH]; [cbn; auto|].
  destruct r as [|y r'].
  - cbn [append_to]. destruct (has_same_type c x) eqn:E.
    + cbn [canon_l clone c_text]. destruct Hl as (Hx & _ & _).
      repeat split; auto. destruct (c_text x); [congruence|discriminate].
    + cbn [canon_l]. destruct Hl as (Hx & _ & _). repeat split; auto.
      intros Heq. rewrite <- has_same_type_true in Heq. unfold has_same_type in *.
      apply str_eqb_eq in Heq. rewrite <- Heq, str_eqb_refl in E. discriminate.
  - change (append_to (x :: y :: r') c) with (x :: append_to (y :: r') c).
    destruct Hl as (Hx & Hxy & Hr). specialize (IH Hr).
    destruct (append_to_head r' c y _ eq_refl) as (y' & r'' & Er & Ep).
    rewrite Er in *.
    change (c_text x <> [] /\ c_prefix x <> c_prefix y' /\ canon_l (y' :: r'')).
    split; [exact Hx|]. split; [rewrite Ep; exact Hxy|exact IH].
Qed.

Lemma append_chunk_good sfx t c : good sfx t -> wfc sfx c ->
  good sfx (append_chunk t c) /\ cchars (append_chunk t c) = cchars t ++ ccs c.
Proof.
  intros [[Hc Hn] Hw] Hcw. unfold append_chunk. rewrite append_skips_empty_true. cbn [andb].
  destruct (is_nil (c_text c)) eqn:E.
  - apply is_nil_true in E. split; [repeat split; assumption|].
    unfold ccs. rewrite E. cbn. rewrite app_nil_r. reflexivity.
  - apply is_nil_false in E. unfold good, inv, cchars. cbn [chunks scrlen].
    rewrite (append_to_cchars sfx) by assumption.
    repeat split.
    + apply append_to_canon; assumption.
    + rewrite zlen_app, ccs_len. unfold cchars in Hn. lia.
    + apply append_to_wf; assumption.
Qed.

Lemma append_all_good sfx cs : forall t, good sfx t -> wf_l sfx cs ->
  good sfx (append_all t cs) /\ cchars (append_all t cs) = cchars t ++ cchars_l cs.
Proof.
  unfold append_all. induction cs as [|c cs IH]; intros t Ht Hw; cbn [fold_left].
  - split; [exact Ht|]. cbn. rewrite app_nil_r. reflexivity.
  - inversion Hw; subst. destruct (append_chunk_good sfx t c Ht) as [Hg Hc]; [assumption|].
    destruct (IH _ Hg) as [Hg' Hc']; [assumption|]. split; [exact Hg'|].
    rewrite Hc', Hc, cchars_l_cons, app_assoc. reflexivity.
Qed.

Lemma empty_good sfx : good sfx empty_text.
Proof. repeat split; constructor. Qed.

(* `t += t` (and any other CHText operand): terminates and appends a snapshot *)
Lemma iadd_text_ok alias t other : iadd_text alias t other = Ok (append_all t (chunks other)).
Proof. unfold iadd_text. rewrite iadd_copies_true. reflexivity. Qed.

(* ------------------------------------------------------------------ *)
(* positions                                                            *)

Lemma chunk_pos_some l pos c p rest : 0 <= pos -> chunk_pos l pos = Some (c, p, rest) ->
  exists pre, l = pre ++ c :: rest /\ p = pos - zlen (cchars_l pre) /\ 0 <= p < zlen (c_text c).
Proof.
  revert pos. induction l as [|x r IH]; intros pos Hpos; cbn [chunk_pos]; [discriminate|].
  destruct (Z.ltb_spec pos (zlen (c_text x))).
  - intros [= <- <- <-]. exists []. cbn. repeat split; lia.
  - intros H1. apply IH in H1 as (pre & -> & -> & Hp); [|lia].
    exists (x :: pre). rewrite cchars_l_cons, zlen_app, ccs_len. repeat split; lia.
Qed.

Lemma chunk_pos_none l pos : 0 <= pos -> chunk_pos l pos = None -> zlen (cchars_l l) <= pos.
Proof.
  revert pos. induction l as [|x r IH]; intros pos Hpos; cbn [chunk_pos]; [intros _; cbn; lia|].
  destruct (Z.ltb_spec pos (zlen (c_text x))); [discriminate|].
  intros H1. apply IH in H1; [|lia]. rewrite cchars_l_cons, zlen_app, ccs_len. lia.
Qed.

Lemma nth_error_cchars pre c rest p : 0 <= p < zlen (c_text c) ->
  nth_error (cchars_l (pre ++ c :: rest)) (Z.to_nat (zlen (cchars_l pre) + p)) =
  option_map (fun ch => (ch, colour_of c)) (nth_error (c_text c) (Z.to_nat p)).
Proof.
  intros Hp. rewrite cchars_l_app, cchars_l_cons.
  rewrite nth_error_app2 by (unfold zlen; lia).
  replace (Z.to_nat (zlen (cchars_l pre) + p) - length (cchars_l pre))%nat with (Z.to_nat p) by (unfold zlen; lia).
  rewrite nth_error_app1 by (rewrite <- ccs_len in Hp; unfold zlen in Hp; lia).
  unfold ccs. apply nth_error_map.
Qed.

Lemma wf_l_in sfx l c : wf_l sfx l -> In c l -> wfc sfx c.
Proof. intros H Hin. unfold wf_l in H. rewrite Forall_forall in H. auto. Qed.

(* text[i] *)
Lemma text_index_refines sfx t i : good sfx t ->
  match py_index (cchars t) i with
  | Ok x => exists t', text_index t i = Ok t' /\ good sfx t' /\ cchars t' = [x]
  | Err e => text_index t i = Err IndexErr /\ e = IndexErr
  end.
Proof.
  intros [[Hc Hn] Hw]. unfold py_index, text_index. rewrite Hn.
  set (idx := if i <? 0 then zlen (cchars t) + i else i).
  unfold get_chunk_pos. destruct (Z.ltb_spec idx 0) as [Hneg|Hpos]; [split; reflexivity|].
  destruct (chunk_pos (chunks t) idx) as [[[c p] rest]|] eqn:E.
  - destruct (chunk_pos_some _ _ _ _ _ Hpos E) as (pre & El & Ep & Hp).
    unfold cchars. rewrite El.
    replace idx with (zlen (cchars_l pre) + p) by lia.
    rewrite nth_error_cchars by exact Hp.
    assert (p <? 0 = false) as Hpf by (apply Z.ltb_ge; lia).
    unfold py_index. cbv zeta. repeat rewrite Hpf.
    destruct (nth_error (c_text c) (Z.to_nat p)) as [ch|] eqn:En.
    + cbn [option_map bind]. exists (append_chunk empty_text (clone c [ch])). split; [reflexivity|].
      assert (wfc sfx c) as Hcw by (apply (wf_l_in sfx (chunks t)); [exact Hw|rewrite El; apply in_elt]).
      destruct (append_chunk_good sfx empty_text (clone c [ch]) (empty_good sfx)) as [Hg Hcc]; [exact Hcw|].
      split; [exact Hg|]. unfold cchars in Hcc. rewrite Hcc. reflexivity.
    + apply nth_error_None in En. unfold zlen in Hp. lia.
  - apply chunk_pos_none in E; [|exact Hpos].
    destruct (nth_error (cchars t) (Z.to_nat idx)) eqn:En; [|split; reflexivity].
    assert (nth_error (cchars t) (Z.to_nat idx) <> None) as Hne by congruence.
    apply nth_error_Some in Hne. unfold cchars, zlen in *. lia.
Qed.

(* the loop of the slice branch *)
Lemma take_loop_cchars rest : forall remain cur, 0 < remain ->
  cchars_l (take_loop remain cur rest) = firstn (Z.to_nat remain) (ccs cur ++ cchars_l rest).
Proof.
  induction rest as [|c r IH]; intros remain cur Hr.
  - cbn [take_loop]. destruct (Z.leb_spec remain (zlen (c_text cur))) as [Hle|Hgt].
    + cbn [cchars_l flat_map]. rewrite !app_nil_r. rewrite ccs_clone.
      rewrite py_slice_none_some by lia. unfold ccs. rewrite firstn_map. reflexivity.
    + cbn [cchars_l flat_map]. rewrite !app_nil_r. symmetry. apply firstn_all2.
      pose proof (ccs_len cur). unfold zlen in *. lia.
  - cbn [take_loop]. destruct (Z.leb_spec remain (zlen (c_text cur))) as [Hle|Hgt].
    + rewrite firstn_app_le by (pose proof (ccs_len cur); unfold zlen in *; lia).
      cbn [cchars_l flat_map]. rewrite !app_nil_r. rewrite ccs_clone.
      rewrite py_slice_none_some by lia. unfold ccs. rewrite firstn_map. reflexivity.
    + rewrite cchars_l_cons. rewrite IH by lia.
      rewrite (firstn_app_ge (Z.to_nat remain)) by (pose proof (ccs_len cur); unfold zlen in *; lia).
      f_equal. rewrite cchars_l_cons. f_equal. pose proof (ccs_len cur). unfold zlen in *. lia.
Qed.

Lemma take_loop_wf sfx rest : forall remain cur, wfc sfx cur -> wf_l sfx rest ->
  wf_l sfx (take_loop remain cur rest).
Proof.
  induction rest as [|c r IH]; intros remain cur Hc Hr; cbn [take_loop];
    destruct (remain <=? zlen (c_text cur)); repeat constructor; try assumption.
  inversion Hr; subst. apply IH; assumption.
Qed.

(* text[a:b] *)
Lemma text_slice_refines sfx t a b : good sfx t ->
  good sfx (text_slice t a b) /\ cchars (text_slice t a b) = py_slice (cchars t) a b.
Proof.
  intros [[Hc Hn] Hw]. unfold text_slice. rewrite Hn.
  set (n := zlen (cchars t)).
  set (S := match a with None => 0 | Some s => if s <? 0 then Z.max 0 (n + s) else s end).
  set (E := match b with None => n | Some e => if e <? 0 then Z.max 0 (n + e) else e end).
  assert (0 <= n) as Hn0 by apply zlen_nonneg.
  assert (0 <= S /\ adj n a 0 = Z.min S n) as [HS HSa].
  { subst S. unfold adj. destruct a as [s|]; [|lia]. destruct (Z.ltb_spec s 0); lia. }
  assert (0 <= E /\ adj n b n = Z.min E n) as [HE HEb].
  { subst E. unfold adj. destruct b as [e|]; [|lia]. destruct (Z.ltb_spec e 0); lia. }
  assert (py_slice (cchars t) a b = zslice (cchars t) S E) as ->.
  { rewrite py_slice_zslice. fold n. rewrite HSa, HEb. unfold n.
    symmetry. apply zslice_clamp; assumption. }
  destruct (Z.leb_spec (E - S) 0) as [Hle|Hgt].
  { split; [apply empty_good|]. unfold zslice. replace (Z.to_nat (E - S)) with 0%nat by lia. reflexivity. }
  unfold get_chunk_pos. destruct (Z.ltb_spec S 0); [lia|].
  destruct (chunk_pos (chunks t) S) as [[[c p] rest]|] eqn:Ecp.
  - destruct (chunk_pos_some _ _ _ _ _ HS Ecp) as (pre & El & Ep & Hp).
    assert (wf_l sfx (pre ++ c :: rest)) as Hw' by (rewrite <- El; exact Hw).
    assert (wfc sfx c) as Hcw by (apply (wf_l_in sfx _ c Hw'); apply in_elt).
    assert (wf_l sfx rest) as Hrw.
    { unfold wf_l in *. apply Forall_app in Hw' as [_ H2]. inversion H2; assumption. }
    set (cur := clone c (py_slice (c_text c) (Some p) None)).
    destruct (append_all_good sfx (take_loop (E - S) cur rest) empty_text (empty_good sfx)) as [Hg Hcc].
    { apply take_loop_wf; [exact Hcw|exact Hrw]. }
    split; [exact Hg|]. rewrite Hcc. cbn [cchars empty_text chunks cchars_l flat_map app].
    rewrite take_loop_cchars by lia. unfold zslice. f_equal.
    unfold cchars. rewrite El, cchars_l_app, cchars_l_cons.
    rewrite skipn_app_ge by (unfold zlen in *; lia).
    replace (Z.to_nat S - length (cchars_l pre))%nat with (Z.to_nat p) by (unfold zlen in *; lia).
    rewrite skipn_app_le by (pose proof (ccs_len c); unfold zlen in *; lia).
    f_equal. subst cur. rewrite ccs_clone. rewrite py_slice_some_none by lia.
    unfold ccs. rewrite skipn_map. reflexivity.
  - apply chunk_pos_none in Ecp; [|exact HS].
    split; [apply empty_good|]. unfold zslice. rewrite skipn_all2; [rewrite firstn_nil; reflexivity|].
    unfold cchars, zlen in *. lia.
Qed.

(* ------------------------------------------------------------------ *)
(* equality: the canonical form is unique                               *)

Fixpoint group (s : list cchar) : list chunk :=
  match s with
  | [] => []
  | (ch, (p, sf)) :: r =>
      match group r with
      | d :: g => if str_eqb p (c_prefix d) then Chunk p (ch :: c_text d) sf :: g
                  else Chunk p [ch] sf :: d :: g
      | [] => [Chunk p [ch] sf]
      end
  end.

Lemma group_chunk p sf r : forall tx x,
  group (cchars_l r) = r ->
  match r with [] => True | d :: _ => p <> c_prefix d end ->
  group (map (fun ch => (ch, (p, sf))) (x :: tx) ++ cchars_l r) = Chunk p (x :: tx) sf :: r.
Proof.
  induction tx as [|y tx IH]; intros x Hr Hd.
  - cbn [map app group]. rewrite Hr. destruct r as [|d g]; [reflexivity|].
    rewrite str_eqb_neq by exact Hd. reflexivity.
  - change (map (fun ch => (ch, (p, sf))) (x :: y :: tx) ++ cchars_l r)
      with ((x, (p, sf)) :: (map (fun ch => (ch, (p, sf))) (y :: tx) ++ cchars_l r)).
    cbn [group]. rewrite (IH y Hr Hd). cbn [c_prefix c_text]. rewrite str_eqb_refl. reflexivity.
Qed.

Lemma group_canon l : canon_l l -> group (cchars_l l) = l.
Proof.
  induction l as [|c r IH]; intros H; [reflexivity|].
  destruct H as (Hc & Hd & Hr). specialize (IH Hr).
  destruct c as [p tx sf]. cbn [c_text] in Hc. destruct tx as [|x tx]; [congruence|].
  rewrite cchars_l_cons. unfold ccs, colour_of. cbn [c_text c_prefix c_suffix].
  apply group_chunk; [exact IH|]. destruct r; [exact I|exact Hd].
Qed.

Lemma canon_unique a b : canon_l a -> canon_l b -> cchars_l a = cchars_l b -> a = b.
Proof. intros Ha Hb E. rewrite <- (group_canon a Ha), <- (group_canon b Hb), E. reflexivity. Qed.

Lemma chunk_eqb_eq a b : chunk_eqb a b = true <-> a = b.
Proof.
  destruct a as [p t s], b as [q u v]. unfold chunk_eqb. cbn [c_prefix c_text c_suffix].
  rewrite !andb_true_iff, !str_eqb_eq. split; [intros [[-> ->] ->]; reflexivity|intros [= -> -> ->]; auto].
Qed.

Lemma chunks_eqb_eq a b : chunks_eqb a b = true <-> a = b.
Proof.
  revert b. induction a as [|x a IH]; intros [|y b]; cbn [chunks_eqb]; split; try congruence; try discriminate.
  - intros H. apply andb_prop in H as [H1 H2]. apply chunk_eqb_eq in H1. apply IH in H2. congruence.
  - intros [= -> ->]. apply andb_true_intro. split; [apply chunk_eqb_eq|apply IH]; reflexivity.
Qed.

Lemma cc_eqb_eq a b : cc_eqb a b = true <-> a = b.
Proof.
  revert b. induction a as [|[x [p s]] a IH]; intros [|[y [q u]] b]; cbn [cc_eqb]; split; try congruence; try discriminate.
  - rewrite !andb_true_iff, !str_eqb_eq, Z.eqb_eq, IH. intros [[[-> ->] ->] ->]. reflexivity.
  - intros [= -> -> -> ->]. rewrite !andb_true_iff, !str_eqb_eq, Z.eqb_eq, IH. auto.
Qed.

(* a == b for two canonical texts: exactly "same characters in the same colours" *)
Lemma text_eq_text_iff a b : inv a -> inv b ->
  (text_eq_text a b = true <-> cchars a = cchars b).
Proof.
  intros [Ha _] [Hb _]. unfold text_eq_text. rewrite chunks_eqb_eq. split.
  - unfold cchars. intros ->. reflexivity.
  - apply canon_unique; assumption.
Qed.

Lemma text_eq_chunk_iff t c : inv t -> (text_eq_chunk t c = true <-> cchars t = ccs c).
Proof.
  intros [Ht _]. unfold text_eq_chunk, cchars.
  destruct (c_text c) as [|x tx] eqn:Ec.
  - assert (ccs c = []) as -> by (apply ccs_nil_iff; exact Ec).
    destruct (chunks t) as [|p [|q r]] eqn:El.
    + cbn. tauto.
    + split.
      * intros H. apply chunk_eqb_eq in H. subst p. destruct Ht as (Hne & _). congruence.
      * cbn [cchars_l flat_map]. rewrite app_nil_r. intros H. apply ccs_nil_iff in H.
        destruct Ht as (Hne & _). congruence.
    + split; [discriminate|]. rewrite cchars_l_cons. intros H. apply app_eq_nil in H as [H _].
      apply ccs_nil_iff in H. destruct Ht as (Hne & _). congruence.
  - assert (canon_l [c]) as Hcc by (cbn; rewrite Ec; repeat split; discriminate).
    assert (cchars_l [c] = ccs c) as Hc1 by (cbn; apply app_nil_r).
    split.
    + destruct (chunks t) as [|p [|q r]]; [cbn; discriminate| |discriminate].
      intros H. apply chunk_eqb_eq in H. subst p. exact Hc1.
    + intros H. rewrite <- Hc1 in H. apply canon_unique in H; [|exact Ht|exact Hcc].
      rewrite H. apply chunk_eqb_eq. reflexivity.
Qed.

Lemma text_eq_str_iff sfx t s : sfx [] = [] -> good sfx t ->
  (text_eq_str t s = true <-> cchars t = plain_cc s).
Proof.
  intros Hs [Hi Hw].
  assert (forall p, wfc sfx p -> is_plain p = true -> colour_of p = plain_col) as Hplain.
  { intros p Hp H. unfold is_plain in H. apply is_nil_true in H. unfold colour_of, plain_col, wfc in *.
    rewrite Hp, H, Hs. reflexivity. }
  assert (plain_cc s = ccs (make_plain s)) as Eps by reflexivity.
  rewrite Eps, <- (text_eq_chunk_iff t (make_plain s) Hi).
  unfold text_eq_str, text_eq_chunk. cbn [make_plain c_text].
  destruct (chunks t) as [|p [|q r]] eqn:El; [tauto| |tauto].
  assert (wfc sfx p) as Hp by (inversion Hw; assumption).
  split.
  - intros H. apply andb_prop in H as [H1 H2]. apply str_eqb_eq in H2.
    specialize (Hplain p Hp H1). apply chunk_eqb_eq. destruct p as [pp pt ps].
    unfold colour_of, plain_col, make_plain in *. cbn [c_prefix c_suffix c_text] in *. congruence.
  - intros H. apply chunk_eqb_eq in H. subst p. cbn. rewrite str_eqb_refl. reflexivity.
Qed.

(* bare chunks *)
Lemma chunk_eqb_iff c d : chunk_eqb c d = true <-> c = d.
Proof. apply chunk_eqb_eq. Qed.
Lemma chunk_eq_str_iff c s : chunk_eq_str c s = true <-> c_prefix c = [] /\ c_text c = s.
Proof. unfold chunk_eq_str, is_plain. rewrite andb_true_iff, is_nil_true, str_eqb_eq. tauto. Qed.

(* ------------------------------------------------------------------ *)
(* CHText.make / _merge_chunks / resize_chunks_list                     *)

Lemma calc_len l : calc_chunks_len l = zlen (cchars_l l).
Proof.
  induction l as [|c l IH]; [reflexivity|].
  cbn [calc_chunks_len fold_right]. fold (calc_chunks_len l).
  rewrite cchars_l_cons, zlen_app, ccs_len, IH. reflexivity.
Qed.

Lemma add_same_ccs sfx a b : wfc sfx a -> wfc sfx b -> c_prefix a = c_prefix b ->
  ccs (add_chunks_same_type a b) = ccs a ++ ccs b /\ wfc sfx (add_chunks_same_type a b).
Proof.
  intros Ha Hb E. unfold ccs, add_chunks_same_type, colour_of, wfc in *. cbn [c_prefix c_text c_suffix].
  rewrite map_app. rewrite Hb, <- E, <- Ha. split; reflexivity.
Qed.

Lemma merge_loop_cchars sfx l : forall cur, wfc sfx cur -> wf_l sfx l ->
  cchars_l (merge_loop cur l) = ccs cur ++ cchars_l l /\ wf_l sfx (merge_loop cur l).
Proof.
  induction l as [|c r IH]; intros cur Hc Hl; cbn [merge_loop].
  - split; [reflexivity|repeat constructor; exact Hc].
  - inversion Hl; subst. destruct (has_same_type cur c) eqn:E.
    + apply has_same_type_true in E. destruct (add_same_ccs sfx cur c) as [E1 W1]; try assumption.
      destruct (IH (add_chunks_same_type cur c) W1) as [E2 W2]; [assumption|].
      split; [|exact W2]. rewrite E2, E1, cchars_l_cons, app_assoc. reflexivity.
    + destruct (IH c) as [E2 W2]; try assumption.
      split; [|constructor; assumption]. rewrite cchars_l_cons, E2, cchars_l_cons. reflexivity.
Qed.

Lemma merge_chunks_cchars sfx l : wf_l sfx l ->
  cchars_l (merge_chunks l) = cchars_l l /\ wf_l sfx (merge_chunks l).
Proof.
  intros Hl. unfold merge_chunks. destruct (need_merge l); [|split; [reflexivity|exact Hl]].
  destruct l as [|c r]; [split; [reflexivity|constructor]|].
  inversion Hl; subst. apply merge_loop_cchars; assumption.
Qed.

Lemma merge_loop_canon l : forall cur, c_text cur <> [] -> nonempty_l l ->
  canon_l (merge_loop cur l) /\ exists y r, merge_loop cur l = y :: r /\ c_prefix y = c_prefix cur.
Proof.
  induction l as [|c r IH]; intros cur Hc Hl; cbn [merge_loop].
  - split; [cbn; auto|]. eexists; eexists; split; reflexivity.
  - inversion Hl; subst. destruct (has_same_type cur c) eqn:E.
    + destruct (IH (add_chunks_same_type cur c)) as [K1 (y & r' & E2 & E3)]; [|assumption|].
      { cbn [add_chunks_same_type c_text]. destruct (c_text cur); [congruence|discriminate]. }
      split; [exact K1|]. exists y, r'. split; [exact E2|exact E3].
    + destruct (IH c) as [K1 (y & r' & E2 & E3)]; try assumption.
      split; [|eexists; eexists; split; reflexivity].
      rewrite E2 in *. change (c_text cur <> [] /\ c_prefix cur <> c_prefix y /\ canon_l (y :: r')).
      split; [exact Hc|]. split; [|exact K1]. rewrite E3. intros Heq.
      apply has_same_type_true in Heq. congruence.
Qed.

Lemma need_merge_false_canon l : need_merge l = false -> nonempty_l l -> canon_l l.
Proof.
  induction l as [|c r IH]; intros Hm Hl; [exact I|].
  inversion Hl; subst. destruct r as [|d r'].
  - cbn. auto.
  - cbn [need_merge] in Hm. apply orb_false_elim in Hm as [K1 K2].
    change (c_text c <> [] /\ c_prefix c <> c_prefix d /\ canon_l (d :: r')).
    split; [assumption|]. split; [|apply IH; assumption].
    intros Heq. apply has_same_type_true in Heq. congruence.
Qed.

Lemma merge_chunks_canon l : nonempty_l l -> canon_l (merge_chunks l).
Proof.
  intros Hl. unfold merge_chunks. destruct (need_merge l) eqn:E.
  - destruct l as [|c r]; [exact I|]. inversion Hl; subst. apply merge_loop_canon; assumption.
  - apply need_merge_false_canon; assumption.
Qed.

(* make: always the right characters, colours and length ... *)
Lemma text_make_refines sfx cs : wf_l sfx cs ->
  cchars (text_make cs) = cchars_l cs /\ scrlen (text_make cs) = zlen (cchars_l cs) /\
  wf_l sfx (chunks (text_make cs)).
Proof.
  intros H. destruct (merge_chunks_cchars sfx cs H) as [E W].
  unfold text_make, cchars. cbn [chunks scrlen]. rewrite calc_len, E. auto.
Qed.
(* ... and canonical when no chunk is empty *)
Lemma text_make_good sfx cs : wf_l sfx cs -> nonempty_l cs ->
  good sfx (text_make cs) /\ cchars (text_make cs) = cchars_l cs.
Proof.
  intros H Hn. destruct (text_make_refines sfx cs H) as (E & L & W).
  split; [|exact E]. split; [|exact W]. split; [apply merge_chunks_canon; exact Hn|].
  rewrite L, E. reflexivity.
Qed.

Lemma rep_len {A} (x : A) n : 0 <= n -> zlen (rep x n) = n.
Proof. intros H. unfold rep, zlen. rewrite repeat_length. lia. Qed.
Lemma rep_nonempty {A} (x : A) n : 0 < n -> rep x n <> [].
Proof. intros H E. pose proof (rep_len x n ltac:(lia)) as L. rewrite E in L. cbn in L. lia. Qed.
Lemma rep_map {A B} (f : A -> B) x n : map f (rep x n) = rep (f x) n.
Proof. unfold rep. induction (Z.to_nat n) as [|k IH]; cbn [repeat map]; [reflexivity|rewrite IH; reflexivity]. Qed.
Lemma ccs_plain s : ccs (make_plain s) = plain_cc s.
Proof. reflexivity. Qed.
Lemma wfc_plain sfx s : sfx [] = [] -> wfc sfx (make_plain s).
Proof. intros H. unfold wfc. cbn. symmetry. exact H. Qed.

Lemma s_fixed_grow (l : list cchar) n : zlen l <= n ->
  s_fixed l n = l ++ rep (ch_space, plain_col) (n - zlen l).
Proof.
  intros H. unfold s_fixed. pose proof (zlen_nonneg l).
  rewrite py_slice_none_some by lia. apply firstn_all2.
  assert (zlen (l ++ rep (ch_space, plain_col) (n - zlen l)) = n) as E
    by (rewrite zlen_app, rep_len by lia; lia).
  unfold zlen in *. lia.
Qed.
Lemma s_fixed_cut (l : list cchar) n : n <= zlen l -> s_fixed l n = py_slice l None (Some n).
Proof.
  intros H. unfold s_fixed. unfold rep. replace (Z.to_nat (n - zlen l)) with 0%nat by lia.
  cbn [repeat]. rewrite app_nil_r. reflexivity.
Qed.

(* resize_chunks_list that does not truncate: pads with one plain chunk *)
Lemma resize_grow sfx cs n : sfx [] = [] -> wf_l sfx cs -> nonempty_l cs -> calc_chunks_len cs <= n ->
  exists l, resize_chunks_list cs n = Ok l /\ wf_l sfx l /\ nonempty_l l /\
            cchars_l l = s_fixed (cchars_l cs) n.
Proof.
  intros Hs Hw Hn Hle. unfold resize_chunks_list. pose proof (calc_len cs) as Hc.
  pose proof (zlen_nonneg (cchars_l cs)).
  destruct (Z.ltb_spec n 0); [lia|].
  destruct (Z.eqb_spec (calc_chunks_len cs) n) as [E|E].
  - exists cs. repeat split; try assumption. rewrite s_fixed_grow by lia.
    replace (n - zlen (cchars_l cs)) with 0 by lia. cbn. rewrite app_nil_r. reflexivity.
  - destruct (Z.ltb_spec (calc_chunks_len cs) n); [|lia].
    eexists. split; [reflexivity|]. repeat split.
    + apply Forall_app. split; [exact Hw|]. repeat constructor. apply wfc_plain. exact Hs.
    + apply Forall_app. split; [exact Hn|]. repeat constructor. cbn [make_plain c_text].
      apply rep_nonempty. lia.
    + rewrite cchars_l_app. cbn [cchars_l flat_map]. rewrite app_nil_r, ccs_plain.
      rewrite s_fixed_grow by lia. unfold plain_cc. rewrite rep_map, Hc. reflexivity.
Qed.

Lemma resize_negative cs n : n < 0 -> resize_chunks_list cs n = Err AssertErr.
Proof. intros H. unfold resize_chunks_list. destruct (Z.ltb_spec n 0); [reflexivity|lia]. Qed.

(* _CHTextChunk.fixed_len *)
Lemma chunk_fixed_parts_ok sfx c n : sfx [] = [] -> wfc sfx c ->
  wf_l sfx (chunk_fixed_parts c n) /\ cchars_l (chunk_fixed_parts c n) = s_fixed (ccs c) n.
Proof.
  intros Hs Hc. unfold chunk_fixed_parts. pose proof (ccs_len c) as Hl.
  destruct (Z.ltb_spec 0 (n - zlen (c_text c))).
  - split; [repeat constructor; [exact Hc|apply wfc_plain; exact Hs]|].
    cbn [cchars_l flat_map]. rewrite app_nil_r, ccs_plain. rewrite s_fixed_grow by lia.
    unfold plain_cc. rewrite rep_map, Hl. reflexivity.
  - destruct (Z.ltb_spec (n - zlen (c_text c)) 0).
    + split; [repeat constructor; exact Hc|]. cbn [cchars_l flat_map]. rewrite app_nil_r.
      rewrite s_fixed_cut by lia. rewrite ccs_clone. unfold ccs. rewrite py_slice_map. reflexivity.
    + split; [repeat constructor; exact Hc|]. cbn [cchars_l flat_map]. rewrite app_nil_r.
      rewrite s_fixed_grow by lia. replace (n - zlen (ccs c)) with 0 by lia. cbn. rewrite app_nil_r. reflexivity.
Qed.
