From AK Require Import LLP.Build.
