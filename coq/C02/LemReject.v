(* C02/LemReject.v -- parser-level corollaries:
   * what LLParser.__init__ (build) puts into the parser record,
   * ll1_reject: a text that is not a sentence of the USER's grammar is never
     accepted -- the contrapositive of C01's parse_sound_build (imported, not
     re-proved): the returned tree would be a derivation. *)
From Coq Require Import ZArith List Bool Lia.
From AK Require Import Common.Err LLP.Base LLP.Factor LLP.Table LLP.Parse LLP.Build.
From AK Require C01.Spec C01.Run C01.Lemmas C01.Props.
From AK Require Import C02.Model C02.Spec C02.LemBase C02.LemTable C02.LemParse.
Import ListNotations.

(* the user's grammar with rule records: what _create_productions makes *)
Definition ugram (ug : list (sym * list (list sym))) : grammar := create_productions ug 0.

Lemma build_fields : forall ug terminals smart start p,
  build ug terminals smart start = Ok p ->
  factorize ug terminals smart = Ok (p_grammar p, p_sfxs p) /\
  p_terminals p = terminals ++ [END_TOKEN] /\ p_start p = start /\
  p_tables p = make_tables (p_grammar p) (p_terminals p) (p_start p).
Proof.
  intros ug terminals smart start p H. unfold build in H. revert H.
  try (destruct (existsb has_dunder terminals || has_dunder start); [intro; discriminate|]).
  destruct (factorize ug terminals smart) as [[g sfxs]|e]; simpl; [|intro; discriminate].
  destruct (rec_check g (terminals ++ [END_TOKEN]) _) as [u|e]; simpl; [|intro; discriminate].
  intro H. inversion H; subst. simpl. auto.
Qed.

(* ---------- the user's productions as rules ---------- *)
Lemma mk_rules_In : forall s prods n p, In p prods ->
  exists r, In r (fst (mk_rules s prods n)) /\ rprod r = p.
Proof.
  intros s prods. induction prods as [|q prods IH]; intros n p H; [contradiction|].
  simpl. destruct (mk_rules s prods (n + 1)) as [rs n'] eqn:E. simpl.
  destruct H as [H|H].
  - subst. exists (mkRule s p n). split; [left; reflexivity|reflexivity].
  - destruct (IH (n + 1)%Z p H) as [r [Hr Hp]]. rewrite E in Hr. simpl in Hr.
    exists r. split; [right; exact Hr|exact Hp].
Qed.

Lemma uprods_rules : forall ug m n p, In p (C01.Spec.uprods ug n) ->
  exists r, In r (grules (create_productions ug m) n) /\ rprod r = p.
Proof.
  induction ug as [|[s prods] ug IH]; intros m n p H; [contradiction|].
  simpl in H. simpl. destruct (mk_rules s prods m) as [rs m'] eqn:E.
  unfold grules. simpl. destruct (sym_eqb s n).
  - destruct (mk_rules_In s prods m p H) as [r [Hr Hp]]. rewrite E in Hr. exists r. auto.
  - apply (IH m' n p H).
Qed.

Lemma valid_vtree : forall ug terms t,
  C01.Spec.valid_tree ug t -> C01.Spec.kinds_ok (fun s => mem s terms) t ->
  vtree (ugram ug) terms t.
Proof.
  intros ug terms.
  apply (tree_ind' (fun t => C01.Spec.valid_tree ug t -> C01.Spec.kinds_ok (fun s => mem s terms) t ->
                             vtree (ugram ug) terms t)).
  - intros n v sp _ K. exact K.
  - intros n ch sp IH V K.
    apply C01.Lemmas.valid_tree_node in V. destruct V as [V1 V2].
    apply C01.Lemmas.kinds_ok_node in K. destruct K as [K1 K2].
    simpl. split; [exact K1|]. split.
    + destruct (uprods_rules ug 0%Z n _ V1) as [r [Hr Hp]]. exists r. auto.
    + apply (vtree_all_Forall (ugram ug) terms). clear V1 K1.
      induction ch as [|c ch IHc]; constructor.
      * inversion IH; inversion V2; inversion K2; subst. auto.
      * inversion IH; inversion V2; inversion K2; subst. auto.
  Qed.

Lemma leaves_same : forall t, C01.Spec.leaves t = leaves t.
Proof.
  apply (tree_ind' (fun t => C01.Spec.leaves t = leaves t)).
  - reflexivity.
  - intros n ch sp IH. simpl. induction IH as [|c ch H _ IHc]; simpl; auto; try (rewrite H, IHc; reflexivity).
Qed.

Theorem parse_ok_deriv : forall ug terminals smart start p k body e t,
  build ug terminals smart start = Ok p ->
  C01.Run.hyps_ok ug start p = true ->
  (forall b, In b body -> tname b <> END_TOKEN) ->
  p_parse p k (body ++ [e]) = Ok t ->
  Deriv (ugram ug) (p_terminals p) start (erase t) (map tok_pair body).
Proof.
  intros ug terminals smart start p k body e t HB HH Hbody HP.
  destruct (C01.Props.parse_sound_build ug terminals smart start p k body e t HB HH Hbody HP)
    as [Hname [Hvalid [_ [Hkinds Hleaves]]]].
  pose proof (vtree_deriv (ugram ug) (p_terminals p) t (valid_vtree ug (p_terminals p) t Hvalid Hkinds)) as D.
  rewrite Hname in D. rewrite <- leaves_same in D. rewrite Hleaves in D. exact D.
Qed.

Theorem ll1_reject_l : forall ug terminals smart start p k body e t,
  build ug terminals smart start = Ok p ->
  C01.Run.hyps_ok ug start p = true ->
  (forall b, In b body -> tname b <> END_TOKEN) ->
  ~ in_language (ugram ug) (p_terminals p) start (map tok_pair body) ->
  p_parse p k (body ++ [e]) <> Ok t.
Proof.
  intros ug terminals smart start p k body e t HB HH Hbody Hnot HP.
  apply Hnot. exists (erase t). apply (parse_ok_deriv ug terminals smart start p k body e t); auto.
Qed.

(* the same without the validator hypothesis: C01.parse_sound_constructor needs only build = Ok p *)
Theorem parse_ok_deriv_c : forall ug terminals smart start p k body e t,
  build ug terminals smart start = Ok p ->
  (forall b, In b body -> tname b <> END_TOKEN) ->
  p_parse p k (body ++ [e]) = Ok t ->
  Deriv (ugram ug) (p_terminals p) start (erase t) (map tok_pair body).
Proof.
  intros ug terminals smart start p k body e t HB Hbody HP.
  destruct (C01.Props.parse_sound_constructor ug terminals smart start p k body e t HB Hbody HP)
    as [Hname [Hvalid [_ [Hkinds Hleaves]]]].
  pose proof (vtree_deriv (ugram ug) (p_terminals p) t (valid_vtree ug (p_terminals p) t Hvalid Hkinds)) as D.
  rewrite Hname in D. rewrite <- leaves_same in D. rewrite Hleaves in D. exact D.
Qed.

Theorem ll1_reject_c : forall ug terminals smart start p k body e t,
  build ug terminals smart start = Ok p ->
  (forall b, In b body -> tname b <> END_TOKEN) ->
  ~ in_language (ugram ug) (p_terminals p) start (map tok_pair body) ->
  p_parse p k (body ++ [e]) <> Ok t.
Proof.
  intros ug terminals smart start p k body e t HB Hbody Hnot HP.
  apply Hnot. exists (erase t). apply (parse_ok_deriv_c ug terminals smart start p k body e t); auto.
Qed.

(* ---------- ll1_complete for a parser made by the constructor ---------- *)
Theorem ll1_complete_build : forall ug terminals smart start p body e d,
  build ug terminals smart start = Ok p ->
  p_sfxs p = [] ->
  wf_grammar (p_grammar p) (p_terminals p) (p_start p) = true ->
  is_ambiguous (p_tables p) = false ->
  tname e = END_TOKEN ->
  Deriv (p_grammar p) (p_terminals p) start d (map tok_pair body) ->
  exists k0, forall k, (k0 <= k)%nat ->
    exists t, p_parse p k (body ++ [e]) = Ok t /\ erase t = d.
Proof.
  intros ug terminals smart start p body e d HB Hs Hwf HA He HD.
  destruct (build_fields _ _ _ _ _ HB) as [_ [_ [Hst HT]]].
  unfold p_parse. rewrite Hs. rewrite HT. rewrite HT in HA. rewrite Hst in *.
  apply (ll1_complete_l (p_grammar p) (p_terminals p) start (wf_grammar_wf _ _ _ Hwf) HA
           (body ++ [e]) (map tok_pair body) d body e); auto.
Qed.

Theorem ll1_reported_build : forall ug terminals smart start p,
  build ug terminals smart start = Ok p ->
  wf_grammar (p_grammar p) (p_terminals p) (p_start p) = true ->
  (LL1 (p_grammar p) (p_terminals p) (p_start p) <-> is_ambiguous (p_tables p) = false).
Proof.
  intros ug terminals smart start p HB Hwf.
  destruct (build_fields _ _ _ _ _ HB) as [_ [_ [_ HT]]]. rewrite HT.
  pose proof (wf_grammar_wf _ _ _ Hwf) as W. split.
  - apply ll1_not_ambiguous_l. exact W.
  - apply not_ambiguous_ll1_l. exact W.
Qed.
