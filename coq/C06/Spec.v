(* C06/Spec.v -- the property statement as a Prop over (history, report), an executable
   checker [report_okb] and the proof that the checker decides exactly the statement
   (on acyclic histories).  The checker is evaluated by Run.v on every correspondence
   case and is used for the refutation witness of the open finding. *)
From Coq Require Import ZArith List Bool Lia Arith.
From AK Require Import Common.Sx Common.Err gen.C06_Consts C06.Model C06.Lemmas.
Import ListNotations.
Open Scope nat_scope.

(* ------------------------------------------------------------------ *)
(* reachability in the commit graph                                     *)

Definition parents_of (h : history) (c : nat) : list nat := c_parents (get_commit h c).

Inductive reach (h : history) : nat -> nat -> Prop :=
| reach_refl a : reach h a a
| reach_step a p b : In p (parents_of h a) -> reach h p b -> reach h a b.

(* parents precede children (commit numbers are topological) *)
Definition acyclic (h : history) : Prop := forall c p, In p (parents_of h c) -> p < c.

Definition acyclicb (h : history) : bool :=
  forallb (fun c => forallb (fun p => p <? c) (parents_of h c)) (seq 0 (length (h_commits h))).

Fixpoint reachb_f (h : history) (fuel : nat) (a b : nat) : bool :=
  (a =? b) || match fuel with
              | O => false
              | S f => existsb (fun p => reachb_f h f p b) (parents_of h a)
              end.
Definition reachb (h : history) (a b : nat) : bool := reachb_f h a a b.

Lemma acyclicb_spec h : acyclicb h = true -> acyclic h.
Proof.
  unfold acyclicb, acyclic. rewrite forallb_forall. intros H c p Hp.
  destruct (lt_dec c (length (h_commits h))) as [Hc|Hc].
  - assert (In c (seq 0 (length (h_commits h)))) as Hin by (apply in_seq; lia).
    specialize (H c Hin). rewrite forallb_forall in H. apply Nat.ltb_lt, H, Hp.
  - exfalso. unfold parents_of, get_commit in Hp. rewrite nth_overflow in Hp by lia. exact Hp.
Qed.

Lemma reachb_f_sound h fuel : forall a b, reachb_f h fuel a b = true -> reach h a b.
Proof.
  induction fuel as [|f IH]; intros a b; cbn [reachb_f]; rewrite orb_true_iff.
  - intros [E|E]; [|discriminate]. apply Nat.eqb_eq in E. subst. constructor.
  - intros [E|E]; [apply Nat.eqb_eq in E; subst; constructor|].
    apply existsb_exists in E as (p & Hp & Hr). eapply reach_step; [exact Hp|apply IH, Hr].
Qed.

Lemma reach_le h : acyclic h -> forall a b, reach h a b -> b <= a.
Proof. intros Ha a b R. induction R as [a|a p b Hp _ IH]; [lia|]. specialize (Ha a p Hp). lia. Qed.

Lemma reachb_f_complete h : acyclic h -> forall fuel a b, a <= fuel -> reach h a b -> reachb_f h fuel a b = true.
Proof.
  intros Ha fuel. induction fuel as [|f IH]; intros a b Hle R; cbn [reachb_f]; apply orb_true_iff.
  - inversion R as [|? p ? Hp _]; subst; [left; apply Nat.eqb_refl|]. specialize (Ha a p Hp). lia.
  - inversion R as [|? p ? Hp Hr]; subst; [left; apply Nat.eqb_refl|]. right.
    apply existsb_exists. exists p. split; [exact Hp|]. apply IH; [|exact Hr]. specialize (Ha a p Hp). lia.
Qed.

Lemma reachb_spec h : acyclic h -> forall a b, reachb h a b = true <-> reach h a b.
Proof.
  intros Ha a b. split; [apply reachb_f_sound|]. apply reachb_f_complete; [exact Ha|lia].
Qed.

Lemma reach_trans h a b c : reach h a b -> reach h b c -> reach h a c.
Proof. induction 1; [auto|]. intros. eapply reach_step; eauto. Qed.

(* ------------------------------------------------------------------ *)
(* small boolean reflections                                            *)

Lemma nmem_In x l : nmem x l = true <-> In x l.
Proof.
  unfold nmem. rewrite existsb_exists. split.
  - intros (y & Hy & E). apply Nat.eqb_eq in E. subst. exact Hy.
  - intros H. exists x. split; [exact H|apply Nat.eqb_refl].
Qed.

Lemma nmem_false x l : nmem x l = false <-> ~ In x l.
Proof. rewrite <- nmem_In. destruct (nmem x l); split; intros; congruence. Qed.

Fixpoint nodupb (l : list nat) : bool :=
  match l with [] => true | x :: r => negb (nmem x r) && nodupb r end.

Lemma nodupb_spec l : nodupb l = true <-> NoDup l.
Proof.
  induction l as [|x r IH]; cbn [nodupb]; [split; [constructor|reflexivity]|].
  rewrite andb_true_iff, negb_true_iff, nmem_false, IH. split.
  - intros [H1 H2]. constructor; assumption.
  - intros H. inversion H; subst. split; assumption.
Qed.

Lemma bnum_eqb_spec a b : bnum_eqb a b = true <-> a = b.
Proof.
  destruct a as [[[a1 a2] a3] a4], b as [[[b1 b2] b3] b4]. cbn [bnum_eqb].
  rewrite !andb_true_iff, !Z.eqb_eq. split; [intros [[[-> ->] ->] ->]; reflexivity|intros [= -> -> -> ->]; auto].
Qed.

(* ------------------------------------------------------------------ *)
(* the statement for one branch                                         *)

Section Branch.
  Variable h : history.
  Variable lower : list nat.      (* heads of the lower-sorted branches *)
  Variable head : nat.            (* head of this branch *)
  Variable builds : list obuild.  (* what the report shows for this branch *)

  Definition tagged (c : nat) : Prop := c_tags (get_commit h c) <> [].
  Definition taggedb (c : nat) : bool := nonempty (c_tags (get_commit h c)).

  (* c belongs to a lower-sorted branch *)
  Definition in_lower (c : nat) : Prop := exists hd, In hd lower /\ reach h hd c.
  Definition in_lowerb (c : nat) : bool := existsb (fun hd => reachb h hd c) lower.

  (* builds of the branch: tagged build commits and the head commit that are not
     already part of a lower-sorted branch *)
  Definition is_build_of (b : nat) : Prop :=
    reach h head b /\ (tagged b \/ b = head) /\ ~ in_lower b.
  Definition is_build_ofb (b : nat) : bool :=
    reachb h head b && (taggedb b || (b =? head)) && negb (in_lowerb b).

  Definition normal (ob : obuild) : bool := negb (Z.eqb (ob_type ob) FAKE_NOT_MERGED).
  Definition normal_listed : list nat := flat_map (fun ob => if normal ob then ob_listed ob else []) builds.
  Definition nm_listed : list nat := flat_map (fun ob => if normal ob then [] else ob_listed ob) builds.

  (* (A) a commit listed under a build: it matches, the build is a build of this branch that
     contains it, and no earlier build of the branch contains it *)
  Definition entry_ok (ob : obuild) (c : nat) : Prop :=
    matches h c = true /\
    exists b, ob_commit ob = Some b /\ is_build_of b /\ reach h b c /\
              forall b', is_build_of b' -> reach h b b' -> reach h b' c -> b' = b.
  Definition partA : Prop :=
    forall ob c, In ob builds -> normal ob = true -> In c (ob_listed ob) -> entry_ok ob c.

  (* (B) a matching commit reachable from the head: at most once, exactly once whenever a
     build of the branch contains it, never under 'not merged' *)
  Definition partB : Prop :=
    forall c, matches h c = true -> reach h head c ->
      count_occ Nat.eq_dec normal_listed c <= 1 /\
      ((exists b, is_build_of b /\ reach h b c) -> count_occ Nat.eq_dec normal_listed c = 1) /\
      ~ In c nm_listed.

  (* (C) 'not merged' lists exactly the matching commits of lower-sorted branches that are not
     reachable from this head, each once *)
  Definition partC : Prop :=
    (forall c, In c nm_listed <-> matches h c = true /\ in_lower c /\ ~ reach h head c) /\
    NoDup nm_listed.

  (* (D) an untagged head shows as 'not built' *)
  Definition partD : Prop :=
    forall ob, In ob builds -> normal ob = true -> ob_commit ob = Some head -> ~ tagged head ->
               ob_num ob = bn_not_built.

  Definition branch_ok : Prop := partA /\ partB /\ partC /\ partD.

  (* ---- the checker ---- *)
  Definition entry_okb (ob : obuild) (c : nat) : bool :=
    matches h c &&
    match ob_commit ob with
    | None => false
    | Some b => is_build_ofb b && reachb h b c &&
                forallb (fun b' => negb (is_build_ofb b' && reachb h b b' && reachb h b' c) || (b' =? b))
                        (seq 0 (S b))
    end.
  Definition partAb : bool :=
    forallb (fun ob => negb (normal ob) || forallb (entry_okb ob) (ob_listed ob)) builds.

  Definition partBb : bool :=
    forallb (fun c =>
      negb (matches h c && reachb h head c) ||
      let k := count_occ Nat.eq_dec normal_listed c in
      (k <=? 1) &&
      (negb (existsb (fun b => is_build_ofb b && reachb h b c) (seq 0 (S head))) || (k =? 1)) &&
      negb (nmem c nm_listed)) (seq 0 (S head)).

  Definition nm_should (c : nat) : bool := matches h c && in_lowerb c && negb (reachb h head c).
  Definition partCb : bool :=
    forallb nm_should nm_listed &&
    forallb (fun c => negb (nm_should c) || nmem c nm_listed) (seq 0 (S (list_max lower))) &&
    nodupb nm_listed.

  Definition opt_is (o : option nat) (x : nat) : bool := match o with Some y => y =? x | None => false end.
  Definition partDb : bool :=
    forallb (fun ob => negb (normal ob && opt_is (ob_commit ob) head && negb (taggedb head))
                       || bnum_eqb (ob_num ob) bn_not_built) builds.

  Definition branch_okb : bool := partAb && partBb && partCb && partDb.

  (* ---- checker = statement ---- *)
  Hypothesis Hacyc : acyclic h.

  Lemma taggedb_spec c : taggedb c = true <-> tagged c.
  Proof. unfold taggedb, tagged. destruct (c_tags (get_commit h c)); cbn; split; congruence. Qed.

  Lemma in_lowerb_spec c : in_lowerb c = true <-> in_lower c.
  Proof.
    unfold in_lowerb, in_lower. rewrite existsb_exists. split; intros (hd & H1 & H2); exists hd; split; auto;
      apply (reachb_spec h Hacyc); exact H2.
  Qed.

  Lemma is_build_ofb_spec b : is_build_ofb b = true <-> is_build_of b.
  Proof.
    unfold is_build_ofb, is_build_of.
    rewrite !andb_true_iff, orb_true_iff, negb_true_iff, (reachb_spec h Hacyc), taggedb_spec, Nat.eqb_eq.
    rewrite <- in_lowerb_spec. destruct (in_lowerb b); intuition congruence.
  Qed.

  Lemma entry_okb_spec ob c : entry_okb ob c = true <-> entry_ok ob c.
  Proof.
    unfold entry_okb, entry_ok. rewrite andb_true_iff. destruct (ob_commit ob) as [b|].
    - rewrite !andb_true_iff, is_build_ofb_spec, (reachb_spec h Hacyc), forallb_forall. split.
      + intros (Hm & (Hb & Hr) & Hmin). split; [exact Hm|]. exists b. repeat split; auto.
        * apply Hb. * apply Hb. * apply Hb.
        * intros b' Hb' R1 R2. pose proof (reach_le h Hacyc _ _ R1) as Hle.
          assert (In b' (seq 0 (S b))) as Hin by (apply in_seq; lia).
          specialize (Hmin b' Hin). apply orb_true_iff in Hmin as [Hn|He]; [|apply Nat.eqb_eq, He].
          apply negb_true_iff in Hn. exfalso.
          assert (is_build_ofb b' && reachb h b b' && reachb h b' c = true) as Ht.
          { rewrite !andb_true_iff, is_build_ofb_spec, !(reachb_spec h Hacyc). auto. }
          congruence.
      + intros (Hm & b0 & [= <-] & Hb & Hr & Hmin). split; [exact Hm|]. split; [split; assumption|].
        intros b' _. destruct (is_build_ofb b' && reachb h b b' && reachb h b' c) eqn:E; [|reflexivity].
        cbn [negb orb]. apply Nat.eqb_eq.
        rewrite !andb_true_iff, is_build_ofb_spec, !(reachb_spec h Hacyc) in E. destruct E as [[E1 E2] E3].
        apply Hmin; assumption.
    - split; [intros [_ H]; discriminate|intros (_ & b & H & _); discriminate].
  Qed.

  Lemma partAb_spec : partAb = true <-> partA.
  Proof.
    unfold partAb, partA. rewrite forallb_forall. split.
    - intros H ob c Hob Hn Hc. specialize (H ob Hob). rewrite Hn in H. cbn [negb orb] in H.
      rewrite forallb_forall in H. apply entry_okb_spec, H, Hc.
    - intros H ob Hob. destruct (normal ob) eqn:Hn; [|reflexivity]. cbn [negb orb].
      apply forallb_forall. intros c Hc. apply entry_okb_spec. apply H; assumption.
  Qed.

  Lemma exists_build_spec c :
    existsb (fun b => is_build_ofb b && reachb h b c) (seq 0 (S head)) = true <->
    exists b, is_build_of b /\ reach h b c.
  Proof.
    rewrite existsb_exists. split.
    - intros (b & _ & Hb). rewrite andb_true_iff, is_build_ofb_spec, (reachb_spec h Hacyc) in Hb. eauto.
    - intros (b & Hb & Hr). exists b. split.
      + apply in_seq. destruct Hb as (R & _). pose proof (reach_le h Hacyc _ _ R). lia.
      + rewrite andb_true_iff, is_build_ofb_spec, (reachb_spec h Hacyc). auto.
  Qed.

  Lemma partBb_spec : partBb = true <-> partB.
  Proof.
    unfold partBb, partB. rewrite forallb_forall. split.
    - intros H c Hm Hr. pose proof (reach_le h Hacyc _ _ Hr) as Hle.
      assert (In c (seq 0 (S head))) as Hin by (apply in_seq; lia).
      specialize (H c Hin). rewrite Hm, (proj2 (reachb_spec h Hacyc head c) Hr) in H. cbn [andb negb orb] in H.
      rewrite !andb_true_iff, orb_true_iff, !negb_true_iff, Nat.leb_le, Nat.eqb_eq, nmem_false in H.
      destruct H as [[H1 H2] H3]. split; [exact H1|]. split; [|exact H3].
      intros Hex. destruct H2 as [H2|H2]; [|exact H2]. apply exists_build_spec in Hex. congruence.
    - intros H c _. destruct (matches h c && reachb h head c) eqn:E; [|reflexivity]. cbn [negb orb].
      apply andb_true_iff in E as [Hm Hr]. apply (reachb_spec h Hacyc) in Hr.
      destruct (H c Hm Hr) as (H1 & H2 & H3).
      rewrite !andb_true_iff, orb_true_iff, !negb_true_iff, Nat.leb_le, Nat.eqb_eq, nmem_false.
      split; [split; [exact H1|]|exact H3].
      destruct (existsb _ _) eqn:Ex; [right; apply H2, exists_build_spec, Ex|left; reflexivity].
  Qed.

  Lemma nm_should_spec c : nm_should c = true <-> matches h c = true /\ in_lower c /\ ~ reach h head c.
  Proof.
    unfold nm_should. rewrite !andb_true_iff, negb_true_iff, in_lowerb_spec, <- (reachb_spec h Hacyc).
    destruct (reachb h head c); intuition congruence.
  Qed.

  Lemma in_lower_bound c : in_lower c -> c <= list_max lower.
  Proof.
    intros (hd & Hin & R). pose proof (reach_le h Hacyc _ _ R).
    assert (hd <= list_max lower); [|lia].
    pose proof (proj1 (list_max_le lower (list_max lower)) (le_n _)) as F.
    rewrite Forall_forall in F. apply F, Hin.
  Qed.

  Lemma partCb_spec : partCb = true <-> partC.
  Proof.
    unfold partCb, partC. rewrite !andb_true_iff, nodupb_spec, !forallb_forall. split.
    - intros [[H1 H2] H3]. split; [|exact H3]. intros c. rewrite <- nm_should_spec. split; [apply H1|].
      intros Hs. pose proof (proj1 (nm_should_spec c) Hs) as (_ & Hl & _). apply in_lower_bound in Hl.
      assert (In c (seq 0 (S (list_max lower)))) as Hin by (apply in_seq; lia).
      specialize (H2 c Hin). rewrite Hs in H2. cbn [negb orb] in H2. apply nmem_In, H2.
    - intros [H1 H2]. split; [split|exact H2].
      + intros c Hc. apply nm_should_spec, H1, Hc.
      + intros c _. destruct (nm_should c) eqn:E; [|reflexivity]. cbn [negb orb].
        apply nmem_In, H1, nm_should_spec, E.
  Qed.

  Lemma partDb_spec : partDb = true <-> partD.
  Proof.
    unfold partDb, partD. rewrite forallb_forall. split.
    - intros H ob Hob Hn Hc Ht. specialize (H ob Hob). rewrite Hn, Hc in H. cbn [opt_is] in H.
      rewrite Nat.eqb_refl in H. destruct (taggedb head) eqn:E; [apply taggedb_spec in E; contradiction|].
      cbn [andb negb orb] in H. apply bnum_eqb_spec, H.
    - intros H ob Hob. destruct (normal ob && opt_is (ob_commit ob) head && negb (taggedb head)) eqn:E; [|reflexivity].
      cbn [negb orb]. apply bnum_eqb_spec. rewrite !andb_true_iff, negb_true_iff in E. destruct E as [[E1 E2] E3].
      apply H; [exact Hob|exact E1| |].
      + unfold opt_is in E2. destruct (ob_commit ob); [|discriminate]. apply Nat.eqb_eq in E2. congruence.
      + intros Ht. apply taggedb_spec in Ht. congruence.
  Qed.

  Lemma branch_okb_spec : branch_okb = true <-> branch_ok.
  Proof.
    unfold branch_okb, branch_ok. rewrite !andb_true_iff, partAb_spec, partBb_spec, partCb_spec, partDb_spec. tauto.
  Qed.
End Branch.

(* ------------------------------------------------------------------ *)
(* the statement for a whole report: [brs] are the branches in sort     *)
(* (= processing) order, every branch that was read, empty ones too     *)

Fixpoint report_ok_from (h : history) (lower : list nat) (brs : list obranch) : Prop :=
  match brs with
  | [] => True
  | br :: r => branch_ok h lower (obr_head br) (obr_builds br) /\ report_ok_from h (lower ++ [obr_head br]) r
  end.
Definition report_ok (h : history) (brs : list obranch) : Prop := report_ok_from h [] brs.

Fixpoint report_okb_from (h : history) (lower : list nat) (brs : list obranch) : bool :=
  match brs with
  | [] => true
  | br :: r => branch_okb h lower (obr_head br) (obr_builds br) && report_okb_from h (lower ++ [obr_head br]) r
  end.
Definition report_okb (h : history) (brs : list obranch) : bool := report_okb_from h [] brs.

Lemma report_okb_spec h brs : acyclic h -> (report_okb h brs = true <-> report_ok h brs).
Proof.
  intros Ha. unfold report_okb, report_ok. generalize (@nil nat).
  induction brs as [|br r IH]; intros lower; cbn [report_okb_from report_ok_from]; [tauto|].
  rewrite andb_true_iff, (branch_okb_spec h lower _ _ Ha), IH. tauto.
Qed.

(* commit times within the window outside which a branch is treated as obsolete *)
Definition in_window (h : history) : Prop :=
  forall a b, (a < length (h_commits h))%nat -> (b < length (h_commits h))%nat ->
              (c_time (get_commit h a) <= c_time (get_commit h b) + obsolete_cutoff)%Z.

Definition heads_exist (h : history) : Prop :=
  forall n hd, In (n, hd) (h_refs h) -> hd < length (h_commits h).

(* the property, for a history: the model's report satisfies the statement *)
Definition property_holds (h : history) : Prop :=
  exists l, report h = Ok l /\ report_ok h (all_branches h).
