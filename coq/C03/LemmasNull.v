(* C03/LemmasNull.v -- LLP/Table.v:nullables (model of _get_nullables) is
   exactly the inductive set Nullable of C03/Spec.v, so the recursion check is
   handed an exact list.  (C02 proves the same about its own formulation of
   Nullable; this copy keeps C03 free of a dependency on coq/C02.) *)
From Coq Require Import ZArith List Bool Lia Arith.
From AK Require Import Common.Err LLP.Base LLP.Table C03.Spec C03.LemmasRC C03.LemmasInst.
Import ListNotations.
Open Scope nat_scope.

Definition nstep_f (S0 : list sym) (acc : list sym) (kv : sym * list rule) : list sym :=
  let '(nt, rules) := kv in
  if mem nt acc then acc
  else if existsb (fun r => prod_all_in S0 (rprod r)) rules then acc ++ [nt] else acc.

Lemma null_step_unfold : forall g S0, null_step g S0 = fold_left (nstep_f S0) g S0.
Proof.
  intros g S0. unfold null_step. f_equal.
Qed.

Lemma nstep_ext : forall S0 l acc, exists e, fold_left (nstep_f S0) l acc = acc ++ e.
Proof.
  induction l as [|[nt rules] l IH]; intro acc; simpl.
  - exists []. rewrite app_nil_r. reflexivity.
  - destruct (mem nt acc).
    + apply IH.
    + destruct (existsb _ rules).
      * destruct (IH (acc ++ [nt])) as [e He]. exists ([nt] ++ e). rewrite He, app_assoc. reflexivity.
      * apply IH.
Qed.

Lemma nstep_mono : forall S0 l acc x, In x acc -> In x (fold_left (nstep_f S0) l acc).
Proof.
  intros S0 l acc x H. destruct (nstep_ext S0 l acc) as [e He]. rewrite He. apply in_app_iff. auto.
Qed.

Lemma nstep_inv : forall (P : sym -> Prop) S0 l acc,
  (forall nt rules, In (nt, rules) l -> existsb (fun r => prod_all_in S0 (rprod r)) rules = true -> P nt) ->
  (forall x, In x acc -> P x) ->
  forall x, In x (fold_left (nstep_f S0) l acc) -> P x.
Proof.
  induction l as [|[nt rules] l IH]; intros acc Hl Hacc x Hx; simpl in Hx; auto.
  assert (Hl' : forall nt0 rules0, In (nt0, rules0) l ->
                existsb (fun r => prod_all_in S0 (rprod r)) rules0 = true -> P nt0).
  { intros. eapply Hl; eauto. right; auto. }
  destruct (mem nt acc).
  - eapply IH; eauto.
  - destruct (existsb (fun r => prod_all_in S0 (rprod r)) rules) eqn:E.
    + eapply (IH (acc ++ [nt])); eauto. intros y Hy. apply in_app_iff in Hy.
      destruct Hy as [Hy|[<-|[]]]; auto. eapply Hl; eauto. left; auto.
    + eapply IH; eauto.
Qed.

Lemma NoDup_snoc : forall (l : list sym) x, NoDup l -> ~ In x l -> NoDup (l ++ [x]).
Proof.
  induction l as [|a l IH]; simpl; intros x H Hn.
  - constructor; [intros []|constructor].
  - inversion H; subst. constructor.
    + intro Hin. apply in_app_iff in Hin. destruct Hin as [Hin|[Hin|[]]]; auto.
    + apply IH; auto.
Qed.

Lemma nstep_NoDup : forall S0 l acc, NoDup acc -> NoDup (fold_left (nstep_f S0) l acc).
Proof.
  induction l as [|[nt rules] l IH]; intros acc H; simpl; auto.
  destruct (mem nt acc) eqn:E; auto.
  destruct (existsb _ rules); auto. apply IH.
  apply NoDup_snoc; auto. intro Hin. apply mem_In in Hin. congruence.
Qed.

Lemma nstep_complete : forall S0 l acc nt rules r,
  In (nt, rules) l -> In r rules -> prod_all_in S0 (rprod r) = true ->
  In nt (fold_left (nstep_f S0) l acc).
Proof.
  induction l as [|[nt0 rules0] l IH]; intros acc nt rules r Hin Hr Hp; [contradiction|].
  simpl. destruct Hin as [He|Hin].
  - inversion He; subst. destruct (mem nt acc) eqn:E.
    + apply nstep_mono. apply mem_In; auto.
    + assert (existsb (fun r0 => prod_all_in S0 (rprod r0)) rules = true) as Hex.
      { apply existsb_exists. exists r. auto. }
      rewrite Hex. apply nstep_mono. apply in_app_iff. right. left; auto.
  - destruct (mem nt0 acc); [eapply IH; eauto|].
    destruct (existsb _ rules0); eapply IH; eauto.
Qed.

Lemma prod_all_in_spec : forall S0 p, prod_all_in S0 p = true <-> (forall s, In s p -> In s S0).
Proof.
  intros S0 p. unfold prod_all_in. rewrite forallb_forall. split; intros H s Hs.
  - apply mem_In. auto.
  - apply mem_In. auto.
Qed.


Lemma iter_fix : forall (A : Type) (f : A -> A) n x, f x = x -> iter n f x = x.
Proof. induction n as [|n IH]; intros x H; simpl; auto. rewrite H. apply IH; auto. Qed.

Section Null.
  Variable g : grammar.
  Hypothesis keys_nodup : NoDup (gkeys g).
  Notation R := (grules g).

  Definition null_inv (S0 : list sym) : Prop :=
    NoDup S0 /\ (forall s, In s S0 -> In s (gkeys g)) /\ (forall s, In s S0 -> Nullable R s).

  Lemma null_step_inv : forall S0, null_inv S0 -> null_inv (null_step g S0).
  Proof.
    intros S0 [H1 [H2 H3]]. rewrite null_step_unfold. split; [|split].
    - apply nstep_NoDup; auto.
    - apply (nstep_inv (fun s => In s (gkeys g)) S0 g S0); auto.
      intros nt rules Hin _. change (In (fst (nt, rules)) (map fst g)). apply in_map. exact Hin.
    - apply (nstep_inv (Nullable R) S0 g S0); auto.
      intros nt rules Hin Hex. apply existsb_exists in Hex. destruct Hex as [r [Hr Hp]].
      apply Nullable_rule with r.
      + unfold grules. rewrite (glookup_NoDup g nt rules keys_nodup Hin). exact Hr.
      + apply Forall_forall. intros s Hs. apply H3. apply (proj1 (prod_all_in_spec S0 (rprod r)) Hp). exact Hs.
  Qed.

  Lemma null_step_progress : forall S0, null_step g S0 = S0 \/ length S0 < length (null_step g S0).
  Proof.
    intro S0. rewrite null_step_unfold. destruct (nstep_ext S0 g S0) as [e He]. rewrite He.
    destruct e as [|x e].
    - left. apply app_nil_r.
    - right. rewrite app_length. simpl. lia.
  Qed.

  Lemma null_inv_length : forall S0, null_inv S0 -> length S0 <= length g.
  Proof.
    intros S0 [H1 [H2 _]]. unfold gkeys in H2. rewrite <- (map_length fst g).
    apply NoDup_incl_length; auto.
  Qed.

  Lemma iter_reaches_fixpoint : forall n S0, null_inv S0 -> length g - length S0 < n ->
    null_inv (iter n (null_step g) S0) /\
    null_step g (iter n (null_step g) S0) = iter n (null_step g) S0.
  Proof.
    induction n as [|n IH]; intros S0 Hi Hlt; [lia|].
    simpl. destruct (null_step_progress S0) as [E|Hl].
    - rewrite E. rewrite iter_fix by exact E. split; auto.
    - pose proof (null_step_inv S0 Hi) as Hi'. pose proof (null_inv_length _ Hi').
      apply IH; auto. lia.
  Qed.

  Lemma nullables_fix : null_inv (nullables g) /\ null_step g (nullables g) = nullables g.
  Proof.
    unfold nullables. apply iter_reaches_fixpoint.
    - split; [constructor|split]; intros s [].
    - simpl. lia.
  Qed.

  Lemma nullables_exact_l : nulls_exact g (nullables g).
  Proof.
    intro s. rewrite mem_In. destruct nullables_fix as [[_ [_ Hs]] Hfix]. split; [apply Hs|].
    revert s. apply (Nullable_ind' R (fun s => In s (nullables g))). intros A r Hin _ IH.
    destruct (grules_In g A r Hin) as [rules [H1 H2]].
    rewrite <- Hfix. rewrite null_step_unfold.
    eapply nstep_complete; eauto. apply prod_all_in_spec.
    rewrite Forall_forall in IH. exact IH.
  Qed.
End Null.
