(* C07/Props.v -- the property theorems, nothing else.
   "Component builds are reported at the first parent build that ships them"
   Model: C07/Model.v (ReposCollection ordering DFS, ComponentBump, the parent
   repository's RGraph construction and included_at registration).
   Repositories / component RBuilds are numbers; strings never matter here. *)
From Coq Require Import ZArith List Bool Arith Permutation.
From AK Require Import Common.Err gen.C07_Consts C07.Model C07.LemmasOrder C07.Lemmas.
Import ListNotations.

(* the clauses read from ak/ghist.py are the ones the model and the theorems rely on *)
Theorem consts_ok :
  src_prune = PruneAtFromAncestors /\ In ClBump src_is_rbuild /\
  (forall c, In c src_is_rbuild <-> In c [ClNew; ClBump; ClMerge]) /\ src_cycle_err = ValueErr /\
  src_bump_state = StatePerComponent.
Proof. exact (conj src_prune_ok (conj src_bump_clause (conj src_rbuild_clauses (conj src_cycle_err_ok src_bump_state_ok)))). Qed.
Print Assumptions consts_ok.

(* ================================================================== *)
(* which build a tag stands for (finalize_build_tag_info, get_builds_numbers, BuildNumData.cmp) *)

(* the three routes of finalize_build_tag_info, in the order and with the tests the model has
   (the guessed major is tested with `is not None`) *)
Theorem tag_routes_ok : src_tag_routes = [RouteKnown; RouteGuessIsNotNone; RouteSaved].
Proof. exact src_tag_routes_ok. Qed.
Print Assumptions tag_routes_ok.

(* build_<n>_release_<M>_<m>_success is build M.m.n for EVERY M, m, n (0 included), whatever is saved in
   the commit; an overridden tag format that delivers major.minor keeps them; any other tag text takes
   major.minor from the saved version and is '?'.'?'.n without one *)
Theorem tag_build_number : forall saved M m n,
  finalize_tag saved (TagRelease M m, n) = (M, m, n) /\
  finalize_tag saved (TagFull M m, n) = (M, m, n) /\
  finalize_tag (Some (M, m)) (TagWord, n) = (M, m, n) /\
  finalize_tag None (TagWord, n) = (qm, qm, n).
Proof.
  intros. repeat split.
Qed.
Print Assumptions tag_build_number.

(* ... so a pin finds that build in a version map iff it names exactly major.minor.build *)
Theorem release_tag_pin : forall saved M m n pin,
  bn_eqb (finalize_tag saved (TagRelease M m, n)) pin = true <-> pin = (M, m, n).
Proof. exact release_tag_pin_l. Qed.
Print Assumptions release_tag_pin.

(* get_builds_numbers neither loses nor invents a build of the commit *)
Theorem builds_numbers_complete : forall saved tags,
  Permutation (builds_numbers saved tags) (map (finalize_tag saved) tags).
Proof. exact builds_numbers_perm. Qed.
Print Assumptions builds_numbers_complete.

(* BuildNumData.cmp: lexicographic on numbered builds (0 is the smallest number, not "missing"),
   every numbered build below every '?' build, and total *)
Theorem build_number_order :
  (forall a b, int_bn a -> int_bn b -> (bn_leb a b = true <-> lex_le a b)) /\
  (forall a n, int_bn a -> bn_leb a (qm, qm, n) = true /\ bn_leb (qm, qm, n) a = false) /\
  (forall a b, bn_leb a b = true \/ bn_leb b a = true).
Proof. exact (conj bn_leb_int (conj bn_leb_qm bn_leb_total)). Qed.
Print Assumptions build_number_order.

Example build_number_order_ex :
  builds_numbers None [(TagWord, 7); (TagRelease 0 10, 7); (TagRelease 0 9, 8); (TagFull 0 9, 0)]%Z
  = [(0, 9, 0); (0, 9, 8); (0, 10, 7); (qm, qm, 7)]%Z.
Proof. vm_compute. reflexivity. Qed.
Print Assumptions build_number_order_ex.

(* ================================================================== *)
(* repositories are analysed components first, whatever the supply order *)

(* sorted_repos is a permutation of the supplied repositories in which every
   repository comes after each of its supplied components *)
Theorem repo_order : forall repos deps out, NoDup repos -> sort_repos repos deps = Ok out ->
  Permutation out repos /\
  forall l1 x l2, out = l1 ++ x :: l2 ->
    forall c, In c (comps_of deps x) /\ In c repos -> In c l1.
Proof. exact repo_order_l. Qed.
Print Assumptions repo_order.

(* ... and it does not depend on the order in which they were supplied *)
Theorem repo_order_supply : forall repos repos' deps, Permutation repos repos' ->
  sort_repos repos deps = sort_repos repos' deps.
Proof. exact supply_order_l. Qed.
Print Assumptions repo_order_supply.

(* make_reports_data analyses in that order and hands every repository the graphs
   of exactly its supplied components *)
Theorem repo_analysis : forall repos deps l, NoDup repos -> reports_order repos deps = Ok l ->
  sort_repos repos deps = Ok (rev (map fst l)) /\
  forall x cs, In (x, cs) l -> forall c, In c cs <-> (In c (comps_of deps x) /\ In c repos).
Proof. exact reports_order_l. Qed.
Print Assumptions repo_analysis.

(* ValueError exactly for cyclic dependencies among the supplied repositories *)
Theorem repo_cycle : forall repos deps, NoDup repos ->
  (sort_repos repos deps = Err ValueErr <-> exists x, In x repos /\ reach repos deps x x).
Proof. exact repo_cycle_l. Qed.
Print Assumptions repo_cycle.

(* the while loop ends within 3*|repos| + 2*|declared dependencies| + 3 iterations
   ([ofuel]): the result is never [Err Hang], and the closing assert never fails *)
Theorem repo_order_terminates : forall repos deps, NoDup repos ->
  (exists out, sort_repos repos deps = Ok out) \/ sort_repos repos deps = Err ValueErr.
Proof. exact repo_total_l. Qed.
Print Assumptions repo_order_terminates.

Example repo_order_ex :
  sort_repos [3; 1; 2] [(1, [2; 9]); (3, [1; 2])] = Ok [2; 1; 3] /\
  sort_repos [3; 1; 2] [(1, [2]); (2, [3]); (3, [1])] = Err ValueErr /\
  sort_repos [5] [(5, [5])] = Err ValueErr /\
  reports_order [3; 1; 2] [(1, [2; 9]); (3, [1; 2])] = Ok [(3, [2; 1]); (1, [2]); (2, [])].
Proof. vm_compute. repeat split. Qed.
Print Assumptions repo_order_ex.

(* ================================================================== *)
(* what a bump contains: get_rbuilds_in_bump                            *)

(* FULL STATEMENT (Lemmas.bump_set_statement): get_rbuilds_in_bump = ancestors*(to) \ ancestors*(from).
   It was FALSE for the code before d037b67 (the DFS stopped only AT the from-builds, so an ancestor
   of a from-build was collected when a parallel path by-passed that from-build: finding
   included-at-twice-parallel-path).  For the repaired code it is a theorem: for every component
   build graph (parents have smaller iids), every to-build and EVERY set of from-builds (contained
   in the new pin or not) the call returns, within the model's fuel, a duplicate-free list of
   exactly the builds the new pin contains and none of the previous pins contains. *)
Theorem bump_set_exact : forall cg b t, wf cg -> b_to b = Some t ->
  exists l, rbuilds_in_bump cg b = Some l /\ NoDup l /\
    forall y, In y l <-> (anc cg t y /\ forall f, In f (b_from b) -> ~ anc cg f y).
Proof. exact bump_set_exact_l. Qed.
Print Assumptions bump_set_exact.

Theorem bump_set_statement_holds : bump_set_statement.
Proof. exact bump_set_statement_l. Qed.
Print Assumptions bump_set_statement_holds.

(* the first loop alone: excluded_iids = the from-builds and all their ancestors, nothing else *)
Theorem excluded_set : forall cg from, wf cg ->
  exists ex, excluded cg from = Some ex /\ forall y, In y ex <-> exists f, In f from /\ anc cg f y.
Proof. exact excluded_spec. Qed.
Print Assumptions excluded_set.

(* a bump without a resolved new build contains nothing *)
Theorem bump_set_none : forall cg b, b_to b = None -> rbuilds_in_bump cg b = Some [].
Proof. exact rbuilds_in_bump_none. Qed.
Print Assumptions bump_set_none.

(* linear history; the former witness 0 <- {1, 2} <- 3, from {2}, to 3 (the old code returned
   [0; 1; 3]); from-builds that the new pin does not contain (2 || 1) *)
Example bump_set_ex :
  rbuilds_in_bump [(0, []); (1, [0]); (2, [1]); (3, [2])] (mkB [] (1, 1, 9)%Z [1] (Some 3)) = Some [2; 3] /\
  rbuilds_in_bump w_cg w_bump = Some [1; 3] /\
  rbuilds_in_bump w_cg (mkB [] (1, 1, 6)%Z [2] (Some 1)) = Some [1] /\
  excluded w_cg [3] = Some [0; 1; 2; 3].
Proof. vm_compute. repeat split. Qed.
Print Assumptions bump_set_ex.

(* ================================================================== *)
(* included_at: the first parent build that ships a component build     *)

(* FULL STATEMENT (Lemmas.included_first_statement): in every report of a parent whose commits all
   pin the component and whose pins never decrease (in the order of build numbers) along a branch,
   component build y is recorded at a reported parent build exactly when that build's pin contains
   y and no ancestor build of it in the same branch has a pin containing y.  Still FALSE for the
   current code (open finding included-at-again-after-pin-left): a bump only subtracts what the
   immediately preceding reported builds shipped.  Witness: component 1.1.1 <- {1.1.5, 1.1.6} <- 1.1.7,
   parent builds pin 1.1.5, 1.1.6, 1.1.7; 1.1.5 is recorded at the first and at the third build. *)
Theorem included_first_refuted : ~ included_first_statement.
Proof. exact included_first_refuted_l. Qed.
Print Assumptions included_first_refuted.

Theorem included_first_witness :
  exists r, parent_report [v_ci] v_commits w_heads = Ok r /\
            included_at 0 r 2 = [(0, (5, 1, 1)%Z); (0, (5, 1, 3)%Z)].
Proof. exact v_included. Qed.
Print Assumptions included_first_witness.

(* the history of DESIGN.md section 7 (finding included-at-twice-parallel-path, fixed by d037b67):
   component 1.1.4 <- {1.1.5, 1.1.6} <- 1.1.7, parent builds pin 1.1.5 then 1.1.7; every component
   build is now recorded at exactly the first parent build that ships it *)
Example included_first_fixed_ex :
  exists r, parent_report [w_ci] w_commits w_heads = Ok r /\
            included_at 0 r 0 = [(0, (5, 1, 2)%Z)] /\ included_at 0 r 1 = [(0, (5, 1, 3)%Z)] /\
            included_at 0 r 2 = [(0, (5, 1, 2)%Z)] /\ included_at 0 r 3 = [(0, (5, 1, 3)%Z)].
Proof. exact w_included. Qed.
Print Assumptions included_first_fixed_ex.

(* PROVED PART, registration loop: for every set of parent branches (distinct names), every
   component build graph (parallel sub-branches and merges included) and every shape of a branch
   (forks and merges of reported builds): if the builds of the branch are linked (every parent
   build is a build of the branch carrying a bump, the from-builds of a bump are the to-builds of
   the parent builds' bumps - what _mk_bumps_info establishes, theorem bump_from, when every commit
   pins the component) and the successive pins are ANCESTOR-ORDERED in the component graph (each
   bump moves to a build that contains the builds it moves from), then y is recorded at a build
   iff that build ships y and no ancestor build of it in the branch does.
   What separates this from the full statement: pins that grow in build NUMBER but not in the
   ancestor order (the witness above) -- there the statement is false for the current code. *)
Theorem included_first_partial : forall cx ci branches regs,
  wf (ci_graph ci) -> NoDup (map fst branches) -> registrations cx ci branches = Some regs ->
  forall br rbs, In (br, rbs) branches ->
    NoDup (map fst rbs) -> NoDup (map (fun p => rb_bn (snd p)) rbs) ->
    linked cx rbs -> pins_ordered cx (ci_graph ci) rbs ->
    forall i rb b t y, In (i, rb) rbs -> bn_eqb (rb_bn rb) fake_not_merged = false ->
      rb_bump cx rb = Some b -> b_to b = Some t ->
      (In (y, (br, rb_bn rb)) regs <->
       anc (ci_graph ci) t y /\
       forall j rb' b' t', panc rbs i j -> In (j, rb') rbs -> rb_bump cx rb' = Some b' -> b_to b' = Some t' ->
                           ~ anc (ci_graph ci) t' y).
Proof. exact included_first_l. Qed.
Print Assumptions included_first_partial.

(* ... and the same about the report of the whole model (RGraph construction + registration):
   the conclusion of included_first_statement under the two structural guards.  That the RGraph
   construction yields linked branches is the local theorem bump_from plus the correspondence run,
   not a global theorem; that keys and build numbers of a branch are distinct is a guard too. *)
Theorem included_first_guarded : forall cis commits heads r cx ci,
  nth_error cis cx = Some ci ->
  wf (ci_graph ci) -> parent_report cis commits heads = Ok r -> NoDup (map fst heads) ->
  forall br rbs, In (br, rbs) (r_branches r) ->
    NoDup (map fst rbs) -> NoDup (map (fun p => rb_bn (snd p)) rbs) ->
    linked cx rbs -> pins_ordered cx (ci_graph ci) rbs ->
    forall i rb b t y, In (i, rb) rbs -> bn_eqb (rb_bn rb) fake_not_merged = false ->
      rb_bump cx rb = Some b -> b_to b = Some t -> In y (map fst (ci_rbs ci)) ->
      (In (br, rb_bn rb) (included_at cx r y) <->
       anc (ci_graph ci) t y /\
       forall j rb' b' t', panc rbs i j -> In (j, rb') rbs -> rb_bump cx rb' = Some b' -> b_to b' = Some t' ->
                           ~ anc (ci_graph ci) t' y).
Proof. exact included_first_report_l. Qed.
Print Assumptions included_first_guarded.

(* the guards are satisfiable on a component with parallel sub-branches: the report of the history
   of DESIGN.md section 7 (component 1.1.4 <- {1.1.5, 1.1.6} <- 1.1.7, pins 1.1.1, 1.1.5, 1.1.7) has one
   branch of two reported builds that is linked and whose pins are ancestor-ordered *)
Example included_first_guarded_ex :
  exists r rbs, parent_report [w_ci] w_commits w_heads = Ok r /\ In (0, rbs) (r_branches r) /\
    length rbs = 2 /\ NoDup (map fst rbs) /\ NoDup (map (fun p => rb_bn (snd p)) rbs) /\
    linked 0 rbs /\ pins_ordered 0 (ci_graph w_ci) rbs.
Proof. exact w_guards. Qed.
Print Assumptions included_first_guarded_ex.

(* ONE DIRECTION HOLDS FOR EVERY HISTORY (any branches, merges, parallel component builds, any
   pins): a component build contained in the new pin and in none of the bump's from-builds is
   recorded at that parent build -- registrations are never missing, only (see above)
   sometimes repeated *)
Theorem included_never_missing : forall cx ci branches regs, wf (ci_graph ci) ->
  registrations cx ci branches = Some regs ->
  forall br rbs p b t y, In (br, rbs) branches -> In p rbs ->
    bn_eqb (rb_bn (snd p)) fake_not_merged = false -> rb_bump cx (snd p) = Some b -> b_to b = Some t ->
    (anc (ci_graph ci) t y /\ forall f, In f (b_from b) -> ~ anc (ci_graph ci) f y) ->
    In (y, (br, rb_bn (snd p))) regs.
Proof. exact never_missing_l. Qed.
Print Assumptions included_never_missing.

(* _mk_bumps_info: a bump of component cx starts from the to-builds of the parent builds' bumps OF cx *)
Theorem bump_from : forall cx ci g cm prb b, mk_bump cx ci g cm prb = Some b ->
  forall f, In f (b_from b) <->
    exists p rb pb, In p prb /\ get_rb g p = Some rb /\ rb_bump cx rb = Some pb /\
                    (b_to pb = Some f \/ (b_to pb = None /\ In f (b_from pb))).
Proof. exact bump_from_l. Qed.
Print Assumptions bump_from.

(* ================================================================== *)
(* several components of one parent: each is dealt with by itself      *)

(* _mk_bumps_info, the loop over the components (the state of an iteration - from_builnums,
   from_rbuilds - is created inside the loop body: consts_ok): the entry of component cx is the bump
   computed from cx's version map, the commit's pin of cx and the parent builds' bumps of cx ALONE.
   Replace the other components (their graphs, what the commit pins for them, the bumps of them the
   parent builds carry - any graph state g' that agrees with g on the parent builds' bumps of cx) and
   cx's bump is the same.  In particular RBuild iids of another component, which may coincide with
   iids of cx's builds, never reach is_trivial / get_rbuilds_in_bump of cx's bump. *)
Theorem bumps_independent_per_component : forall cis cis' g g' cm cm' prb cx ci,
  nth_error cis cx = Some ci -> nth_error cis' cx = Some ci ->
  c_pin cx cm' = c_pin cx cm -> (forall p, In p prb -> bump_at cx g' p = bump_at cx g p) ->
  nth_error (mk_bumps cis g cm prb) cx = Some (mk_bump cx ci g cm prb) /\
  nth_error (mk_bumps cis' g' cm' prb) cx = nth_error (mk_bumps cis g cm prb) cx.
Proof. exact bumps_independent_l. Qed.
Print Assumptions bumps_independent_per_component.

(* ... and the included_at lists of component cx's builds are the registrations of cx's own loop over
   the report's builds: they read nothing but the bumps of cx (with bump_set_exact, included_first_guarded
   and included_never_missing, which all are per component) *)
Theorem included_per_component : forall cis commits heads r, parent_report cis commits heads = Ok r ->
  forall cx ci, nth_error cis cx = Some ci ->
  exists regs, registrations cx ci (r_branches r) = Some regs /\
    forall y br k, In y (map fst (ci_rbs ci)) -> (In (br, k) (included_at cx r y) <-> In (y, (br, k)) regs).
Proof. intros cis commits heads r H. exact (proj2 (parent_report_regs _ _ _ _ H)). Qed.
Print Assumptions included_per_component.

(* two components whose RBuild iids coincide (0..4 in both), pins (1.0.3, 2.0.1), (1.0.3, 2.0.3),
   (1.0.4, 2.0.4), (1.0.5, 2.0.4) run through the whole model: every build of either component is recorded
   at exactly the first parent build whose pin of its own component contains it, and what is recorded for
   the first component does not change when the second one is pinned differently *)
Example independent_components_ex :
  exists r, parent_report [m_ci 1; m_ci 2] (m_commits [1; 3; 4; 4]%Z) [(0, 3)] = Ok r /\
    map (included_at 0 r) [0; 1; 2; 3; 4] =
      [[(0, (9, 0, 1)%Z)]; [(0, (9, 0, 1)%Z)]; [(0, (9, 0, 1)%Z)]; [(0, (9, 0, 3)%Z)]; [(0, (9, 0, 4)%Z)]] /\
    map (included_at 1 r) [0; 1; 2; 3; 4] =
      [[(0, (9, 0, 1)%Z)]; [(0, (9, 0, 2)%Z)]; [(0, (9, 0, 2)%Z)]; [(0, (9, 0, 3)%Z)]; []] /\
    forall pb, In pb [[5; 5; 5; 5]; [1; 1; 1; 1]; [1; 2; 2; 3]; [3; 3; 4; 5]]%Z ->
      exists r', parent_report [m_ci 1; m_ci 2] (m_commits pb) [(0, 3)] = Ok r' /\
                 map (included_at 0 r') [0; 1; 2; 3; 4] = map (included_at 0 r) [0; 1; 2; 3; 4].
Proof. exact m_included. Qed.
Print Assumptions independent_components_ex.

(* ================================================================== *)
(* a parent build whose pin moves across report-related component builds is reported *)

(* _mk_rcommits on a build commit (or the branch head): if the bump of ONE component
   computed against the parent builds is not trivial, an RBuild carrying that bump (and the bumps of
   all the components, each computed by itself) is created for the commit -- whether or not it has
   matching commits of its own, and whatever the other components do *)
Theorem bump_reported : forall cis head c cm g cx ci, nth_error cis cx = Some ci ->
  (nonempty (c_tags cm) || (c =? head)) = true ->
  forall nw prb g1 b,
    find_new g (rc_parents_of g (c_parents cm)) = (nw, prb, g1) ->
    mk_bump cx ci g1 cm prb = Some b -> is_trivial b = false ->
    exists rb, zfind (g_cnt g) (g_cur (finalise cis head c cm g)) = Some rb /\
               rb_bump cx rb = Some b /\ rb_bumps rb = mk_bumps cis g1 cm prb /\
               rb_type rb = 0%Z /\ rb_parents rb = prb /\
               nfind c (g_selected (finalise cis head c cm g)) = Some (g_cnt g).
Proof. exact bump_reported_l. Qed.
Print Assumptions bump_reported.

(* non-vacuity: in the witness history the second and third parent builds have no matching
   commit at all and are reported because of their bumps *)
Example bump_reported_ex :
  exists r, parent_report [w_ci] w_commits w_heads = Ok r /\
            map (fun br => map (fun p => (rb_bn (snd p), rb_rcommits (snd p))) (snd br)) (r_branches r)
            = [[((5, 1, 2)%Z, [0%Z]); ((5, 1, 3)%Z, [1%Z])]] /\
            map (fun p => rc_expl (snd p)) (r_rcs r) = [false; false].
Proof. eexists. split; [vm_compute; reflexivity|]. vm_compute. split; reflexivity. Qed.
Print Assumptions bump_reported_ex.
