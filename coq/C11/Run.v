(* C11/Run.v -- entry point of the correspondence check.
   Observation = the plain text of every line produced by iterating the result
   of PrettyPrinter(fmt_json=...)(obj, no_color=True) (the whole text is the
   "\n"-join of these lines on both sides: checked on the implementation side by
   the harness, proved for the model in Lemmas.lines_lossless).
   The implementation's lines are passed in with the case and compared here, so
   that the printed result stays small: (1) = identical, (0 i line) = the first
   differing line index and the first 160 characters of the model's line there
   (() if the model has none). *)
From Coq Require Import ZArith List Bool.
From AK Require Export Common.Sx Common.Err C11.Model.
Import ListNotations.

Inductive case :=
| PP (m : mode) (v : value) (impl_lines : list (list Z)).

Fixpoint str_eqb (a b : list Z) : bool :=
  match a, b with
  | [], [] => true
  | x :: a', y :: b' => Z.eqb x y && str_eqb a' b'
  | _, _ => false
  end.

Fixpoint first_diff (model impl : list (list Z)) (i : Z) : option (Z * option (list Z)) :=
  match model, impl with
  | [], [] => None
  | x :: model', y :: impl' => if str_eqb x y then first_diff model' impl' (i + 1)%Z else Some (i, Some x)
  | x :: _, [] => Some (i, Some x)
  | [], _ :: _ => Some (i, None)
  end.

Definition run (c : case) : sx :=
  match c with
  | PP m v impl =>
      match first_diff (gen_lines m v) impl 0%Z with
      | None => SL [SZ 1]
      | Some (i, l) => SL [SZ 0; SZ i; sx_option sx_str (option_map (firstn 160) l)]
      end
  end.
