(* C07/LemmasOrder.v -- proofs about the repository ordering DFS
   (ReposCollection.__init__, ghist.py:1837-1896) as modelled by [ostep]/[orun]. *)
From Coq Require Import ZArith List Bool Arith Lia Permutation.
From AK Require Import Common.Sx Common.Err C07.Model.
Import ListNotations.

(* ------------------------------------------------------------------ *)
(* membership, sorting                                                  *)

Lemma nmem_In x l : nmem x l = true <-> In x l.
Proof.
  unfold nmem. rewrite existsb_exists. split.
  - intros (y & Hy & E). apply Nat.eqb_eq in E. subst. exact Hy.
  - intros H. exists x. split; [exact H|apply Nat.eqb_refl].
Qed.

Lemma nmem_false x l : nmem x l = false <-> ~ In x l.
Proof. rewrite <- nmem_In. destruct (nmem x l); split; congruence. Qed.

Lemma ninsert_perm x l : Permutation (ninsert x l) (x :: l).
Proof.
  induction l as [|y r IH]; cbn [ninsert]; [reflexivity|].
  destruct (x <=? y); [reflexivity|].
  rewrite IH. apply perm_swap.
Qed.

Lemma nsort_perm l : Permutation (nsort l) l.
Proof.
  induction l as [|x r IH]; cbn [nsort fold_right]; [reflexivity|].
  fold (nsort r). rewrite ninsert_perm. constructor. exact IH.
Qed.

Lemma nsort_In x l : In x (nsort l) <-> In x l.
Proof. split; apply Permutation_in; [|symmetry]; apply nsort_perm. Qed.

Lemma nsort_length l : length (nsort l) = length l.
Proof. apply Permutation_length, nsort_perm. Qed.

Lemma ninsert_comm x y l : ninsert x (ninsert y l) = ninsert y (ninsert x l).
Proof.
  induction l as [|z r IH]; cbn [ninsert].
  - destruct (x <=? y) eqn:A, (y <=? x) eqn:B; try reflexivity.
    + apply Nat.leb_le in A, B. assert (x = y) by lia. subst. reflexivity.
    + apply Nat.leb_gt in A, B. lia.
  - destruct (y <=? z) eqn:A, (x <=? z) eqn:B; cbn [ninsert]; rewrite ?A, ?B.
    + destruct (x <=? y) eqn:C, (y <=? x) eqn:D; try reflexivity.
      * apply Nat.leb_le in C, D. assert (x = y) by lia. subst. reflexivity.
      * apply Nat.leb_gt in C, D. lia.
    + destruct (x <=? y) eqn:C; [|reflexivity].
      apply Nat.leb_le in C, A. apply Nat.leb_gt in B. lia.
    + destruct (y <=? x) eqn:C; [|reflexivity].
      apply Nat.leb_le in C, B. apply Nat.leb_gt in A. lia.
    + rewrite IH. reflexivity.
Qed.

(* sorted() of a permutation is the same list *)
Lemma nsort_canon l l' : Permutation l l' -> nsort l = nsort l'.
Proof.
  induction 1 as [|x l l' _ IH|x y l|l l' l'' _ IH1 _ IH2].
  - reflexivity.
  - cbn [nsort fold_right]. fold (nsort l) (nsort l'). rewrite IH. reflexivity.
  - cbn [nsort fold_right]. fold (nsort l). apply ninsert_comm.
  - congruence.
Qed.

(* ------------------------------------------------------------------ *)
Section Order.
Variable repos : list nat.
Variable deps : deps_t.

(* x declares component c, and c was supplied *)
Definition dep (x c : nat) : Prop := In c (comps_of deps x) /\ In c repos.

(* a dependency path of length >= 1 *)
Inductive reach : nat -> nat -> Prop :=
| reach1 x y : dep x y -> reach x y
| reachS x y z : dep x y -> reach y z -> reach x z.

Definition cyclic : Prop := exists x, In x repos /\ reach x x.

Lemma reach_snoc x y z : reach x y -> dep y z -> reach x z.
Proof.
  induction 1 as [x y H|x y w H _ IH]; intros D.
  - eapply reachS; [exact H|apply reach1; exact D].
  - eapply reachS; [exact H|apply IH; exact D].
Qed.

Lemma todo_In done cur c : In c (todo repos deps done cur) <-> dep cur c /\ ~ In c done.
Proof.
  unfold todo, dep. rewrite nsort_In, filter_In, andb_true_iff, negb_true_iff, nmem_In, nmem_false. tauto.
Qed.

Lemma filter_length_le {A} (f : A -> bool) l : length (filter f l) <= length l.
Proof. induction l as [|a r IH]; cbn; [lia|]. destruct (f a); cbn; lia. Qed.

Lemma todo_length done cur : length (todo repos deps done cur) <= length (comps_of deps cur).
Proof. unfold todo. rewrite nsort_length. apply filter_length_le. Qed.

Lemma todo_nil done cur : todo repos deps done cur = [] -> forall c, dep cur c -> In c done.
Proof.
  intros H c D. destruct (nmem c done) eqn:M; [apply nmem_In; exact M|].
  apply nmem_false in M. assert (In c (todo repos deps done cur)) as HI by (apply todo_In; tauto).
  rewrite H in HI. destruct HI.
Qed.

(* ------------------------------------------------------------------ *)
(* invariant of the loop                                                *)

Definition heads (st : list (list nat)) : list nat :=
  flat_map (fun L => match L with [] => [] | h :: _ => [h] end) st.

Lemma omem_heads c st : omem (Some c) (map (@hd_error nat) st) = true <-> In c (heads st).
Proof.
  unfold omem. rewrite existsb_exists. split.
  - intros (y & Hy & E). apply in_map_iff in Hy as (L & <- & HL).
    destruct L as [|h t]; cbn in E; [discriminate|]. apply Nat.eqb_eq in E. subst h.
    unfold heads. apply in_flat_map. exists (c :: t). split; [exact HL|left; reflexivity].
  - intros H. unfold heads in H. apply in_flat_map in H as (L & HL & Hc).
    destruct L as [|h t]; [destruct Hc|]. destruct Hc as [->|[]].
    exists (Some c). split; [|apply Nat.eqb_refl].
    apply in_map_iff. exists (c :: t). split; [reflexivity|exact HL].
Qed.

(* newest-first list in which every entry has its components further down *)
Fixpoint topo (l : list nat) : Prop :=
  match l with
  | [] => True
  | x :: r => (forall c, dep x c -> In c r) /\ topo r
  end.

Fixpoint linked (done : list nat) (st : list (list nat)) : Prop :=
  match st with
  | [] => True
  | Ltop :: rest =>
      match rest with
      | [] => True
      | L :: _ =>
          match L with
          | [] => False
          | cur :: _ =>
              (forall c, dep cur c -> In c done \/ In c Ltop) /\ ~ In cur done /\
              (forall c, In c Ltop -> dep cur c) /\ (forall c, In c Ltop -> ~ In c (heads rest))
          end
      end /\ linked done rest
  end.

Record Inv (s : ost) : Prop := mkInv {
  i_path : o_path s = map (@hd_error nat) (o_stack s);
  i_same : o_done s = o_sorted s;
  i_nodup : NoDup (o_sorted s);
  i_topo : topo (o_sorted s);
  i_sub : forall x, In x (o_done s) -> In x repos;
  i_link : linked (o_done s) (o_stack s);
  i_bottom : forall x, In x repos -> In x (o_done s) \/ In x (last (o_stack s) []);
  i_items : forall L c, In L (o_stack s) -> In c L -> In c repos }.

Ltac split4 := split; [|split; [|split]].

Lemma heads_tl_sub st x : In x (heads (tl st)) -> In x (heads st).
Proof.
  destruct st as [|L r]; cbn [tl]; [auto|]. intros H. unfold heads. cbn [flat_map].
  apply in_or_app. right. exact H.
Qed.

Lemma linked_add done st x : linked done st -> ~ In x (heads (tl st)) -> linked (x :: done) st.
Proof.
  induction st as [|Ltop rest IH]; [auto|].
  cbn [linked tl]. intros [H1 H2] Hx. split.
  - destruct rest as [|L r]; [exact I|]. destruct L as [|cur more]; [exact H1|].
    destruct H1 as (A & B & C & D). split4.
    + intros c Hc. destruct (A c Hc) as [H|H]; [left; right; exact H|right; exact H].
    + intros [E|E]; [|exact (B E)]. apply Hx. subst x. unfold heads. cbn. left. reflexivity.
    + exact C.
    + exact D.
  - apply IH; [exact H2|]. intros H. apply Hx. apply heads_tl_sub. exact H.
Qed.

Lemma Inv_init : NoDup repos -> Inv (oinit repos).
Proof.
  intros ND. unfold oinit. destruct (nsort repos) as [|a l] eqn:E.
  - constructor; cbn [o_path o_stack o_done o_sorted map linked last topo].
    + reflexivity.
    + reflexivity.
    + constructor.
    + exact I.
    + intros x [].
    + exact I.
    + intros x Hx. apply (proj2 (nsort_In _ _)) in Hx. rewrite E in Hx. destruct Hx.
    + intros L c [].
  - constructor; cbn [o_path o_stack o_done o_sorted map linked last topo].
    + reflexivity.
    + reflexivity.
    + constructor.
    + exact I.
    + intros x [].
    + auto.
    + intros x Hx. right. apply -> in_rev. rewrite <- E. apply nsort_In. exact Hx.
    + intros L c [<-|[]] Hc. apply in_rev in Hc. rewrite <- E in Hc. apply (proj1 (nsort_In _ _)) in Hc. exact Hc.
Qed.

Lemma last_cons2 {A} (a b : A) r d : last (a :: b :: r) d = last (b :: r) d.
Proof. reflexivity. Qed.

Lemma Inv_step s s' : Inv s -> ostep repos deps s = OCont s' -> Inv s'.
Proof.
  intros [Hp Hs Hn Ht Hsub Hl Hb Hi]. unfold ostep.
  destruct (o_stack s) as [|lvl rest] eqn:ES; [discriminate|].
  destruct lvl as [|cur more].
  - (* pop *)
    intros [= <-]. constructor; cbn [o_path o_stack o_done o_sorted].
    + rewrite Hp. reflexivity.
    + exact Hs.
    + exact Hn.
    + exact Ht.
    + exact Hsub.
    + cbn [linked] in Hl. apply Hl.
    + intros x Hx. destruct (Hb x Hx) as [H|H]; [left; exact H|].
      destruct rest as [|L r]; [destruct H|]. right. exact H.
    + intros L c HL. apply Hi. right. exact HL.
  - destruct (nmem cur (o_done s)) eqn:Hd.
    + (* already done *)
      apply nmem_In in Hd. intros [= <-]. constructor; cbn [o_path o_stack o_done o_sorted].
      * rewrite Hp. reflexivity.
      * exact Hs.
      * exact Hn.
      * exact Ht.
      * exact Hsub.
      * cbn [linked] in Hl |- *. destruct Hl as [H1 H2]. split; [|exact H2].
        destruct rest as [|L r]; [exact I|]. destruct L as [|g gm]; [exact H1|].
        destruct H1 as (A & B & C & D). split4.
        -- intros c Hc. destruct (A c Hc) as [H|[H|H]]; auto. subst c. auto.
        -- exact B.
        -- intros c Hc. apply C. right. exact Hc.
        -- intros c Hc. apply D. right. exact Hc.
      * intros x Hx. destruct (Hb x Hx) as [H|H]; [left; exact H|].
        destruct rest as [|L r].
        -- cbn [last] in H |- *. destruct H as [H|H]; [left; subst; exact Hd|right; exact H].
        -- right. exact H.
      * intros L c [<-|HL] Hc; [apply (Hi (cur :: more)); [left; reflexivity|right; exact Hc]|].
        apply (Hi L); [right; exact HL|exact Hc].
    + apply nmem_false in Hd.
      destruct (todo repos deps (o_done s) cur) as [|n1 nr] eqn:ET.
      * (* finalise *)
        intros [= <-].
        assert (In cur repos) as Hcr by (apply (Hi (cur :: more)); left; reflexivity).
        assert (~ In cur (heads rest)) as Hch.
        { cbn [linked] in Hl. destruct Hl as [H1 _]. destruct rest as [|L r]; [intros []|].
          destruct L as [|g gm]; [destruct H1|]. destruct H1 as (_ & _ & _ & D). apply D. left. reflexivity. }
        constructor; cbn [o_path o_stack o_done o_sorted].
        -- rewrite Hp. reflexivity.
        -- rewrite Hs. reflexivity.
        -- constructor; [rewrite <- Hs; exact Hd|exact Hn].
        -- cbn [topo]. split; [|exact Ht]. intros c Hc. rewrite <- Hs. eapply todo_nil; eauto.
        -- intros x [<-|H]; auto.
        -- cbn [linked] in Hl. destruct Hl as [H1 H2].
           cbn [linked]. split.
           ++ destruct rest as [|L r]; [exact I|]. destruct L as [|g gm]; [exact H1|].
              destruct H1 as (A & B & C & D). split4.
              ** intros c Hc. destruct (A c Hc) as [H|[H|H]]; [left; right; exact H|left; left; exact H|right; exact H].
              ** intros [E|E]; [|exact (B E)]. apply Hch. subst g. unfold heads. cbn. left. reflexivity.
              ** intros c Hc. apply C. right. exact Hc.
              ** intros c Hc. apply D. right. exact Hc.
           ++ apply linked_add; [exact H2|]. intros H. apply Hch. apply heads_tl_sub. exact H.
        -- intros x Hx. destruct (Hb x Hx) as [H|H]; [left; right; exact H|].
           destruct rest as [|L r].
           ++ cbn [last] in H |- *. destruct H as [H|H]; [left; left; exact H|right; exact H].
           ++ right. exact H.
        -- intros L c [<-|HL] Hc; [apply (Hi (cur :: more)); [left; reflexivity|right; exact Hc]|].
           apply (Hi L); [right; exact HL|exact Hc].
      * (* cycle test, then push *)
        rewrite <- ET. intros Hstep. assert (todo repos deps (o_done s) cur <> []) as Hne by (rewrite ET; discriminate).
        clear ET n1 nr. remember (todo repos deps (o_done s) cur) as T eqn:ET.
        destruct (existsb (fun c => omem (Some c) (o_path s)) T) eqn:EC; [discriminate|].
        injection Hstep as <-. subst T.
        constructor; cbn [o_path o_stack o_done o_sorted].
        -- rewrite Hp. reflexivity.
        -- exact Hs.
        -- exact Hn.
        -- exact Ht.
        -- exact Hsub.
        -- cbn [linked]. split; [|exact Hl]. split4.
           ++ intros c Hc. destruct (nmem c (o_done s)) eqn:M; [left; apply nmem_In; exact M|].
              right. rewrite <- in_rev. apply todo_In. apply nmem_false in M. tauto.
           ++ exact Hd.
           ++ intros c Hc. apply in_rev in Hc. apply todo_In in Hc. tauto.
           ++ intros c Hc Hh. apply in_rev in Hc.
              assert (existsb (fun c => omem (Some c) (o_path s)) (todo repos deps (o_done s) cur) = true) as X.
              { apply existsb_exists. exists c. split; [exact Hc|]. rewrite Hp. apply omem_heads. exact Hh. }
              congruence.
        -- intros x Hx. rewrite last_cons2. apply Hb. exact Hx.
        -- intros L c [<-|HL] Hc; [|apply (Hi L); auto].
           apply in_rev in Hc. apply todo_In in Hc. destruct Hc as [[_ H] _]. exact H.
Qed.

(* ------------------------------------------------------------------ *)
(* termination: a potential that every iteration decreases             *)

Definition wgt (s : ost) (x : nat) : nat :=
  if negb (nmem x (o_done s)) && nonempty (todo repos deps (o_done s) x)
     && negb (nmem x (heads (tl (o_stack s))))
  then 2 + length (comps_of deps x) else 0.

Definition lv (st : list (list nat)) : nat := fold_right (fun L acc => S (length L) + acc) 0 st.

Definition phi (s : ost) : nat := list_sum (map (wgt s) repos) + lv (o_stack s).

Lemma list_sum_cons a l : list_sum (a :: l) = a + list_sum l.
Proof. reflexivity. Qed.

Lemma sum_le (f g : nat -> nat) l : (forall x, In x l -> f x <= g x) -> list_sum (map f l) <= list_sum (map g l).
Proof.
  induction l as [|a r IH]; intros H; [cbn; lia|]. cbn [map]. rewrite !list_sum_cons.
  pose proof (H a (or_introl eq_refl)). assert (list_sum (map f r) <= list_sum (map g r)) by (apply IH; intros; apply H; right; auto). lia.
Qed.

Lemma sum_lt (f g : nat -> nat) l a k :
  In a l -> f a + k <= g a -> (forall x, In x l -> f x <= g x) -> list_sum (map f l) + k <= list_sum (map g l).
Proof.
  induction l as [|b r IH]; intros Ha Hk H; [destruct Ha|]. cbn [map]. rewrite !list_sum_cons.
  assert (list_sum (map f r) <= list_sum (map g r)) as Hr by (apply sum_le; intros; apply H; right; auto).
  destruct Ha as [->|Ha].
  - lia.
  - pose proof (H b (or_introl eq_refl)).
    assert (list_sum (map f r) + k <= list_sum (map g r)) by (apply IH; auto; intros; apply H; right; auto). lia.
Qed.

Lemma todo_mono done x cur : todo repos deps (x :: done) cur <> [] -> todo repos deps done cur <> [].
Proof.
  intros H E. apply H. destruct (todo repos deps (x :: done) cur) as [|c r] eqn:T; [reflexivity|].
  assert (In c (todo repos deps (x :: done) cur)) as HI by (rewrite T; left; reflexivity).
  apply todo_In in HI as [D N]. assert (In c (todo repos deps done cur)) as HI.
  { apply todo_In. split; [exact D|]. intros Hc. apply N. right. exact Hc. }
  rewrite E in HI. destruct HI.
Qed.

Lemma nonempty_false {A} (l : list A) : nonempty l = false <-> l = [].
Proof. destruct l; cbn; split; congruence. Qed.

Lemma phi_step s s' : Inv s -> ostep repos deps s = OCont s' -> phi s' < phi s.
Proof.
  intros [Hp Hs Hn Ht Hsub Hl Hb Hi]. unfold ostep, phi.
  destruct (o_stack s) as [|lvl rest] eqn:ES; [discriminate|].
  destruct lvl as [|cur more].
  - (* pop *)
    intros [= <-]. cbn [o_stack lv fold_right length].
    enough (list_sum (map (wgt (mkO rest (tl (o_path s)) (o_done s) (o_sorted s))) repos)
            <= list_sum (map (wgt s) repos)) by lia.
    apply sum_le. intros x _. unfold wgt. cbn [o_done o_stack]. rewrite ES. cbn [tl].
    destruct (negb (nmem x (o_done s)) && nonempty (todo repos deps (o_done s) x)) eqn:A; cbn [andb]; [|lia].
    destruct (nmem x (heads rest)) eqn:B; cbn [negb]; [|].
    + (* x is the head uncovered by the pop: all its components are done *)
      destruct (nmem x (heads (tl rest))) eqn:C; cbn [negb]; [lia|].
      exfalso. apply nmem_In in B. apply nmem_false in C.
      cbn [linked] in Hl. destruct Hl as [H1 _]. destruct rest as [|L r]; [destruct B|].
      destruct L as [|g gm]; [destruct H1|]. destruct H1 as (A1 & _).
      unfold heads in B. cbn [flat_map] in B. cbn [tl] in C. destruct B as [<-|B]; [|apply C; exact B].
      apply andb_prop in A as [_ A]. destruct (todo repos deps (o_done s) g) as [|c cr] eqn:T; [discriminate|].
      assert (In c (todo repos deps (o_done s) g)) as HI by (rewrite T; left; reflexivity).
      apply todo_In in HI as [D N]. destruct (A1 c D) as [H|[]]. exact (N H).
    + destruct (nmem x (heads (tl rest))) eqn:C; cbn [negb]; [|lia].
      apply nmem_In in C. apply heads_tl_sub in C. apply nmem_false in B. contradiction.
  - destruct (nmem cur (o_done s)) eqn:Hd.
    + intros [= <-]. cbn [o_stack lv fold_right length].
      enough (list_sum (map (wgt (mkO (more :: rest) (hd_error more :: tl (o_path s)) (o_done s) (o_sorted s))) repos)
              <= list_sum (map (wgt s) repos)) by lia.
      apply sum_le. intros x _. unfold wgt. cbn [o_done o_stack]. rewrite ES. cbn [tl]. lia.
    + apply nmem_false in Hd.
      destruct (todo repos deps (o_done s) cur) as [|n1 nr] eqn:ET.
      * intros [= <-]. cbn [o_stack lv fold_right length].
        enough (list_sum (map (wgt (mkO (more :: rest) (hd_error more :: tl (o_path s)) (cur :: o_done s) (cur :: o_sorted s))) repos)
                <= list_sum (map (wgt s) repos)) by lia.
        apply sum_le. intros x _. unfold wgt. cbn [o_done o_stack]. rewrite ES. cbn [tl].
        destruct (nmem x (cur :: o_done s)) eqn:A; cbn [negb andb]; [lia|].
        apply nmem_false in A.
        assert (nmem x (o_done s) = false) as -> by (apply nmem_false; intros H; apply A; right; exact H).
        cbn [negb andb].
        destruct (nonempty (todo repos deps (cur :: o_done s) x)) eqn:B; cbn [andb]; [|lia].
        assert (nonempty (todo repos deps (o_done s) x) = true) as ->.
        { destruct (nonempty (todo repos deps (o_done s) x)) eqn:C; [reflexivity|].
          apply nonempty_false in C. exfalso. eapply todo_mono; [|exact C].
          intros E. rewrite E in B. discriminate. }
        cbn [andb]. lia.
      * rewrite <- ET. intros Hstep. assert (todo repos deps (o_done s) cur <> []) as Hne by (rewrite ET; discriminate).
        clear ET n1 nr. remember (todo repos deps (o_done s) cur) as T eqn:ET.
        destruct (existsb (fun c => omem (Some c) (o_path s)) T) eqn:EC; [discriminate|].
        injection Hstep as <-. subst T. cbn [o_stack lv fold_right length].
        rewrite rev_length.
        pose proof (todo_length (o_done s) cur) as TL.
        assert (In cur repos) as Hcr by (apply (Hi (cur :: more)); left; reflexivity).
        enough (list_sum (map (wgt (mkO (rev (todo repos deps (o_done s) cur) :: (cur :: more) :: rest)
                                        (hd_error (rev (todo repos deps (o_done s) cur)) :: o_path s) (o_done s) (o_sorted s))) repos)
                + (2 + length (comps_of deps cur)) <= list_sum (map (wgt s) repos)) by lia.
        apply sum_lt with (a := cur); [exact Hcr| |].
        -- unfold wgt. cbn [o_done o_stack]. rewrite ES. cbn [tl].
           assert (nmem cur (o_done s) = false) as -> by (apply nmem_false; exact Hd).
           assert (nonempty (todo repos deps (o_done s) cur) = true) as -> by (destruct (todo repos deps (o_done s) cur); [congruence|reflexivity]).
           assert (nmem cur (heads rest) = false) as ->.
           { apply nmem_false. cbn [linked] in Hl. destruct Hl as [H1 _]. destruct rest as [|L r]; [intros []|].
             destruct L as [|g gm]; [destruct H1|]. destruct H1 as (_ & _ & _ & D). apply D. left. reflexivity. }
           assert (nmem cur (heads ((cur :: more) :: rest)) = true) as ->.
           { apply nmem_In. unfold heads. cbn. left. reflexivity. }
           cbn [negb andb]. lia.
        -- intros x _. unfold wgt. cbn [o_done o_stack]. rewrite ES. cbn [tl].
           destruct (negb (nmem x (o_done s)) && nonempty (todo repos deps (o_done s) x)); cbn [andb]; [|lia].
           destruct (nmem x (heads ((cur :: more) :: rest))) eqn:B; cbn [negb]; [lia|].
           assert (nmem x (heads rest) = false) as ->; [|cbn [negb]; lia].
           apply nmem_false. apply nmem_false in B. intros H. apply B. unfold heads. cbn [flat_map]. right. exact H.
Qed.

Lemma wgt_le s x : wgt s x <= 2 + length (comps_of deps x).
Proof. unfold wgt. destruct (_ && _ && _); lia. Qed.

Lemma phi_init : phi (oinit repos) + 2 <= ofuel repos deps.
Proof.
  unfold phi, ofuel.
  assert (forall s l, list_sum (map (wgt s) l) <= 2 * length l + total_deps l deps) as H.
  { intros s l. unfold total_deps. induction l as [|a r IH]; [cbn; lia|].
    cbn [map fold_right length]. rewrite list_sum_cons. pose proof (wgt_le s a). lia. }
  specialize (H (oinit repos) repos).
  assert (lv (o_stack (oinit repos)) <= length repos + 1).
  { unfold oinit. pose proof (nsort_length repos) as L. destruct (nsort repos) as [|a l] eqn:E; cbn [o_stack lv fold_right]; [lia|].
    rewrite rev_length. lia. }
  lia.
Qed.

(* ------------------------------------------------------------------ *)
(* what the loop returns                                                *)

(* result [out]: a permutation of the supplied repositories in which every
   repository comes after all its (supplied) components *)
Definition good_order (out : list nat) : Prop :=
  Permutation out repos /\
  forall l1 x l2, out = l1 ++ x :: l2 -> forall c, dep x c -> In c l1.

Lemma topo_rev l : topo l -> forall l1 x l2, rev l = l1 ++ x :: l2 -> forall c, dep x c -> In c l1.
Proof.
  induction l as [|a r IH]; intros T l1 x l2 E c D.
  - destruct l1; discriminate.
  - cbn [rev] in E. destruct T as [Ta Tr].
    destruct (list_eq_dec Nat.eq_dec l2 []) as [->|N].
    + apply app_inj_tail in E as [<- <-]. rewrite <- in_rev. apply Ta. exact D.
    + destruct (exists_last N) as (l2' & z & ->).
      rewrite app_comm_cons, app_assoc in E. apply app_inj_tail in E as [E _].
      eapply IH; eauto.
Qed.

(* the heads of the stack form a dependency path down to the current entry *)
Lemma linked_path done L rest :
  linked done (L :: rest) -> forall h c, In h (heads rest) -> In c L -> reach h c.
Proof.
  revert L. induction rest as [|L2 r IH]; intros L HL h c Hh Hc; [destruct Hh|].
  cbn [linked] in HL. destruct HL as [H1 H2]. destruct L2 as [|g gm]; [destruct H1|].
  destruct H1 as (_ & _ & C & _).
  unfold heads in Hh. cbn [flat_map] in Hh. destruct Hh as [<-|Hh].
  - apply reach1. apply C. exact Hc.
  - eapply reach_snoc; [|apply C; exact Hc]. eapply IH; eauto. left. reflexivity.
Qed.

Lemma topo_reach l : topo l -> NoDup l -> forall x, In x l -> ~ reach x x.
Proof.
  intros T ND.
  assert (forall l, topo l -> forall l1 x l2, l = l1 ++ x :: l2 -> forall y, reach x y -> In y l2) as K.
  { clear. induction l as [|a r IH]; intros T l1 x l2 E y R; [destruct l1; discriminate|].
    destruct T as [Ta Tr].
    assert (forall x l2 l1, r = l1 ++ x :: l2 -> forall c, dep x c -> In c l2) as Kd.
    { clear -Tr. induction r as [|b r' IH]; intros x l2 l1 E c D; [destruct l1; discriminate|].
      destruct Tr as [Tb Tr']. destruct l1 as [|b' l1']; cbn in E; injection E as -> E.
      - subst. apply Tb. exact D.
      - eapply IH; eauto. }
    revert l1 l2 E. induction R as [x y D|x y z D _ IHR]; intros l1 l2 E.
    - destruct l1 as [|a' l1']; cbn in E; injection E as -> E; [subst; apply Ta; exact D|].
      eapply Kd; eauto.
    - assert (In y l2) as Hy.
      { destruct l1 as [|a' l1']; cbn in E; injection E as -> E; [subst; apply Ta; exact D|]. eapply Kd; eauto. }
      apply in_split in Hy as (m1 & m2 & ->).
      assert (In z m2); [|apply in_or_app; right; right; assumption].
      apply (IHR (l1 ++ x :: m1) m2). rewrite E, <- app_assoc. reflexivity. }
  intros x Hx R. apply in_split in Hx as (l1 & l2 & ->).
  pose proof (K _ T l1 x l2 eq_refl x R) as H.
  apply NoDup_remove_2 in ND. apply ND. apply in_or_app. right. exact H.
Qed.

Lemma orun_spec (ND : NoDup repos) fuel : forall s, Inv s -> phi s < fuel ->
  match orun fuel repos deps s with
  | Ok out => good_order out
  | Err ValueErr => cyclic
  | Err _ => False
  end.
Proof.
  induction fuel as [|f IH]; intros s HI Hphi; [lia|].
  cbn [orun]. destruct (ostep repos deps s) as [s'|out|e] eqn:ES.
  - apply IH; [eapply Inv_step; eauto|]. pose proof (phi_step s s' HI ES). lia.
  - (* finished *)
    destruct HI as [Hp Hs Hn Ht Hsub Hl Hb Hi]. unfold ostep in ES.
    destruct (o_stack s) as [|lvl rest] eqn:EST.
    + injection ES as <-.
      assert (Permutation (rev (o_sorted s)) repos) as P.
      { apply NoDup_Permutation; [apply NoDup_rev; exact Hn|exact ND|].
        intros x. rewrite <- in_rev, <- Hs. split; [apply Hsub|].
        intros Hx. destruct (Hb x Hx) as [H|H]; [exact H|]. destruct H. }
      rewrite (Permutation_length P), Nat.eqb_refl. split; [exact P|]. apply topo_rev. exact Ht.
    + destruct lvl as [|cur more]; [discriminate|].
      destruct (nmem cur (o_done s)); [discriminate|].
      destruct (todo repos deps (o_done s) cur); [discriminate|].
      destruct (existsb _ _); discriminate.
  - (* raise *)
    destruct HI as [Hp Hs Hn Ht Hsub Hl Hb Hi]. unfold ostep in ES.
    destruct (o_stack s) as [|lvl rest] eqn:EST; [discriminate|].
    destruct lvl as [|cur more]; [discriminate|].
    destruct (nmem cur (o_done s)); [discriminate|].
    destruct (todo repos deps (o_done s) cur) as [|n1 nr] eqn:ET; [discriminate|].
    destruct (existsb (fun c => omem (Some c) (o_path s)) (n1 :: nr)) eqn:EC; [|discriminate].
    injection ES as <-.
    apply existsb_exists in EC as (c & Hc & Hm). rewrite <- ET in Hc. apply todo_In in Hc as [D _].
    rewrite Hp in Hm. apply omem_heads in Hm.
    exists c. split; [apply D|].
    unfold heads in Hm. cbn [flat_map] in Hm. destruct Hm as [<-|Hm].
    + apply reach1. exact D.
    + eapply reach_snoc; [|exact D]. eapply linked_path; eauto. left. reflexivity.
Qed.

Lemma good_acyclic out : NoDup repos -> good_order out -> ~ cyclic.
Proof.
  intros ND [P G] (x & Hx & R).
  assert (NoDup out) as NDo by (eapply Permutation_NoDup; [symmetry; exact P|exact ND]).
  (* newest-first view *)
  assert (topo (rev out)) as T.
  { clear -G. induction out as [|a r IH] using rev_ind; [exact I|].
    rewrite rev_app_distr. cbn [rev app topo]. split.
    - intros c D. apply -> in_rev. eapply (G r a []); eauto.
    - apply IH. intros l1 y l2 E c D. apply (G l1 y (l2 ++ [a])); [|exact D].
      rewrite E, <- app_assoc. reflexivity. }
  eapply (topo_reach (rev out) T); [apply NoDup_rev; exact NDo| |exact R].
  apply -> in_rev. eapply Permutation_in; [symmetry; exact P|exact Hx].
Qed.

End Order.

(* ------------------------------------------------------------------ *)
(* the statements about sort_repos                                      *)

Lemma sort_repos_spec repos deps : NoDup repos ->
  match sort_repos repos deps with
  | Ok out => good_order repos deps out
  | Err ValueErr => cyclic repos deps
  | Err _ => False
  end.
Proof.
  intros ND. unfold sort_repos. apply orun_spec; [exact ND|apply Inv_init; exact ND|].
  pose proof (phi_init repos deps). lia.
Qed.

Lemma repo_order_l repos deps out : NoDup repos -> sort_repos repos deps = Ok out -> good_order repos deps out.
Proof. intros ND E. pose proof (sort_repos_spec repos deps ND) as H. rewrite E in H. exact H. Qed.

Lemma repo_cycle_l repos deps : NoDup repos ->
  (sort_repos repos deps = Err ValueErr <-> cyclic repos deps).
Proof.
  intros ND. pose proof (sort_repos_spec repos deps ND) as H. split.
  - intros E. rewrite E in H. exact H.
  - intros C. destruct (sort_repos repos deps) as [out|e].
    + exfalso. eapply good_acyclic; eauto.
    + destruct e; try destruct H. reflexivity.
Qed.

Lemma repo_total_l repos deps : NoDup repos ->
  (exists out, sort_repos repos deps = Ok out) \/ sort_repos repos deps = Err ValueErr.
Proof.
  intros ND. pose proof (sort_repos_spec repos deps ND) as H.
  destruct (sort_repos repos deps) as [out|e]; [left; eauto|]. destruct e; try destruct H. right. reflexivity.
Qed.

(* supply order does not matter *)
Lemma total_deps_perm deps l l' : Permutation l l' -> total_deps l deps = total_deps l' deps.
Proof. unfold total_deps. induction 1; cbn [fold_right]; lia. Qed.

Lemma nmem_perm l l' : Permutation l l' -> forall c, nmem c l = nmem c l'.
Proof.
  intros P c. destruct (nmem c l') eqn:E.
  - apply nmem_In. apply nmem_In in E. eapply Permutation_in; [symmetry; exact P|exact E].
  - apply nmem_false. apply nmem_false in E. intros H. apply E. eapply Permutation_in; eauto.
Qed.

Lemma ostep_perm repos repos' deps s : Permutation repos repos' -> ostep repos deps s = ostep repos' deps s.
Proof.
  intros P. unfold ostep.
  destruct (o_stack s) as [|[|cur more] rest]; try reflexivity.
  assert (todo repos deps (o_done s) cur = todo repos' deps (o_done s) cur) as ->; [|reflexivity].
  unfold todo. f_equal. apply filter_ext. intros c. rewrite (nmem_perm _ _ P). reflexivity.
Qed.

Lemma orun_perm repos repos' deps fuel : Permutation repos repos' ->
  forall s, orun fuel repos deps s = orun fuel repos' deps s.
Proof.
  intros P. induction fuel as [|f IH]; intros s; [reflexivity|].
  cbn [orun]. rewrite (ostep_perm _ _ _ _ P). destruct (ostep repos' deps s); auto.
  rewrite (Permutation_length P). reflexivity.
Qed.

Lemma supply_order_l repos repos' deps : Permutation repos repos' -> sort_repos repos deps = sort_repos repos' deps.
Proof.
  intros P. unfold sort_repos, ofuel, oinit.
  rewrite (nsort_canon _ _ P), (Permutation_length P), (total_deps_perm _ _ _ P).
  apply orun_perm. exact P.
Qed.

(* make_reports_data: repositories are analysed in sorted_repos order and each
   build_report_rgraph call receives the graphs of exactly its supplied components *)
Lemma analyse_fst deps prev l : map fst (analyse deps prev l) = l.
Proof. revert prev. induction l as [|x r IH]; intros prev; cbn [analyse map fst]; [reflexivity|]. rewrite IH. reflexivity. Qed.

Lemma analyse_In deps x cs : forall l prev, In (x, cs) (analyse deps prev l) ->
  exists l1 l2, l = l1 ++ x :: l2 /\ cs = filter (fun p => nmem p (comps_of deps x)) (prev ++ l1).
Proof.
  induction l as [|a r IH]; intros prev H; [destruct H|].
  cbn [analyse] in H. destruct H as [H|H].
  - injection H as -> <-. exists [], r. rewrite app_nil_r. auto.
  - destruct (IH _ H) as (l1 & l2 & -> & ->). exists (a :: l1), l2. rewrite <- app_assoc. auto.
Qed.

Lemma reports_order_l repos deps l : NoDup repos -> reports_order repos deps = Ok l ->
  sort_repos repos deps = Ok (rev (map fst l)) /\
  forall x cs, In (x, cs) l -> forall c, In c cs <-> dep repos deps x c.
Proof.
  intros ND H. unfold reports_order in H. destruct (sort_repos repos deps) as [out|e] eqn:E; [|discriminate].
  cbn [bind] in H. injection H as <-. split.
  - rewrite map_rev, rev_involutive, analyse_fst. reflexivity.
  - intros x cs Hx c. apply in_rev in Hx. apply analyse_In in Hx as (l1 & l2 & Eo & ->).
    destruct (repo_order_l _ _ _ ND E) as [P G]. cbn [app]. rewrite filter_In, nmem_In. split.
    + intros [H1 H2]. split; [exact H2|]. eapply Permutation_in; [exact P|]. rewrite Eo. apply in_or_app. left. exact H1.
    + intros D. split; [eapply G; eauto|apply D].
Qed.
