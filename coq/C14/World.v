(* C14/World.v -- executable model of the module-level state of ak/color.py around
   ColorsConfig: several configuration objects, the global one
   (_GLOBAL_COLORS_CONF, get/set_global_colors_config), Palette classes with
   SYNTAX_DEFAULTS / PARENT_PALETTES that register their defaults in a configuration
   when they start to use it (register_in_colors_conf, registered_sources), the
   per-configuration palette cache, and the *synced* palettes (_GSYNCED_PALETTES,
   ak.color.global_palette is the first one) which are re-synced - recursively -
   whenever the global configuration is replaced or modified.
   Dictionaries passed to the code are values here: the model never changes an
   argument, so a dictionary used twice has the same contents both times.
   No proofs in this file. *)
From Coq Require Import ZArith List Bool Arith.
From AK Require Import Common.Sx Common.Err.
From AK Require Export C14.Model.
Import ListNotations.
Open Scope Z_scope.

(* a Palette class *)
Record pclass := mk_pclass {
  pc_defaults : option (list (str * cval));   (* SYNTAX_DEFAULTS *)
  pc_parents : list nat;                      (* PARENT_PALETTES (indices into the class table) *)
  pc_acc : list str;                          (* _LOCAL_SYNTAX: syntax ids of the accessors, in order *)
  pc_global : bool }.                         (* derived from GlobalPalette: p[id] reads p._colors_conf *)

(* a ColorsConfig object *)
Record wconf := mk_wconf {
  wc_conf : conf;
  wc_reg : list nat;                          (* registered_sources *)
  wc_pals : list (nat * list fmt) }.          (* _cache[cls] -> accessor formatters of that palette object *)

(* a synced palette object *)
Record spal := mk_spal {
  sp_cls : nat;
  sp_attrs : list fmt;                        (* the accessor attributes *)
  sp_ptr : nat }.                             (* GlobalPalette._colors_conf *)

Record world := mk_world {
  w_classes : list pclass;                    (* class 0 is GlobalPalette *)
  w_confs : list wconf;                       (* every configuration object ever created *)
  w_global : nat;                             (* _GLOBAL_COLORS_CONF *)
  w_synced : list spal }.                     (* _GSYNCED_PALETTES.values(), insertion order *)

Definition mem_nat (k : nat) (l : list nat) : bool := existsb (Nat.eqb k) l.

Definition set_wconf (w : world) (i : nat) (wc : wconf) : world :=
  mk_world (w_classes w) (set_nth i wc (w_confs w)) (w_global w) (w_synced w).
Definition set_spal (w : world) (j : nat) (sp : spal) : world :=
  mk_world (w_classes w) (w_confs w) (w_global w) (set_nth j sp (w_synced w)).
Definition set_global_idx (w : world) (i : nat) : world :=
  mk_world (w_classes w) (w_confs w) i (w_synced w).
Definition add_wconf (w : world) (wc : wconf) : world :=
  mk_world (w_classes w) (w_confs w ++ [wc]) (w_global w) (w_synced w).
Definition add_spal (w : world) (sp : spal) : world :=
  mk_world (w_classes w) (w_confs w) (w_global w) (w_synced w ++ [sp]).

(* `any_modifications` of add_new_items: a description was added or one was resolved,
   i.e. the ids or the formatters of the registry changed *)
Fixpoint list_eqb {A} (eqb : A -> A -> bool) (a b : list A) : bool :=
  match a, b with
  | [], [] => true
  | x :: a', y :: b' => eqb x y && list_eqb eqb a' b'
  | _, _ => false
  end.
Definition ofmt_eqb (a b : option fmt) : bool :=
  match a, b with
  | None, None => true
  | Some x, Some y => list_eqb str_eqb x y
  | _, _ => false
  end.
Definition fmts (m : smap) : list (str * option fmt) := map (fun p => (fst p, e_fmt (snd p))) m.
Definition any_modif (m m' : smap) : bool :=
  negb (list_eqb (fun a b => str_eqb (fst a) (fst b) && ofmt_eqb (snd a) (snd b)) (fmts m) (fmts m')).

Definition fresh_ids (c : conf) (items : list (str * str)) : bool :=
  existsb (fun it => negb (has_key (fst it) (c_map c))) items.

Section Body.
  (* set_global_colors_config, as called (recursively) from add_new_items *)
  Variable rec : world -> nat -> res world.

  (* confs[i].add_new_items(items, src) *)
  Definition w_add_items (w : world) (i : nat) (items : list (str * str)) : res world :=
    match nth_error (w_confs w) i with
    | None => Err Hang
    | Some wc =>
        bind (add_new_items (wc_conf wc) items) (fun c' =>
        let wc' := mk_wconf c' (wc_reg wc) (if fresh_ids (wc_conf wc) items then [] else wc_pals wc) in
        let w' := set_wconf w i wc' in
        (* if any_modifications and self is _GLOBAL_COLORS_CONF: set_global_colors_config(self) *)
        if any_modif (c_map (wc_conf wc)) (c_map c') && (i =? w_global w)%nat then rec w' i else Ok w')
    end.

  (* cls.register_in_colors_conf(confs[i]) for class k *)
  Fixpoint w_register (pf : nat) (w : world) (k i : nat) : res world :=
    match pf with
    | O => Err Hang
    | S pf' =>
        match nth_error (w_classes w) k, nth_error (w_confs w) i with
        | Some pc, Some wc =>
            if mem_nat k (wc_reg wc) then Ok w
            else
              bind (fold_left (fun acc p => bind acc (fun w1 => w_register pf' w1 p i)) (pc_parents pc) (Ok w)) (fun w1 =>
              match pc_defaults pc with
              | None => Ok w1
              | Some d =>
                  (* the class may have been registered meanwhile (re-sync caused by a parent); then
                     register_color_conf_component asserts unless the code asks again *)
                  match nth_error (w_confs w1) i with
                  | None => Err Hang
                  | Some wc1 =>
                      if mem_nat k (wc_reg wc1) then (if reg_recheck then Ok w1 else Err AssertErr)
                      else w_add_items (set_wconf w1 i (mk_wconf (wc_conf wc1) (k :: wc_reg wc1) (wc_pals wc1)))
                                       i (flatten d)
                  end
              end)
        | _, _ => Err Hang
        end
    end.

  Definition reg_fuel (w : world) : nat := S (S (length (w_classes w))).

  (* palette._sync_with_config(confs[i]) for the synced palette j *)
  Definition w_sync (w : world) (j i : nat) : res world :=
    match nth_error (w_synced w) j with
    | None => Err Hang
    | Some sp =>
        let w0 := set_spal w j (mk_spal (sp_cls sp) (sp_attrs sp) i) in
        bind (w_register (reg_fuel w0) w0 (sp_cls sp) i) (fun w1 =>
        (* _colors_conf is confs[i] here: set above, and a nested re-sync sets the same object *)
        match nth_error (w_confs w1) i, nth_error (w_classes w1) (sp_cls sp) with
        | Some wc, Some pc =>
            Ok (set_spal w1 j (mk_spal (sp_cls sp) (map (get_color (wc_conf wc)) (pc_acc pc)) i))
        | _, _ => Err Hang
        end)
    end.

  Fixpoint w_sync_all (w : world) (i : nat) (js : list nat) : res world :=
    match js with
    | [] => Ok w
    | j :: r => bind (w_sync w j i) (fun w1 => w_sync_all w1 i r)
    end.

  (* the body of set_global_colors_config(confs[i]) *)
  Definition w_set_global_body (w : world) (i : nat) : res world :=
    w_sync_all (set_global_idx w i) i (seq 0 (length (w_synced w))).
End Body.

Fixpoint w_set_global (fuel : nat) (w : world) (i : nat) : res world :=
  match fuel with
  | O => Err Hang
  | S f => w_set_global_body (w_set_global f) w i
  end.

(* every nested call of set_global_colors_config is caused by the first registration of a
   class in the configuration *)
Definition sg_fuel (w : world) : nat := (4 + 2 * length (w_classes w))%nat.
Definition sg (w : world) : world -> nat -> res world := w_set_global (sg_fuel w).

(* ------------------------------------------------------------------ the API *)
Inductive wop :=
| WNew (nc : bool) (init : list (str * cval)) (builtin : option (list (str * cval)))
      (* ColorsConfig(init, no_color=nc) of a class with this BUILT_IN_CONFIG (None: the real one) *)
| WSetGlobal (r : option nat)             (* set_global_colors_config(confs[i] / None) *)
| WSynced (k : nat)                       (* class k (synced=True) *)
| WReg (r : option nat) (items : list (str * str))   (* conf.add_new_items(items, src) *)
| WRegCls (k : nat) (r : option nat)      (* class k .register_in_colors_conf(conf) *)
| WUse (k : nat) (r : option nat)         (* class k (conf): a non-synced palette *)
| WPal (r : option nat).                  (* conf.get_palette() *)

(* None = the global configuration *)
Definition cref (w : world) (r : option nat) : nat :=
  match r with Some i => i | None => w_global w end.

Fixpoint find_spal (k : nat) (l : list spal) (j : nat) : option nat :=
  match l with
  | [] => None
  | sp :: r => if (sp_cls sp =? k)%nat then Some j else find_spal k r (S j)
  end.

Fixpoint lookup_nat {V} (k : nat) (l : list (nat * V)) : option V :=
  match l with
  | [] => None
  | (k', v) :: r => if (k =? k')%nat then Some v else lookup_nat k r
  end.

Definition class_attrs (w : world) (k i : nat) : res (list fmt) :=
  match nth_error (w_classes w) k, nth_error (w_confs w) i with
  | Some pc, Some wc => Ok (map (get_color (wc_conf wc)) (pc_acc pc))
  | _, _ => Err Hang
  end.

(* one API call: the new state, an index (of the configuration / synced palette the call
   returned) and the accessor formatters of the palette it returned *)
Definition w_step (w : world) (o : wop) : res (world * (nat * list fmt)) :=
  match o with
  | WNew nc init builtin =>
      bind (new_conf nc init (match builtin with Some b => b | None => builtin_config end)) (fun c =>
      Ok (add_wconf w (mk_wconf c [] []), (length (w_confs w), [])))
  | WSetGlobal (Some i) =>
      if (i <? length (w_confs w))%nat then bind (sg w w i) (fun w' => Ok (w', (i, [])))
      else Err Hang
  | WSetGlobal None =>
      bind (new_conf false [] builtin_config) (fun c =>
      let w1 := add_wconf w (mk_wconf c [] []) in
      bind (sg w w1 (length (w_confs w))) (fun w' => Ok (w', (length (w_confs w), []))))
  | WSynced k =>
      match find_spal k (w_synced w) 0 with
      | Some j => Ok (w, (j, match nth_error (w_synced w) j with Some sp => sp_attrs sp | None => [] end))
      | None =>
          let g := w_global w in
          bind (w_register (sg w) (reg_fuel w) w k g) (fun w1 =>
          bind (class_attrs w1 k g) (fun attrs =>
          Ok (add_spal w1 (mk_spal k attrs g), (length (w_synced w1), attrs))))
      end
  | WReg r items =>
      bind (w_add_items (sg w) w (cref w r) items) (fun w' => Ok (w', (0%nat, [])))
  | WRegCls k r =>
      bind (w_register (sg w) (reg_fuel w) w k (cref w r)) (fun w' => Ok (w', (0%nat, [])))
  | WUse k r =>
      let i := cref w r in
      match nth_error (w_confs w) i with
      | None => Err Hang
      | Some wc =>
          if (k =? 0)%nat then
            (* GlobalPalette(colors_conf=conf): the object get_palette() returns *)
            let (c', snap) := get_palette (wc_conf wc) in
            Ok (set_wconf w i (mk_wconf c' (wc_reg wc) (wc_pals wc)), (0%nat, snap))
          else
            match lookup_nat k (wc_pals wc) with
            | Some attrs => Ok (w, (0%nat, attrs))
            | None =>
                bind (w_register (sg w) (reg_fuel w) w k i) (fun w1 =>
                bind (class_attrs w1 k i) (fun attrs =>
                match nth_error (w_confs w1) i with
                | None => Err Hang
                | Some wc1 =>
                    Ok (set_wconf w1 i (mk_wconf (wc_conf wc1) (wc_reg wc1) ((k, attrs) :: wc_pals wc1)),
                        (0%nat, attrs))
                end))
            end
      end
  | WPal r =>
      let i := cref w r in
      match nth_error (w_confs w) i with
      | None => Err Hang
      | Some wc =>
          let (c', snap) := get_palette (wc_conf wc) in
          Ok (set_wconf w i (mk_wconf c' (wc_reg wc) (wc_pals wc)), (0%nat, snap))
      end
  end.

Fixpoint w_run (w : world) (ops : list wop) : res world :=
  match ops with
  | [] => Ok w
  | o :: r => bind (w_step w o) (fun x => w_run (fst x) r)
  end.

(* the state after `import ak.color`: the default configuration is the global one and
   global_palette = GlobalPalette(synced=True) exists *)
Definition gp_class : pclass := mk_pclass None [] accessors true.

Definition w_init (user_classes : list pclass) : res world :=
  bind (new_conf false [] builtin_config) (fun c0 =>
  Ok (mk_world (gp_class :: user_classes) [mk_wconf c0 [] []] 0
               [mk_spal 0 (map (get_color c0) accessors) 0])).
