(* C01/LemmasArgs.v -- the caller's later changes of the objects it passed to the constructor.
   The only proofs of C01 that depend on the VALUES of the constants of gen/C01_Consts.v (whether the
   tokenizer stores the caller's synonyms / keywords dicts or copies of them): kept in a file of their own
   so that a change of these constants breaks these obligations and no other. *)
From Coq Require Import ZArith List Bool.
From AK Require Import LLP.Build C01.Run C01.RunTok gen.C01_Consts C04.Model.
Import ListNotations.

(* ---------------- the caller's later changes of its synonyms / keywords dicts ---------------- *)
(* [syn_aliased] / [kw_aliased] (gen/C01_Consts.v) are read from the current source: these proofs go through
   exactly while the tokenizer stores COPIES of both dicts (/repo f245e65) *)
Lemma cfg_after_same : forall cfg cfg2, cfg_after cfg cfg2 = cfg.
Proof. intros [lx sp sy kw] [c2|]; reflexivity. Qed.

Lemma s_tokens_after_same : forall tk cfg2 src, s_tokens_after tk cfg2 src = s_tokens tk src.
Proof.
  intros tk cfg2 src. unfold s_tokens_after, s_tokens.
  destruct src as [l|s]; [reflexivity|]. destruct tk as [[cfg skip]|]; [|reflexivity].
  now rewrite cfg_after_same.
Qed.

Lemma s_call_after_same : forall tk cfg2 p fuel texts c,
  s_call_with (s_tokens_after tk cfg2) p fuel texts c = s_call tk p fuel texts c.
Proof.
  intros. unfold s_call, s_call_with. destruct (nth_error texts (fst c)); [|reflexivity].
  now rewrite s_tokens_after_same.
Qed.
