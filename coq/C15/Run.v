(* C15/Run.v -- entry point of the correspondence check. *)
From Coq Require Import ZArith List Bool.
From AK Require Export Common.Sx Common.Err C15.Model.
Import ListNotations.
Open Scope Z_scope.

Inductive case :=
(* SqlFilterCondition.make(a).make_text_update_values([], pt) *)
| Compile (pt : Z) (a : arg)
(* SqlMethod(select, group_by=, order_by=).<mtd>(conn, args..., _order_by=?, kw...) on a table;
   [with_rows] = false: only the executed statement is compared (typed columns) *)
| Query (mysql : bool) (m : method) (kw_ord : option (option str))
        (args : list arg) (kw : list (str * pyval))
        (with_rows : bool) (st : list (str * list (Z * Z))) (rows : list row)
        (desc : bool) (mtd : Z)
(* a HISTORY: SqlMethod objects [ms] declared once, one table, and a sequence of steps in which the
   same objects are used again and again (see [step]) *)
| Session (ms : list method) (st : list (str * list (Z * Z))) (rows : list row) (steps : list step)

(* One step of a history.  The model has NO state: SqlMethod objects are their three constructor
   texts, a condition object is the filter it was made from.  The harness resolves a reference to a
   prepared condition object into that filter with the CURRENT contents of its list objects
   (justified by Props.prepared_condition_tracks_its_lists); that the implementation keeps nothing
   else between requests is what the correspondence checks on these cases. *)
with step :=
| SPrep (a : arg)                 (* c = SqlFilterCondition.make(a) / SqlMethod._or(..), kept for later steps *)
| SText (pt : Z) (a : arg)        (* c.make_text_update_values(vals, pt) on a kept object *)
| SCall (mi : nat) (mysql : bool) (kw_ord : option (option str))
        (args : list arg) (kw : list (str * pyval))
        (with_rows desc : bool) (mtd : Z)
                                  (* ms[mi].<mtd>(conn of that placeholder style, args..., kw...) *)
| SSkip.                          (* the step needed an object whose creation had raised *)

Definition sx_scalar (a : scalar) : sx :=
  match a with
  | SNone => SL []
  | SInt z => SL [SZ 0; SZ z]
  | SStr s => SL [SZ 1; sx_str s]
  end.

Definition sx_pyval (v : pyval) : sx :=
  match v with
  | VS a => sx_scalar a
  | VSeq k l => SL [SZ 2; SZ (kind_code k); sx_list sx_scalar l]
  end.

Definition sx_outcome (o : outcome) : sx :=
  match o with
  | ORows ids => SL [SZ 0; sx_list SZ ids]
  | ONothing => SL [SZ 1]
  | OOne x => SL [SZ 2; SZ x]
  end.

Definition run_compile (pt : Z) (a : arg) : sx :=
  sx_res (fun pv => SL [sx_str (pieces_text (fst pv)); sx_list sx_pyval (snd pv)])
         (bind (make a) (cond_text pt)).

Definition run_request (mysql : bool) (m : method) (kw_ord : option (option str))
    (args : list arg) (kw : list (str * pyval))
    (with_rows : bool) (st : list (str * list (Z * Z))) (rows : list row) (desc : bool) (mtd : Z) : sx :=
  match build mysql m kw_ord args kw with
  | Err e => SL [SL []; sx_res sx_outcome (Err e)]
  | Ok q =>
      SL [SL [sx_str (q_sql q); sx_list sx_pyval (q_params q)];
          if with_rows then sx_res sx_outcome (run_query sqlite_cmp sqlite_like st q rows desc mtd) else SL []]
  end.

Definition run_step (ms : list method) (st : list (str * list (Z * Z))) (rows : list row) (s : step) : sx :=
  match s with
  | SPrep a => sx_res (fun _ => SL []) (make a)
  | SText pt a => run_compile pt a
  | SCall mi mysql kw_ord args kw with_rows desc mtd =>
      match nth_error ms mi with
      | Some m => run_request mysql m kw_ord args kw with_rows st rows desc mtd
      | None => SL [SZ 8]
      end
  | SSkip => SL [SZ 7]
  end.

Definition run_steps (ms : list method) (st : list (str * list (Z * Z))) (rows : list row)
    (steps : list step) : list sx := map (run_step ms st rows) steps.

Definition run (c : case) : sx :=
  match c with
  | Compile pt a => run_compile pt a
  | Query mysql m kw_ord args kw with_rows st rows desc mtd =>
      run_request mysql m kw_ord args kw with_rows st rows desc mtd
  | Session ms st rows steps => SL (run_steps ms st rows steps)
  end.
