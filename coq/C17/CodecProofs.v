(* C17/CodecProofs.v -- base64 and utf-8 of C17/Codec.v can be decoded:
   b64_dec (b64 x) = x for byte strings, utf8_decode (utf8 s) = Some s for code points. *)
From Coq Require Import ZArith List Bool Lia.
From AK Require Import C17.Codec.
Import ListNotations.
Open Scope Z_scope.

Definition is_bytes (l : list Z) : Prop := Forall (fun b => 0 <= b < 256) l.
Definition is_text (s : str) : Prop := Forall (fun c => 0 <= c < 1114112) s.

Lemma b64_idx_all :
  forallb (fun i => (b64i (b64c i) =? i) && negb (b64c i =? 61)) (map Z.of_nat (seq 0 64)) = true.
Proof. vm_compute. reflexivity. Qed.

Lemma b64_idx i : 0 <= i < 64 -> b64i (b64c i) = i /\ b64c i <> 61.
Proof.
  intros H. pose proof b64_idx_all as A. rewrite forallb_forall in A.
  specialize (A i). assert (In i (map Z.of_nat (seq 0 64))) as Hin.
  { rewrite <- (Z2Nat.id i) by lia. apply in_map. apply in_seq. lia. }
  apply A in Hin. apply andb_prop in Hin as [H1 H2].
  apply Z.eqb_eq in H1. apply negb_true_iff in H2. apply Z.eqb_neq in H2. auto.
Qed.

Lemma sextets n : 0 <= n < 16777216 ->
  0 <= n / 262144 < 64 /\ 0 <= (n / 4096) mod 64 < 64 /\ 0 <= (n / 64) mod 64 < 64 /\ 0 <= n mod 64 < 64 /\
  n / 262144 * 262144 + (n / 4096) mod 64 * 4096 + (n / 64) mod 64 * 64 + n mod 64 = n.
Proof. intros H. Z.div_mod_to_equations. lia. Qed.

Lemma octets a b c : 0 <= a < 256 -> 0 <= b < 256 -> 0 <= c < 256 ->
  let n := a * 65536 + b * 256 + c in
  0 <= n < 16777216 /\ n / 65536 = a /\ (n / 256) mod 256 = b /\ n mod 256 = c.
Proof. intros Ha Hb Hc n. subst n. Z.div_mod_to_equations. lia. Qed.

Lemma b64_roundtrip_n k : forall l, (length l <= k)%nat -> is_bytes l -> b64_dec (b64 l) = l.
Proof.
  induction k as [|k IH]; intros l L B.
  - destruct l; [reflexivity|cbn in L; lia].
  - destruct l as [|a [|b [|c r]]]; [reflexivity| | |].
    + inversion B as [|? ? Ha _]; subst.
      destruct (octets a 0 0 Ha ltac:(lia) ltac:(lia)) as (Hn & E1 & _ & _). cbn zeta in *.
      replace (a * 65536 + 0 * 256 + 0) with (a * 65536) in * by lia.
      destruct (sextets _ Hn) as (S1 & S2 & S3 & S4 & Es).
      cbn [b64 b64_dec]. rewrite Z.eqb_refl.
      destruct (b64_idx _ S1) as [-> _]. destruct (b64_idx _ S2) as [-> _].
      f_equal. rewrite <- E1 at 3. f_equal. Z.div_mod_to_equations. lia.
    + inversion B as [|? ? Ha B1]; subst. inversion B1 as [|? ? Hb _]; subst.
      destruct (octets a b 0 Ha Hb ltac:(lia)) as (Hn & E1 & E2 & _). cbn zeta in *.
      replace (a * 65536 + b * 256 + 0) with (a * 65536 + b * 256) in * by lia.
      destruct (sextets _ Hn) as (S1 & S2 & S3 & S4 & Es).
      cbn [b64 b64_dec].
      destruct (b64_idx _ S1) as [-> _]. destruct (b64_idx _ S2) as [-> _]. destruct (b64_idx _ S3) as [-> N3].
      destruct (Z.eqb_spec (b64c (((a * 65536 + b * 256) / 64) mod 64)) 61) as [X|_]; [contradiction|].
      rewrite Z.eqb_refl.
      assert (En : (a * 65536 + b * 256) / 262144 * 262144 + ((a * 65536 + b * 256) / 4096) mod 64 * 4096 +
                   ((a * 65536 + b * 256) / 64) mod 64 * 64 = a * 65536 + b * 256).
      { Z.div_mod_to_equations. lia. }
      rewrite En, E1, E2. reflexivity.
    + inversion B as [|? ? Ha B1]; subst. inversion B1 as [|? ? Hb B2]; subst. inversion B2 as [|? ? Hc B3]; subst.
      destruct (octets a b c Ha Hb Hc) as (Hn & E1 & E2 & E3). cbn zeta in *.
      destruct (sextets _ Hn) as (S1 & S2 & S3 & S4 & Es).
      cbn [b64 b64_dec].
      destruct (b64_idx _ S1) as [-> _]. destruct (b64_idx _ S2) as [-> _].
      destruct (b64_idx _ S3) as [-> N3]. destruct (b64_idx _ S4) as [-> N4].
      destruct (Z.eqb_spec (b64c (((a * 65536 + b * 256 + c) / 64) mod 64)) 61) as [X|_]; [contradiction|].
      destruct (Z.eqb_spec (b64c ((a * 65536 + b * 256 + c) mod 64)) 61) as [X|_]; [contradiction|].
      rewrite Es, E1, E2, E3. rewrite IH; [reflexivity| |exact B3].
      cbn [length] in L. lia.
Qed.

Lemma b64_roundtrip l : is_bytes l -> b64_dec (b64 l) = l.
Proof. apply (b64_roundtrip_n (length l)). lia. Qed.

(* ---- utf-8 ---- *)

Lemma utf8_char_bytes c : 0 <= c < 1114112 -> is_bytes (utf8_char c).
Proof.
  intros H. unfold utf8_char, is_bytes.
  destruct (Z.ltb_spec c 128); [repeat constructor; lia|].
  destruct (Z.ltb_spec c 2048); [repeat constructor; Z.div_mod_to_equations; lia|].
  destruct (Z.ltb_spec c 65536); repeat constructor; Z.div_mod_to_equations; lia.
Qed.

Lemma utf8_bytes s : is_text s -> is_bytes (utf8 s).
Proof.
  induction 1 as [|c s Hc Hs IH]; cbn [utf8 flat_map]; [constructor|].
  apply Forall_app. split; [apply utf8_char_bytes; exact Hc|exact IH].
Qed.

Lemma utf8_dec_char f c rest : 0 <= c < 1114112 ->
  utf8_dec (S f) (utf8_char c ++ rest) = option_map (cons c) (utf8_dec f rest).
Proof.
  intros H. unfold utf8_char.
  destruct (Z.ltb_spec c 128) as [L1|L1].
  { cbn [app utf8_dec]. destruct (Z.ltb_spec c 128); [reflexivity|lia]. }
  destruct (Z.ltb_spec c 2048) as [L2|L2].
  { cbn [app utf8_dec].
    destruct (Z.ltb_spec (192 + c / 64) 128); [Z.div_mod_to_equations; lia|].
    destruct (Z.ltb_spec (192 + c / 64) 224); [|Z.div_mod_to_equations; lia].
    replace ((192 + c / 64 - 192) * 64 + (128 + c mod 64 - 128)) with c by (Z.div_mod_to_equations; lia).
    reflexivity. }
  destruct (Z.ltb_spec c 65536) as [L3|L3].
  { cbn [app utf8_dec].
    destruct (Z.ltb_spec (224 + c / 4096) 128); [Z.div_mod_to_equations; lia|].
    destruct (Z.ltb_spec (224 + c / 4096) 224); [Z.div_mod_to_equations; lia|].
    destruct (Z.ltb_spec (224 + c / 4096) 240); [|Z.div_mod_to_equations; lia].
    replace ((224 + c / 4096 - 224) * 4096 + (128 + (c / 64) mod 64 - 128) * 64 + (128 + c mod 64 - 128))
      with c by (Z.div_mod_to_equations; lia).
    reflexivity. }
  cbn [app utf8_dec].
  destruct (Z.ltb_spec (240 + c / 262144) 128); [Z.div_mod_to_equations; lia|].
  destruct (Z.ltb_spec (240 + c / 262144) 224); [Z.div_mod_to_equations; lia|].
  destruct (Z.ltb_spec (240 + c / 262144) 240); [Z.div_mod_to_equations; lia|].
  replace ((240 + c / 262144 - 240) * 262144 + (128 + (c / 4096) mod 64 - 128) * 4096 +
           (128 + (c / 64) mod 64 - 128) * 64 + (128 + c mod 64 - 128))
    with c by (Z.div_mod_to_equations; lia).
  reflexivity.
Qed.

Lemma utf8_dec_ok s : is_text s -> forall f, (length s <= f)%nat -> utf8_dec f (utf8 s) = Some s.
Proof.
  induction 1 as [|c s Hc Hs IH]; intros f L.
  - destruct f; reflexivity.
  - destruct f as [|f]; [cbn in L; lia|].
    cbn [utf8 flat_map]. rewrite utf8_dec_char by exact Hc. fold (utf8 s).
    rewrite IH by (cbn [length] in L; lia). reflexivity.
Qed.

Lemma utf8_char_len c : (1 <= length (utf8_char c))%nat.
Proof. unfold utf8_char. destruct (c <? 128), (c <? 2048), (c <? 65536); cbn; lia. Qed.

Lemma utf8_len s : (length s <= length (utf8 s))%nat.
Proof.
  induction s as [|c s IH]; cbn [utf8 flat_map length]; [lia|].
  rewrite app_length. pose proof (utf8_char_len c). fold (utf8 s). lia.
Qed.

Lemma utf8_roundtrip s : is_text s -> utf8_decode (utf8 s) = Some s.
Proof. intros H. unfold utf8_decode. apply utf8_dec_ok; [exact H|apply utf8_len]. Qed.

(* credentials written as base64(utf-8(text)) read back as the text *)
Lemma credentials_roundtrip s : is_text s -> utf8_decode (b64_dec (b64 (utf8 s))) = Some s.
Proof. intros H. rewrite b64_roundtrip by (apply utf8_bytes; exact H). apply utf8_roundtrip. exact H. Qed.
