(* C01/FactProps.v -- properties of the factorization of one symbol (relation FG of
   C01/FactList.v), relative to the final grammar G and suffix set SS in which the
   produced suffix entries live. *)
From Coq Require Import ZArith List Bool Lia Permutation.
From AK Require Import Common.Err LLP.Base LLP.Factor C01.Basics C01.Spec C01.FactList C01.FactExp.
Import ListNotations.
Local Open Scope nat_scope.

(* the suffix entries are entries of G, their keys are in SS *)
Definition ctx (G : grammar) (SS : list sym) (sfxp : grammar) : Prop :=
  forall k v, In (k, v) sfxp -> grules G k = v /\ mem k SS = true.

Definition chunks_clean (SS : list sym) (chunks : list (list rule)) : Prop :=
  forall c r, In c chunks -> In r c -> clean SS (rprod r).

(* the suffix symbol a rule refers to, if any *)
Definition tail1 (SS : list sym) (r : rule) : list sym :=
  match rprod r with
  | [] => []
  | _ :: _ => if mem (last (rprod r) []) SS then [last (rprod r) []] else []
  end.
Definition tails (SS : list sym) (v : list rule) : list sym := flat_map (tail1 SS) v.
Definition gtails (SS : list sym) (g : grammar) : list sym := flat_map (fun kv => tails SS (snd kv)) g.

Lemma tail1_clean : forall SS r, clean SS (rprod r) -> tail1 SS r = [].
Proof.
  intros SS r H. unfold tail1. destruct (rprod r) as [|s0 p0] eqn:E; [reflexivity|].
  rewrite H; [reflexivity|]. apply last_In. discriminate.
Qed.

Lemma tail1_group : forall SS s pre g n, mem g SS = true -> tail1 SS (mkRule s (pre ++ [g]) n) = [g].
Proof.
  intros SS s pre g n H. unfold tail1. cbn [rprod].
  destruct (pre ++ [g]) as [|s0 p0] eqn:E; [destruct pre; discriminate|].
  rewrite <- E, last_snoc, H. reflexivity.
Qed.

Lemma tail1_In : forall SS r x, In x (tail1 SS r) ->
  rprod r <> [] /\ x = last (rprod r) [] /\ mem x SS = true.
Proof.
  intros SS r x H. unfold tail1 in H. destruct (rprod r) as [|s0 p0] eqn:E; [contradiction|].
  destruct (mem (last (s0 :: p0) []) SS) eqn:Em; [|contradiction].
  destruct H as [<-|[]]. repeat split; [discriminate|assumption].
Qed.

Lemma tail1_intro : forall SS r, rprod r <> [] -> mem (last (rprod r) []) SS = true ->
  tail1 SS r = [last (rprod r) []].
Proof.
  intros SS r Hne Hm. unfold tail1. destruct (rprod r) as [|s0 p0]; [contradiction|]. now rewrite Hm.
Qed.

Lemma removelast_In : forall (p : list sym) x, In x (removelast p) -> In x p.
Proof.
  intros p x H. destruct (snoc_cases _ p) as [->|[p' [y ->]]]; [contradiction|].
  rewrite removelast_snoc in H. apply in_or_app. now left.
Qed.

Lemma clean_only_last : forall SS p, clean SS p -> only_last_sfx SS p = true.
Proof.
  intros SS p H. unfold only_last_sfx. apply forallb_forall. intros x Hx.
  apply negb_true_iff. apply H. now apply removelast_In.
Qed.

Lemma only_last_group : forall SS pre g, clean SS pre -> only_last_sfx SS (pre ++ [g]) = true.
Proof.
  intros SS pre g H. unfold only_last_sfx. rewrite removelast_snoc. apply forallb_forall.
  intros x Hx. apply negb_true_iff. now apply H.
Qed.

Lemma prefix_clean : forall SS q p, prefix q p -> clean SS p -> clean SS q.
Proof. intros SS q p [t ->] H x Hx. apply H. apply in_or_app. now left. Qed.

Lemma suffix_name_length : forall s gid, length s < length (suffix_name s gid).
Proof. intros. unfold suffix_name. rewrite !app_length. cbn. lia. Qed.

Lemma has_dunder_app : forall s t, has_dunder (s ++ 95%Z :: 95%Z :: t) = true.
Proof.
  induction s as [|x s IH]; intros t.
  - reflexivity.
  - cbn [app]. cbn [has_dunder]. destruct (s ++ 95%Z :: 95%Z :: t) as [|y r] eqn:E.
    + destruct s; discriminate.
    + rewrite <- E. rewrite IH. apply orb_true_r.
Qed.

Lemma suffix_name_dunder : forall s gid, has_dunder (suffix_name s gid) = true.
Proof. intros. unfold suffix_name. cbn [app]. apply has_dunder_app. Qed.

Lemma FG_length : forall s gid chunks rs sfxp, FG s gid chunks rs sfxp -> length rs = length chunks.
Proof. intros s gid chunks rs sfxp H. induction H; cbn; congruence. Qed.

(* the rules of the sub-chunks are remainders of the rules of the chunk *)
Lemma sub_chunks_clean : forall SS g (pre : list sym) chunk chunks',
  (forall r, In r chunk -> clean SS (rprod r)) ->
  concat chunks' = number_rules g (map (fun r => skipn (length pre) (rprod r)) chunk) 0 ->
  chunks_clean SS chunks'.
Proof.
  intros SS g pre chunk chunks' Hc Hcc c r Hin Hr.
  assert (H : In (rprod r) (map rprod (concat chunks'))).
  { apply in_map. apply in_concat. now exists c. }
  rewrite Hcc, number_rules_prods in H. apply in_map_iff in H as [r0 [<- Hr0]].
  apply clean_skipn. now apply Hc.
Qed.

Lemma ctx_sub : forall G SS a b, ctx G SS (a ++ b) -> ctx G SS a /\ ctx G SS b.
Proof.
  intros G SS a b H. split; intros k v Hin; apply H; apply in_or_app; [now left|now right].
Qed.

Section InContext.
  Variables (G : grammar) (SS : list sym).

  (* expansion gives back the productions that were factorized *)
  Lemma FG_exp : forall s gid chunks rs sfxp, FG s gid chunks rs sfxp ->
    ctx G SS sfxp -> chunks_clean SS chunks -> Exp G SS rs (map rprod (concat chunks)).
  Proof.
    intros s gid chunks rs sfxp H. induction H as [s gid|s gid r rest rs sfxp H IH|
      s gid chunk rest first pre g chunks' gr sub_p rs sfxp Hlen Hpre Hne Hg Hcc H1 IH1 H2 IH2]; intros Hctx Hcl.
    - apply Exp_nil.
    - cbn [concat app map].
      change (rprod r :: map rprod (concat rest)) with ([rprod r] ++ map rprod (concat rest)).
      apply Exp_cons with (F := 1).
      + apply expand_clean. apply (Hcl [r]); now left.
      + apply IH; [assumption|]. intros c r0 Hc. apply Hcl. now right.
    - cbn [concat]. rewrite map_app.
      change (((g, gr) :: sub_p) ++ sfxp) with ((g, gr) :: (sub_p ++ sfxp)) in Hctx.
      assert (Hg' : grules G g = gr /\ mem g SS = true) by (apply Hctx; now left).
      destruct Hg' as [Hgr Hgm].
      assert (Hctx' : ctx G SS (sub_p ++ sfxp)) by (intros k v Hin; apply Hctx; now right).
      apply ctx_sub in Hctx' as [Hc1 Hc2].
      assert (Hchunk : forall r, In r chunk -> clean SS (rprod r)) by (intros r Hr; apply (Hcl chunk); [now left|assumption]).
      assert (Hcl' : chunks_clean SS chunks') by (eapply sub_chunks_clean; eassumption).
      destruct (IH1 Hc1 Hcl') as [F1 HF1]. rewrite Hcc, number_rules_prods in HF1.
      apply Exp_cons with (F := S F1).
      + cbn [rprod]. rewrite (expand_group G SS F1 pre g (map (fun r => skipn (length pre) (rprod r)) chunk) Hgm); [|rewrite Hgr; exact HF1].
        f_equal. rewrite map_map. apply map_ext_in. intros r Hr.
        apply prefix_skipn. rewrite Hpre. apply lcp_prefix. now apply in_map.
      + apply IH2; [assumption|]. intros c r0 Hc. apply Hcl. now right.
  Qed.

  (* suffix symbols only at the end *)
  Lemma FG_last : forall s gid chunks rs sfxp, FG s gid chunks rs sfxp -> chunks_clean SS chunks ->
    (forall r, In r rs -> only_last_sfx SS (rprod r) = true) /\
    (forall k v r, In (k, v) sfxp -> In r v -> only_last_sfx SS (rprod r) = true).
  Proof.
    intros s gid chunks rs sfxp H. induction H as [s gid|s gid r rest rs sfxp H IH|
      s gid chunk rest first pre g chunks' gr sub_p rs sfxp Hlen Hpre Hne Hg Hcc H1 IH1 H2 IH2]; intros Hcl.
    - split; [intros r []|intros k v r []].
    - destruct IH as [I1 I2]; [intros c r0 Hc; apply Hcl; now right|]. split; [|assumption].
      intros r0 [<-|Hr0]; [|now apply I1]. apply clean_only_last. apply (Hcl [r]); now left.
    - assert (Hchunk : forall r, In r chunk -> clean SS (rprod r)) by (intros r Hr; apply (Hcl chunk); [now left|assumption]).
      assert (Hcl' : chunks_clean SS chunks') by (eapply sub_chunks_clean; eassumption).
      destruct (IH1 Hcl') as [A1 A2].
      destruct IH2 as [B1 B2]; [intros c r0 Hc; apply Hcl; now right|].
      split.
      + intros r [<-|Hr]; [|now apply B1]. cbn [rprod]. apply only_last_group.
        destruct chunk as [|r0 chunk0]; [cbn in Hlen; lia|].
        apply (prefix_clean SS pre (rprod r0)); [|apply Hchunk; now left].
        rewrite Hpre. apply lcp_prefix. now left.
      + intros k v r Hin Hr. cbn [app] in Hin. destruct Hin as [Hin|Hin].
        * injection Hin as <- <-. now apply A1.
        * apply in_app_or in Hin as [Hin|Hin]; [eapply A2|eapply B2]; eassumption.
  Qed.

  (* a rule refers only to a suffix symbol with a longer name than its own symbol *)
  Definition ref_longer (k : sym) (r : rule) : Prop :=
    forall x, In x (tail1 SS r) -> length k < length x.

  Lemma FG_rank : forall s gid chunks rs sfxp, FG s gid chunks rs sfxp -> chunks_clean SS chunks ->
    (forall r, In r rs -> ref_longer s r) /\
    (forall k v r, In (k, v) sfxp -> In r v -> ref_longer k r).
  Proof.
    intros s gid chunks rs sfxp H. induction H as [s gid|s gid r rest rs sfxp H IH|
      s gid chunk rest first pre g chunks' gr sub_p rs sfxp Hlen Hpre Hne Hg Hcc H1 IH1 H2 IH2]; intros Hcl.
    - split; [intros r []|intros k v r []].
    - destruct IH as [I1 I2]; [intros c r0 Hc; apply Hcl; now right|]. split; [|assumption].
      intros r0 [<-|Hr0]; [|now apply I1]. intros x Hx. rewrite tail1_clean in Hx; [contradiction|].
      apply (Hcl [r]); now left.
    - assert (Hchunk : forall r, In r chunk -> clean SS (rprod r)) by (intros r Hr; apply (Hcl chunk); [now left|assumption]).
      assert (Hcl' : chunks_clean SS chunks') by (eapply sub_chunks_clean; eassumption).
      destruct (IH1 Hcl') as [A1 A2].
      destruct IH2 as [B1 B2]; [intros c r0 Hc; apply Hcl; now right|].
      split.
      + intros r [<-|Hr]; [|now apply B1]. intros x Hx. apply tail1_In in Hx as [_ [Hx _]].
        cbn [rprod] in Hx. rewrite last_snoc in Hx. subst x g. apply suffix_name_length.
      + intros k v r Hin Hr. cbn [app] in Hin. destruct Hin as [Hin|Hin].
        * injection Hin as <- <-. now apply A1.
        * apply in_app_or in Hin as [Hin|Hin]; [eapply A2|eapply B2]; eassumption.
  Qed.

  (* every produced suffix symbol is referred to exactly once *)
  Lemma FG_tails : forall s gid chunks rs sfxp, FG s gid chunks rs sfxp ->
    ctx G SS sfxp -> chunks_clean SS chunks ->
    Permutation (tails SS rs ++ gtails SS sfxp) (map fst sfxp).
  Proof.
    intros s gid chunks rs sfxp H. induction H as [s gid|s gid r rest rs sfxp H IH|
      s gid chunk rest first pre g chunks' gr sub_p rs sfxp Hlen Hpre Hne Hg Hcc H1 IH1 H2 IH2]; intros Hctx Hcl.
    - constructor.
    - unfold tails. cbn [flat_map]. rewrite tail1_clean by (apply (Hcl [r]); now left). cbn [app].
      apply IH; [assumption|]. intros c r0 Hc. apply Hcl. now right.
    - change (((g, gr) :: sub_p) ++ sfxp) with ((g, gr) :: (sub_p ++ sfxp)) in *.
      assert (Hg' : grules G g = gr /\ mem g SS = true) by (apply Hctx; now left).
      destruct Hg' as [Hgr Hgm].
      assert (Hctx' : ctx G SS (sub_p ++ sfxp)) by (intros k v Hin; apply Hctx; now right).
      apply ctx_sub in Hctx' as [Hc1 Hc2].
      assert (Hchunk : forall r, In r chunk -> clean SS (rprod r)) by (intros r Hr; apply (Hcl chunk); [now left|assumption]).
      assert (Hcl' : chunks_clean SS chunks') by (eapply sub_chunks_clean; eassumption).
      specialize (IH1 Hc1 Hcl').
      assert (IH2' : Permutation (tails SS rs ++ gtails SS sfxp) (map fst sfxp))
        by (apply IH2; [assumption|]; intros c r0 Hc; apply Hcl; now right).
      unfold tails at 1. cbn [flat_map]. rewrite tail1_group by assumption.
      fold (tails SS rs). unfold gtails. cbn [flat_map snd]. rewrite flat_map_app.
      fold (gtails SS sub_p). fold (gtails SS sfxp).
      cbn [map fst app]. apply perm_skip. rewrite map_app.
      rewrite <- IH1, <- IH2'.
      rewrite (app_assoc (tails SS gr)). apply Permutation_app_swap_app.
  Qed.
End InContext.

Lemma FG_chunk_shape : forall s gid c rest rs sfxp, FG s gid (c :: rest) rs sfxp ->
  (exists r, c = [r]) \/ (2 <= length c /\ lcp (map rprod c) <> []).
Proof.
  intros s gid c rest rs sfxp H. inversion H as [|? ? r0 ? ? ? H0|? ? ? ? ? pre' ? ? ? ? ? ? Hlen' Hpre' Hne' ? ? ? ?].
  - left. now exists r0.
  - right. split; [assumption|]. now rewrite <- Hpre'.
Qed.

(* every suffix symbol gets at least two productions *)
Lemma FG_count : forall s gid chunks rs sfxp, FG s gid chunks rs sfxp ->
  forall k v, In (k, v) sfxp -> 2 <= length v.
Proof.
  intros s gid chunks rs sfxp H. induction H as [s gid|s gid r rest rs sfxp H IH|
    s gid chunk rest first pre g chunks' gr sub_p rs sfxp Hlen Hpre Hne Hg Hcc H1 IH1 H2 IH2]; intros k v Hin.
  - contradiction.
  - eapply IH; eassumption.
  - cbn [app] in Hin. destruct Hin as [Hin|Hin].
    + injection Hin as <- <-. rewrite (FG_length _ _ _ _ _ H1).
      assert (Hl : length (concat chunks') = length chunk) by (rewrite Hcc, number_rules_length, map_length; reflexivity).
      destruct chunks' as [|c [|c2 cs]]; cbn [length]; try lia.
      * cbn in Hl. lia.
      * exfalso. cbn [concat] in Hcc, Hl. rewrite app_nil_r in Hcc, Hl.
        destruct (FG_chunk_shape _ _ _ _ _ _ H1) as [[r0 Hr0]|[_ Hlcp]].
        -- rewrite Hr0 in Hl. cbn in Hl. lia.
        -- apply Hlcp. rewrite Hcc, number_rules_prods, Hpre.
           rewrite <- (map_map rprod (skipn (length (lcp (map rprod chunk))))).
           apply lcp_skipn_nil. destruct chunk; [cbn in Hlen; lia|discriminate].
    + apply in_app_or in Hin as [Hin|Hin]; [eapply IH1|eapply IH2]; eassumption.
Qed.

Lemma FG_dunder : forall s gid chunks rs sfxp, FG s gid chunks rs sfxp ->
  forall k, In k (map fst sfxp) -> has_dunder k = true.
Proof.
  intros s gid chunks rs sfxp H. induction H as [s gid|s gid r rest rs sfxp H IH|
    s gid chunk rest first pre g chunks' gr sub_p rs sfxp Hlen Hpre Hne Hg Hcc H1 IH1 H2 IH2]; intros k Hin.
  - contradiction.
  - now apply IH.
  - cbn [app map fst] in Hin. destruct Hin as [<-|Hin].
    + subst g. apply suffix_name_dunder.
    + rewrite map_app in Hin. apply in_app_or in Hin as [Hin|Hin]; [now apply IH1|now apply IH2].
Qed.
