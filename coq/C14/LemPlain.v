(* C14/LemPlain.v -- no_color, unconditionally: whatever is registered (valid or not,
   cyclic or not), a no_color configuration that exists only hands out the effect-free
   formatter. *)
From Coq Require Import ZArith List Bool Lia.
From AK Require Import Common.Err C14.Model C14.LemBase C14.LemHist.
Import ListNotations.
Open Scope Z_scope.

Definition plain_entry (e : entry) : Prop := e_fmt e = None \/ e_fmt e = Some [].
Definition plain (m : smap) : Prop := forall id e, lookup id m = Some e -> plain_entry e.

Lemma resolve_entry_plain parent e e' : resolve_entry true parent e = Ok e' -> e_fmt e' = Some [].
Proof.
  unfold resolve_entry. destruct (e_fmt e); [discriminate|].
  match goal with |- bind ?x _ = _ -> _ => destruct x as [e1|] end; cbn [bind]; [|discriminate].
  intros [= <-]. reflexivity.
Qed.

Lemma new_entry_plain init e : new_entry true init = Ok e -> plain_entry e.
Proof.
  unfold new_entry. destruct (parse_init_str init) as [d|]; cbn [bind]; [|discriminate].
  destruct (d_parent d).
  - intros [= <-]. left. reflexivity.
  - intros H. right. eapply resolve_entry_plain; eauto.
Qed.

Lemma plain_snoc m id e : plain m -> plain_entry e -> plain (m ++ [(id, e)]).
Proof.
  intros Hm He i e0 L. rewrite lookup_app in L. destruct (lookup i m) eqn:Li.
  - injection L as <-. eapply Hm; eauto.
  - cbn [lookup] in L. destruct (str_eqb i id); [|discriminate]. injection L as <-. exact He.
Qed.

Lemma plain_update m id e : plain m -> plain_entry e -> plain (update id e m).
Proof.
  intros Hm He i e0 L. destruct (str_eq_dec i id) as [->|Hne].
  - destruct (lookup id m) eqn:Li.
    + rewrite lookup_update_same in L by (eapply lookup_In_keys; eauto). injection L as <-. exact He.
    + assert (lookup id (update id e m) = None) as E.
      { apply lookup_None. rewrite update_keys. apply lookup_None. exact Li. }
      congruence.
  - rewrite lookup_update_other in L by exact Hne. eapply Hm; eauto.
Qed.

Lemma insert_plain : forall items m m', insert_items true m items = Ok m' -> plain m -> plain m'.
Proof.
  induction items as [|[id init] r IH]; intros m m'; cbn [insert_items].
  - intros [= <-] H. exact H.
  - destruct (has_key id m); [apply IH|].
    destruct (new_entry true init) as [e|] eqn:E; cbn [bind]; [|discriminate].
    intros H Hm. eapply IH; [exact H|]. apply plain_snoc; [exact Hm|]. eapply new_entry_plain; eauto.
Qed.

Lemma resolve_path_plain : forall l m pe m', resolve_path true m pe l = Ok m' -> plain m -> plain m'.
Proof.
  induction l as [|i r IH]; intros m pe m'; cbn [resolve_path].
  - intros [= <-] H. exact H.
  - destruct (lookup i m) as [e|]; [|discriminate].
    destruct (resolve_entry true (Some pe) e) as [e'|] eqn:E; cbn [bind]; [|discriminate].
    intros H Hm. eapply IH; [exact H|]. apply plain_update; [exact Hm|].
    right. eapply resolve_entry_plain; eauto.
Qed.

Lemma pass_plain : forall ids m cant any m' cant' any',
  pass true ids m cant any = Ok (m', cant', any') -> plain m -> plain m'.
Proof.
  induction ids as [|i r IH]; intros m cant any m' cant' any'; cbn [pass].
  - intros [= <- _ _] H. exact H.
  - destruct (lookup i m) as [e|]; [|discriminate].
    destruct (e_fmt e); [apply IH|].
    destruct (walk _ m cant i []) as [top p'|p'| |]; try discriminate.
    + destruct (lookup top m) as [pe|]; [|discriminate].
      destruct (resolve_path true m pe (rev p')) as [m1|] eqn:E; cbn [bind]; [|discriminate].
      intros H Hm. eapply IH; [exact H|]. eapply resolve_path_plain; eauto.
    + apply IH.
Qed.

Lemma loop_plain : forall fuel ids m cant m', resolve_loop fuel true ids m cant = Ok m' -> plain m -> plain m'.
Proof.
  induction fuel as [|f IH]; intros ids m cant m'; cbn [resolve_loop]; [discriminate|].
  destruct (pass true ids m cant false) as [[[m1 cant1] any1]|] eqn:E; cbn [bind]; [|discriminate].
  intros H Hm. assert (plain m1) as H1 by (eapply pass_plain; eauto).
  destruct any1; [eapply IH; eauto|]. assert (m' = m1) as -> by congruence. exact H1.
Qed.

Definition plainc (c : conf) : Prop :=
  c_nocolor c = true /\ plain (c_map c) /\
  forall snap, c_cache c = Some snap -> snap = map (fun _ => []) accessors.

Lemma add_new_items_plain c items c' : add_new_items c items = Ok c' -> plainc c -> plainc c'.
Proof.
  unfold add_new_items. intros H (Hnc & Hm & Hc). destruct items as [|it0 r]; [injection H as <-; repeat split; assumption|].
  rewrite Hnc in H.
  destruct (insert_items true (c_map c) (it0 :: r)) as [m1|] eqn:E1; cbn [bind] in H; [|discriminate].
  unfold resolve_pending in H.
  assert (plain m1) as H1 by (eapply insert_plain; eauto).
  destruct (sort_strs (unresolved_ids m1)) as [|i0 ids0] eqn:Es; cbn [bind] in H.
  - injection H as <-. split; [reflexivity|]. split; [exact H1|]. cbn [c_cache]. 
    match goal with |- context [if ?b then None else _] => destruct b end; [intros snap Hs; discriminate|exact Hc].
  - destruct (resolve_loop _ true (i0 :: ids0) m1 []) as [m2|] eqn:E2; cbn [bind] in H; [|discriminate].
    injection H as <-. split; [reflexivity|]. split; [eapply loop_plain; eauto|]. cbn [c_cache].
    match goal with |- context [if ?b then None else _] => destruct b end; [intros snap Hs; discriminate|exact Hc].
Qed.

Lemma get_color_plain c id : plain (c_map c) -> get_color c id = [].
Proof.
  intros Hm. unfold get_color.
  destruct (lookup id (c_map c)) as [e|] eqn:L.
  - destruct (Hm _ _ L) as [-> | ->]; reflexivity.
  - destruct (lookup dflt_id (c_map c)) as [e|] eqn:L2; [|reflexivity].
    destruct (Hm _ _ L2) as [-> | ->]; reflexivity.
Qed.

Lemma get_palette_plain c : plainc c -> plainc (fst (get_palette c)) /\ snd (get_palette c) = map (fun _ => []) accessors.
Proof.
  intros (Hnc & Hm & Hc). unfold get_palette. destruct (c_cache c) as [snap|] eqn:Ec; cbn [fst snd].
  - split; [split; [exact Hnc|split; [exact Hm|rewrite Ec; exact Hc]]|apply Hc; reflexivity].
  - assert (map (get_color c) accessors = map (fun _ => []) accessors) as E.
    { apply map_ext. intros a. apply get_color_plain. exact Hm. }
    split; [|exact E]. split; [exact Hnc|]. split; [exact Hm|]. cbn [c_cache]. intros snap H. congruence.
Qed.

Lemma run_hops_plain : forall h c c', run_hops c h = Ok c' -> plainc c -> plainc c'.
Proof.
  induction h as [|[items|] r IH]; intros c c'; cbn [run_hops].
  - intros [= <-] H. exact H.
  - destruct (add_new_items c items) as [c1|] eqn:E; cbn [bind]; [|discriminate].
    intros H Hc. eapply IH; [exact H|]. eapply add_new_items_plain; eauto.
  - intros H Hc. eapply IH; [exact H|]. apply get_palette_plain. exact Hc.
Qed.

Lemma no_color_always_l h c :
  run_hops (conf0 true) h = Ok c ->
  (forall id, get_color c id = []) /\ snd (get_palette c) = map (fun _ => []) accessors.
Proof.
  intros H. assert (plainc c) as Hc.
  { eapply run_hops_plain; [exact H|]. split; [reflexivity|]. split; [intros id e L; discriminate|].
    intros snap L. discriminate. }
  split; [intros id; apply get_color_plain; apply Hc|apply get_palette_plain; exact Hc].
Qed.
