(* C07/Run.v -- entry point of the correspondence check. *)
From Coq Require Import ZArith List Bool Arith.
From AK Require Export Common.Sx Common.Err C07.Model.
Import ListNotations.

(* a parent commit as the harness builds it: build tags before finalize_build_tag_info, and the
   major.minor of the version file saved in the commit (None: missing / unreadable) *)
Record rawcommit := mkRawC {
  raw_parents : list nat;
  raw_expl : bool;
  raw_tags : list rawtag;
  raw_saved : option (Z * Z);
  raw_pin : option bn }.
(* RCommit.build_nums = get_builds_numbers(commit); _mk_rcommits in the model sorts again (idempotent) *)
Definition finalize_commit (r : rawcommit) : commit :=
  mkC (raw_parents r) (raw_expl r) (builds_numbers (raw_saved r) (raw_tags r)) (raw_pin r).

Inductive case :=
| Order (repos : list nat) (deps : deps_t)
| Bump (ci : cinfo) (ctags : list (option (Z * Z) * list rawtag))
       (commits : list rawcommit) (heads : list (nat * nat)).

Definition sx_bn (b : bn) : sx := let '(x, y, z) := b in SL [SZ x; SZ y; SZ z].

(* from_build_nums is compared as a sorted list (its order is dict order in the code) *)
Definition sx_bump (b : bump) : sx :=
  SL [sx_bn (b_to_bn b); sx_list sx_bn (bn_sort (b_from_bns b));
      sx_option sx_nat (b_to b); sx_list sx_nat (b_from b)].

(* get_printable_rcommits(): explicit ones, newest iid first, as commit numbers *)
Definition printable (rcs : list (Z * rcommit)) (rb : rbuild) : list nat :=
  map (fun i => rc_commit (match zfind i rcs with Some r => r | None => no_rcommit end))
      (filter (fun i => rc_expl (match zfind i rcs with Some r => r | None => no_rcommit end))
              (rev (rb_rcommits rb))).

Definition sx_rbuild (rcs : list (Z * rcommit)) (p : Z * rbuild) : sx :=
  let rb := snd p in
  SL [sx_bn (rb_bn rb); SZ (rb_type rb); sx_list sx_nat (printable rcs rb); sx_option sx_bump (rb_bump rb)].

Definition sx_report (r : report) : sx :=
  SL [sx_list (fun br => SL [sx_nat (fst br); sx_list (sx_rbuild (r_rcs r)) (rev (snd br))]) (r_branches r);
      sx_list (fun p => SL [sx_nat (fst p);
                            sx_list (fun q => SL [sx_nat (fst q); sx_bn (snd q)]) (snd p)]) (r_included r)].

Definition run (c : case) : sx :=
  match c with
  | Order repos deps =>
      sx_res (fun l => sx_list (fun p => SL [sx_nat (fst p); sx_list sx_nat (snd p)]) l)
             (reports_order repos deps)
  | Bump ci ctags commits heads =>
      (* [report; included_at; get_builds_numbers of every component commit, of every parent commit] *)
      sx_res (fun r => match sx_report r with
                       | SL l => SL (l ++ [sx_list (fun p => sx_list sx_bn (builds_numbers (fst p) (snd p))) ctags;
                                           sx_list (fun c => sx_list sx_bn (c_tags (finalize_commit c))) commits])
                       | x => x
                       end)
             (parent_report ci (map finalize_commit commits) heads)
  end.
