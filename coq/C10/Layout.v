(* C10/Layout.v -- executable model of the LAYOUT code of the pretty-printer:
     ak/ppobj.py  PrettyPrinter._gen_ch_lines 154-170, _gen_ch_chunks_for_obj 172-292
                  (dict / list in one line when offset + visible length < 200, a long
                  list of simple values wrapped into lines of at most 150 visible
                  characters, everything else one item per line, indentation 2),
                  _simple_val_to_ch_chunk 311-325, _dict_key_to_sc_chunk 327-330.
   A json-like value [jv] is turned into the chunk program (Model.v: lines of
   items naming the palette accessor that colours each text) the world model
   renders.  Every measure is taken on the visible text of the chunks: the
   function has no palette / colour argument at all, so in the model the layout
   cannot depend on colours; the correspondence check compares the rendering of
   [pp_obj] under coloured and no_color configurations with the implementation's
   text, for values AT the 200 / 150 thresholds.
   What enters as oracle values from the harness: str() of numbers and of
   non-string dict keys, and the order of the dict keys (sorted by the
   implementation's _mk_type_sort_value).
   No proofs in this file. *)
From Coq Require Import ZArith List Bool Arith.
From AK Require Import C10.Base gen.C10_Consts C10.Model.
Import ListNotations.
Open Scope Z_scope.

Inductive jkey :=
| KStr (t : list Z)            (* str key: printed as "key" *)
| KRaw (t : list Z).           (* any other key: str(key) *)

Inductive jv :=
| JStr (t : list Z)
| JKw (k : Z)                  (* 0 True, 1 False, 2 None (identity test of the implementation) *)
| JNum (t : list Z)            (* str(number) *)
| JEmptyD                      (* {} : a simple value *)
| JEmptyL                      (* [] / () : a simple value *)
| JD (ks : list jkey) (vs : list jv)   (* non-empty dict, keys in printing order *)
| JL (xs : list jv).           (* non-empty list *)

Definition quote (t : list Z) : list Z := 34 :: t ++ [34].

(* _CONSTANTS_LITERALS: python form / json form *)
Definition kw_text (fj : bool) (k : Z) : list Z :=
  if k =? 0 then (if fj then [116; 114; 117; 101] else [84; 114; 117; 101])
  else if k =? 1 then (if fj then [102; 97; 108; 115; 101] else [70; 97; 108; 115; 101])
  else (if fj then [110; 117; 108; 108] else [78; 111; 110; 101]).

Definition tx (t : list Z) : item := IChunk None acc_text t.

(* _value_is_simple *)
Definition is_simple (v : jv) : bool := match v with JD _ _ | JL _ => false | _ => true end.

(* _simple_val_to_ch_chunk *)
Definition simple_item (fj : bool) (v : jv) : item :=
  match v with
  | JStr t => tx (quote t)
  | JKw k => IChunk None acc_keyword (kw_text fj k)
  | JNum t => IChunk None acc_number t
  | JEmptyD => tx [123; 125]
  | JEmptyL => tx [91; 93]
  | _ => tx []                 (* not a simple value: never asked for *)
  end.

(* _dict_key_to_sc_chunk *)
Definition key_item (k : jkey) : item :=
  IChunk None acc_name (match k with KStr t => quote t | KRaw t => t end).

(* len(chunk.text) / CHText.calc_chunks_len: the VISIBLE length *)
Definition item_len (it : item) : nat :=
  match it with IChunk _ _ t => length t | IPlain t => length t | IEnum _ _ _ _ _ => O end.
Definition items_len (l : list item) : nat := fold_right (fun it n => (item_len it + n)%nat) O l.

Definition spaces (n : nat) : list Z := repeat 32 n.

(* a token of the chunk generator: a chunk, or None = start a new line *)
Notation tok := (option item) (only parsing).

(* the one-line form of a dict of simple values, without the braces *)
Fixpoint dict_line (fj : bool) (ks : list jkey) (vs : list jv) (first : bool) : list item :=
  match ks, vs with
  | k :: ks', v :: vs' =>
      (if first then [] else [tx [44; 32]]) ++ [key_item k; tx [58; 32]; simple_item fj v] ++ dict_line fj ks' vs' false
  | _, _ => []
  end.

(* the one-line form of a list of simple values, without the brackets *)
Fixpoint list_line (its : list item) (first : bool) : list item :=
  match its with
  | [] => []
  | it :: r => (if first then [] else [tx [44; 32]]) ++ it :: list_line r false
  end.

(* ppobj.py 243-275: a long list of simple values, several values per line; a line
   is closed when the next value would take it over 150 visible characters *)
Fixpoint wrap (offset : nat) (its : list item) (len_y : nat) (first : bool) : list (option item) :=
  match its with
  | [] => []
  | it :: r =>
      let l := item_len it in
      let brk := Nat.ltb 150 (len_y + l) && negb first in
      let first1 := first || brk in
      let len1 := if brk then O else len_y in
      (if brk then [Some (tx [44]); None] else []) ++
      (if first1 then [Some (tx (spaces (offset + 2)))] else [Some (tx [44; 32])]) ++
      Some it ::
      (match r with [] => [None] | _ => [] end) ++
      wrap offset r ((if first1 then (offset + 2)%nat else (len1 + 2)%nat) + l)%nat false
  end.

(* _gen_ch_chunks_for_obj *)
Fixpoint pp_tokens (fj : bool) (v : jv) (offset : nat) {struct v} : list (option item) :=
  match v with
  | JD ks vs =>
      let one := tx [123] :: dict_line fj ks vs true ++ [tx [125]] in
      if forallb is_simple vs && Nat.ltb (offset + items_len one) 200 then map Some one
      else
        Some (tx [123]) ::
        (fix multi (ks : list jkey) (vs : list jv) (first : bool) {struct vs} : list (option item) :=
           match vs with
           | [] => []
           | x :: vs' =>
               match ks with
               | [] => []
               | k :: ks' =>
                   (if first then [] else [Some (tx [44])]) ++
                   [None; Some (tx (spaces (offset + 2))); Some (key_item k); Some (tx [58; 32])] ++
                   pp_tokens fj x (offset + 2) ++ multi ks' vs' false
               end
           end) ks vs true
        ++ [None; Some (tx (spaces offset ++ [125]))]
  | JL xs =>
      if forallb is_simple xs then
        let its := map (simple_item fj) xs in
        if Nat.ltb (offset + (items_len its + 2 * length its)) 200 then
          map Some (tx [91] :: list_line its true ++ [tx [93]])
        else
          Some (tx [91]) :: None :: wrap offset its O true ++ [Some (tx (spaces offset ++ [93]))]
      else
        Some (tx [91]) ::
        (fix multi (xs : list jv) (first : bool) {struct xs} : list (option item) :=
           match xs with
           | [] => []
           | x :: r =>
               (if first then [] else [Some (tx [44])]) ++
               [None; Some (tx (spaces (offset + 2)))] ++
               pp_tokens fj x (offset + 2) ++ multi r false
           end) xs true
        ++ [None; Some (tx (spaces offset ++ [93]))]
  | _ => [Some (simple_item fj v)]
  end.

(* _gen_ch_lines: None closes the line; what is left at the end is the last line *)
Fixpoint split_lines (toks : list (option item)) (cur : list item) : list (list item) :=
  match toks with
  | [] => match cur with [] => [] | _ => [rev cur] end
  | None :: r => rev cur :: split_lines r []
  | Some it :: r => split_lines r (it :: cur)
  end.

Definition pp_lines (fj : bool) (v : jv) : list (list item) := split_lines (pp_tokens fj v O) [].

(* the chunk program of PrettyPrinter(fmt_json=fj)(v) *)
Definition pp_obj (fj : bool) (v : jv) : objspec := mkObj pp_cls [] (pp_lines fj v).
