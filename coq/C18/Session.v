(* C18/Session.v -- several readings in ONE process, and in-place modifications made by the
   caller to values of objects it has been given.  Model only, no proofs (see LemmasSession.v).

   ak/xlsread.py builds every attribute value afresh from its source cell(s): the list of
   CellList._make_value, the set of CellSet, the dict / set of CellRange*.val_from_cells and the
   result of a callable default are new python objects for every attribute of every object of
   every reading, and a reading keeps no state (iter_table / TableReader.iter_xls compile the
   rules passed / the class's own ATTR_RULES on every call; prev_row, the bound columns and the
   title map are locals of one generator).  So
     * a reading is a function of (sheet, rules of that call) only: [do_read] does not see the
       session state, whatever was read before, by whatever entry point, for whatever class;
     * list.append / set.add / dict[k] = v on the value of attribute a of object j of reading r
       changes that value and nothing else: [OMut].
   The implementation is compared with this on every run (harness/props/c18.py, cases "sess"):
   every object of every reading is observed again at the END of the session. *)
From Coq Require Import ZArith List Bool.
From AK Require Import Common.Sx Common.Err C18.Base gen.C18_Consts C18.Model.
Import ListNotations.

(* set.add(m) on the canonical (sorted, duplicate free) representation *)
Definition set_add (m : str) (l : list str) : list str :=
  if existsb (str_eqb m) l then l else insert_by str_leb m l.

(* v.append(m) / v.add(m); the harness does not touch values of other types *)
Definition mut_sval (m : str) (v : sval) : sval :=
  match v with
  | VList l => VList (l ++ [m])
  | VSet l => VSet (set_add m l)
  | _ => v
  end.

(* inner = None: the attribute value itself (list.append, set.add, dict[m] = m);
   inner = Some k: the value stored under key k of a CellRangeDict attribute (d[k].append(m)) *)
Definition mut_value (inner : option str) (m : str) (v : value) : value :=
  match v, inner with
  | VS s, None => VS (mut_sval m s)
  | VDict d, None => VDict (assoc_set m (VStr m) d)
  | VTSet l, None => VTSet (set_add m l)
  | VDict d, Some k =>
      match assoc_get k d with
      | Some s => VDict (assoc_set k (mut_sval m s) d)
      | None => v
      end
  | _, Some _ => v
  end.

Fixpoint upd_nth {A} (n : nat) (f : A -> A) (l : list A) : list A :=
  match l, n with
  | [], _ => []
  | x :: r, O => f x :: r
  | x :: r, S k => x :: upd_nth k f r
  end.

Definition mut_attr (inner : option str) (m : str) (p : value * origin) : value * origin :=
  (mut_value inner m (fst p), snd p).

Definition mut_obj (a : nat) (inner : option str) (m : str) (o : obj) : obj :=
  mkObj (upd_nth a (mut_attr inner m) (o_attrs o)).

(* what the caller holds after one reading *)
Record reading : Type := mkReading {
  rd_items : list (option obj);
  rd_err : option err;
  rd_qkeys : list str }.

Inductive op : Type :=
| ORead (cf : config) (sh : list (list cval)) (qkeys : list str) (whole : bool)
        (* whole = the entry point returns a list (read_table, read_list): nothing on an exception;
           otherwise a generator (iter_table, iter_xls): the items yielded before the exception *)
| OReadM (mc : mconfig) (sh : list (list cval)) (qkeys : list str)
        (* XlsTableReader(rules_1, ..., rules_n).iter_table: every row yields a tuple of n objects; the
           caller holds the objects of all tuples, here in one list (row by row, n per row) *)
| OMut (r j a : nat) (inner : option str) (m : str).

Definition do_read (cf : config) (sh : list (list cval)) (qkeys : list str) (whole : bool) : reading :=
  let (items, e) := read_table cf sh in
  match whole, e with
  | true, Some _ => mkReading [] e qkeys
  | _, _ => mkReading items e qkeys
  end.

Definition do_read_m (mc : mconfig) (sh : list (list cval)) (qkeys : list str) : reading :=
  let (items, e) := read_table_m mc sh in mkReading (concat items) e qkeys.

Definition mut_reading (j a : nat) (inner : option str) (m : str) (rd : reading) : reading :=
  mkReading (upd_nth j (option_map (mut_obj a inner m)) (rd_items rd)) (rd_err rd) (rd_qkeys rd).

Definition step (st : list reading) (o : op) : list reading :=
  match o with
  | ORead cf sh qk w => st ++ [do_read cf sh qk w]
  | OReadM mc sh qk => st ++ [do_read_m mc sh qk]
  | OMut r j a inner m => upd_nth r (mut_reading j a inner m) st
  end.

Definition run_session (ops : list op) : list reading := fold_left step ops [].

(* A reading of several object classes followed by the caller's edits (Run.ReadM): muts = (index of the
   object in the row-by-row list of all objects, attribute, inner key, marker) *)
Definition mut_ops (muts : list (nat * nat * option str * str)) : list op :=
  map (fun m => match m with (j, a, inner, mk) => OMut 0 j a inner mk end) muts.
Definition multi_ops (mc : mconfig) (rows : list (list cval)) (qkeys : list str)
           (muts : list (nat * nat * option str * str)) : list op :=
  OReadM mc rows qkeys :: mut_ops muts.
(* (number of tuples, the session's readings at the end) with the table read once
   (LemmasSession.multi_final_spec: it is run_session (multi_ops ...)) *)
Definition multi_final (mc : mconfig) (rows : list (list cval)) (qkeys : list str)
           (muts : list (nat * nat * option str * str)) : nat * list reading :=
  let (items, e) := read_table_m mc rows in
  (length items, fold_left step (mut_ops muts) [mkReading (concat items) e qkeys]).
