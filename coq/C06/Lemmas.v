(* C06/Lemmas.v -- proofs about the model of ak/ghist.py (single repository), part 1:
   obligations on the constants read from the source, the search predicate,
   the branch comparator (strict total order on sort keys, numeric-aware,
   master last) and the sort. *)
From Coq Require Import ZArith List Bool Lia Arith Sorting.Sorted Sorting.Permutation.
From AK Require Import Common.Sx Common.Err gen.C06_Consts C06.Model.
Import ListNotations.
Open Scope Z_scope.

(* ------------------------------------------------------------------ *)
(* obligations on the constants / clause shapes read from the source    *)

Lemma consts_cmp : int_vs_str < 0 /\ 0 < str_vs_int.
Proof. vm_compute. split; reflexivity. Qed.

Lemma consts_nm : nm_requires_explicit = true /\ nm_excludes_this_branch = true.
Proof. vm_compute. split; reflexivity. Qed.

Lemma consts_fake : fake_not_built <> fake_not_merged /\ 0 < fake_iid_base.
Proof. vm_compute. split; [discriminate|reflexivity]. Qed.

(* the window of the property's quantifier: 30 days *)
Lemma consts_cutoff : obsolete_cutoff = 30 * 86400 /\ 0 <= obsolete_cutoff.
Proof. vm_compute. split; [reflexivity|discriminate]. Qed.

(* ------------------------------------------------------------------ *)
(* search predicate = "text occurs in the message"                      *)

Lemma prefixb_spec p s : prefixb p s = true <-> exists post, s = p ++ post.
Proof.
  revert s. induction p as [|x p IH]; intros s; cbn [prefixb].
  - split; [intros _; exists s; reflexivity|reflexivity].
  - destruct s as [|y s].
    + split; [discriminate|intros [post H]; discriminate].
    + rewrite andb_true_iff, IH, Z.eqb_eq. split.
      * intros [-> [post ->]]. exists post. reflexivity.
      * intros [post H]. cbn in H. injection H as -> ->. split; [reflexivity|eauto].
Qed.

Lemma containsb_spec t s : containsb t s = true <-> exists pre post, s = pre ++ t ++ post.
Proof.
  induction s as [|y s IH]; cbn [containsb]; rewrite orb_true_iff, prefixb_spec.
  - split.
    + intros [[post H]|H]; [|discriminate]. exists [], post. exact H.
    + intros (pre & post & H). left. destruct pre; [exists post; exact H|discriminate].
  - rewrite IH. split.
    + intros [[post H]|(pre & post & H)].
      * exists [], post. exact H.
      * exists (y :: pre), post. cbn. rewrite H. reflexivity.
    + intros (pre & post & H). destruct pre as [|z pre].
      * left. exists post. exact H.
      * right. cbn in H. injection H as _ H2. eauto.
Qed.

(* ------------------------------------------------------------------ *)
(* str_cmp: lexicographic order on code points                          *)

Lemma str_cmp_refl s : str_cmp s s = 0.
Proof. induction s as [|x s IH]; cbn [str_cmp]; [reflexivity|]. rewrite Z.ltb_irrefl. exact IH. Qed.

Lemma str_cmp_range s t : str_cmp s t = -1 \/ str_cmp s t = 0 \/ str_cmp s t = 1.
Proof.
  revert t. induction s as [|x s IH]; intros [|y t]; cbn [str_cmp]; auto.
  destruct (x <? y); auto. destruct (y <? x); auto.
Qed.

Lemma str_cmp_eq s t : str_cmp s t = 0 -> s = t.
Proof.
  revert t. induction s as [|x s IH]; intros [|y t]; cbn [str_cmp]; try discriminate; [reflexivity|].
  destruct (Z.ltb_spec x y); [discriminate|]. destruct (Z.ltb_spec y x); [discriminate|].
  intros E. f_equal; [lia|apply IH; exact E].
Qed.

Lemma str_cmp_antisym s t : str_cmp t s = - str_cmp s t.
Proof.
  revert t. induction s as [|x s IH]; intros [|y t]; cbn [str_cmp]; try reflexivity.
  destruct (Z.ltb_spec x y); destruct (Z.ltb_spec y x); try lia. apply IH.
Qed.

Lemma str_cmp_trans a b c : str_cmp a b < 0 -> str_cmp b c < 0 -> str_cmp a c < 0.
Proof.
  revert b c. induction a as [|x a IH]; intros [|y b] [|z c]; cbn [str_cmp]; try lia.
  destruct (Z.ltb_spec x y); destruct (Z.ltb_spec y z); destruct (Z.ltb_spec x z);
    destruct (Z.ltb_spec y x); destruct (Z.ltb_spec z y); destruct (Z.ltb_spec z x); try lia.
  apply IH.
Qed.

(* ------------------------------------------------------------------ *)
(* cmp_item / cmp_items                                                 *)

Lemma cmp_item_refl x : cmp_item x x = 0.
Proof. destruct x; cbn [cmp_item]; [lia|apply str_cmp_refl]. Qed.

Lemma cmp_item_eq x y : cmp_item x y = 0 -> x = y.
Proof.
  pose proof consts_cmp. destruct x, y; cbn [cmp_item]; intros E; try lia.
  - f_equal. lia.
  - f_equal. apply str_cmp_eq. exact E.
Qed.

Lemma cmp_item_antisym x y : (cmp_item x y < 0 <-> 0 < cmp_item y x) /\ (cmp_item x y = 0 <-> cmp_item y x = 0).
Proof.
  pose proof consts_cmp. destruct x, y; cbn [cmp_item]; try lia.
  rewrite (str_cmp_antisym s s0). lia.
Qed.

Lemma cmp_item_trans x y z : cmp_item x y < 0 -> cmp_item y z < 0 -> cmp_item x z < 0.
Proof.
  pose proof consts_cmp. destruct x, y, z; cbn [cmp_item]; try lia. apply str_cmp_trans.
Qed.

Lemma cmp_items_refl a : cmp_items a a = 0.
Proof.
  induction a as [|x a IH]; cbn [cmp_items length]; [lia|].
  rewrite cmp_item_refl. cbn. exact IH.
Qed.

Lemma cmp_items_eq a b : cmp_items a b = 0 -> a = b.
Proof.
  revert b. induction a as [|x a IH]; intros [|y b]; cbn [cmp_items length]; try lia.
  - reflexivity.
  - destruct (Z.eqb_spec (cmp_item x y) 0) as [E|E]; [|lia].
    intros H. apply cmp_item_eq in E. subst y. f_equal. apply IH. exact H.
Qed.

Lemma cmp_items_antisym a b : (cmp_items a b < 0 <-> 0 < cmp_items b a).
Proof.
  revert b. induction a as [|x a IH]; intros [|y b]; cbn [cmp_items length]; try lia.
  destruct (cmp_item_antisym x y) as [H1 H2].
  destruct (Z.eqb_spec (cmp_item x y) 0) as [E|E]; destruct (Z.eqb_spec (cmp_item y x) 0) as [E'|E'];
    try lia. apply IH.
Qed.

Lemma cmp_items_trans a b c : cmp_items a b < 0 -> cmp_items b c < 0 -> cmp_items a c < 0.
Proof.
  revert b c. induction a as [|x a IH]; intros [|y b] [|z c]; cbn [cmp_items length]; try lia.
  destruct (Z.eqb_spec (cmp_item x y) 0) as [E1|E1];
    destruct (Z.eqb_spec (cmp_item y z) 0) as [E2|E2].
  - apply cmp_item_eq in E1, E2. subst. rewrite cmp_item_refl. cbn. apply IH.
  - apply cmp_item_eq in E1. subst y. destruct (Z.eqb_spec (cmp_item x z) 0); [contradiction|]. lia.
  - apply cmp_item_eq in E2. subst z. destruct (Z.eqb_spec (cmp_item x y) 0); [contradiction|]. lia.
  - intros H1 H2. pose proof (cmp_item_trans x y z H1 H2) as H3.
    destruct (Z.eqb_spec (cmp_item x z) 0); lia.
Qed.

(* items_lt is a strict total order on sort keys; on branch names (which map to keys) it is
   therefore a strict weak order: incomparable names are exactly those with equal keys *)
Lemma items_lt_irrefl a : items_lt a a = false.
Proof. unfold items_lt. rewrite cmp_items_refl. reflexivity. Qed.

Lemma items_lt_trans a b c : items_lt a b = true -> items_lt b c = true -> items_lt a c = true.
Proof. unfold items_lt. rewrite !Z.ltb_lt. apply cmp_items_trans. Qed.

Lemma items_lt_asym a b : items_lt a b = true -> items_lt b a = false.
Proof.
  unfold items_lt. rewrite Z.ltb_lt, Z.ltb_ge. intros H. apply cmp_items_antisym in H. lia.
Qed.

Lemma items_lt_total a b : items_lt a b = false -> items_lt b a = false -> a = b.
Proof.
  unfold items_lt. rewrite !Z.ltb_ge. intros H1 H2. apply cmp_items_eq.
  destruct (Z.eq_dec (cmp_items a b) 0) as [E|E]; [exact E|].
  assert (0 < cmp_items a b) as H by lia. apply cmp_items_antisym in H. lia.
Qed.

(* "not greater" is transitive (negative transitivity of the strict order) *)
Lemma items_le_trans a b c : items_lt b a = false -> items_lt c b = false -> items_lt c a = false.
Proof.
  intros H1 H2. destruct (items_lt c a) eqn:E; [|reflexivity].
  destruct (items_lt a b) eqn:E2.
  - rewrite (items_lt_trans _ _ _ E E2) in H2. discriminate.
  - rewrite (items_lt_total _ _ E2 H1) in E. congruence.
Qed.

(* numeric-aware: at the first differing position two integers compare as numbers *)
Lemma cmp_items_numeric p n m r1 r2 : n < m -> cmp_items (p ++ IInt n :: r1) (p ++ IInt m :: r2) < 0.
Proof.
  intros H. induction p as [|x p IH]; cbn [app cmp_items cmp_item].
  - destruct (Z.eqb_spec (n - m) 0); lia.
  - rewrite cmp_item_refl. cbn. exact IH.
Qed.

(* an integer item sorts before any text item at the same position *)
Lemma cmp_items_int_before_text p n s r1 r2 : cmp_items (p ++ IInt n :: r1) (p ++ IStr s :: r2) < 0.
Proof.
  pose proof consts_cmp. induction p as [|x p IH]; cbn [app cmp_items cmp_item].
  - destruct (Z.eqb_spec int_vs_str 0); lia.
  - rewrite cmp_item_refl. cbn. exact IH.
Qed.

(* a proper prefix sorts first: release/10 < release/10.1 *)
Lemma cmp_items_prefix p x r : cmp_items p (p ++ x :: r) < 0.
Proof.
  induction p as [|y p IH]; cbn [app cmp_items length]; [lia|].
  rewrite cmp_item_refl. cbn. exact IH.
Qed.

(* master last: the prefix item is above every key whose first item is an integer or a text below it *)
Definition below_master (k : list item) : Prop :=
  match k with
  | [] => True
  | IInt _ :: _ => True
  | IStr s :: _ => str_cmp s master_prefix < 0
  end.

Lemma master_above k k' : below_master k -> cmp_items k (IStr master_prefix :: k') < 0.
Proof.
  pose proof consts_cmp. destruct k as [|[n|s] k]; cbn [below_master cmp_items cmp_item length]; intros Hb.
  - lia.
  - destruct (Z.eqb_spec int_vs_str 0); lia.
  - destruct (Z.eqb_spec (str_cmp s master_prefix) 0); lia.
Qed.

(* ------------------------------------------------------------------ *)
(* mk_sort_items of "<remote>/..." starts with the items of the remote  *)

Lemma chunks_aux_nobreak s cur rest :
  forallb (fun c => negb (is_break c)) s = true ->
  chunks_aux (s ++ rest) cur = chunks_aux rest (rev s ++ cur).
Proof.
  revert cur. induction s as [|c s IH]; intros cur H; cbn [app rev]; [reflexivity|].
  cbn [forallb] in H. apply andb_prop in H as [Hc Hs]. cbn [chunks_aux].
  apply negb_true_iff in Hc. rewrite Hc. rewrite IH by exact Hs. rewrite <- app_assoc. reflexivity.
Qed.

Lemma chunks_simple_head s c rest :
  s <> [] -> forallb (fun c => negb (is_break c)) s = true -> is_break c = true ->
  chunks (s ++ c :: rest) = s :: chunks rest.
Proof.
  intros Hne Hs Hc. unfold chunks. rewrite chunks_aux_nobreak by exact Hs. cbn [chunks_aux]. rewrite Hc.
  rewrite app_nil_r. destruct (rev s) eqn:E.
  - exfalso. apply Hne. rewrite <- (rev_involutive s), E. reflexivity.
  - rewrite <- E, rev_involutive. reflexivity.
Qed.

(* ------------------------------------------------------------------ *)
(* the stable insertion sort                                            *)

Section SortFacts.
  Context {A : Type} (lt : A -> A -> bool).
  Hypothesis lt_trans : forall a b c, lt a b = true -> lt b c = true -> lt a c = true.
  Hypothesis lt_asym : forall a b, lt a b = true -> lt b a = false.

  (* a is not greater than b *)
  Definition le (a b : A) : Prop := lt b a = false.

  Lemma insert_perm x l : Permutation (x :: l) (insert_stable lt x l).
  Proof.
    induction l as [|y r IH]; cbn [insert_stable]; [apply Permutation_refl|].
    destruct (lt x y); [apply Permutation_refl|].
    eapply Permutation_trans; [apply perm_swap|]. apply perm_skip. exact IH.
  Qed.

  Lemma insert_forall (P : A -> Prop) x l : P x -> Forall P l -> Forall P (insert_stable lt x l).
  Proof.
    intros Hx Hl. eapply Permutation_Forall; [apply insert_perm|]. constructor; assumption.
  Qed.

  Lemma insert_sorted x l : StronglySorted le l -> StronglySorted le (insert_stable lt x l).
  Proof.
    induction 1 as [|y r Hs IH Hy]; cbn [insert_stable]; [repeat constructor|].
    destruct (lt x y) eqn:E.
    - constructor; [constructor; assumption|]. constructor.
      + apply lt_asym. exact E.
      + eapply Forall_impl; [|exact Hy]. intros z Hz. unfold le in *.
        destruct (lt z x) eqn:E2; [|reflexivity]. rewrite (lt_trans _ _ _ E2 E) in Hz. discriminate.
    - constructor; [exact IH|]. apply insert_forall; [exact E|exact Hy].
  Qed.

  Lemma fold_insert_sorted l acc :
    StronglySorted le acc -> StronglySorted le (fold_left (fun a x => insert_stable lt x a) l acc).
  Proof. revert acc. induction l as [|x l IH]; intros acc H; cbn [fold_left]; [exact H|]. apply IH, insert_sorted, H. Qed.

  Lemma fold_insert_perm l acc :
    Permutation (acc ++ l) (fold_left (fun a x => insert_stable lt x a) l acc).
  Proof.
    revert acc. induction l as [|x l IH]; intros acc; cbn [fold_left]; [rewrite app_nil_r; apply Permutation_refl|].
    eapply Permutation_trans; [|apply IH].
    eapply Permutation_trans; [apply Permutation_sym, Permutation_middle|].
    change (x :: acc ++ l) with ((x :: acc) ++ l). apply Permutation_app_tail. apply insert_perm.
  Qed.

  Lemma stable_sort_sorted l : StronglySorted le (stable_sort lt l).
  Proof. apply fold_insert_sorted. constructor. Qed.

  Lemma stable_sort_perm l : Permutation l (stable_sort lt l).
  Proof. apply (fold_insert_perm l []). Qed.
End SortFacts.

Definition branch_lt (a b : branch) : bool := items_lt (b_key a) (b_key b).

Lemma sorted_branches_sorted remote refs :
  StronglySorted (fun a b => branch_lt b a = false) (sorted_branches remote refs).
Proof.
  apply (stable_sort_sorted branch_lt); unfold branch_lt.
  - intros a b c. apply items_lt_trans.
  - intros a b. apply items_lt_asym.
Qed.

Lemma sorted_branches_perm remote refs :
  Permutation (release_branches remote refs) (sorted_branches remote refs).
Proof. apply stable_sort_perm. Qed.

(* ------------------------------------------------------------------ *)
(* master / main sort behind every release branch                       *)

Definition is_master_key (k : list item) : Prop := exists k', k = IStr master_prefix :: k'.

(* the remote name is one chunk (no separator in it) that sorts below the master prefix *)
Definition remote_ok (remote : list Z) : Prop :=
  remote <> [] /\ forallb (fun c => negb (is_break c)) remote = true /\ below_master [mk_item remote].

Lemma slash_breaks : is_break 47 = true.
Proof. vm_compute. reflexivity. Qed.

Lemma release_key_below remote name :
  remote_ok remote -> prefixb (remote ++ [47] ++ release_dir) name = true -> below_master (mk_sort_items name).
Proof.
  intros (Hne & Hnb & Hb) Hp. apply prefixb_spec in Hp as [post ->].
  unfold mk_sort_items. rewrite <- !app_assoc. cbn [app].
  rewrite (chunks_simple_head remote 47 _ Hne Hnb slash_breaks). cbn [map]. exact Hb.
Qed.

Lemma release_branches_keys remote refs b :
  remote_ok remote -> In b (release_branches remote refs) -> is_master_key (b_key b) \/ below_master (b_key b).
Proof.
  intros Hr. unfold release_branches. rewrite in_flat_map. intros ([name head] & _ & Hin).
  apply in_app_or in Hin as [Hin|Hin].
  - destruct (existsb _ master_names); [|destruct Hin]. destruct Hin as [<-|[]]. left. cbn [b_key]. eexists. reflexivity.
  - destruct (prefixb (remote ++ [47] ++ release_dir) name) eqn:E; [|destruct Hin]. destruct Hin as [<-|[]].
    right. cbn [b_key]. apply (release_key_below remote name Hr E).
Qed.

Lemma strongly_sorted_tail {A} (R : A -> A -> Prop) l1 b l2 :
  StronglySorted R (l1 ++ b :: l2) -> Forall (R b) l2.
Proof.
  induction l1 as [|x l1 IH]; cbn [app]; intros H; inversion H; subst; [assumption|apply IH; assumption].
Qed.

Lemma master_last_l remote refs l1 b l2 :
  remote_ok remote -> sorted_branches remote refs = l1 ++ b :: l2 -> is_master_key (b_key b) ->
  forall b', In b' l2 -> is_master_key (b_key b').
Proof.
  intros Hr E [k Hk] b' Hb'.
  pose proof (sorted_branches_sorted remote refs) as S. rewrite E in S.
  apply strongly_sorted_tail in S. rewrite Forall_forall in S. specialize (S b' Hb').
  assert (In b' (release_branches remote refs)) as Hin.
  { eapply Permutation_in; [apply Permutation_sym, sorted_branches_perm|]. rewrite E.
    apply in_or_app. right. right. exact Hb'. }
  destruct (release_branches_keys remote refs b' Hr Hin) as [Hm|Hbel]; [exact Hm|].
  exfalso. unfold branch_lt, items_lt in S. rewrite Hk in S. apply Z.ltb_ge in S.
  pose proof (master_above (b_key b') k Hbel). lia.
Qed.

(* the branches that were read are a subsequence of the sorted branches *)
Inductive subseq {A} : list A -> list A -> Prop :=
| subseq_nil : subseq [] []
| subseq_skip x l1 l2 : subseq l1 l2 -> subseq l1 (x :: l2)
| subseq_take x l1 l2 : subseq l1 l2 -> subseq (x :: l1) (x :: l2).

Definition branch_id (b : branch) : list Z * nat := (b_name b, b_head b).
Definition rbranch_id (b : rbranch) : list Z * nat := (br_name b, br_head b).

Lemma step_branch_branches h g b :
  map rbranch_id (g_branches (step_branch h g b)) = map rbranch_id (g_branches g) \/
  map rbranch_id (g_branches (step_branch h g b)) = map rbranch_id (g_branches g) ++ [branch_id b].
Proof.
  unfold step_branch. destruct (match g_min_ts g with Some m => _ | None => false end); [left; reflexivity|].
  destruct (read_branch _ _ _ _ _) as [[s rbs] fake]. right. cbn [g_branches]. rewrite map_app. reflexivity.
Qed.

Lemma run_branches_subseq h bs : forall g,
  exists l, map rbranch_id (g_branches (fold_left (step_branch h) bs g)) = map rbranch_id (g_branches g) ++ l /\
            subseq l (map branch_id bs).
Proof.
  induction bs as [|b bs IH]; intros g; cbn [fold_left map].
  - exists []. rewrite app_nil_r. split; [reflexivity|constructor].
  - destruct (IH (step_branch h g b)) as (l & E & S). destruct (step_branch_branches h g b) as [E1|E1]; rewrite E1 in E.
    + exists l. split; [exact E|constructor; exact S].
    + exists (branch_id b :: l). rewrite <- app_assoc in E. split; [exact E|constructor; exact S].
Qed.

Lemma all_branches_subseq h :
  subseq (map (fun b => (obr_name b, obr_head b)) (all_branches h))
         (map branch_id (sorted_branches (h_remote h) (h_refs h))).
Proof.
  unfold all_branches, run_graph.
  destruct (run_branches_subseq h (sorted_branches (h_remote h) (h_refs h)) (mkG init_state [] None fake_iid_base))
    as (l & E & S).
  cbn [g_branches map app] in E. rewrite map_map. cbn [obr_name obr_head].
  change (fun x : rbranch => (br_name x, br_head x)) with rbranch_id. rewrite E. exact S.
Qed.
