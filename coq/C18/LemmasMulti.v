(* C18/LemmasMulti.v -- XlsTableReader with several rule sets (Model.read_table_m): every table row
   yields a tuple of objects, one per rule set.  The set of column names "claimed by name" is the
   union over ALL rule sets; the i-th object of a reading is what its own rules read from the sheet
   with that union as the known names (objects_independent); origin_consistent and rows_in_order for
   tuples; the reader with one rule set is the module-level iter_table (read_table_one). *)
From Coq Require Import ZArith List Bool Lia.
From AK Require Import Common.Sx Common.Err C18.Base gen.C18_Consts C18.Model C18.Lemmas C18.LemmasLadder.
Import ListNotations.

(* ------------------------------------------------------------------ *)
(* generic facts                                                       *)

Lemma map_res_err {A B} (f : A -> res B) : forall l e,
  map_res f l = Err e -> exists x, In x l /\ f x = Err e.
Proof.
  induction l as [|x l IH]; intros e H; cbn [map_res] in H; [discriminate|].
  destruct (f x) as [y|e0] eqn:E.
  - destruct (map_res f l) as [ys|e1] eqn:E2; [discriminate|]. injection H as <-.
    destruct (IH e1 eq_refl) as [z [Hz1 Hz2]]. exists z. split; [right; exact Hz1|exact Hz2].
  - injection H as <-. exists x. split; [left; reflexivity|exact E].
Qed.

Lemma Forall2_in_l {A B} (R : A -> B -> Prop) l l' x :
  Forall2 R l l' -> In x l -> exists y, In (x, y) (combine l l') /\ R x y.
Proof.
  induction 1 as [|a b l l' Hab H IH]; intros Hin; [destruct Hin|].
  destruct Hin as [->|Hin].
  - exists b. split; [left; reflexivity|exact Hab].
  - destruct (IH Hin) as [y [H1 H2]]. exists y. split; [right; exact H1|exact H2].
Qed.

Lemma Forall2_in_combine {A B} (R : A -> B -> Prop) l l' x y :
  Forall2 R l l' -> In (x, y) (combine l l') -> R x y /\ In x l.
Proof.
  induction 1 as [|a b l l' Hab H IH]; intros Hin; [destruct Hin|].
  destruct Hin as [Hin|Hin].
  - injection Hin as <- <-. split; [exact Hab|left; reflexivity].
  - destruct (IH Hin) as [H1 H2]. split; [exact H1|right; exact H2].
Qed.

(* Forall2 over (combine l l') re-expressed over l, when l' is determined by l through Q *)
Lemma Forall2_combine_l {A B C} (Q : A -> B -> Prop) (P : A * B -> C -> Prop) (P' : A -> C -> Prop) :
  (forall a b c, Q a b -> P (a, b) c -> P' a c) ->
  forall l l' t, Forall2 Q l l' -> Forall2 P (combine l l') t -> Forall2 P' l t.
Proof.
  intros HP l l' t HQ. revert t. induction HQ as [|a b l l' Hab HQ IH]; intros t H; cbn [combine] in H.
  - inversion H; subst. constructor.
  - inversion H as [|? c ? t' Hc Ht]; subst. constructor; [eapply HP; eauto|apply IH; exact Ht].
Qed.

(* ------------------------------------------------------------------ *)
(* the loop looks at stop_on / ladder_format only                      *)

Lemma is_end_mc mc ob row : is_end (mc_cf mc ob) row = is_end (mc_loop mc) row.
Proof. reflexivity. Qed.

Lemma cur_row_mc mc ob fcp prev row : cur_row (mc_cf mc ob) fcp prev row = cur_row (mc_loop mc) fcp prev row.
Proof. reflexivity. Qed.

Lemma vis_end_mc mc ob vs : vis_end (mc_cf mc ob) vs = vis_end (mc_loop mc) vs.
Proof. reflexivity. Qed.

(* ------------------------------------------------------------------ *)
(* read_table_m, decomposed                                            *)

Lemma read_table_m_run mc sh :
  match title_row sh with
  | None => read_table_m mc sh = ([], None)
  | Some (t, tvs) =>
      nth_error sh t = Some tvs /\ vrow_blank tvs = false /\
      (forall i vs, (i < t)%nat -> nth_error sh i = Some vs -> vrow_blank vs = true) /\
      let names := map val_title tvs in
      match bind_objs (known_all (mc_objs mc)) names (mc_objs mc) with
      | Err e => read_table_m mc sh = ([], Some e)
      | Ok bss =>
          exists body tr e,
            (forall k, nth_error body k = nth_error sh (S t + k)) /\
            run_gen (mc_loop mc) (construct_all (mc_objs mc) bss) (first_some_pos names 0) None
                    (index_rows (S t) body) tr e /\
            read_table_m mc sh = (map st_item tr, e)
      end
  end.
Proof.
  unfold title_row, read_table_m, read_cells_m, index_sheet.
  pose proof (skip_blank_find sh 0) as H.
  destruct (find_title sh 0) as [[t tvs]|].
  - destruct H as [body [H1 [_ [H3 [H4 [H5 H6]]]]]]. rewrite Nat.sub_0_r in *.
    repeat split; auto. rewrite H1. rewrite titles_of_index.
    cbv zeta. destruct (bind_objs (known_all (mc_objs mc)) (map val_title tvs) (mc_objs mc)) as [bss|e];
      [|reflexivity].
    destruct (iter_rows_m_run mc bss (first_some_pos (map val_title tvs) 0) (index_rows (S t) body) None)
      as [tr [Hr Hi]].
    exists body, tr, (snd (iter_rows_m mc bss (first_some_pos (map val_title tvs) 0) None (index_rows (S t) body))).
    split; [exact H4|]. split; [exact Hr|]. rewrite <- Hi.
    destruct (iter_rows_m _ _ _ _ _); reflexivity.
  - destruct H as [H _]. rewrite H. reflexivity.
Qed.

Lemma bind_objs_ok known names objs bss :
  bind_objs known names objs = Ok bss ->
  Forall2 (fun ob bs => bind_all_k known (fst ob) names = Ok bs) objs bss.
Proof. unfold bind_objs. apply map_res_Forall2. Qed.

Lemma construct_all_ok objs bss row tup :
  construct_all objs bss row = Ok tup ->
  Forall2 (fun p it => construct (fst (fst p)) (snd p) (snd (fst p)) row = Ok it) (combine objs bss) tup.
Proof. unfold construct_all. apply map_res_Forall2. Qed.

(* ------------------------------------------------------------------ *)
(* rows_in_order for tuples                                            *)

Lemma rows_in_order_m_l mc sh items e :
  read_table_m mc sh = (items, e) ->
  match title_row sh with
  | None => items = [] /\ e = None
  | Some (t, tvs) =>
      (forall j tup, nth_error items j = Some tup ->
         exists vs, nth_error sh (S t + j) = Some vs /\ vis_end (mc_loop mc) vs = Ok false /\
           length tup = length (mc_objs mc) /\
           forall i o, nth_error tup i = Some (Some o) ->
             Forall (fun a => origin_rows (if mc_ladder mc then S t else (S t + j)%nat) (S t + j) (snd a))
                    (o_attrs o)) /\
      (e = None ->
       match nth_error sh (S t + length items) with
       | None => True
       | Some vs => vis_end (mc_loop mc) vs = Ok true
       end)
  end.
Proof.
  intros Hread. pose proof (read_table_m_run mc sh) as H.
  destruct (title_row sh) as [[t tvs]|] eqn:Et.
  - destruct H as [H1 [H2 [H3 H4]]]. cbv zeta in H4.
    destruct (bind_objs (known_all (mc_objs mc)) (map val_title tvs) (mc_objs mc)) as [bss|e0] eqn:Eb.
    + destruct H4 as [body [tr [e1 [Hb [Hrun Hr]]]]]. rewrite Hr in Hread.
      injection Hread as <- <-. apply bind_objs_ok in Eb. split.
      * intros j tup Hj. rewrite nth_error_map in Hj.
        destruct (nth_error tr j) as [st|] eqn:Est; [|discriminate]. cbn in Hj. injection Hj as Hj.
        assert (Hnone : forall p : list cell, @None (list cell) = Some p -> row_ok sh (S t) (S t) 0 p)
          by (intros p Hp; discriminate).
        destruct (run_inv sh (S t) _ _ _ body (S t) None tr e1 Hb (le_n _) Hnone Hrun j st Est)
          as [[vs [Hvs Hraw]] Hrow].
        destruct (run_construct _ _ _ _ _ _ _ Hrun j st Est) as [Hend Hc].
        exists vs. split; [exact Hvs|]. split; [rewrite Hraw, is_end_index in Hend; exact Hend|].
        rewrite Hj in Hc. apply construct_all_ok in Hc. split.
        { rewrite <- (Forall2_length' _ _ _ Hc), combine_length, <- (Forall2_length' _ _ _ Eb).
          apply Nat.min_id. }
        intros i o Hi.
        destruct (Forall2_nth_r _ _ _ _ _ Hc Hi) as [[ob bs] [Hp Hco]]. cbn [fst snd] in Hco.
        assert (Hin : In (ob, bs) (combine (mc_objs mc) bss)) by (eapply nth_error_In; exact Hp).
        destruct (Forall2_in_combine _ _ _ _ _ Eb Hin) as [Hbind _]. cbn [fst] in Hbind.
        pose proof (construct_ok _ _ _ _ _ _ _ Hbind Hco) as Hok.
        assert (Hrow' : row_ok sh (if mc_ladder mc then S t else (S t + j)%nat) (S t + j) 0 (st_cur st)).
        { destruct (mc_ladder mc) eqn:El; [exact Hrow|].
          assert (El' : cf_ladder (mc_loop mc) = false) by exact El.
          rewrite (run_plain _ _ _ _ _ _ _ El' Hrun j st Est), Hraw.
          apply index_row_sheet. exact Hvs. }
        clear - Hok Hrow'. induction Hok; constructor; auto.
        eapply attr_ok_rows; eauto.
      * intros He. pose proof (run_tail _ _ _ _ _ _ _ Hrun He) as Ht.
        rewrite map_length. rewrite index_rows_nth in Ht. rewrite <- Hb.
        destruct (nth_error body (length tr)) as [vs|]; [|exact I].
        rewrite is_end_index in Ht. exact Ht.
    + rewrite H4 in Hread. injection Hread as <- <-. split; [|discriminate].
      intros [|j] item Hj; discriminate.
  - rewrite H in Hread. injection Hread as <- <-. auto.
Qed.

(* ------------------------------------------------------------------ *)
(* objects_independent: the row loop                                   *)

(* the reading of one object with its own bindings *)
Definition one_iter (mc : mconfig) (fcp : option nat) (prev : option (list cell)) (rows : list (list cell))
           (p : (list rule * nat) * list binding) : list (option obj) * option err :=
  iter_rows (mc_cf mc (fst p)) (snd p) fcp prev rows.

Lemma one_iter_end_err mc fcp prev row rest p x :
  is_end (mc_loop mc) row = Err x -> one_iter mc fcp prev (row :: rest) p = ([], Some x).
Proof. intros H. unfold one_iter. cbn [iter_rows]. rewrite is_end_mc, H. reflexivity. Qed.

Lemma one_iter_end mc fcp prev row rest p :
  is_end (mc_loop mc) row = Ok true -> one_iter mc fcp prev (row :: rest) p = ([], None).
Proof. intros H. unfold one_iter. cbn [iter_rows]. rewrite is_end_mc, H. reflexivity. Qed.

Lemma one_iter_fill_err mc fcp prev row rest p x :
  is_end (mc_loop mc) row = Ok false -> cur_row (mc_loop mc) fcp prev row = Err x ->
  one_iter mc fcp prev (row :: rest) p = ([], Some x).
Proof.
  intros H Hc. unfold one_iter. cbn [iter_rows]. rewrite is_end_mc, H.
  fold (cur_row (mc_cf mc (fst p)) fcp prev row). rewrite cur_row_mc, Hc. reflexivity.
Qed.

Lemma one_iter_step mc fcp prev row rest p cur :
  is_end (mc_loop mc) row = Ok false -> cur_row (mc_loop mc) fcp prev row = Ok cur ->
  one_iter mc fcp prev (row :: rest) p =
  match construct (fst (fst p)) (snd p) (snd (fst p)) cur with
  | Err x => ([], Some x)
  | Ok it => (it :: fst (one_iter mc fcp (Some cur) rest p), snd (one_iter mc fcp (Some cur) rest p))
  end.
Proof.
  intros H Hc. unfold one_iter. cbn [iter_rows]. rewrite is_end_mc, H.
  fold (cur_row (mc_cf mc (fst p)) fcp prev row). rewrite cur_row_mc, Hc.
  cbn [cf_rules cf_nid mc_cf].
  destruct (construct (fst (fst p)) (snd p) (snd (fst p)) cur) as [it|x]; [|reflexivity].
  destruct (iter_rows _ _ _ _ _); reflexivity.
Qed.

(* all single readings stop at once with the same exception *)
Lemma indep_all_err (ps : list ((list rule * nat) * list binding)) (f : (list rule * nat) * list binding -> list (option obj) * option err) x :
  (forall p, f p = ([], Some x)) ->
  (forall j (tup : list (option obj)), nth_error (@nil (list (option obj))) j = Some tup ->
     Forall2 (fun p it => nth_error (fst (f p)) j = Some it) ps tup) /\
  (forall p, In p ps -> (length (@nil (list (option obj))) <= length (fst (f p)))%nat) /\
  (ps = [] \/ exists p, In p ps /\ snd (f p) = Some x /\ length (fst (f p)) = length (@nil (list (option obj)))).
Proof.
  intros Hp. split; [intros [|j] tup Hj; discriminate|]. split; [intros p _; cbn; lia|].
  destruct ps as [|p0 ps]; [left; reflexivity|right].
  exists p0. split; [left; reflexivity|]. rewrite Hp. split; reflexivity.
Qed.

Lemma iter_rows_m_indep mc bss fcp : forall rows prev items e,
  iter_rows_m mc bss fcp prev rows = (items, e) ->
  let ps := combine (mc_objs mc) bss in
  (forall j tup, nth_error items j = Some tup ->
     Forall2 (fun p it => nth_error (fst (one_iter mc fcp prev rows p)) j = Some it) ps tup) /\
  (forall p, In p ps -> (length items <= length (fst (one_iter mc fcp prev rows p)))%nat) /\
  match e with
  | None => forall p, In p ps -> snd (one_iter mc fcp prev rows p) = None /\
                                 length (fst (one_iter mc fcp prev rows p)) = length items
  | Some x => ps = [] \/
              exists p, In p ps /\ snd (one_iter mc fcp prev rows p) = Some x /\
                        length (fst (one_iter mc fcp prev rows p)) = length items
  end.
Proof.
  cbv zeta. induction rows as [|row rest IH]; intros prev items e H; cbn [iter_rows_m] in H.
  - injection H as <- <-. unfold one_iter. cbn [iter_rows fst snd length]. repeat split; auto.
    intros [|j] tup Hj; discriminate.
  - destruct (is_end (mc_loop mc) row) as [[|]|x] eqn:Ee.
    + (* end of table *)
      injection H as <- <-.
      split; [intros [|j] tup Hj; discriminate|]. split; [intros p _; cbn; lia|].
      intros p _. rewrite (one_iter_end _ _ _ _ _ _ Ee). split; reflexivity.
    + change (match mc_ladder mc, fcp, prev with
              | true, Some f, Some p => fill_row f p row
              | _, _, _ => Ok row
              end) with (cur_row (mc_loop mc) fcp prev row) in H.
      destruct (cur_row (mc_loop mc) fcp prev row) as [cur|x] eqn:Ec.
      2:{ injection H as <- <-. apply indep_all_err. intros p. apply one_iter_fill_err; assumption. }
      pose proof (fun p => one_iter_step mc fcp prev row rest p cur Ee Ec) as Hone.
      destruct (construct_all (mc_objs mc) bss cur) as [tup|x] eqn:Ec2.
      * destruct (iter_rows_m mc bss fcp (Some cur) rest) as [ts e'] eqn:Ei.
        injection H as <- <-. apply construct_all_ok in Ec2.
        destruct (IH (Some cur) ts e' Ei) as [IHa [IHb IHc]].
        assert (Hone' : forall p, In p (combine (mc_objs mc) bss) ->
                  exists it, construct (fst (fst p)) (snd p) (snd (fst p)) cur = Ok it /\
                    one_iter mc fcp prev (row :: rest) p =
                    (it :: fst (one_iter mc fcp (Some cur) rest p), snd (one_iter mc fcp (Some cur) rest p))).
        { intros p Hin. apply In_nth_error in Hin as [n Hn].
          destruct (Forall2_nth_l _ _ _ _ _ Ec2 Hn) as [it [_ Hit]].
          exists it. split; [exact Hit|]. rewrite Hone, Hit. reflexivity. }
        split; [|split].
        -- intros [|j] tup' Hj; cbn [nth_error] in Hj.
           ++ injection Hj as <-. eapply Forall2_impl; [|exact Ec2].
              intros p it Hit. cbn beta in Hit. rewrite Hone, Hit. reflexivity.
           ++ specialize (IHa j tup' Hj).
              assert (G : forall ps tp,
                        (forall p, In p ps -> In p (combine (mc_objs mc) bss)) ->
                        Forall2 (fun p it => nth_error (fst (one_iter mc fcp (Some cur) rest p)) j = Some it) ps tp ->
                        Forall2 (fun p it => nth_error (fst (one_iter mc fcp prev (row :: rest) p)) (S j) = Some it) ps tp).
              { clear - Hone'. induction ps as [|p ps IHps]; intros tp Hsub Hf; inversion Hf; subst; constructor.
                - destruct (Hone' p (Hsub p (or_introl eq_refl))) as [it [_ ->]]. cbn [fst nth_error]. assumption.
                - apply IHps; [intros q Hq; apply Hsub; right; exact Hq|assumption]. }
              apply G; [auto|exact IHa].
        -- intros p Hin. destruct (Hone' p Hin) as [it [_ ->]]. cbn [fst length]. specialize (IHb p Hin). lia.
        -- destruct e' as [x|].
           ++ destruct IHc as [->|[p [Hin [Hs Hl]]]]; [left; reflexivity|right].
              exists p. split; [exact Hin|]. destruct (Hone' p Hin) as [it [_ ->]]. cbn [fst snd length].
              split; [exact Hs|]. rewrite Hl. reflexivity.
           ++ intros p Hin. destruct (IHc p Hin) as [Hs Hl]. destruct (Hone' p Hin) as [it [_ ->]].
              cbn [fst snd length]. split; [exact Hs|]. rewrite Hl. reflexivity.
      * injection H as <- <-. unfold construct_all in Ec2. apply map_res_err in Ec2 as [p [Hin Hp]].
        split; [intros [|j] tup Hj; discriminate|]. split; [intros q _; cbn; lia|].
        right. exists p. split; [exact Hin|]. rewrite Hone, Hp. split; reflexivity.
    + injection H as <- <-. apply indep_all_err. intros p. apply one_iter_end_err. exact Ee.
Qed.

(* ------------------------------------------------------------------ *)
(* objects_independent                                                 *)

(* what the rules of one object read from the sheet when the column names claimed by ALL the
   objects of the reader count as known *)
Definition single_of (mc : mconfig) (sh : list (list cval)) (ob : list rule * nat)
  : list (option obj) * option err :=
  read_table_k (known_all (mc_objs mc)) (mc_cf mc ob) sh.

Lemma objects_independent_l mc sh items e :
  read_table_m mc sh = (items, e) ->
  (forall j tup, nth_error items j = Some tup ->
     Forall2 (fun ob it => nth_error (fst (single_of mc sh ob)) j = Some it) (mc_objs mc) tup) /\
  (forall ob, In ob (mc_objs mc) -> (length items <= length (fst (single_of mc sh ob)))%nat) /\
  match e with
  | None => forall ob, In ob (mc_objs mc) ->
                       snd (single_of mc sh ob) = None /\ length (fst (single_of mc sh ob)) = length items
  | Some x => mc_objs mc = [] \/
              exists ob, In ob (mc_objs mc) /\ snd (single_of mc sh ob) = Some x /\
                         length (fst (single_of mc sh ob)) = length items
  end.
Proof.
  intros H. unfold read_table_m, read_cells_m in H.
  destruct (skip_blank (index_sheet sh)) as [|title body] eqn:Es.
  - assert (Hs : forall ob, single_of mc sh ob = ([], None)).
    { intros ob. unfold single_of, read_table_k, read_cells_k. rewrite Es. reflexivity. }
    injection H as <- <-. split; [intros [|j] tup Hj; discriminate|].
    split; [intros ob _; cbn; lia|]. intros ob _. rewrite Hs. split; reflexivity.
  - cbv zeta in H.
    destruct (bind_objs (known_all (mc_objs mc)) (titles_of title) (mc_objs mc)) as [bss|x] eqn:Eb.
    + apply bind_objs_ok in Eb.
      assert (Hsingle : forall ob bs, bind_all_k (known_all (mc_objs mc)) (fst ob) (titles_of title) = Ok bs ->
                single_of mc sh ob = one_iter mc (first_some_pos (titles_of title) 0) None body (ob, bs)).
      { intros ob bs Hb. unfold single_of, read_table_k, read_cells_k. rewrite Es. cbv zeta.
        cbn [cf_rules mc_cf]. rewrite Hb. reflexivity. }
      destruct (iter_rows_m_indep mc bss _ body None items e H) as [Ha [Hb Hc]]. split; [|split].
      * intros j tup Hj. specialize (Ha j tup Hj).
        refine (Forall2_combine_l _ _ (fun ob it => nth_error (fst (single_of mc sh ob)) j = Some it)
                                  _ _ _ _ Eb Ha).
        intros ob bs it Hq Hp. cbn beta in Hq, Hp. rewrite (Hsingle ob bs Hq). exact Hp.
      * intros ob Hin. destruct (Forall2_in_l _ _ _ _ Eb Hin) as [bs [Hin2 Hq]].
        rewrite (Hsingle ob bs Hq). apply Hb. exact Hin2.
      * destruct e as [x|].
        -- destruct Hc as [Hc|[[ob bs] [Hin [Hs Hl]]]].
           ++ left. destruct (mc_objs mc) as [|ob objs]; [reflexivity|].
              inversion Eb; subst. discriminate.
           ++ right. destruct (Forall2_in_combine _ _ _ _ _ Eb Hin) as [Hq Hin2]. exists ob.
              split; [exact Hin2|]. rewrite (Hsingle ob bs Hq). split; assumption.
        -- intros ob Hin. destruct (Forall2_in_l _ _ _ _ Eb Hin) as [bs [Hin2 Hq]].
           rewrite (Hsingle ob bs Hq). apply Hc. exact Hin2.
    + injection H as <- <-. unfold bind_objs in Eb. apply map_res_err in Eb as [ob [Hin Hb]].
      assert (Hs : single_of mc sh ob = ([], Some x)).
      { unfold single_of, read_table_k, read_cells_k. rewrite Es. cbv zeta.
        cbn [cf_rules mc_cf]. rewrite Hb. reflexivity. }
      split; [intros [|j] tup Hj; discriminate|]. split; [intros q _; cbn; lia|].
      right. exists ob. split; [exact Hin|]. rewrite Hs. split; reflexivity.
Qed.

(* ------------------------------------------------------------------ *)
(* origin_consistent for tuples                                        *)

Lemma origin_consistent_m_l mc sh items e j tup i ob o :
  read_table_m mc sh = (items, e) -> nth_error items j = Some tup ->
  nth_error (mc_objs mc) i = Some ob -> nth_error tup i = Some (Some o) ->
  Forall2 (attr_sheet_ok sh (known_all (mc_objs mc))) (fst ob) (o_attrs o).
Proof.
  intros Hread Hj Hi Ho. destruct (objects_independent_l mc sh items e Hread) as [Ha _].
  specialize (Ha j tup Hj). destruct (Forall2_nth_l _ _ _ _ _ Ha Hi) as [it [Hit Hs]].
  rewrite Ho in Hit. injection Hit as <-. unfold single_of in Hs.
  destruct (read_table_k (known_all (mc_objs mc)) (mc_cf mc ob) sh) as [its e1] eqn:E. cbn [fst] in Hs.
  exact (origin_consistent_k _ _ _ _ _ _ _ E Hs).
Qed.

(* ------------------------------------------------------------------ *)
(* which columns count as known: blank-titled, or named by the rules of SOME object *)

Lemma existsb_str_in n l : existsb (str_eqb n) l = true <-> In n l.
Proof.
  rewrite existsb_exists. split.
  - intros [x [Hx He]]. apply str_eqb_eq in He. subst. exact Hx.
  - intros H. exists n. split; [exact H|apply str_eqb_refl].
Qed.

Lemma not_range_known_all objs n :
  not_range (known_all objs) n = true <->
  n = [] \/ exists ob, In ob objs /\ In n (known_names (fst ob)).
Proof.
  unfold not_range, known_all. rewrite orb_true_iff, existsb_str_in, in_flat_map.
  split; (intros [H|H]; [left|right; exact H]).
  - destruct n; [reflexivity|discriminate].
  - subst. reflexivity.
Qed.

(* the known names of a reader with one object are those of its rules *)
Lemma known_all_one rules nid : known_all [(rules, nid)] = known_names rules.
Proof. unfold known_all. cbn. apply app_nil_r. Qed.

(* ------------------------------------------------------------------ *)
(* the module-level iter_table: a reader with one rule set, unpacked    *)

Lemma iter_rows_m_one cf bs fcp : forall rows prev,
  iter_rows_m (mc_one cf) [bs] fcp prev rows =
  (map (fun x => [x]) (fst (iter_rows cf bs fcp prev rows)), snd (iter_rows cf bs fcp prev rows)).
Proof.
  induction rows as [|row rest IH]; intros prev; cbn [iter_rows_m iter_rows]; [reflexivity|].
  change (is_end (mc_loop (mc_one cf)) row) with (is_end cf row).
  destruct (is_end cf row) as [[|]|x]; try reflexivity.
  cbn [mc_ladder mc_one].
  destruct (match cf_ladder cf, fcp, prev with
            | true, Some f, Some p => fill_row f p row
            | _, _, _ => Ok row
            end) as [cur|x]; [|reflexivity].
  unfold construct_all. cbn [mc_objs mc_one combine map_res fst snd].
  destruct (construct (cf_rules cf) bs (cf_nid cf) cur) as [it|x]; [|reflexivity].
  rewrite IH. destruct (iter_rows cf bs fcp (Some cur) rest) as [os e]. reflexivity.
Qed.

Lemma unpack_one_map : forall items e, unpack_one (map (fun x : option obj => [x]) items) e = (items, e).
Proof.
  induction items as [|x items IH]; intros e; cbn [map unpack_one]; [reflexivity|].
  rewrite IH. reflexivity.
Qed.

Lemma read_table_m_one cf sh :
  read_table_m (mc_one cf) sh = (map (fun x => [x]) (fst (read_table cf sh)), snd (read_table cf sh)).
Proof.
  unfold read_table_m, read_cells_m, read_table, read_table_k, read_cells_k.
  destruct (skip_blank (index_sheet sh)) as [|title body]; [reflexivity|]. cbv zeta.
  cbn [mc_objs mc_one]. rewrite known_all_one. unfold bind_objs. cbn [map_res fst].
  destruct (bind_all_k (known_names (cf_rules cf)) (cf_rules cf) (titles_of title)) as [bs|x]; [|reflexivity].
  apply iter_rows_m_one.
Qed.

Lemma read_table_one cf sh : iter_table_fn cf sh = read_table cf sh.
Proof.
  unfold iter_table_fn. rewrite read_table_m_one, unpack_one_map.
  destruct (read_table cf sh); reflexivity.
Qed.

(* ------------------------------------------------------------------ *)
(* example: two objects in one table; the second object's columns lie next to the first one's
   range group and are NOT part of it                                  *)

(* titles  Id Name math art Room Desk ; student = (Id, Name, range group), seat = (Room, Desk) *)
Definition ex2_sheet : list (list cval) :=
  [ [CStr [73;100]; CStr [78]; CStr [109]; CStr [97]; CStr [82]; CStr [68]];
    [CInt 10; CStr [65]; CInt 5; CInt 3; CInt 101; CInt 7];
    [CInt 20; CStr [72]; CNone; CInt 4; CInt 102; CInt 1] ].
Definition ex2_int : conv := mkConv KInt None None None.
Definition ex2_mc : mconfig :=
  mkMConfig [ ([RPlain [73;100] ex2_int None; RPlain [78] (mkConv KStr None None None) None;
                RRange true ex2_int false], 1%nat);
              ([RPlain [82] ex2_int None; RPlain [68] ex2_int None], 2%nat) ] [] false.

Lemma ex_two_objects_l :
  map (map (option_map (fun o => map (fun a => origin_text (snd a)) (o_attrs o)))) (fst (read_table_m ex2_mc ex2_sheet)) =
  [ [ Some [coord_text 1 0; coord_text 1 1; coord_text 1 2 ++ [58%Z] ++ coord_text 1 3];
      Some [coord_text 1 4; coord_text 1 5] ];
    [ Some [coord_text 2 0; coord_text 2 1; coord_text 2 2 ++ [58%Z] ++ coord_text 2 3];
      Some [coord_text 2 4; coord_text 2 5] ] ] /\
  snd (read_table_m ex2_mc ex2_sheet) = None /\
  range_scan (known_all (mc_objs ex2_mc)) (sheet_titles ex2_sheet) false = [[109%Z]; [97%Z]] /\
  (* with the first object's own names only, Room and Desk would be swallowed by the range group *)
  range_scan (known_names [RPlain [73;100] ex2_int None; RPlain [78] (mkConv KStr None None None) None;
                           RRange true ex2_int false]) (sheet_titles ex2_sheet) false =
  [[109%Z]; [97%Z]; [82%Z]; [68%Z]].
Proof. vm_compute. repeat split; reflexivity. Qed.

(* ------------------------------------------------------------------ *)
(* the theorems for one object class are the one-element special case  *)

Lemma read_table_as_multi cf sh items e :
  read_table cf sh = (items, e) -> read_table_m (mc_one cf) sh = (map (fun x => [x]) items, e).
Proof. intros H. rewrite read_table_m_one, H. reflexivity. Qed.

Lemma origin_consistent_one cf sh items e j o :
  read_table cf sh = (items, e) -> nth_error items j = Some (Some o) ->
  Forall2 (attr_sheet_ok sh (known_names (cf_rules cf))) (cf_rules cf) (o_attrs o).
Proof.
  intros Hread Hj. apply read_table_as_multi in Hread.
  assert (Hj' : nth_error (map (fun x : option obj => [x]) items) j = Some [Some o])
    by (rewrite nth_error_map, Hj; reflexivity).
  pose proof (origin_consistent_m_l (mc_one cf) sh _ e j [Some o] 0 (cf_rules cf, cf_nid cf) o
                Hread Hj' eq_refl eq_refl) as H.
  cbn [mc_objs mc_one fst] in H. rewrite known_all_one in H. exact H.
Qed.

Lemma rows_in_order_one cf sh items e :
  read_table cf sh = (items, e) ->
  match title_row sh with
  | None => items = [] /\ e = None
  | Some (t, tvs) =>
      (forall j item, nth_error items j = Some item ->
         exists vs, nth_error sh (S t + j) = Some vs /\ vis_end cf vs = Ok false /\
           forall o, item = Some o ->
             Forall (fun a => origin_rows (if cf_ladder cf then S t else (S t + j)%nat) (S t + j) (snd a))
                    (o_attrs o)) /\
      (e = None ->
       match nth_error sh (S t + length items) with
       | None => True
       | Some vs => vis_end cf vs = Ok true
       end)
  end.
Proof.
  intros Hread. apply read_table_as_multi in Hread.
  pose proof (rows_in_order_m_l (mc_one cf) sh _ e Hread) as H.
  destruct (title_row sh) as [[t tvs]|].
  - destruct H as [H1 H2]. split.
    + intros j item Hj.
      assert (Hj' : nth_error (map (fun x : option obj => [x]) items) j = Some [item])
        by (rewrite nth_error_map, Hj; reflexivity).
      destruct (H1 j [item] Hj') as [vs [Hvs [Hend [_ Ho]]]].
      exists vs. split; [exact Hvs|]. split; [exact Hend|].
      intros o ->. exact (Ho 0%nat o eq_refl).
    + intros He. specialize (H2 He). rewrite map_length in H2. exact H2.
  - destruct H as [H1 H2]. split; [|exact H2]. destruct items; [reflexivity|discriminate].
Qed.

(* ------------------------------------------------------------------ *)
(* ladder_origins for tuples: by objects_independent every object of a tuple is an object of the
   reading of its own rule set, for which LemmasLadder.ladder_origins_l holds *)

Lemma ladder_origins_m_l mc sh w items e t tvs j tup k ob o i v og r c :
  Forall (fun vs => length vs = w) sh ->
  mc_ladder mc = true ->
  read_table_m mc sh = (items, e) ->
  title_row sh = Some (t, tvs) ->
  nth_error items j = Some tup ->
  nth_error (mc_objs mc) k = Some ob -> nth_error tup k = Some (Some o) ->
  nth_error (o_attrs o) i = Some (v, og) ->
  (og = OCell r c \/ exists d key, og = ORange d /\ assoc_get key d = Some (r, c)) ->
  (S t <= r <= S t + j)%nat /\
  (exists x, cell_at sh r c = Some x /\ cell_at (fill_sheet sh) (S t + j) c = Some x) /\
  (forall y, cell_at sh (S t + j) c = Some y -> val_empty y = false -> r = (S t + j)%nat).
Proof.
  intros Hw Hlad Hread Ht Hj Hk Ho Hi Hog.
  destruct (objects_independent_l mc sh items e Hread) as [Ha _].
  specialize (Ha j tup Hj). destruct (Forall2_nth_l _ _ _ _ _ Ha Hk) as [it [Hit Hs]].
  rewrite Ho in Hit. injection Hit as <-. unfold single_of in Hs.
  destruct (read_table_k (known_all (mc_objs mc)) (mc_cf mc ob) sh) as [its e1] eqn:E. cbn [fst] in Hs.
  assert (Hl : cf_ladder (mc_cf mc ob) = true) by exact Hlad.
  exact (ladder_origins_l _ _ _ _ _ _ _ _ _ _ _ _ _ _ _ Hw Hl E Ht Hs Hi Hog).
Qed.

