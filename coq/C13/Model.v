(* C13/Model.v -- executable model of the table fmt mini-language and of the
   table's format STATE in ak/ppobj.py:
     ReprColumn.to_fmt_str (901-917), _ColumnsParsedFmt (920-1034),
     ReprStructure.make / _set_parsed_fmt / detect_actual_columns_widths,
     _PPTableParsedFmt, PPTableFormat (make, clone, _set_parsed_fmt, _get_fmt_str),
     _PPTableImpl (__init__ with fmt= and with fmt_obj=, set_fmt, remove_columns,
     the part of gen_ch_lines that decides visible lines / any_lines_skipped /
     column widths).
   Rendering of cells is NOT modelled: a print yields a [view] = everything the
   renderer reads from the format (column widths, visible lines, skipped count).
   Strings are lists of code points.  No proofs in this file. *)
From Coq Require Import ZArith List Bool.
From AK Require Import Common.Sx Common.Err.
Import ListNotations.
Open Scope Z_scope.

Notation str := (list Z).

(* ------------------------------------------------------------------ *)
(* characters *)
Definition ch_comma := 44.   (* , *)
Definition ch_colon := 58.   (* : *)
Definition ch_semi := 59.    (* ; *)
Definition ch_bang := 33.    (* ! *)
Definition ch_slash := 47.   (* / *)
Definition ch_minus := 45.   (* - *)
Definition ch_plus := 43.    (* + *)
Definition ch_lt := 60.      (* < *)
Definition ch_lpar := 40.    (* ( *)
Definition ch_rpar := 41.    (* ) *)
Definition ch_star := 42.    (* * *)
Definition ch_us := 95.      (* _ *)

(* str.isspace() of CPython 3 (what str.strip() removes) *)
Definition is_space (c : Z) : bool :=
  ((9 <=? c) && (c <=? 13)) || ((28 <=? c) && (c <=? 32)) || (c =? 133) || (c =? 160)
  || (c =? 5760) || ((8192 <=? c) && (c <=? 8202)) || (c =? 8232) || (c =? 8233)
  || (c =? 8239) || (c =? 8287) || (c =? 12288).

(* what int() skips around the number: the same set without 0x1c..0x1f *)
Definition is_space_int (c : Z) : bool :=
  is_space c && negb ((28 <=? c) && (c <=? 31)).

Fixpoint str_eqb (a b : str) : bool :=
  match a, b with
  | [], [] => true
  | x :: a', y :: b' => (x =? y) && str_eqb a' b'
  | _, _ => false
  end.

Fixpoint dropw (p : Z -> bool) (s : str) : str :=
  match s with
  | [] => []
  | c :: r => if p c then dropw p r else s
  end.

Definition strip_with (p : Z -> bool) (s : str) : str :=
  rev (dropw p (rev (dropw p s))).
Definition strip (s : str) : str := strip_with is_space s.

(* s.split(d) for a one-character separator: always at least one part *)
Fixpoint split_on (d : Z) (s : str) : list str :=
  match s with
  | [] => [[]]
  | c :: r =>
      if c =? d then [] :: split_on d r
      else match split_on d r with
           | p :: ps => (c :: p) :: ps
           | [] => [[c]]
           end
  end.

Fixpoint join (d : Z) (l : list str) : str :=
  match l with
  | [] => []
  | [x] => x
  | x :: r => x ++ d :: join d r
  end.

(* s.find('<-'): (text before, text after the two characters) *)
Fixpoint find_arrow (s : str) : option (str * str) :=
  match s with
  | [] => None
  | c :: r =>
      match r with
      | c2 :: r2 =>
          if (c =? ch_lt) && (c2 =? ch_minus) then Some ([], r2)
          else match find_arrow r with
               | Some (a, b) => Some (c :: a, b)
               | None => None
               end
      | [] => None
      end
  end.

(* s.find(ch): (before, after) *)
Fixpoint find_char (d : Z) (s : str) : option (str * str) :=
  match s with
  | [] => None
  | c :: r =>
      if c =? d then Some ([], r)
      else match find_char d r with
           | Some (a, b) => Some (c :: a, b)
           | None => None
           end
  end.

Definition ends_with (d : Z) (s : str) : bool :=
  match rev s with
  | c :: _ => c =? d
  | [] => false
  end.

(* ------------------------------------------------------------------ *)
(* int(text) for ASCII digits (other decimal digits are outside the model) *)
Fixpoint digits_acc (s : str) (acc : Z) (prev_digit : bool) : option Z :=
  match s with
  | [] => if prev_digit then Some acc else None
  | c :: r =>
      if c =? ch_us then (if prev_digit then digits_acc r acc false else None)
      else if (48 <=? c) && (c <=? 57) then digits_acc r (acc * 10 + (c - 48)) true
      else None
  end.

Definition int_of_str (s : str) : res Z :=
  let t := strip_with is_space_int s in
  let '(neg, body) :=
    match t with
    | c :: r => if c =? ch_minus then (true, r) else if c =? ch_plus then (false, r) else (false, t)
    | [] => (false, t)
    end in
  match digits_acc body 0 false with
  | Some n => Ok (if neg then - n else n)
  | None => Err ValueErr
  end.

(* str(n) *)
Fixpoint pos_digits (fuel : nat) (n : Z) (acc : str) : str :=
  match fuel with
  | O => acc
  | S f => if n <? 10 then (48 + n) :: acc
           else pos_digits f (n / 10) ((48 + n mod 10) :: acc)
  end.
Definition nat_str (n : Z) : str := pos_digits (S (Z.to_nat (Z.log2 n))) n [].
Definition str_of_int (n : Z) : str :=
  if n <? 0 then ch_minus :: nat_str (- n) else nat_str n.

(* ------------------------------------------------------------------ *)
(* record fields and columns *)
Record field := mkField {
  f_name : str;
  f_mods : list str;      (* format modifiers accepted by the field type *)
  f_min : Z; f_max : Z;   (* default width bounds of the field type *)
  f_title : Z             (* width of the field's title *)
}.

Record column := mkCol {
  c_name : str;           (* name of the field the column shows *)
  c_mod : option str;
  c_break : bool;
  c_min : Z; c_max : Z;
  c_width : option Z      (* negotiated width; None until the first rendering *)
}.

(* _ParsedColFmt *)
Record pcol := mkPcol {
  p_name : str;
  p_mod : option str;
  p_break : bool;
  p_path : option str;
  p_min : option Z; p_max : option Z
}.

Inductive pcols := PKeep | PAll | PList (l : list pcol).

(* ReprColumn.to_fmt_str *)
Definition width_str (c : column) : str :=
  if c_min c =? c_max c then ch_colon :: str_of_int (c_min c)
  else ch_colon :: str_of_int (c_min c) ++ ch_minus :: str_of_int (c_max c)
       ++ match c_width c with
          | Some w => ch_lpar :: str_of_int w ++ [ch_rpar]
          | None => []
          end.

Definition col_to_str (c : column) : str :=
  c_name c
  ++ match c_mod c with Some m => ch_slash :: m | None => [] end
  ++ (if c_break c then [ch_bang] else [])
  ++ width_str c.

Definition cols_to_str (cs : list column) : str := join ch_comma (map col_to_str cs).

(* _ColumnsParsedFmt._parse_col_fmt *)
Fixpoint map_res {A B} (f : A -> res B) (l : list A) : res (list B) :=
  match l with
  | [] => Ok []
  | x :: r => match f x with
              | Err e => Err e
              | Ok y => match map_res f r with Err e => Err e | Ok ys => Ok (y :: ys) end
              end
  end.

Definition parse_width (w : str) : res (option Z * option Z) :=
  if str_eqb w [ch_minus; 49] then Ok (Some (-1), Some (-1))
  else match w with
  | [] => Ok (None, None)
  | _ =>
      let w1 := if ends_with ch_rpar w
                then match find_char ch_lpar w with Some (a, _) => a | None => w end
                else w in
      let chunks := split_on ch_minus w1 in
      if (2 <? Z.of_nat (length chunks)) then Err ValueErr
      else match map_res int_of_str chunks with
           | Err e => Err e
           | Ok [a; b] => Ok (Some a, Some b)
           | Ok (a :: _) => Ok (Some a, Some a)
           | Ok [] => Err IndexErr   (* unreachable: split gives >= 1 part *)
           end
  end.

Definition parse_col (fmt : str) : res pcol :=
  let chunks := map strip (split_on ch_colon fmt) in
  match chunks with
  | [] => Err IndexErr   (* unreachable *)
  | _ :: _ :: _ :: _ => Err ValueErr
  | fname0 :: rest =>
      let width_fmt := match rest with w :: _ => w | [] => [] end in
      let '(path, fname1) :=
        match find_arrow fname0 with
        | Some (a, b) => (Some (strip b), strip a)
        | None => (None, fname0)
        end in
      let brk := ends_with ch_bang fname1 in
      let fname2 := if brk then removelast fname1 else fname1 in
      let '(md, fname3) :=
        match find_char ch_slash fname2 with
        | Some (a, b) => (Some b, a)
        | None => (None, fname2)
        end in
      match parse_width width_fmt with
      | Err e => Err e
      | Ok (mn, mx) => Ok (mkPcol fname3 md brk path mn mx)
      end
  end.

Definition parse_cols (s : str) : res pcols :=
  match s with
  | [] => Ok PKeep
  | _ => if str_eqb s [ch_star] then Ok PAll
         else match map_res parse_col (split_on ch_comma s) with
              | Err e => Err e
              | Ok l => Ok (PList l)
              end
  end.

(* _PPTableParsedFmt *)
Notation limits := (option Z * option Z)%type.

Definition parse_vis (s : str) : res (option limits) :=
  match s with
  | [] => Ok None
  | _ => if str_eqb s [ch_star] then Ok (Some (None, None))
         else match map strip (split_on ch_colon s) with
              | [a; b] => match int_of_str a with
                          | Err e => Err e
                          | Ok x => match int_of_str b with
                                    | Err e => Err e
                                    | Ok y => Ok (Some (Some x, Some y))
                                    end
                          end
              | _ => Err ValueErr
              end
  end.

Definition parse_fmt (s : str) : res (pcols * option limits) :=
  let parts := split_on ch_semi s in
  if (3 <? Z.of_nat (length parts)) then Err ValueErr
  else
    let p1 := nth 0 parts [] in
    let p2 := nth 1 parts [] in
    match parse_cols p1 with
    | Err e => Err e
    | Ok pc => match parse_vis p2 with
               | Err e => Err e
               | Ok v => Ok (pc, v)
               end
    end.

(* ------------------------------------------------------------------ *)
(* the format state of a table (PPTableFormat + its ReprStructure) *)
Record tstate := mkT {
  t_fields : list field;
  t_cols : list column;
  t_lf : option Z; t_ll : option Z;      (* limit_flines, limit_llines *)
  t_skipped : option bool                (* any_lines_skipped *)
}.

Fixpoint get_field (fs : list field) (n : str) : option field :=
  match fs with
  | [] => None
  | f :: r => if str_eqb (f_name f) n then Some f else get_field r n
  end.

Definition mod_ok (f : field) (m : option str) : bool :=
  match m with
  | None => true
  | Some x => existsb (str_eqb x) (f_mods f)
  end.

Definition dflt (o : option Z) (d : Z) : Z := match o with Some x => x | None => d end.

(* ReprColumn(field, mod, break_by, min, max): ValueError for a bad modifier *)
Definition mk_column (f : field) (m : option str) (b : bool) (mn mx : option Z) : res column :=
  if mod_ok f m then Ok (mkCol (f_name f) m b (dflt mn (f_min f)) (dflt mx (f_max f)) None)
  else Err ValueErr.

Definition default_col (f : field) : column :=
  mkCol (f_name f) None false (f_min f) (f_max f) None.

Definition clone_col (c : column) : column :=
  mkCol (c_name c) (c_mod c) (c_break c) (c_min c) (c_max c) None.

Definition is_neg (o : option Z) : bool := match o with Some x => x <? 0 | None => false end.

(* ReprStructure._set_parsed_fmt, explicit list: unknown field -> ValueError *)
Fixpoint setter_cols (fs : list field) (l : list pcol) : res (list column) :=
  match l with
  | [] => Ok []
  | p :: r =>
      match get_field fs (p_name p) with
      | None => Err ValueErr
      | Some f =>
          if is_neg (p_min p) && is_neg (p_max p) then setter_cols fs r
          else match mk_column f (p_mod p) (p_break p) (p_min p) (p_max p) with
               | Err e => Err e
               | Ok c => match setter_cols fs r with
                         | Err e => Err e
                         | Ok cs => Ok (c :: cs)
                         end
               end
      end
  end.

(* _PPTableImpl.set_fmt: clone, apply, replace (nothing changes on error) *)
Definition set_fmt (t : tstate) (s : str) : res tstate :=
  match parse_fmt s with
  | Err e => Err e
  | Ok (pc, vis) =>
      let cols :=
        match pc with
        | PKeep => Ok (map clone_col (t_cols t))
        | PAll => Ok (map default_col (t_fields t))
        | PList l => setter_cols (t_fields t) l
        end in
      match cols with
      | Err e => Err e
      | Ok cs =>
          let '(lf, ll) := match vis with Some v => v | None => (t_lf t, t_ll t) end in
          Ok (mkT (t_fields t) cs lf ll None)
      end
  end.

(* PPTableFormat.remove_columns / ReprStructure.remove_columns: names that match no
   column are ignored (nothing changes); when a column was removed the detected
   widths (reset_columns_widths) and any_lines_skipped are forgotten - they were
   detected for the records visible with the previous set of columns *)
Definition remove_columns (t : tstate) (names : list str) : tstate :=
  let cs := filter (fun c => negb (existsb (str_eqb (c_name c)) names)) (t_cols t) in
  if Nat.eqb (length cs) (length (t_cols t)) then t
  else mkT (t_fields t) (map clone_col cs) (t_lf t) (t_ll t) None.

(* PPTableFormat.set_limits(limits): None = leave as is; otherwise the new limits,
   the detected widths and any_lines_skipped are forgotten *)
Definition set_limits (t : tstate) (lim : option (option Z * option Z)) : tstate :=
  match lim with
  | None => t
  | Some (lf, ll) => mkT (t_fields t) (map clone_col (t_cols t)) lf ll None
  end.

(* PPTableFormat.clone(): ReprStructure.clone() makes a NEW ReprColumn for every
   column (ReprColumn.clone: everything but the negotiated width), the record
   structure is shared (immutable), the limits are copied, any_lines_skipped
   starts unset.  The clone shares nothing mutable with the original. *)
Definition clone_fmt (t : tstate) : tstate :=
  mkT (t_fields t) (map clone_col (t_cols t)) (t_lf t) (t_ll t) None.

(* PPTable(records, fmt_obj=x, limits=lim, skip_columns=skip):
   _PPTableImpl._init_format clones x (fields / fields_types / fmt must be None),
   then set_limits(limits), then remove_columns(skip_columns) on the clone *)
Definition ctor_obj (x : tstate) (lim : option limits) (skip : option (list str)) : tstate :=
  let c := clone_fmt x in
  let '(lf, ll) := match lim with Some v => v | None => (t_lf c, t_ll c) end in
  let t := mkT (t_fields c) (t_cols c) lf ll None in
  match skip with Some names => remove_columns t names | None => t end.

(* ReprStructure.make with an explicit [fields] list: unknown field ->
   AttributeError (get_field gives None), hidden columns (max_w < 0) dropped *)
Fixpoint ctor_cols (fs : list field) (l : list pcol) : res (list column) :=
  match l with
  | [] => Ok []
  | p :: r =>
      if is_neg (p_max p) then ctor_cols fs r
      else match get_field fs (p_name p) with
           | None => Err AttrErr
           | Some f =>
               match mk_column f (p_mod p) (p_break p) (p_min p) (p_max p) with
               | Err e => Err e
               | Ok c => match ctor_cols fs r with
                         | Err e => Err e
                         | Ok cs => Ok (c :: cs)
                         end
               end
           end
  end.

Fixpoint has_dup (l : list str) : bool :=
  match l with
  | [] => false
  | x :: r => existsb (str_eqb x) r || has_dup r
  end.

(* PPTable(records, fmt=s, fields=[names], fields_types=..., limits=, skip_columns=) *)
Definition ctor (fs : list field) (s : option str) (lim : option limits)
           (skip : option (list str)) : res tstate :=
  match parse_fmt (match s with Some x => x | None => [] end) with
  | Err e => Err e
  | Ok (pc, vis) =>
      if has_dup (map f_name fs) then Err ValueErr
      else
        let cols :=
          match pc with
          | PList l =>
              if existsb (fun p => match p_path p with Some _ => true | None => false end) l
              then Err ValueErr
              else ctor_cols fs l
          | _ => Ok (map default_col fs)
          end in
        match cols with
        | Err e => Err e
        | Ok cs =>
            let '(lf, ll) := match vis with Some v => v | None => (None, None) end in
            let '(lf, ll) := match lim with Some v => v | None => (lf, ll) end in
            let t := mkT fs cs lf ll None in
            Ok (match skip with Some names => remove_columns t names | None => t end)
        end
  end.

(* PPTableFormat._get_fmt_str *)
Definition limits_str (t : tstate) : str :=
  match t_skipped t with
  | Some false => []
  | _ => match t_lf t, t_ll t with
         | Some a, Some b => str_of_int a ++ ch_colon :: str_of_int b
         | _, _ => [ch_star]
         end
  end.

Definition fmt_to_str (t : tstate) : str :=
  let c := cols_to_str (t_cols t) in
  let l := limits_str t in
  match l with
  | [] => c
  | _ => c ++ ch_semi :: l
  end.

(* ------------------------------------------------------------------ *)
(* what a rendering takes from the format: visible lines and widths *)

(* one record, abstractly: per field (by position in t_fields) the identity
   class of the value (for break-by comparison) and the length of its text,
   indexed by modifier: [len for None; len for (nth 0 f_mods); ...] *)
Record cell := mkCell { v_id : Z; v_lens : list Z }.
Notation row := (list cell).

Inductive line := LRec (i : nat) | LBreak | LSkip.

Fixpoint field_pos (fs : list field) (n : str) (k : nat) : option (nat * field) :=
  match fs with
  | [] => None
  | f :: r => if str_eqb (f_name f) n then Some (k, f) else field_pos r n (S k)
  end.

Fixpoint index_str (x : str) (l : list str) (k : nat) : nat :=
  match l with
  | [] => k
  | y :: r => if str_eqb x y then k else index_str x r (S k)
  end.

Definition dummy_cell := mkCell 0 [].

Definition cell_len (fs : list field) (c : column) (r : row) : Z :=
  match field_pos fs (c_name c) 0 with
  | None => 0
  | Some (k, f) =>
      let idx := match c_mod c with None => O | Some m => S (index_str m (f_mods f) 0) end in
      nth idx (v_lens (nth k r dummy_cell)) 0
  end.

Definition title_w (fs : list field) (c : column) : Z :=
  match get_field fs (c_name c) with Some f => f_title f | None => 0 end.

Definition break_key (fs : list field) (cols : list column) (r : row) : list Z :=
  map (fun c => match field_pos fs (c_name c) 0 with
                | Some (k, _) => v_id (nth k r dummy_cell)
                | None => 0
                end)
      (filter c_break cols).

Fixpoint zlist_eqb (a b : list Z) : bool :=
  match a, b with
  | [], [] => true
  | x :: a', y :: b' => (x =? y) && zlist_eqb a' b'
  | _, _ => false
  end.

(* table_lines of gen_ch_lines before the limits are applied *)
Fixpoint lines_from (fs : list field) (cols : list column) (prev : option (list Z))
         (i : nat) (rows : list row) : list line :=
  match rows with
  | [] => []
  | r :: rs =>
      let k := break_key fs cols r in
      let brk := match prev with Some p => negb (zlist_eqb p k) | None => false end in
      (if brk then [LBreak] else []) ++ LRec i :: lines_from fs cols (Some k) (S i) rs
  end.

Definition is_rec (l : line) : bool := match l with LRec _ => true | _ => false end.
Definition count_recs (l : list line) : Z := Z.of_nat (length (filter is_rec l)).

(* python slices l[:n] and l[-n:] for n <> 0 *)
Definition py_take (l : list line) (n : Z) : list line :=
  if 0 <=? n then firstn (Z.to_nat n) l
  else firstn (Z.to_nat (Z.max 0 (Z.of_nat (length l) + n))) l.
Definition py_last (l : list line) (n : Z) : list line :=
  if 0 <? n then skipn (Z.to_nat (Z.max 0 (Z.of_nat (length l) - n))) l
  else skipn (Z.to_nat (- n)) l.

(* (visible lines, n_skipped) *)
Definition visible (lf ll : option Z) (nrec : Z) (lines : list line) : list line * Z :=
  match lf, ll with
  | Some a, Some b =>
      if Z.of_nat (length lines) >? a + b + 1 then
        let first := if a =? 0 then [] else py_take lines a in
        let last := if b =? 0 then [] else py_last lines b in
        (first ++ LSkip :: last, nrec - count_recs first - count_recs last)
      else (lines, 0)
  | _, _ => (lines, 0)
  end.

(* ReprStructure.detect_actual_columns_widths, one column *)
Fixpoint grow (mx : Z) (w : Z) (lens : list Z) : Z :=
  match lens with
  | [] => w
  | l :: r => grow mx (if w <? mx then Z.max w (Z.min mx l) else w) r
  end.

Definition negotiate_col (fs : list field) (rows : list row) (vis : list line) (c : column) : Z :=
  let w0 := Z.min (c_max c) (Z.max (c_min c) (title_w fs c)) in
  let lens := flat_map (fun l => match l with
                                 | LRec i => [cell_len fs c (nth i rows [])]
                                 | _ => []
                                 end) vis in
  grow (c_max c) w0 lens.

Definition finalized (cols : list column) : bool :=
  forallb (fun c => match c_width c with Some _ => true | None => false end) cols.

Definition set_width (c : column) (w : Z) : column :=
  mkCol (c_name c) (c_mod c) (c_break c) (c_min c) (c_max c) (Some w).

Record view := mkView { vw_widths : list Z; vw_lines : list line; vw_skipped : Z }.

(* the state-changing prefix of _PPTableImpl.gen_ch_lines; the AssertionError
   of fit_to_width(table_width - 2 < 0) comes after the state was updated *)
Definition print (rows : list row) (t : tstate) : tstate * res view :=
  let fs := t_fields t in
  let lines := lines_from fs (t_cols t) None 0 rows in
  let '(vis, nskip) := visible (t_lf t) (t_ll t) (Z.of_nat (length rows)) lines in
  let cols := if finalized (t_cols t) then t_cols t
              else map (fun c => set_width c (negotiate_col fs rows vis c)) (t_cols t) in
  let ws := map (fun c => dflt (c_width c) 0) cols in
  let t' := mkT fs cols (t_lf t) (t_ll t) (Some (nskip >? 0)) in
  let table_width := fold_right Z.add 0 ws + Z.of_nat (length cols) + 1 in
  (t', if table_width - 2 <? 0 then Err AssertErr else Ok (mkView ws vis nskip)).
