(* C14/Run.v -- entry point of the correspondence check. *)
From Coq Require Import ZArith List Bool.
From AK Require Export Common.Sx Common.Err C14.Model.
Import ListNotations.
Open Scope Z_scope.

Inductive op :=
| OReg (items : list (str * str))        (* conf.add_new_items(flat dict, src) *)
| ORegNested (items : list (str * cval)) (* a Palette class with SYNTAX_DEFAULTS = items is created on conf *)
| OPalette.                              (* conf.get_palette() *)

(* ColorsConfig(init, no_color=nc) of a class whose BUILT_IN_CONFIG is [builtin]
   (None = the real one), then the operations; after every step
   str(conf.get_color(id)('x')) is observed for every id of [watch]. *)
Inductive case :=
| Case (nc : bool) (init : list (str * cval)) (builtin : option (list (str * cval)))
       (watch : list str) (ops : list op).

(* str(fmt('x')) is  ESC[ p1;p2;... m x ESC[0m  (or just x when there are no parameters);
   the observation is the text between "ESC[" and "m" (the harness checks the frame) *)
Definition render (f : fmt) : str := join [59] f.

Definition observe (c : conf) (watch : list str) : sx :=
  SL (map (fun id => sx_str (render (get_color c id))) watch).

Definition sx_err (e : err) : sx := SL [SZ 1; SZ (err_code e)].

Fixpoint run_ops (c : conf) (watch : list str) (ops : list op) : list sx :=
  match ops with
  | [] => []
  | o :: r =>
      match o with
      | OReg items =>
          match add_new_items c items with
          | Ok c' => SL [SZ 0; observe c' watch] :: run_ops c' watch r
          | Err e => [sx_err e]
          end
      | ORegNested items =>
          match add_new_items c (flatten items) with
          | Ok c' => SL [SZ 0; observe c' watch] :: run_ops c' watch r
          | Err e => [sx_err e]
          end
      | OPalette =>
          let (c', snap) := get_palette c in
          SL [SZ 0; SL (map (fun f => sx_str (render f)) snap); observe c' watch] :: run_ops c' watch r
      end
  end.

Definition run (c : case) : sx :=
  match c with
  | Case nc init builtin watch ops =>
      match new_conf nc init (match builtin with Some b => b | None => builtin_config end) with
      | Err e => SL [sx_err e]
      | Ok c0 => SL (SL [SZ 0; observe c0 watch] :: run_ops c0 watch ops)
      end
  end.
