(* C16/Model.v -- executable model of request-id generation in ak/conn_http.py
   (_HttpConnImpl.__init__ counter/lock, do_request's header section,
   _generate_request_id, urllib's storing of headers under key.capitalize()).

   Threads share one implementation object (all connections derived from one
   root connection do: gen/C16_Consts.shares_impl).  A thread executes a list of
   requests; each request runs the instruction list [prog] (for the real code:
   gen/C16_Consts.impl_prog, generated from the AST), one instruction per access
   to shared state.  A schedule is ANY list of thread ids: [step st t] lets
   thread [t] execute its next instruction; an [IAcquire] on a held lock leaves
   everything as it is.
   Strings are lists of code points.  No proofs in this file. *)
From Coq Require Import ZArith List Bool.
From AK Require Import Common.Sx Common.Err C16.Instr gen.C16_Consts.
Import ListNotations.
Open Scope Z_scope.

Notation tid := nat.
Notation str := (list Z).
Notation headers := (list (list Z * list Z)).   (* a dict: keys unique, insertion order *)

(* ---------------------------------------------------------------- strings *)
Fixpoint str_eqb (a b : str) : bool :=
  match a, b with
  | [], [] => true
  | x :: a', y :: b' => (x =? y) && str_eqb a' b'
  | _, _ => false
  end.

(* str.capitalize() on ASCII *)
Definition lower (c : Z) : Z := if (65 <=? c) && (c <=? 90) then c + 32 else c.
Definition upper (c : Z) : Z := if (97 <=? c) && (c <=? 122) then c - 32 else c.
Definition cap (s : str) : str :=
  match s with [] => [] | c :: r => upper c :: map lower r end.

(* ---------------------------------------------------------------- id format
   "{}{}SEP{}".format(conn_part, "{:0W1}".format(n % M), "{:0W2}".format(n)) *)
Fixpoint digits_le (fuel : nat) (n : Z) : list Z :=      (* least significant first *)
  match fuel with
  | O => []
  | S f => if n <=? 0 then [] else (48 + n mod 10) :: digits_le f (n / 10)
  end.
(* decimal representation of a non-negative integer *)
Definition dec (n : Z) : str :=
  if n <=? 0 then [48] else rev (digits_le (S (Z.to_nat (Z.log2 n))) n).
Definition pad (w : nat) (ds : str) : str := repeat 48 (w - length ds)%nat ++ ds.
Definition fmt (cp : str) (n : Z) : str :=
  cp ++ pad fmt_w1 (dec (n mod fmt_mod)) ++ fmt_sep ++ pad fmt_w2 (dec n).

(* ---------------------------------------------------------------- headers *)
Definition key_in (k : str) (h : headers) : bool :=
  existsb (fun kv => str_eqb (fst kv) k) h.

(* headers[k] = v *)
Fixpoint dict_set (h : headers) (k v : str) : headers :=
  match h with
  | [] => [(k, v)]
  | (k', v') :: r => if str_eqb k' k then (k', v) :: r else (k', v') :: dict_set r k v
  end.

(* do_request's test for a caller-supplied id: any(name.lower() == KEY for name in headers), KEY = hdr_test_key
   (str.lower() on ASCII names) *)
Definition supplied_test (h : headers) : bool :=
  existsb (fun kv => str_eqb (map lower (fst kv)) hdr_test_key) h.

(* the header the property observes: 'X-request-id' of the urllib Request *)
Definition obs_key : str := [88;45;114;101;113;117;101;115;116;45;105;100].

(* Request(headers=h): for key, value in h.items(): self.headers[key.capitalize()] = value
   then get_header(obs_key) *)
Fixpoint sent_value (h : headers) (acc : option str) : option str :=
  match h with
  | [] => acc
  | (k, v) :: r => sent_value r (if str_eqb (cap k) obs_key then Some v else acc)
  end.

(* ---------------------------------------------------------------- machine *)
(* what the opener saw for one request: the sequence number consumed (if any)
   and the value of the X-request-id header (if any); [Died]: the request raised *)
Inductive event : Type :=
| Sent (num : option Z) (val : option str)
| Died.

Record thread : Type := mkT {
  code : list instr;      (* rest of the current request; [] = between requests *)
  hdrs : headers;         (* the caller's headers of the current request *)
  regs : nat -> Z;        (* local variables holding counter values *)
  todo : list headers;    (* the requests still to be issued *)
  out  : list event       (* what was sent so far, newest first *)
}.

Record state : Type := mkS {
  lock : option tid;      (* _reqid_generator_guard: who holds it *)
  ctr  : option Z;        (* _cur_req_id; None = ids disabled *)
  threads : list thread
}.

Definition upd (f : nat -> Z) (r : nat) (v : Z) : nat -> Z :=
  fun x => if Nat.eqb x r then v else f x.

Fixpoint set_nth {A} (l : list A) (i : nat) (a : A) : list A :=
  match l, i with
  | [], _ => []
  | _ :: r, O => a :: r
  | x :: r, S j => x :: set_nth r j a
  end.

Definition finish (th : thread) (e : event) : thread :=
  mkT [] [] (regs th) (todo th) (e :: out th).

(* an exception escapes the request: the thread ends; `with` would release the lock *)
Definition die (st : state) (t : tid) (th : thread) : state :=
  mkS (match lock st with
       | Some t' => if Nat.eqb t' t then None else Some t'
       | None => None
       end)
      (ctr st)
      (set_nth (threads st) t (mkT [] [] (regs th) [] (Died :: out th))).

Definition step (cp : str) (prog : list instr) (st : state) (t : tid) : state :=
  match nth_error (threads st) t with
  | None => st
  | Some th =>
    let put := fun th' => set_nth (threads st) t th' in
    match code th with
    | [] =>
        match todo th with
        | [] => st                                   (* thread finished *)
        | h :: rest =>                               (* conn.get(...): enter do_request *)
            mkS (lock st) (ctr st) (put (mkT prog h (regs th) rest (out th)))
        end
    | i :: c =>
        let th_c := mkT c (hdrs th) (regs th) (todo th) (out th) in
        let th_pass := mkT [IPass] (hdrs th) (regs th) (todo th) (out th) in
        match i with
        | ICheck =>
            (* if self._cur_req_id is not None: if not any(name.lower() == KEY for name in headers): ... *)
            match ctr st with
            | None => mkS (lock st) (ctr st) (put th_pass)
            | Some _ =>
                if supplied_test (hdrs th)
                then mkS (lock st) (ctr st) (put th_pass)
                else mkS (lock st) (ctr st) (put th_c)
            end
        | IPass =>
            mkS (lock st) (ctr st) (put (finish th (Sent None (sent_value (hdrs th) None))))
        | IAcquire =>
            match lock st with
            | None => mkS (Some t) (ctr st) (put th_c)
            | Some _ => st                           (* blocked: nothing changes *)
            end
        | IRelease =>
            match lock st with
            | Some _ => mkS None (ctr st) (put th_c) (* threading.Lock: any thread may release *)
            | None => die st t th                    (* RuntimeError: release unlocked lock *)
            end
        | ILoad r =>
            match ctr st with
            | Some v => mkS (lock st) (ctr st)
                            (put (mkT c (hdrs th) (upd (regs th) r v) (todo th) (out th)))
            | None => die st t th                    (* None + 1: TypeError (never reached behind ICheck) *)
            end
        | IStoreSucc r =>
            mkS (lock st) (Some (regs th r + 1)) (put th_c)
        | IEmit r =>
            let n := regs th r in
            mkS (lock st) (ctr st)
                (put (finish th (Sent (Some n)
                       (sent_value (dict_set (hdrs th) hdr_set_key (fmt cp n)) None))))
        end
    end
  end.

Fixpoint exec (cp : str) (prog : list instr) (sched : list tid) (st : state) : state :=
  match sched with
  | [] => st
  | t :: r => exec cp prog r (step cp prog st t)
  end.

Definition init (c0 : option Z) (reqs : list (list headers)) : state :=
  mkS None c0 (map (fun rs => mkT [] [] (fun _ => 0) rs []) reqs).

(* what kind of access the next step of thread t is (numbers of harness/props/c16_sched.py) *)
Definition kind_of (st : state) (t : tid) : Z :=
  match nth_error (threads st) t with
  | None => 7
  | Some th =>
    match code th with
    | [] => match todo th with [] => 7 | _ => 0 end
    | ICheck :: _ | ILoad _ :: _ => 1
    | IStoreSucc _ :: _ => 2
    | IAcquire :: _ => match lock st with None => 3 | Some _ => 4 end
    | IRelease :: _ => 5
    | IEmit _ :: _ | IPass :: _ => 6
    end
  end.

Fixpoint exec_kinds (cp : str) (prog : list instr) (sched : list tid) (st : state) : list Z :=
  match sched with
  | [] => []
  | t :: r => kind_of st t :: exec_kinds cp prog r (step cp prog st t)
  end.

(* ---------------------------------------------------------------- observables used by the theorems *)
Fixpoint nums (evs : list event) : list Z :=
  match evs with
  | [] => []
  | Sent (Some n) _ :: r => n :: nums r
  | _ :: r => nums r
  end.

(* sequence numbers the opener has seen *)
Definition numbers (st : state) : list Z :=
  concat (map (fun th => nums (out th)) (threads st)).

(* a thread that left the critical section and has not sent its request yet *)
Definition pending (th : thread) : list Z :=
  match code th with
  | [IEmit r] => [regs th r]
  | _ => []
  end.
Definition pending_all (st : state) : list Z := concat (map pending (threads st)).

Definition zseq (c0 : Z) (k : nat) : list Z := map (fun i => c0 + Z.of_nat i) (seq 0 k).

Definition finished (st : state) : Prop :=
  Forall (fun th => code th = [] /\ todo th = []) (threads st).

(* ---------------------------------------------------------------- lock discipline (checked on the generated program)
   prog = ICheck :: IAcquire :: cs ++ [IRelease; IEmit r]  where the critical
   section cs, run from counter value c, leaves c in local r and c+1 in the
   counter.  [abs_cs] runs cs on values relative to c (None = unknown). *)
Fixpoint abs_cs (cs : list instr) (off : Z) (ar : nat -> option Z) : option (Z * (nat -> option Z)) :=
  match cs with
  | [] => Some (off, ar)
  | ILoad r :: c => abs_cs c off (fun x => if Nat.eqb x r then Some off else ar x)
  | IStoreSucc r :: c => match ar r with Some k => abs_cs c (k + 1) ar | None => None end
  | _ => None
  end.

Fixpoint split_release (p : list instr) : option (list instr * list instr) :=
  match p with
  | [] => None
  | IRelease :: r => Some ([], r)
  | i :: r => match split_release r with
              | Some (a, b) => Some (i :: a, b)
              | None => None
              end
  end.

Definition well_locked (p : list instr) : bool :=
  match p with
  | ICheck :: IAcquire :: p2 =>
      match split_release p2 with
      | Some (cs, [IEmit r]) =>
          match abs_cs cs 0 (fun _ => None) with
          | Some (off, ar) => (off =? 1) && match ar r with Some k => k =? 0 | None => false end
          | None => false
          end
      | _ => false
      end
  | _ => false
  end.

(* the same program without the lock, for the sanity theorem *)
Definition strip_lock (p : list instr) : list instr :=
  filter (fun i => match i with IAcquire | IRelease => false | _ => true end) p.

(* ---------------------------------------------------------------- the id values the opener saw on generated ids *)
Fixpoint gen_vals (evs : list event) : list str :=
  match evs with
  | [] => []
  | Sent (Some _) (Some v) :: r => v :: gen_vals r
  | _ :: r => gen_vals r
  end.
(* X-request-id values of all requests that consumed a sequence number *)
Definition generated_ids (st : state) : list str :=
  concat (map (fun th => gen_vals (out th)) (threads st)).

(* ---------------------------------------------------------------- liveness vocabulary
   a schedule every step of which does something: the scheduled thread is runnable (not blocked
   on the lock, not done) -- unless everything is finished already *)
Fixpoint effective (cp : str) (prog : list instr) (st : state) (sched : list tid) : Prop :=
  match sched with
  | [] => True
  | t :: r => (finished st \/ step cp prog st t <> st) /\ effective cp prog (step cp prog st t) r
  end.

(* an upper bound on the number of effective steps still possible: every instruction left counts 2
   (IPass 1, so that the jump ICheck -> IPass decreases), every request not started counts one more
   than a whole program *)
Definition iw (i : instr) : nat := match i with IPass => 1%nat | _ => 2%nat end.
Definition cw (c : list instr) : nat := list_sum (map iw c).
Definition work (prog : list instr) (th : thread) : nat :=
  (cw (code th) + S (cw prog) * length (todo th))%nat.
Definition steps_left (prog : list instr) (st : state) : nat := list_sum (map (work prog) (threads st)).

(* ---------------------------------------------------------------- derived connections
   A connection object is a root (HttpConn/BAuthConn/... constructed from an address: it creates its own
   _HttpConnImpl, identified by a number) or a wrapper constructed from another connection.
   [wrap_rule] (gen/C16_Consts.v) says what _HttpConnBase.__init__ stores in a wrapper's conn_impl;
   every request method calls self.conn_impl.do_request.  [impl_of c]: the connection whose construction
   created the implementation object (lock + counter) that requests through c use. *)
Inductive conn : Type :=
| CRoot (impl_id : nat)
| CWrap (parent : conn).

Fixpoint root_of (c : conn) : conn :=
  match c with CRoot i => CRoot i | CWrap p => root_of p end.

Fixpoint impl_of (c : conn) : conn :=
  match c with
  | CRoot i => CRoot i
  | CWrap p => match wrap_rule with
               | RShareParent => impl_of p      (* self.conn_impl = parent_conn.conn_impl *)
               | ROwnImpl => CWrap p            (* a wrapper with an implementation object of its own *)
               end
  end.
