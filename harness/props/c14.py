"""C14  Syntax colors resolve by inheritance, independent of registration order  (ak/color.py)"""
import ast
import itertools
import os

from harness.lib import sx as SX

ID = "C14"
COQ_DIR = "C14"
RUN_MOD = "C14.Run"
MODEL_TARGETS = ["C14/Run.vo"]
PROOF_TARGETS = ["C14/Lemmas.vo", "C14/LemWorld.vo"]
PROPS = ["C14/Props.v"]
ALLOWED_AXIOMS = []
IMPL_TIMEOUT = 10.0
COQ_SHARD = 12


class ExtractError(Exception):
    pass


# ------------------------------------------------------------------ constants read from the source
def _find_class(tree, name):
    for n in tree.body:
        if isinstance(n, ast.ClassDef) and n.name == name:
            return n
    raise ExtractError(f"class {name} not found")


def _class_assign(cls, name):
    for b in cls.body:
        if isinstance(b, ast.Assign) and len(b.targets) == 1 and isinstance(b.targets[0], ast.Name) \
                and b.targets[0].id == name:
            return b.value
    raise ExtractError(f"{cls.name}.{name} not found")


def _class_func(cls, name):
    for b in cls.body:
        if isinstance(b, ast.FunctionDef) and b.name == name:
            return b
    raise ExtractError(f"{cls.name}.{name} not found")


def _lit(node, what):
    try:
        return ast.literal_eval(node)
    except Exception as e:
        raise ExtractError(f"{what} is not a literal: {e}")


def _is_self_attr(node, obj="self"):
    return isinstance(node, ast.Attribute) and isinstance(node.value, ast.Name) and node.value.id == obj


_FLD = {"fg_color": "FFg", "bg_color": "FBg"}


def _resolve_actions(stmts, where):
    """straight-line body of one branch of _ColorConfColorDescr.resolve -> list of Coq `ract` terms"""
    acts = []
    for st in stmts:
        if isinstance(st, ast.Assert):
            continue
        if isinstance(st, ast.Expr) and isinstance(st.value, ast.Constant):
            continue
        if isinstance(st, ast.If) and not st.orelse and len(st.body) == 1 and isinstance(st.body[0], ast.Assign) \
                and isinstance(st.test, ast.Compare) and len(st.test.ops) == 1 and _is_self_attr(st.test.left) \
                and st.test.left.attr in _FLD:
            fld = st.test.left.attr
            asg = st.body[0]
            if not (len(asg.targets) == 1 and _is_self_attr(asg.targets[0]) and asg.targets[0].attr == fld):
                raise ExtractError(f"resolve/{where}: unrecognised assignment at line {st.lineno}")
            comp = st.test.comparators[0]
            op = st.test.ops[0]
            if isinstance(op, ast.Eq) and isinstance(comp, ast.Constant) and isinstance(comp.value, str):
                vals = [comp.value]
            elif isinstance(op, ast.In) and isinstance(comp, (ast.List, ast.Tuple, ast.Set)) \
                    and all(isinstance(e, ast.Constant) and isinstance(e.value, str) for e in comp.elts):
                vals = [e.value for e in comp.elts]
            else:
                raise ExtractError(f"resolve/{where}: unrecognised test at line {st.lineno}")
            if isinstance(asg.value, ast.Constant) and asg.value.value is None:
                acts.append(f"ANoneIfIn {_FLD[fld]} {SX.clist(SX.cstr(v) for v in vals)}")
            elif _is_self_attr(asg.value, "parent") and asg.value.attr == fld:
                acts.append(f"AInheritIfIn {_FLD[fld]} {SX.clist(SX.cstr(v) for v in vals)}")
            else:
                raise ExtractError(f"resolve/{where}: unrecognised value at line {st.lineno}")
            continue
        if isinstance(st, ast.Assign) and len(st.targets) == 1 and _is_self_attr(st.targets[0]) \
                and st.targets[0].attr == "modifiers" and isinstance(st.value, ast.Dict) \
                and st.value.keys == [None, None] \
                and _is_self_attr(st.value.values[0], "parent") and st.value.values[0].attr == "modifiers" \
                and _is_self_attr(st.value.values[1]) and st.value.values[1].attr == "modifiers":
            acts.append("AMergeMods")
            continue
        raise ExtractError(f"resolve/{where}: unrecognised statement at line {st.lineno}")
    return acts


def _flat_cfg_term(d):
    """nested python dict of str -> Coq `list (str * cval)`"""
    items = []
    for k, v in d.items():
        if not isinstance(k, str):
            raise ExtractError("non-string key in a configuration literal")
        items.append(f"({SX.cstr(k)}, {_cval_term(v)})")
    return "[" + "; ".join(items) + "]" if items else "(@nil (list Z * cval))"


def _cval_term(v):
    if isinstance(v, str):
        return f"VStr {SX.cstr(v)}"
    if isinstance(v, dict):
        return f"VDict {_flat_cfg_term(v)}"
    return "VOther"


def extract_consts(repo):
    src = open(os.path.join(repo, "ak", "color.py")).read()
    tree = ast.parse(src)
    out = {}
    cs = _find_class(tree, "_ColorSequences")
    colors = _lit(_class_assign(cs, "_COLORS"), "_COLORS")
    if not (isinstance(colors, dict) and colors and all(isinstance(k, str) and isinstance(v, str) for k, v in colors.items())):
        raise ExtractError("_COLORS is not a dict str -> str")
    out["colors"] = colors
    # modifier kwargs and their SGR codes, in the order `make` emits them
    mk = _class_func(cs, "make")
    mods = []
    has_fg = has_bg = False
    guard = [n for n in mk.body if isinstance(n, ast.If) and isinstance(n.test, ast.UnaryOp)
             and isinstance(n.test.op, ast.Not) and isinstance(n.test.operand, ast.Name) and n.test.operand.id == "no_color"]
    if len(guard) != 1 or guard[0].orelse:
        raise ExtractError("_ColorSequences.make: `if not no_color:` block not found")
    for st in guard[0].body:
        if not (isinstance(st, ast.If) and not st.orelse and len(st.body) == 1 and isinstance(st.body[0], ast.Expr)
                and isinstance(st.body[0].value, ast.Call) and isinstance(st.body[0].value.func, ast.Attribute)
                and st.body[0].value.func.attr == "append" and isinstance(st.body[0].value.func.value, ast.Name)
                and st.body[0].value.func.value.id == "color_codes" and len(st.body[0].value.args) == 1):
            raise ExtractError(f"_ColorSequences.make: unrecognised statement at line {st.lineno}")
        arg = st.body[0].value.args[0]
        if isinstance(st.test, ast.Name) and isinstance(arg, ast.Constant) and isinstance(arg.value, str):
            if not (has_fg and has_bg):
                raise ExtractError("_ColorSequences.make: modifiers emitted before the colors")
            mods.append((st.test.id, arg.value))
        elif isinstance(st.test, ast.Compare) and isinstance(st.test.left, ast.Name) and len(st.test.ops) == 1 \
                and isinstance(st.test.ops[0], ast.IsNot) and isinstance(arg, ast.Call) \
                and isinstance(arg.func, ast.Attribute) and arg.func.attr == "_make_seq_element" \
                and len(arg.args) == 2 and isinstance(arg.args[0], ast.Name) and arg.args[0].id == st.test.left.id \
                and isinstance(arg.args[1], ast.Constant):
            if st.test.left.id == "color" and arg.args[1].value is False and not has_fg and not has_bg and not mods:
                has_fg = True
            elif st.test.left.id == "bg_color" and arg.args[1].value is True and has_fg and not has_bg and not mods:
                has_bg = True
            else:
                raise ExtractError("_ColorSequences.make: unexpected order of color elements")
        else:
            raise ExtractError(f"_ColorSequences.make: unrecognised statement at line {st.lineno}")
    if not (has_fg and has_bg and mods):
        raise ExtractError("_ColorSequences.make: color/modifier statements not found")
    # the keyword order of make()/ColorFmt must list exactly these names
    out["mod_names"] = [m[0] for m in mods]
    out["mod_codes"] = [m[1] for m in mods]
    # prefix / suffix literals
    consts = [n.value for n in ast.walk(mk) if isinstance(n, ast.Constant) and isinstance(n.value, str)]
    if "\033[" not in consts or "m" not in consts or "\033[0m" not in consts or ";" not in consts:
        raise ExtractError("_ColorSequences.make: escape sequence literals not found")

    cd = _find_class(tree, "_ColorConfColorDescr")
    modtbl = _lit(_class_assign(cd, "_MODIFIERS"), "_MODIFIERS")
    if not (isinstance(modtbl, dict) and all(isinstance(k, str) and isinstance(v, tuple) and len(v) == 2
                                             and v[0] in out["mod_names"] and isinstance(v[1], bool)
                                             for k, v in modtbl.items())):
        raise ExtractError("_MODIFIERS has an unexpected shape")
    out["modifiers"] = modtbl
    # _COLORS_NAMES = _COLORS.keys() | {...} | {f"g{i}" for i in range(N)}
    cn = _class_assign(cd, "_COLORS_NAMES")
    try:
        assert isinstance(cn, ast.BinOp) and isinstance(cn.op, ast.BitOr)
        assert isinstance(cn.left, ast.BinOp) and isinstance(cn.left.op, ast.BitOr)
        k = cn.left.left
        assert isinstance(k, ast.Call) and isinstance(k.func, ast.Attribute) and k.func.attr == "keys" \
            and isinstance(k.func.value, ast.Attribute) and k.func.value.attr == "_COLORS"
        extra = _lit(cn.left.right, "extra names")
        assert isinstance(extra, set) and all(isinstance(x, str) for x in extra)
        sc = cn.right
        assert isinstance(sc, ast.SetComp) and isinstance(sc.elt, ast.JoinedStr) and len(sc.elt.values) == 2
        assert isinstance(sc.elt.values[0], ast.Constant) and sc.elt.values[0].value == "g"
        assert isinstance(sc.elt.values[1], ast.FormattedValue) and sc.elt.values[1].conversion == -1 \
            and sc.elt.values[1].format_spec is None
        g = sc.generators
        assert len(g) == 1 and not g[0].ifs and isinstance(g[0].iter, ast.Call) and g[0].iter.func.id == "range" \
            and len(g[0].iter.args) == 1 and isinstance(g[0].iter.args[0], ast.Constant)
        gray = g[0].iter.args[0].value
        assert isinstance(gray, int) and 0 <= gray <= 1000
    except (AssertionError, AttributeError):
        raise ExtractError("_COLORS_NAMES has an unexpected shape")
    out["extra_names"] = sorted(extra)
    out["gray_count"] = gray
    # resolve(): the two branches as action lists
    rs = _class_func(cd, "resolve")
    branches = [n for n in rs.body if isinstance(n, ast.If) and isinstance(n.test, ast.Compare)
                and _is_self_attr(n.test.left) and n.test.left.attr == "parent_syntax_id"
                and len(n.test.ops) == 1 and isinstance(n.test.ops[0], ast.IsNot)
                and isinstance(n.test.comparators[0], ast.Constant) and n.test.comparators[0].value is None]
    if len(branches) != 1:
        raise ExtractError("resolve: `if self.parent_syntax_id is not None:` not found")
    out["acts_parent"] = _resolve_actions(branches[0].body, "with parent")
    out["acts_root"] = _resolve_actions(branches[0].orelse, "no parent")
    # the tail of resolve must be: if no_color: NO_EFFECTS else ColorFmt(fg, bg_color=bg, **modifiers)
    tail = rs.body[rs.body.index(branches[0]) + 1:]
    ok = (len(tail) == 1 and isinstance(tail[0], ast.If) and isinstance(tail[0].test, ast.Name)
          and tail[0].test.id == "no_color" and len(tail[0].body) == 1 and len(tail[0].orelse) == 1)
    if ok:
        call = tail[0].orelse[0].value if isinstance(tail[0].orelse[0], ast.Assign) else None
        ok = (isinstance(call, ast.Call) and isinstance(call.func, ast.Name) and call.func.id == "ColorFmt"
              and len(call.args) == 1 and _is_self_attr(call.args[0]) and call.args[0].attr == "fg_color"
              and len(call.keywords) == 2 and call.keywords[0].arg == "bg_color"
              and _is_self_attr(call.keywords[0].value) and call.keywords[0].value.attr == "bg_color"
              and call.keywords[1].arg is None and _is_self_attr(call.keywords[1].value)
              and call.keywords[1].value.attr == "modifiers")
        noeff = tail[0].body[0].value if isinstance(tail[0].body[0], ast.Assign) else None
        ok = ok and isinstance(noeff, ast.Attribute) and noeff.attr == "_NO_EFFECTS_FMT"
    if not ok:
        raise ExtractError("resolve: the formatter construction has an unexpected shape")

    cc = _find_class(tree, "ColorsConfig")
    dflt = _lit(_class_assign(cc, "DFLT_SYNTAX_ID"), "DFLT_SYNTAX_ID")
    if not isinstance(dflt, str):
        raise ExtractError("DFLT_SYNTAX_ID is not a string")
    out["dflt"] = dflt
    builtin = _lit(_class_assign(cc, "BUILT_IN_CONFIG"), "BUILT_IN_CONFIG")
    if not isinstance(builtin, dict):
        raise ExtractError("BUILT_IN_CONFIG is not a dict")
    out["builtin"] = builtin
    gp = _find_class(tree, "GlobalPalette")
    acc = []
    for b in gp.body:
        if isinstance(b, ast.Assign) and len(b.targets) == 1 and isinstance(b.targets[0], ast.Name) \
                and isinstance(b.value, ast.Call) and isinstance(b.value.func, ast.Name) and b.value.func.id == "ConfColor":
            if not (len(b.value.args) == 1 and isinstance(b.value.args[0], ast.Constant) and isinstance(b.value.args[0].value, str)):
                raise ExtractError("GlobalPalette: ConfColor argument is not a string literal")
            acc.append((b.targets[0].id, b.value.args[0].value))
    if not acc:
        raise ExtractError("GlobalPalette: no accessors found")
    out["accessors"] = acc
    # Palette.register_in_colors_conf: [registered? return] [parents] ([registered? return])? [own defaults]
    pal = _find_class(tree, "Palette")
    rg = _class_func(pal, "register_in_colors_conf")
    body = [st for st in rg.body if not (isinstance(st, ast.Expr) and isinstance(st.value, ast.Constant))]

    def dump(src):
        return [ast.dump(n) for n in ast.parse(src).body]
    chk = dump("if colors_conf.color_conf_component_is_registered(cls):\n    return\n")
    par = dump("if cls.PARENT_PALETTES is not None:\n    for p_cls in cls.PARENT_PALETTES:\n"
               "        p_cls.register_in_colors_conf(colors_conf)\n")
    par2 = dump("if cls.PARENT_PALETTES is not None:\n    for p_cls in cls.PARENT_PALETTES:\n"
                "        p_cls.register_in_colors_conf(colors_conf)\n"
                "    if colors_conf.color_conf_component_is_registered(cls):\n        return\n")
    own = dump("if cls.SYNTAX_DEFAULTS is not None:\n"
               "    colors_conf.register_color_conf_component(cls.SYNTAX_DEFAULTS, cls)\n")
    got = [ast.dump(n) for n in body]
    if got == chk + par + own:
        out["reg_recheck"] = False
    elif got in (chk + par2 + own, chk + par + chk + own):
        out["reg_recheck"] = True
    else:
        raise ExtractError("Palette.register_in_colors_conf has an unexpected shape")
    return out


def gen_consts(repo):
    c = extract_consts(repo)
    idx = {n: i for i, n in enumerate(c["mod_names"])}
    lines = ["(* generated from ak/color.py by harness/props/c14.py -- do not edit *)",
             "From Coq Require Import ZArith List.",
             "From AK Require Import C14.Base.",
             "Import ListNotations.",
             "(* _ColorSequences._COLORS *)",
             "Definition colors_tbl : list (list Z * list Z) := "
             + SX.clist(f"({SX.cstr(k)}, {SX.cstr(v)})" for k, v in c["colors"].items()) + ".",
             "(* SGR codes of the modifiers, in the order _ColorSequences.make emits them: "
             + ", ".join(c["mod_names"]) + " *)",
             "Definition mod_codes : list (list Z) := " + SX.clist(SX.cstr(v) for v in c["mod_codes"]) + ".",
             "(* _ColorConfColorDescr._MODIFIERS: name -> (index into mod_codes, value) *)",
             "Definition modifiers_tbl : list (list Z * (nat * bool)) := "
             + SX.clist(f"({SX.cstr(k)}, ({idx[v[0]]}%nat, {SX.cbool(v[1])}))" for k, v in c["modifiers"].items()) + ".",
             "(* _COLORS_NAMES = _COLORS.keys() | extra_names | {g0 .. g<gray_count-1>} *)",
             "Definition extra_names : list (list Z) := " + SX.clist(SX.cstr(v) for v in c["extra_names"]) + ".",
             f"Definition gray_count : nat := {c['gray_count']}%nat.",
             "(* _ColorConfColorDescr.resolve: statements of the branch with / without a parent *)",
             "Definition acts_parent : list ract := " + (SX.clist(c["acts_parent"]) if c["acts_parent"] else "(@nil ract)") + ".",
             "Definition acts_root : list ract := " + (SX.clist(c["acts_root"]) if c["acts_root"] else "(@nil ract)") + ".",
             "(* ColorsConfig.DFLT_SYNTAX_ID / BUILT_IN_CONFIG, GlobalPalette accessors *)",
             f"Definition dflt_id : list Z := {SX.cstr(c['dflt'])}.",
             f"Definition builtin_config : list (list Z * cval) := {_flat_cfg_term(c['builtin'])}.",
             "Definition accessors : list (list Z) := " + SX.clist(SX.cstr(v) for _, v in c["accessors"]) + ".",
             "(* Palette.register_in_colors_conf: is `already registered?` asked again after the PARENT_PALETTES loop *)",
             f"Definition reg_recheck : bool := {SX.cbool(c['reg_recheck'])}.",
             ""]
    return {"C14_Consts": "\n".join(lines)}


_CONSTS = None


def _consts():
    """constants of the tree under test (parent process: harness.lib.implrun.REPO)"""
    global _CONSTS
    if _CONSTS is None:
        repo = os.environ.get("VERIF_REPO", "/repo")
        try:
            _CONSTS = extract_consts(repo)
        except Exception:
            # the extractor failing is reported by step A; fall back to the documented values
            _CONSTS = {"accessors": [("text", "TEXT"), ("name", "NAME"), ("keyword", "KEYWORD"), ("ok", "OK"),
                                     ("warn", "WARN"), ("error", "ERROR")],
                       "builtin": {"TEXT": "", "NAME": "GREEN:bold", "KEYWORD": "BLUE:bold", "NUMBER": "YELLOW",
                                   "OK": "GREEN:bold", "WARN": "RED", "ERROR": "RED:bold"},
                       "dflt": "TEXT", "reg_recheck": False}
    return _CONSTS


RULE = ("description sets over ids A..H, dotted ids T.A/T.B/T.U.C and TEXT/NAME: parent chains up to depth 6 (acyclic by "
        "construction, plus a few cyclic / self-referring ones), unknown parents, explicit '-', empty parts, every "
        "modifier and its no_ form, colours in all four notations; each set is split at random between the initial "
        "configuration (flat or nested), a custom or the real BUILT_IN_CONFIG and 0-4 later registrations (direct "
        "add_new_items or a Palette class with nested SYNTAX_DEFAULTS) with overlapping ids (first registration wins), "
        "all permutations of small sets, get_palette() calls in between, no_color configurations; a malformed-string "
        "stream for the parser.  Sessions (kind world:*) on the module state of a freshly re-imported ak.color: 1-3 Palette "
        "classes (own SYNTAX_DEFAULTS flat or nested, PARENT_PALETTES, shared defaults dictionaries, ConfColor accessors on "
        "own / foreign / standard ids, GlobalPalette subclasses), several ColorsConfig objects (custom or real "
        "BUILT_IN_CONFIG, no_color), 4-12 calls of ColorsConfig(...), set_global_colors_config(conf / None), Cls(synced=True), "
        "conf.add_new_items, Cls.register_in_colors_conf, Cls(conf) / Cls() / PaletteUser._mk_palette, conf.get_palette(); "
        "scenarios: components with synced palettes first then a configuration whose explicit items refer to ids only their "
        "defaults provide is installed, the global configuration modified in place, ONE defaults dictionary registered in "
        "several configurations.  All dictionaries live in a pool and are passed by reference every time they are used; after "
        "every call every access path is observed (get_color of every configuration, accessor attributes and [id] of every "
        "synced palette, the palette just obtained, identity of the global configuration) and every dictionary is compared "
        "with its original text.  Sessions world:churn-* let the objects the registries are keyed by COME AND GO: 30-60 Palette "
        "classes made by a factory (type(...), own SYNTAX_DEFAULTS dictionary built with the class, other ids and colours each), "
        "used with ONE long-lived configuration whose explicit items refer to ids only they define, and forgotten after their last "
        "use (gc.collect()); 6-10 configurations built, used with the same classes, forgotten and re-built (also as the global one); "
        "rounds of a new configuration + 3-6 new classes; dictionaries copied for one call; the harness re-creates a configuration / "
        "dictionary up to 300 times until CPython hands out the address of a forgotten one, and counts per kind how often a new "
        "object got the address of a dead one (coverage.c14_object_lifetimes).  The model treats every class / configuration made "
        "as a new one (a forgotten configuration keeps its last colours in the comparison).  "
        "Non-trivial = at least one description with a parent / a session that registers or installs.")
TRUSTED_BASE = [
    "gen/C14_Consts.v: _COLORS, the modifier SGR codes and their order in _ColorSequences.make, _MODIFIERS, the shape of "
    "_COLORS_NAMES, the statements of both branches of _ColorConfColorDescr.resolve, DFLT_SYNTAX_ID, BUILT_IN_CONFIG and the "
    "GlobalPalette accessors are read from ak/color.py by harness/props/c14.py:extract_consts (ast, fail-closed)",
    "Python str.split/strip/int and dict ordering as modelled in coq/C14/Base.v (ASCII inputs only; cases with other code points are oracle-only)",
    "gen/C14_Consts.v reg_recheck: the statement shape of Palette.register_in_colors_conf (is `already registered?` asked again "
    "after the PARENT_PALETTES loop) is read from the source (fail-closed); the rest of the module-state model (C14/World.v) is "
    "hand-written and tied to the code by the session cases only",
]
ASSUMPTIONS = ["descriptions are str values in (nested) dicts with str keys; syntax ids contain no ':' '/' ','",
               "sessions: synced palettes are created with no_color=False; no_color palettes and CompoundPalette are not driven",
               "registration stops at the first exception (the state after a failed add_new_items is not modelled)"]
MODELLED = ("ak/color.py: _ColorConfColorDescr (_parse_init_str and helpers, resolve), ColorsConfig.__init__/add_new_items/"
            "_flatten_dict/get_color/get_palette cache, _ColorSequences.make/_make_seq_element for the resolved values; "
            "C14/World.v: the module state - _GLOBAL_COLORS_CONF, get/set_global_colors_config, _GSYNCED_PALETTES and the "
            "recursive re-sync from add_new_items (`any_modifications and self is _GLOBAL_COLORS_CONF`), "
            "Palette.register_in_colors_conf (registered_sources, PARENT_PALETTES, its re-entrancy), _PaletteMeta.__call__ for "
            "synced and cached non-synced palettes, Palette/GlobalPalette._sync_with_config; make_report, CompoundPalette and "
            "no_color palettes are not modelled")

# ------------------------------------------------------------------ generators
COLOR_NAMES = ["BLACK", "RED", "GREEN", "YELLOW", "BLUE", "MAGENTA", "CYAN", "WHITE"]
MOD_NAMES = ["bold", "faint", "underline", "blink", "crossed"]
IDS = ["A", "B", "C", "D", "E", "F", "G", "H", "T.A", "T.B", "T.U.C", "TEXT", "NAME"]
UNKNOWN = ["X1", "X2", "T.X"]


def _rand_color(rng):
    k = rng.random()
    if k < 0.4:
        return rng.choice(COLOR_NAMES)
    if k < 0.55:
        return str(rng.choice([0, 1, 7, 15, 16, 100, 155, 231, 232, 255, rng.randrange(256)]))
    if k < 0.7:
        return "(%d,%d,%d)" % (rng.randrange(6), rng.randrange(6), rng.randrange(6))
    if k < 0.85:
        return "g%d" % rng.randrange(24)
    return "-"


def _rand_mods(rng):
    if rng.random() < 0.45:
        return ""
    n = rng.choice([1, 1, 2, 3, 5])
    out = []
    for m in rng.sample(MOD_NAMES, n):
        out.append(("no_" if rng.random() < 0.35 else "") + m)
    if rng.random() < 0.1:
        out.append(rng.choice(out if rng.random() < 0.5 else ["no_" + MOD_NAMES[0], MOD_NAMES[0]]))
    return ",".join(out)


def _rand_descr(rng, parent):
    """a description in the documented format; parent is an id or None"""
    fg = _rand_color(rng) if rng.random() < 0.6 else ""
    bg = _rand_color(rng) if rng.random() < 0.35 else ""
    mods = _rand_mods(rng)
    if bg:
        colors = fg + "/" + bg
    elif fg:
        colors = fg if rng.random() < 0.8 else fg + "/"
    else:
        colors = "" if rng.random() < 0.7 else "/"
    if parent is None:
        s = colors
    else:
        if colors in ("", "/") and rng.random() < 0.8:
            s = parent
        else:
            s = parent + ":" + (colors or "/")
    if mods:
        s += ":" + mods
    return s


def _nest(flat, rng):
    """flat dict with dotted keys -> nested dict (same flattening), randomly keeping some keys dotted"""
    out = {}
    for k, v in flat.items():
        parts = k.split(".")
        if len(parts) == 1 or rng.random() < 0.25:
            if k in out and isinstance(out[k], dict):
                continue
            out[k] = v
            continue
        cut = rng.randrange(1, len(parts)) if rng.random() < 0.3 else None
        if cut is not None:
            parts = [".".join(parts[:cut])] + parts[cut:] if rng.random() < 0.5 else parts[:cut] + [".".join(parts[cut:])]
        d = out
        ok = True
        for p in parts[:-1]:
            nxt = d.setdefault(p, {})
            if not isinstance(nxt, dict):
                ok = False
                break
            d = nxt
        if ok and not isinstance(d.get(parts[-1]), dict):
            d[parts[-1]] = v
    return out


def _rand_set(rng, n_ids, cyclic=False):
    """{id: description} with parents chosen so that the set is acyclic (unless cyclic)"""
    ids = rng.sample(IDS, n_ids)
    order = ids[:]
    rng.shuffle(order)
    descs = {}
    for i, sid in enumerate(order):
        r = rng.random()
        if cyclic and r < 0.5:
            parent = rng.choice(order)
        elif r < 0.5 and i > 0:
            # favour long chains: the previous id in the order
            parent = order[i - 1] if rng.random() < 0.6 else rng.choice(order[:i])
        elif r < 0.58:
            parent = rng.choice(UNKNOWN)
        else:
            parent = None
        descs[sid] = _rand_descr(rng, parent)
    return descs


def _split_case(rng, descs, extra_decoys=True, nc=False, palette_ops=True):
    """distribute a description set over init / builtin / later registrations"""
    ids = list(descs)
    rng.shuffle(ids)
    nb = rng.choice([2, 3, 3, 4, 5, 6])
    batches = [dict() for _ in range(nb)]
    for sid in ids:
        batches[rng.randrange(nb)][sid] = descs[sid]
    if extra_decoys:
        # later re-registrations of ids (must lose against the first one) and early ones (must win)
        for sid in ids:
            if rng.random() < 0.3:
                b = rng.randrange(nb)
                if sid not in batches[b]:
                    batches[b][sid] = _rand_descr(rng, rng.choice([None, None] + [x for x in ids if x != sid][:2]))
    for b in batches:
        items = list(b.items())
        rng.shuffle(items)
        b.clear()
        b.update(items)
    use_real_builtin = rng.random() < 0.25
    init = _nest(batches[0], rng) if rng.random() < 0.6 else batches[0]
    builtin = None if use_real_builtin else (_nest(batches[1], rng) if rng.random() < 0.5 else batches[1])
    ops = []
    rest = batches[2:] if not use_real_builtin else batches[1:]
    for b in rest:
        if palette_ops and rng.random() < 0.3:
            ops.append({"k": "pal"})
        if rng.random() < 0.45:
            ops.append({"k": "regn", "items": _nest(b, rng)})
        else:
            ops.append({"k": "reg", "items": b})
    if palette_ops and rng.random() < 0.5:
        ops.append({"k": "pal"})
    watch = sorted(set(ids) | {rng.choice(UNKNOWN), "TEXT"})
    return {"nc": nc, "init": init, "builtin": builtin, "watch": watch, "ops": ops}


MAL_TOKENS = [":", ":", "/", ",", "RED", "BLUE", "bold", "no_bold", "crossed", "A", "B", "-", "", "(1,2,3)", "(1,2", "(6,0,0)",
              "( 1 , 2 ,3 )", "()", "(", ")", "256", "255", "-1", "-0", "+5", "1_0", "1__0", "_1", "007", "g5", "g23", "g24",
              "g05", "g", "g-1", " ", " RED ", "red", "x", "no_", "T.A", "A.", "\t", "\x0c", "\x1f", "0x1f", "1e2", "--1", "+-1",
              "g+5", "g 5", "g1_0", "(1,2,3,4)", "(1,,3)", "(+1,-0,0_5)", "((1,2,3))", "( 5,5,5 ) ", "+255", "2_5_5", "bold,", ",bold",
              " bold ", "BOLD", "no_no_bold", "TEXT", "NAME"]


def _rand_malformed(rng):
    n = rng.choice([1, 2, 3, 3, 4, 5, 6])
    return "".join(rng.choice(MAL_TOKENS) for _ in range(n))


WITNESS = [
    # the '-'-with-parent witness of DESIGN.md section 7 (repaired by ea60995) and relatives
    {"nc": False, "init": {"A": "RED/BLUE:bold", "B": "A:-/YELLOW"}, "builtin": None, "watch": ["A", "B", "TEXT"], "ops": []},
    {"nc": False, "init": {"B": "A:GREEN/-:no_bold"}, "builtin": {"TEXT": ""}, "watch": ["A", "B"],
     "ops": [{"k": "reg", "items": {"A": "RED/BLUE:bold"}}]},
    {"nc": False, "init": {"C": "B", "B": "A:-/-"}, "builtin": {"A": "RED/BLUE:bold,blink"}, "watch": ["A", "B", "C", "Q"], "ops": []},
    {"nc": True, "init": {"A": "RED/BLUE:bold", "B": "A:-/YELLOW"}, "builtin": None, "watch": ["A", "B", "TEXT"], "ops": [{"k": "pal"}]},
    # tests/test_color.py configurations
    {"nc": False, "init": {"NAME": "TABLE.BORDER:155", "TEXT": "(4,1,1):blink", "SHADE": "TEXT:g4/g5:no_blink"},
     "builtin": {"TEXT": "", "NAME": "BLUE:bold", "TABLE": {"BORDER": "RED", "NAME": "GREEN", "ALT1_NAME": "NAME",
                                                             "ALT2_NAME": "TABLE.NAME"}},
     "watch": ["NAME", "TEXT", "SHADE", "TABLE.BORDER", "TABLE.ALT1_NAME", "TABLE.ALT2_NAME", "UNEXPECTED"], "ops": [{"k": "pal"}]},
    {"nc": False, "init": {"SYNT_3": "SYNT_X_3", "SYNT_4": "SYNT_1"},
     "builtin": {"SYNT_1": "SYNT_X_2", "SYNT_2": "YELLOW", "SYNT_3": "BLUE"},
     "watch": ["SYNT_1", "SYNT_2", "SYNT_3", "SYNT_4", "SYNT_X_2", "SYNT_X_3"],
     "ops": [{"k": "pal"}, {"k": "regn", "items": {"SYNT_X_3": "RED", "SYNT_X_2": "GREEN", "SYNT_2": "RED"}}, {"k": "pal"}]},
    # cycles
    {"nc": False, "init": {"A": "A"}, "builtin": {}, "watch": ["A"], "ops": []},
    {"nc": False, "init": {"A": "B", "B": "C:bold"}, "builtin": {}, "watch": ["A", "B", "C"], "ops": [{"k": "reg", "items": {"C": "A:RED"}}]},
]


def gen_cases(rng, tier):
    big = tier == "thorough"
    cases = [dict(c) for c in WITNESS]
    # 1. random description sets, random splits
    for _ in range(6000 if big else 420):
        n = rng.choice([2, 3, 4, 5, 6, 8, 10])
        descs = _rand_set(rng, n)
        cases.append(_split_case(rng, descs, nc=rng.random() < 0.08))
    # 2. all orders of small sets: every permutation registered one id per batch
    for _ in range(60 if big else 8):
        descs = _rand_set(rng, rng.choice([3, 4]))
        ids = list(descs)
        for perm in itertools.permutations(ids):
            ops = [{"k": "reg", "items": {sid: descs[sid]}} for sid in perm]
            cases.append({"nc": False, "init": {}, "builtin": {}, "watch": sorted(ids) + ["X1"], "ops": ops})
    # 3. the same set in several random splits (order/batching independence is visible to the oracle through the spec)
    for _ in range(300 if big else 25):
        descs = _rand_set(rng, rng.choice([5, 7, 9]))
        for _ in range(4):
            cases.append(_split_case(rng, descs, extra_decoys=False))
    # 4. chains registered leaf first, root last (everything waits for the last registration)
    for _ in range(200 if big else 20):
        depth = rng.choice([2, 3, 4, 5, 6])
        ids = rng.sample(IDS[:11], depth)
        descs = {ids[0]: _rand_descr(rng, None)}
        for a, b in zip(ids[1:], ids):
            descs[a] = _rand_descr(rng, b)
        order = list(reversed(ids))
        if rng.random() < 0.3:
            rng.shuffle(order)
        ops = [{"k": "reg", "items": {sid: descs[sid]}} for sid in order]
        if rng.random() < 0.5:
            ops.insert(rng.randrange(len(ops)), {"k": "pal"})
        cases.append({"nc": False, "init": {}, "builtin": {"TEXT": rng.choice(["", "RED", "CYAN:bold"])},
                      "watch": sorted(ids) + ["TEXT", "X2"], "ops": ops})
    # 5. cyclic sets (AssertionError expected from the model as from the code)
    for _ in range(200 if big else 25):
        descs = _rand_set(rng, rng.choice([2, 3, 4, 5]), cyclic=True)
        cases.append(_split_case(rng, descs, palette_ops=False))
    # 6. malformed / odd description strings: one per configuration, and as a later registration
    for _ in range(6000 if big else 450):
        s = _rand_malformed(rng)
        if rng.random() < 0.7:
            cases.append({"nc": False, "init": {"A": "RED:bold", "B": s}, "builtin": {"TEXT": "", "x": "GREEN"},
                          "watch": ["A", "B", "x"], "ops": []})
        else:
            cases.append({"nc": rng.random() < 0.2, "init": {"A": "BLUE/g3:underline"}, "builtin": {"TEXT": ""},
                          "watch": ["A", "B", "C"], "ops": [{"k": "reg", "items": {"C": "B:bold", "B": s}}]})
    # 7. nested dictionaries with colliding flattened keys and non-string leaves
    for _ in range(300 if big else 30):
        init = {"T": {"A": _rand_descr(rng, None), "U": {"C": _rand_descr(rng, "T.A")}},
                "T.A": _rand_descr(rng, None), "T.U": {"C": _rand_descr(rng, None)}}
        items = list(init.items())
        rng.shuffle(items)
        init = dict(items)
        if rng.random() < 0.5:
            init["Z"] = rng.choice([None, 5, ["RED"], True])
        cases.append({"nc": False, "init": init, "builtin": None, "watch": ["T.A", "T.U.C", "T", "Z", "TEXT"], "ops": [{"k": "pal"}]})
    # a few non-ASCII descriptions (outside the modelled domain: oracle only)
    for s in ["RED:bold ", "１２", "Aé:bold", " BLUE"]:
        cases.append({"nc": False, "init": {"A": "GREEN", "B": s}, "builtin": {}, "watch": ["A", "B"], "ops": []})
    # 8. sessions on the module state: several configurations, the global one, synced palettes, shared dictionaries
    cases += _world_cases(rng, 2500 if big else 300)
    return cases


def search_cases(rng, tier):
    out = []
    for _ in range(3000):
        descs = _rand_set(rng, rng.choice([2, 3, 4, 6]))
        out.append(_split_case(rng, descs))
    out += _world_cases(rng, 1500)
    return out


def _all_strings(case):
    def walk(d):
        for k, v in d.items():
            yield k
            if isinstance(v, str):
                yield v
            elif isinstance(v, dict):
                yield from walk(v)
    yield from walk(case["init"])
    if case["builtin"] is not None:
        yield from walk(case["builtin"])
    for op in case["ops"]:
        if op["k"] != "pal":
            yield from walk(op["items"])
    yield from case["watch"]


def kind(case):
    if case.get("t") == "world":
        return "world:" + case.get("sc", "witness")
    ks = sorted({op["k"] for op in case["ops"]})
    return ("nocolor+" if case["nc"] else "") + ("init" if not ks else "+".join(ks))


# ------------------------------------------------------------------ implementation
def _canon(o):
    """order-preserving canonical text of a (nested) dict: argument objects are compared with it"""
    import json
    return json.dumps(o, sort_keys=False, default=repr)


def impl_run(case):
    if case.get("t") == "world":
        return _impl_world(case)
    obs = _impl_single(case)
    return obs


def _impl_single(case):
    import copy
    from ak import color as C
    orig = _canon([case["init"], case["builtin"], [op.get("items") for op in case["ops"]],
                   C.ColorsConfig.BUILT_IN_CONFIG])
    obs = _impl_single_run(case, C)
    now = _canon([case["init"], case["builtin"], [op.get("items") for op in case["ops"]],
                  C.ColorsConfig.BUILT_IN_CONFIG])
    if now != orig:
        obs["mut"] = 1
    return obs


def _impl_single_run(case, C):
    watch = case["watch"]

    def observe(conf):
        return [str(conf.get_color(i)("x")) for i in watch]

    steps = []
    cls = C.ColorsConfig
    if case["builtin"] is not None:
        cls = type("Cfg", (C.ColorsConfig,), {"BUILT_IN_CONFIG": case["builtin"], "__slots__": ()})
    try:
        conf = cls(case["init"], no_color=case["nc"])
    except Exception as e:
        return {"steps": [["err", SX.exc_name(e)]]}
    steps.append(["ok", observe(conf)])
    for n, op in enumerate(case["ops"]):
        try:
            if op["k"] == "reg":
                conf.add_new_items(op["items"], "later %d" % n)
                steps.append(["ok", observe(conf)])
            elif op["k"] == "regn":
                P = type("P%d" % n, (C.Palette,), {"SYNTAX_DEFAULTS": op["items"]})
                P(conf)
                steps.append(["ok", observe(conf)])
            else:
                p = conf.get_palette()
                acc = {a: str(getattr(p, a)("x")) for a in type(p)._LOCAL_SYNTAX}
                live = [str(p[i]("x")) for i in watch]
                steps.append(["ok", observe(conf), acc, live])
        except Exception as e:
            steps.append(["err", SX.exc_name(e)])
            break
    return {"steps": steps}


# ------------------------------------------------------------------ model side
def _cfg_term(d):
    return _flat_cfg_term(d)


def _items_term(d):
    if not d:
        return "(@nil (list Z * list Z))"
    return "[" + "; ".join(f"({SX.cstr(k)}, {SX.cstr(v)})" for k, v in d.items()) + "]"


def coq_case(case, obs):
    if case.get("t") == "world":
        return _coq_world(case)
    ops = []
    for op in case["ops"]:
        if op["k"] == "reg":
            ops.append(f"OReg {_items_term(op['items'])}")
        elif op["k"] == "regn":
            ops.append(f"ORegNested {_cfg_term(op['items'])}")
        else:
            ops.append("OPalette")
    builtin = "None" if case["builtin"] is None else f"(Some {_cfg_term(case['builtin'])})"
    watch = SX.clist(SX.cstr(w) for w in case["watch"]) if case["watch"] else "(@nil (list Z))"
    opsterm = SX.clist(ops) if ops else "(@nil op)"
    return f"Case {SX.cbool(case['nc'])} {_cfg_term(case['init'])} {builtin} {watch} {opsterm}"


def _params(text):
    """'ESC[<params>mxESC[0m' -> code points of <params>; 'x' -> []; anything else can never equal a model line"""
    if text == "x":
        return []
    if text.startswith("\033[") and text.endswith("mx\033[0m") and len(text) >= 9:
        return SX.s(text[2:-6])
    return [-1] + SX.s(text)


def expected_sx(case, obs):
    if case.get("t") == "world":
        return _expected_world(case, obs)
    out = []
    accs = _consts()["accessors"]
    for st in obs["steps"]:
        if st[0] == "err":
            out.append(SX.err(st[1]))
        elif len(st) == 2:
            out.append([0, [_params(x) for x in st[1]]])
        else:
            out.append([0, [_params(st[2].get(a, "?")) for a, _ in accs], [_params(x) for x in st[1]]])
    return SX.dumps(out)


def in_model(case, obs):
    if case.get("t") == "world":
        return _in_model_world(case, obs)
    if "__hang__" in obs:
        return False
    for s in _all_strings(case):
        if any(ord(ch) > 127 for ch in s):
            return False
    # `reg` items must be str (flat dict); non-str leaves only in nested forms
    for op in case["ops"]:
        if op["k"] == "reg" and not all(isinstance(v, str) for v in op["items"].values()):
            return False
    return True


# ------------------------------------------------------------------ oracle (the statement, independently of the model)
import re as _re

_ID_RE = _re.compile(r"[A-Za-z_][A-Za-z0-9_]*(\.[A-Za-z_][A-Za-z0-9_]*)*\Z")
_SGR_NAMES = {n: str(i) for i, n in enumerate(COLOR_NAMES)}
_MOD_SGR = {"bold": "1", "faint": "2", "underline": "4", "blink": "5", "crossed": "9"}


def _doc_color(tok):
    """documented colour notation -> 'inherit' | 'default' | SGR colour tail (without the 3/4 prefix) | None"""
    if tok == "":
        return "inherit"
    if tok == "-":
        return "default"
    if tok in _SGR_NAMES:
        return _SGR_NAMES[tok]
    m = _re.fullmatch(r"g(0|[1-9][0-9]?)", tok)
    if m and int(m.group(1)) < 24:
        return "8:5:%d" % (232 + int(m.group(1)))
    if _re.fullmatch(r"0|[1-9][0-9]{0,2}", tok) and int(tok) < 256:
        return "8:5:%d" % int(tok)
    m = _re.fullmatch(r"\(([0-5]),([0-5]),([0-5])\)", tok)
    if m:
        r, g, b = (int(x) for x in m.groups())
        return "8:5:%d" % (16 + 36 * r + 6 * g + b)
    return None


def _doc_colors(sec):
    parts = sec.split("/")
    if len(parts) > 2:
        return None
    cs = [_doc_color(p) for p in parts]
    if any(c is None for c in cs):
        return None
    return (cs[0], cs[1] if len(cs) == 2 else "inherit")


def _doc_mods(sec):
    out = {}
    for m in sec.split(","):
        val = True
        if m.startswith("no_"):
            m, val = m[3:], False
        if m not in _MOD_SGR:
            return None
        out[m] = val
    return out


def doc_parse(s):
    """description in the documented format -> (parent, fg, bg, mods) or None (outside the documented subset)"""
    secs = s.split(":")
    if len(secs) > 3:
        return None
    parent = None
    fg = bg = "inherit"
    mods = {}
    first = _doc_colors(secs[0])
    i = 1
    if first is not None:
        fg, bg = first
    elif _ID_RE.match(secs[0]) and _doc_mods(secs[0]) is None:
        parent = secs[0]
        if len(secs) > 1 and secs[1] != "":
            second = _doc_colors(secs[1])
            if second is not None:
                fg, bg = second
                i = 2
    else:
        return None
    rest = secs[i:]
    if len(rest) > 1:
        return None
    if rest:
        if rest[0] == "":
            return None
        mods = _doc_mods(rest[0])
        if mods is None:
            return None
    return (parent, fg, bg, mods)


def _flatten_ref(d, prefix=""):
    """reference flattening; returns None when the nested form is ambiguous (colliding keys) or has non-str leaves"""
    out = {}
    for k, v in d.items():
        if isinstance(v, str):
            items = {prefix + k: v}
        elif isinstance(v, dict):
            items = _flatten_ref(v, prefix + k + ".")
            if items is None:
                return None
        else:
            return None
        for kk, vv in items.items():
            if kk in out:
                return None
            out[kk] = vv
    return out


def _spec_color(S, sid, nc, dflt):
    """what the statement demands of str(get_color(sid)('x')) for the description set S ({id: parsed})"""
    if sid not in S:
        sid = dflt
    chain = []
    cur = sid
    while True:
        if cur not in S or cur in chain:
            return "x"          # unknown id in the chain: stays uncoloured
        chain.append(cur)
        if S[cur][0] is None:
            break
        cur = S[cur][0]
    if nc:
        return "x"
    fg = bg = "default"
    mods = {}
    for cid in reversed(chain):
        _, f, b, m = S[cid]
        if f != "inherit":
            fg = f
        if b != "inherit":
            bg = b
        mods = {**mods, **m}
    codes = []
    if fg != "default":
        codes.append("3" + fg)
    if bg != "default":
        codes.append("4" + bg)
    for m in MOD_NAMES:
        if mods.get(m):
            codes.append(_MOD_SGR[m])
    if not codes:
        return "x"
    return "\033[" + ";".join(codes) + "mx\033[0m"


def _has_cycle(S):
    for sid in S:
        seen = set()
        cur = sid
        while cur in S and S[cur][0] is not None:
            if cur in seen:
                return True
            seen.add(cur)
            cur = S[cur][0]
    return False


def _oracle_batches(case):
    """the registration batches as flat dicts, or None when a nested form is ambiguous / has non-str leaves"""
    c = _consts()
    batches = [_flatten_ref(case["init"]), _flatten_ref(case["builtin"] if case["builtin"] is not None else c["builtin"])]
    marks = [0, 0]          # index of the step after which the batch is in effect
    step = 0
    for op in case["ops"]:
        step += 1
        if op["k"] == "pal":
            continue
        batches.append(_flatten_ref(op["items"]))
        marks.append(step)
    if any(b is None for b in batches):
        return None, None
    return batches, marks


def oracle(case, obs):
    if case.get("t") == "world":
        return _oracle_world(case, obs)
    if "__hang__" in obs:
        return [("hang", "the registration did not return")]
    if obs.get("mut"):
        return [("argument-mutated", "a dictionary passed to ColorsConfig / add_new_items / a Palette class "
                                     "(or BUILT_IN_CONFIG) was modified")]
    batches, marks = _oracle_batches(case)
    if batches is None:
        return []
    parsed = []
    for b in batches:
        pb = {}
        for sid, s in b.items():
            if not _ID_RE.match(sid):
                return []
            d = doc_parse(s)
            if d is None:
                return []          # not a description in the documented format: the statement does not speak
            pb[sid] = d
        parsed.append(pb)
    final = {}
    for pb in parsed:
        for sid, d in pb.items():
            final.setdefault(sid, d)
    if _has_cycle(final):
        return []
    dflt = _consts()["dflt"]
    accs = _consts()["accessors"]
    out = []
    steps = obs["steps"]
    nsteps = 1 + len(case["ops"])
    dash_parent = any(d[0] is not None and "default" in (d[1], d[2]) for d in final.values())
    for k in range(nsteps):
        if k >= len(steps):
            break
        st = steps[k]
        what = "ColorsConfig(...)" if k == 0 else f"operation {k} ({case['ops'][k - 1]['k']})"
        if st[0] == "err":
            sig = "dash-with-parent" if (dash_parent and st[1] == "ValueError") else "raises-on-valid"
            out.append((sig, f"{what} raised {st[1]} for an acyclic set of valid descriptions"))
            break
        S = {}
        for pb, mk in zip(parsed, marks):
            if mk <= k:
                for sid, d in pb.items():
                    S.setdefault(sid, d)
        want = [_spec_color(S, sid, case["nc"], dflt) for sid in case["watch"]]
        if st[1] != want:
            bad = [(sid, g, w) for sid, g, w in zip(case["watch"], st[1], want) if g != w][:3]
            sig = "no-color-effects" if case["nc"] else "wrong-color"
            out.append((sig, f"after {what}: get_color gives {bad!r} (id, got, demanded by the description set)"))
            break
        if len(st) > 2:
            wacc = {a: _spec_color(S, sid, case["nc"], dflt) for a, sid in accs}
            got = {a: st[2].get(a) for a, _ in accs}
            if got != wacc:
                out.append(("palette-stale", f"after {what}: palette accessors {got!r}, current state demands {wacc!r}"))
                break
            if st[3] != want:
                out.append(("palette-stale", f"after {what}: palette[id] differs from the configuration's current colours"))
                break
    return out


STATS = {}


def extra_coverage():
    """objects that came and went in the sessions of the main batch (summed over the sessions): how many Palette classes /
    configurations / dictionaries were made, how many the harness forgot again, and how often CPython gave the address of
    a forgotten one to a new object of the same kind (an id()-keyed registry would have confused the two).  NB the
    unchanged implementation keeps a registered class alive as long as the configuration lives (registered_sources holds
    the class), so with a long-lived configuration class addresses are only reused when the implementation lets go of them"""
    return {"c14_object_lifetimes": dict(STATS)}


def nontrivial(case, obs):
    if case.get("t") == "world":
        for key, v in (obs.get("life") or {}).items():
            STATS[key] = STATS.get(key, 0) + v
        if obs.get("life"):
            STATS["sessions_with_lifetimes"] = STATS.get("sessions_with_lifetimes", 0) + 1
        return any(op["k"] in ("setg", "synced", "reg", "use", "regcls") for op in case["ops"])
    batches, _ = _oracle_batches(case)
    if batches is None:
        return True
    for b in batches[:1] + batches[2:] + ([batches[1]] if case["builtin"] is not None else []):
        for s in b.values():
            d = doc_parse(s)
            if d is None or d[0] is not None:
                return True
    return False


def outcome(case, obs):
    if "__hang__" in obs:
        return "hang"
    last = obs["steps"][-1]
    return "ok" if last[0] == "ok" else last[1]


def shrink_candidates(case):
    if case.get("t") == "world":
        yield from _shrink_world(case)
        return
    # drop an operation, a watched id, or one description
    for i in range(len(case["ops"])):
        c = dict(case)
        c["ops"] = case["ops"][:i] + case["ops"][i + 1:]
        yield c
    for where in ["init", "builtin"]:
        d = case[where]
        if isinstance(d, dict):
            for k in d:
                c = dict(case)
                c[where] = {kk: vv for kk, vv in d.items() if kk != k}
                yield c
    for i, op in enumerate(case["ops"]):
        if op["k"] != "pal":
            for k in op["items"]:
                c = dict(case)
                c["ops"] = list(case["ops"])
                c["ops"][i] = {"k": op["k"], "items": {kk: vv for kk, vv in op["items"].items() if kk != k}}
                yield c


# ====================================================================== world sessions
# A "world" case drives the module state of a freshly imported ak.color: several ColorsConfig objects, the
# global one, Palette classes (SYNTAX_DEFAULTS / PARENT_PALETTES / ConfColor accessors), synced palettes.
# Dictionaries live in a pool (`objs`) and are passed BY REFERENCE wherever an operation names them, several
# times if the generator says so - as a program holding module-level defaults would do.
W_BUILTIN = ["TEXT", "NAME", "KEYWORD", "NUMBER", "OK", "WARN", "ERROR"]
W_FREE = ["A", "B", "C", "T.A", "T.B"]


def _class_ids(k):
    return ["P%d.A" % k, "P%d.B" % k, "P%d.S.C" % k]


def _full_acc(cl):
    """(_LOCAL_SYNTAX of the class) [(attribute name, syntax id)]"""
    base = list(_consts()["accessors"]) if cl["g"] else [("text", _consts()["dflt"])]
    return [(a, i) for a, i in base] + [(a, i) for a, i in cl["acc"]]


def _rand_world(rng, scenario=None):
    ncls = rng.choice([1, 2, 2, 3, 3])
    cids = {k: _class_ids(k) for k in range(1, ncls + 1)}
    all_cids = [i for k in cids for i in cids[k]]
    universe = W_BUILTIN + W_FREE + all_cids
    rank = universe[:]
    rng.shuffle(rank)
    if rng.random() < 0.6:
        # the ids the components provide come first: the configuration's items may refer to them
        rank = [i for i in rank if i in all_cids] + [i for i in rank if i not in all_cids]
    pos = {i: n for n, i in enumerate(rank)}

    def descr(sid, prefer=()):
        lower = [i for i in rank[:pos[sid]]]
        pref = [i for i in prefer if i in lower]
        r = rng.random()
        if pref and r < 0.7:
            parent = rng.choice(pref)
        elif lower and r < 0.6:
            parent = rng.choice(lower)
        elif r < 0.66:
            parent = "X1"
        else:
            parent = None
        return _rand_descr(rng, parent)

    def pack(flat, may_nest=True):
        items = list(flat.items())
        rng.shuffle(items)
        flat = dict(items)
        return _nest(flat, rng) if may_nest and rng.random() < 0.5 else flat

    objs = []
    flat_objs = []

    def add_obj(o):
        objs.append(o)
        if all(isinstance(v, str) for v in o.values()):
            flat_objs.append(len(objs) - 1)
        return len(objs) - 1

    classes = []
    for k in range(1, ncls + 1):
        r = rng.random()
        if r < 0.1:
            d = None
        elif r < 0.22 and any(c["d"] is not None for c in classes):
            d = rng.choice([c["d"] for c in classes if c["d"] is not None])       # shared defaults dictionary
        else:
            ids = rng.sample(cids[k], rng.choice([1, 2, 3]))
            ids += rng.sample(W_FREE + W_BUILTIN[1:] + [i for i in all_cids if i not in cids[k]], rng.choice([0, 0, 1, 2]))
            d = add_obj(pack({i: descr(i, prefer=all_cids) for i in ids}))
        pool = cids[k] * 2 + all_cids + W_FREE + W_BUILTIN
        acc = []
        for n in range(rng.choice([1, 2, 3])):
            acc.append(["a%d" % n, rng.choice(pool)])
        parents = [p for p in range(1, k) if rng.random() < 0.35]
        classes.append({"d": d, "parents": parents, "acc": acc, "g": rng.random() < 0.2})
    later_ids = [i for k in cids for i in cids[k]]
    inits = []
    for _ in range(rng.choice([1, 2, 3])):
        ids = rng.sample(W_BUILTIN[1:] + W_FREE + all_cids, rng.choice([1, 2, 3, 4, 5]))
        if rng.random() < 0.7:
            ids = list(dict.fromkeys(ids + [rng.choice(["KEYWORD", "NAME", "OK", "WARN", "ERROR"])]))
        inits.append(add_obj(pack({i: descr(i, prefer=later_ids) for i in ids})))
    regs = []
    for _ in range(rng.choice([1, 2])):
        ids = rng.sample(W_FREE + all_cids + W_BUILTIN[1:], rng.choice([1, 2, 3, 4]))
        regs.append(add_obj(pack({i: descr(i, prefer=later_ids) for i in ids}, may_nest=False)))
    builtins = []
    if rng.random() < 0.3:
        ids = ["TEXT"] + rng.sample(W_BUILTIN[1:] + W_FREE, rng.choice([1, 2, 3]))
        builtins.append(add_obj(pack({i: descr(i) for i in ids})))

    nconf = 1
    ops = []

    def op_new():
        nonlocal nconf
        r = rng.random()
        init = None if r < 0.1 else rng.choice(inits + ([rng.choice(range(len(objs)))] if rng.random() < 0.15 else []))
        b = rng.choice(builtins) if builtins and rng.random() < 0.4 else None
        ops.append({"k": "new", "nc": rng.random() < 0.06, "init": init, "builtin": b})
        nconf += 1
        return nconf - 1

    def cref():
        return None if rng.random() < 0.35 else rng.randrange(nconf)

    def op_random():
        nonlocal nconf
        r = rng.random()
        if r < 0.14:
            op_new()
        elif r < 0.30:
            if rng.random() < 0.12:
                ops.append({"k": "setg", "c": None})
                nconf += 1
            else:
                ops.append({"k": "setg", "c": rng.randrange(nconf)})
        elif r < 0.48:
            ops.append({"k": "synced", "cls": rng.randrange(0 if rng.random() < 0.1 else 1, ncls + 1)})
        elif r < 0.66:
            ops.append({"k": "reg", "c": cref(), "items": rng.choice(regs * 3 + flat_objs)})
        elif r < 0.74:
            ops.append({"k": "regcls", "cls": rng.randrange(1, ncls + 1), "c": cref()})
        elif r < 0.90:
            ops.append({"k": "use", "cls": rng.randrange(1, ncls + 1), "c": cref(), "via": rng.choice(["ctor", "ctor", "user"])})
        else:
            ops.append({"k": "pal", "c": cref()})

    if scenario is None:
        scenario = rng.choice(["install", "install", "live", "reuse", "free"])
    if scenario == "install":
        # components with synced palettes exist, then the application installs its configuration
        order = list(range(1, ncls + 1))
        rng.shuffle(order)
        for k in order[:rng.choice([1, 2, 3])]:
            ops.append({"k": "synced", "cls": k})
        c = op_new()
        if rng.random() < 0.25:
            ops.append({"k": rng.choice(["pal", "regcls", "use"]), "c": c, "cls": rng.randrange(1, ncls + 1), "via": "ctor"})
        ops.append({"k": "setg", "c": c})
    elif scenario == "live":
        # synced palettes exist (and their classes are registered), then the global configuration is modified in place
        order = list(range(1, ncls + 1))
        rng.shuffle(order)
        for k in order[:rng.choice([1, 2, 3])]:
            ops.append({"k": "synced", "cls": k})
        if rng.random() < 0.5:
            ops.append({"k": "setg", "c": op_new()})
        for _ in range(rng.choice([1, 2, 3])):
            r = rng.random()
            if r < 0.6:
                ops.append({"k": "reg", "c": None, "items": rng.choice(regs * 3 + flat_objs)})
            elif r < 0.8:
                ops.append({"k": "use", "cls": rng.randrange(1, ncls + 1), "c": None, "via": rng.choice(["ctor", "user"])})
            else:
                ops.append({"k": "regcls", "cls": rng.randrange(1, ncls + 1), "c": None})
    elif scenario == "reuse":
        # the same defaults dictionary registered directly in several configurations
        o = rng.choice(regs)
        c1 = op_new()
        ops.append({"k": "reg", "c": c1, "items": o})
        c2 = op_new() if rng.random() < 0.7 else 0
        ops.append({"k": "reg", "c": c2, "items": o})
        if rng.random() < 0.5:
            ops.append({"k": "reg", "c": rng.choice([c1, c2, None]), "items": rng.choice(regs)})
    for _ in range(rng.choice([1, 2, 3, 4, 5])):
        op_random()
    used = set()
    for o in objs:
        flat = _flatten_ref(o) or {}
        used.update(flat)
        for v in flat.values():
            d = doc_parse(v)
            if d and d[0]:
                used.add(d[0])
    used = sorted(used)
    watch = sorted(set(rng.sample(used, min(len(used), 5))) | {"KEYWORD", rng.choice(["TEXT", "X1", "NAME"])})
    return {"t": "world", "sc": scenario, "objs": objs, "classes": classes, "watch": watch, "ops": ops}


WORLD_WITNESS = [
    # repaired by e396ee3 (signature synced-get-color-stale): get_color(name) / make_report() of a synced palette after the
    # global configuration was replaced
    {"t": "world", "objs": [{"P.A": "RED"}, {"P.A": "BLUE"}],
     "classes": [{"d": 0, "parents": [], "acc": [["a", "P.A"]], "g": False}], "watch": ["P.A", "TEXT"],
     "ops": [{"k": "synced", "cls": 1}, {"k": "new", "nc": False, "init": 1, "builtin": None}, {"k": "setg", "c": 1},
             {"k": "reg", "c": None, "items": 0}, {"k": "setg", "c": 0}]},
    # the re-entrancy defect repaired by a35bf60 (signature synced-parent-reentrancy): a synced palette whose class has
    # PARENT_PALETTES with SYNTAX_DEFAULTS (like PPEnumFieldType.EnumPalette(synced=True)) + a new global configuration
    {"t": "world", "objs": [{"BASE.X": "RED"}, {"COMP.Y": "BASE.X:bold"}, {}],
     "classes": [{"d": 0, "parents": [], "acc": [["x", "BASE.X"]], "g": False},
                 {"d": 1, "parents": [1], "acc": [["y", "COMP.Y"]], "g": False}],
     "watch": ["BASE.X", "COMP.Y", "KEYWORD", "TEXT"],
     "ops": [{"k": "synced", "cls": 2}, {"k": "new", "nc": False, "init": 2, "builtin": None}, {"k": "setg", "c": 1},
             {"k": "setg", "c": None}, {"k": "use", "cls": 1, "c": None, "via": "user"}]},
    # a configuration whose explicit items refer to ids that only a later synced component provides
    {"t": "world", "objs": [{"COMP.ACCENT": "RED"}, {"KEYWORD": "COMP.ACCENT:bold", "APP": {"HL": "COMP.ACCENT:/BLUE:underline"}}],
     "classes": [{"d": None, "parents": [], "acc": [["highlight", "APP.HL"]], "g": False},
                 {"d": 0, "parents": [], "acc": [["accent", "COMP.ACCENT"]], "g": False}],
     "watch": ["APP.HL", "COMP.ACCENT", "KEYWORD", "TEXT"],
     "ops": [{"k": "setg", "c": None}, {"k": "synced", "cls": 1}, {"k": "synced", "cls": 2},
             {"k": "new", "nc": False, "init": 1, "builtin": None}, {"k": "setg", "c": 2}, {"k": "pal", "c": 2},
             {"k": "setg", "c": None}]},
    # one defaults dictionary registered directly in two configurations, the first one overrides an id
    {"t": "world", "objs": [{"R.TITLE": "CYAN/g3:bold", "R.SUB": "R.TITLE:no_bold", "R.NOTE": "R.SUB:-:faint"},
                            {"R": {"TITLE": "MAGENTA"}}, {}],
     "classes": [], "watch": ["R.NOTE", "R.SUB", "R.TITLE", "TEXT"],
     "ops": [{"k": "new", "nc": False, "init": 1, "builtin": None}, {"k": "reg", "c": 1, "items": 0},
             {"k": "new", "nc": False, "init": 2, "builtin": None}, {"k": "reg", "c": 2, "items": 0},
             {"k": "reg", "c": None, "items": 0}, {"k": "pal", "c": None}]},
]


def _vis_descr(rng, parent=None):
    """a description with a visible colour of its own: a registration that got lost cannot hide behind an empty one"""
    r = rng.random()
    if r < 0.6:
        col = rng.choice(COLOR_NAMES[1:7])
    elif r < 0.75:
        col = "g%d" % rng.randrange(24)
    elif r < 0.9:
        col = str(rng.randrange(1, 256))
    else:
        col = "(%d,%d,%d)" % (rng.randrange(6), rng.randrange(6), rng.randrange(6))
    s = col + ("/" + rng.choice(COLOR_NAMES[1:7]) if rng.random() < 0.3 else "")
    if parent is not None:
        s = parent + ":" + s
    m = _rand_mods(rng)
    return s + (":" + m if m else "")


def _rand_churn(rng, sc):
    """Sessions in which the objects the library keys its registries by COME AND GO: Palette classes made by a factory
    (`type(...)`), used with a long-lived configuration and dropped (flag `eph`: the harness creates the class at the
    first call that names it and forgets it after the last one, then gc.collect()), configuration objects dropped and
    re-created (`dropc` on the call after which the harness forgets them), dictionaries built for one call (`fresh`:
    a deep copy is passed and dropped).  CPython hands the addresses of the dead objects to the next ones, so a
    registry that remembers id()/hash() values instead of the objects confuses a new object with a dead one.
    churn-cls: 30-60 classes in a row against ONE configuration; churn-conf: 6-10 configurations one after the other,
    the same classes; churn-both: rounds of a new configuration + a few new classes, everything dropped."""
    objs, classes, ops = [], [], []
    st = {"nconf": 1, "glob": 0, "auto": set(), "nsynced": 0, "todrop": []}

    def add_obj(o):
        objs.append(o)
        return len(objs) - 1

    def shuffled(flat, may_nest=True):
        items = list(flat.items())
        rng.shuffle(items)
        flat = dict(items)
        return _nest(flat, rng) if may_nest and rng.random() < 0.4 else flat

    def add_cls(eph, parents=(), foreign=()):
        k = len(classes) + 1
        ids = _class_ids(k)[:rng.choice([1, 2, 2, 3])]
        flat = {ids[0]: _vis_descr(rng)}
        for a, b in zip(ids[1:], ids):
            flat[a] = _vis_descr(rng, b) if rng.random() < 0.5 else _rand_descr(rng, rng.choice([b, ids[0], None]))
        if foreign and rng.random() < 0.2:
            flat[rng.choice(list(foreign))] = _vis_descr(rng)          # an id somebody else may have defined already
        d = add_obj(shuffled(flat))
        acc = [["a0", ids[0]]]
        for n in range(1, rng.choice([1, 2, 3])):
            acc.append(["a%d" % n, rng.choice(ids * 2 + list(foreign) + ["KEYWORD"])])
        classes.append({"d": d, "parents": list(parents), "acc": acc, "g": rng.random() < 0.08, "eph": eph})
        return k

    def op_new(init, fresh=None, nc=False):
        ops.append({"k": "new", "nc": nc, "init": init, "builtin": None})
        if rng.random() < 0.5 if fresh is None else fresh:
            ops[-1]["fresh"] = True
        if st["todrop"]:
            ops[-1]["dropb"] = [c for c in st["todrop"] if c != st["glob"]]
            st["todrop"] = []
        st["nconf"] += 1
        return st["nconf"] - 1

    def op_setg(c):
        """install configuration c (None: a new default one); an automatically created one that stops being global is dropped"""
        ops.append({"k": "setg", "c": c})
        old = st["glob"]
        if c is None:
            st["nconf"] += 1
            st["glob"] = st["nconf"] - 1
            st["auto"].add(st["glob"])
        else:
            st["glob"] = c
        if old in st["auto"] and old != st["glob"]:
            st["auto"].discard(old)
            ops[-1].setdefault("dropc", []).append(old)

    def cref(t):
        """how a call names configuration t"""
        return None if t == st["glob"] and rng.random() < 0.6 else t

    small = [add_obj(shuffled({i: _rand_descr(rng, rng.choice([None, "KEYWORD", "NAME"])) for i in rng.sample(W_FREE, 2)}, False))
             for _ in range(2)]

    def side_ops(t):
        r = rng.random()
        if r < 0.15:
            ops.append({"k": "pal", "c": cref(t)})
        elif r < 0.27:
            ops.append({"k": "reg", "c": cref(t), "items": rng.choice(small), "fresh": True})

    def eph_block(t, n, perm):
        """n classes made, used with configuration t and forgotten, one after the other"""
        again = []
        prev = []
        for j in range(n):
            k = len(classes) + 1
            parents = []
            r = rng.random()
            if perm and r < 0.12:
                parents = [rng.choice(perm)]
            elif prev and r < 0.2:
                parents = [prev[-1]]
            add_cls(True, parents, foreign=[_class_ids(p)[0] for p in prev[-2:]])
            for kk in again:
                ops.append({"k": "use", "cls": kk, "c": cref(t), "via": rng.choice(["ctor", "user"])})
            again = []
            r = rng.random()
            if r < 0.05 and t == st["glob"] and st["nsynced"] < 2:
                st["nsynced"] += 1
                ops.append({"k": "synced", "cls": k})
            elif r < 0.2:
                ops.append({"k": "regcls", "cls": k, "c": cref(t)})
                if rng.random() < 0.6:
                    ops.append({"k": "use", "cls": k, "c": cref(t), "via": "ctor"})
            else:
                ops.append({"k": "use", "cls": k, "c": cref(t), "via": rng.choice(["ctor", "ctor", "user"])})
            side_ops(t)
            if rng.random() < 0.15:
                again.append(k)
            prev.append(k)
        return prev

    def refs_init(ks, extra=()):
        """explicit items of a configuration that refer to ids only the classes ks will define, + a few overrides"""
        flat = {}
        for k in ks:
            flat["S%d" % k] = _vis_descr(rng, "P%d.A" % k) if rng.random() < 0.6 else _rand_descr(rng, "P%d.A" % k)
        for k in extra:
            flat["P%d.A" % k] = _vis_descr(rng)
        if rng.random() < 0.5:
            flat["KEYWORD"] = _vis_descr(rng)
        return flat

    watch = {"KEYWORD", rng.choice(["TEXT", "NAME", "X1"])}
    if sc == "churn-cls":
        perm = [add_cls(False) for _ in range(rng.choice([0, 1, 2]))]
        neph = rng.choice([30, 30, 36, 45, 60])
        first = len(classes) + 1
        ks = rng.sample(range(first, first + neph), 6)
        init = refs_init(ks, extra=rng.sample(range(first, first + neph), 2))
        mode = rng.choice(["private", "private", "global-new", "global-default"])
        if mode == "global-default":
            t = 0
            ops.append({"k": "reg", "c": None, "items": add_obj(shuffled(init, False))})
        else:
            t = op_new(add_obj(shuffled(init)))
            if mode == "global-new":
                op_setg(t)
        for k in perm:
            if rng.random() < 0.5:
                ops.append({"k": rng.choice(["use", "synced"]), "cls": k, "c": cref(t), "via": "ctor"})
        eph_block(t, neph, perm)
        watch |= {"S%d" % k for k in ks[:3]} | {"P%d.A" % k for k in ks[3:5]}
    elif sc == "churn-conf":
        perm = [add_cls(False, [p for p in range(1, k) if rng.random() < 0.3]) for k in range(1, rng.choice([1, 2, 3]) + 1)]
        for k in perm:
            if rng.random() < 0.3:
                ops.append({"k": "synced", "cls": k})
        watch |= {"P%d.A" % k for k in perm} | {"S%d" % perm[0]}
        for _ in range(rng.choice([6, 8, 10])):
            k = rng.choice(perm)
            init = refs_init([perm[0]] if rng.random() < 0.5 else [], extra=[k] if rng.random() < 0.8 else [])
            c = op_new(add_obj(shuffled(init)), nc=rng.random() < 0.05)
            was_global = rng.random() < 0.3
            if was_global:
                op_setg(c)
            for _ in range(rng.choice([1, 2, 3])):
                r = rng.random()
                if r < 0.6:
                    ops.append({"k": "use", "cls": rng.choice([k, k, rng.choice(perm)]), "c": cref(c),
                                "via": rng.choice(["ctor", "ctor", "user"])})
                elif r < 0.75:
                    ops.append({"k": "regcls", "cls": rng.choice(perm), "c": cref(c)})
                else:
                    side_ops(c)
            if was_global:
                op_setg(rng.choice([None, 0]))
            r = rng.random()
            if r < 0.6:
                st["todrop"].append(c)          # forgotten when the next configuration is built
            elif r < 0.85 and ops[-1]["k"] != "new":
                ops[-1].setdefault("dropc", []).append(c)
    else:
        perm = [add_cls(False) for _ in range(rng.choice([0, 1]))]
        for r in range(rng.choice([6, 7, 8])):
            n = rng.choice([3, 4, 5, 6])
            first = len(classes) + 1
            ks = rng.sample(range(first, first + n), 2)
            c = op_new(add_obj(shuffled(refs_init(ks, extra=[rng.randrange(first, first + n)]))))
            was_global = rng.random() < 0.25
            if was_global:
                op_setg(c)
            eph_block(c, n, perm)
            if was_global:
                op_setg(rng.choice([None, 0]))
            r = rng.random()
            if r < 0.5:
                st["todrop"].append(c)
            elif r < 0.9 and ops[-1]["k"] != "new":
                ops[-1].setdefault("dropc", []).append(c)
            if r < 2:
                watch |= {"S%d" % ks[0]} | ({"P%d.A" % ks[1]} if r == 0 else set())
    return {"t": "world", "sc": sc, "objs": objs, "classes": classes, "watch": sorted(watch), "ops": ops}


def _world_cases(rng, n):
    out = []          # WORLD_WITNESS is in corpus/C14/witnesses.json
    for _ in range(n):
        out.append(_rand_world(rng))
    # objects that come and go (generated after the others, then spread among them: their outputs are long)
    churn = []
    for j in range(max(6, n // 20)):
        churn.append(_rand_churn(rng, ["churn-cls", "churn-conf", "churn-both"][j % 3]))
    gap = max(1, len(out) // (len(churn) + 1))
    for j, c in enumerate(churn):
        out.insert(min(len(out), (j + 1) * gap + j), c)
    return out


HUNT = 300


class _IllFormedCase(BaseException):
    """(a shrink candidate) - reported as a harness crash, never as an observation"""


def _class_lifetimes(case):
    """{class index: index of the last call for which the harness has to hold the class} for the classes flagged `eph`
    (made by a factory at the first call that names them; a class named by a `synced` call lives on in the module)"""
    last = {}
    keep = set()

    def need(k, n, forever):
        if k == 0:
            return
        last[k] = n
        if forever:
            keep.add(k)
        for p in case["classes"][k - 1]["parents"]:
            need(p, n, forever)
    for n, op in enumerate(case["ops"]):
        if op["k"] in ("synced", "use", "regcls"):
            need(op["cls"], n, op["k"] == "synced")
    return {k: n for k, n in last.items() if case["classes"][k - 1].get("eph") and k not in keep}


def _impl_world(case):
    import copy
    import gc
    import importlib
    import ak.color
    C = importlib.reload(ak.color)          # the module state of a fresh import
    objs = case["objs"]
    orig = [_canon(o) for o in objs] + [_canon(C.ColorsConfig.BUILT_IN_CONFIG)]
    watch = case["watch"]
    classes = [C.GlobalPalette]
    accs = [list(_consts()["accessors"])]
    # objects that come and go: what the harness has forgotten (kind -> ids) and how often CPython gave such an
    # address to a new object of the kind (two live objects never share an id: an id seen again proves the old one died)
    gone = {"cls": set(), "conf": set(), "dict": set()}
    life = {"cls_made": 0, "cls_dropped": 0, "cls_id_reused": 0, "conf_made": 0, "conf_dropped": 0, "conf_id_reused": 0,
            "dict_made": 0, "dict_dropped": 0, "dict_id_reused": 0}
    eph_last = _class_lifetimes(case)
    eph_dicts = {}          # class index -> (pool index, the copy that is the class's SYNTAX_DEFAULTS)

    def born(kind, o):
        life[kind + "_made"] += 1
        if id(o) in gone[kind]:
            gone[kind].discard(id(o))
            life[kind + "_id_reused"] += 1

    def forget(kind, o):
        life[kind + "_dropped"] += 1
        gone[kind].add(id(o))

    def make_class(k):
        cl = case["classes"][k - 1]
        ns = {}
        if cl["d"] is not None:
            d = objs[cl["d"]]
            if k in eph_last:
                d = hunt("dict", lambda: copy.deepcopy(objs[cl["d"]]))          # the factory builds the defaults too
                eph_dicts[k] = (cl["d"], d)
            ns["SYNTAX_DEFAULTS"] = d
        if cl["parents"]:
            ns["PARENT_PALETTES"] = [get_class(p) for p in cl["parents"]]
        for a, sid in cl["acc"]:
            ns[a] = C.ConfColor(sid)
        c = type("P%d" % k, (C.GlobalPalette if cl["g"] else C.Palette,), ns)
        if k in eph_last:
            born("cls", c)
        return c

    def get_class(k):
        if classes[k] is None:
            classes[k] = make_class(k)
        return classes[k]

    for n, cl in enumerate(case["classes"]):
        classes.append(None)
        accs.append(_full_acc(cl))
    for k in range(1, len(classes)):
        if k not in eph_last:
            get_class(k)
    is_g = [True] + [bool(cl["g"]) for cl in case["classes"]]
    confs = [C.get_global_colors_config()]
    frozen = {}          # configuration the harness has forgotten -> its colours when last seen
    synced = [(C.global_palette, 0)]

    def hunt(kind, make):
        """make() - and, when objects of the kind were forgotten before, again (at most HUNT times, the earlier results
        held meanwhile so that the allocator moves on) until CPython hands out one of their addresses: an object built
        again and again by a program meets an old address sooner or later, the session makes it sooner"""
        o = make()
        held = []
        while gone[kind] and id(o) not in gone[kind] and len(held) < HUNT:
            held.append(o)
            o = make()
        del held
        born(kind, o)
        return o

    def drop_confs(which, rows):
        """the caller forgets these configurations (the global one cannot be forgotten); their last colours stay on record"""
        n = 0
        for i in which:
            if confs[i] is not None and confs[i] is not C.get_global_colors_config():
                frozen[i] = rows[i]
                forget("conf", confs[i])
                confs[i] = None
                n += 1
        return n

    def arg(i, fresh):
        """the dictionary objs[i] itself, or a copy made for this one call"""
        if not fresh:
            return objs[i]
        return hunt("dict", lambda: copy.deepcopy(objs[i]))

    def done(i, d):
        """a dictionary made for one call: compared with the original, then forgotten"""
        if d is not objs[i]:
            if _canon(d) != orig[i]:
                mutated.add(i)
            forget("dict", d)
    mutated = set()

    def fmt(f):
        return str(f("x"))

    def attrs(p, k):
        return [fmt(getattr(p, a)) for a, _ in accs[k]]

    def ref_attrs(conf, k):
        return [fmt(conf.get_color(sid)) for _, sid in accs[k]]

    def report_ok(p, k):
        # make_report() shows, for every accessor, its syntax id formatted with the accessor's current formatter
        want = "\n".join(f"{a}: {C.CHText(getattr(p, a)(sid))}" for a, sid in sorted(accs[k]))
        return p.make_report() == want

    def index_of(conf):
        for n, c in enumerate(confs):
            if c is conf:
                return n
        return -1

    def snapshot():
        g = C.get_global_colors_config()
        now = [_canon(o) for o in objs] + [_canon(C.ColorsConfig.BUILT_IN_CONFIG)]
        for k, (i, d) in eph_dicts.items():
            if _canon(d) != orig[i]:
                mutated.add(i)
        rows = [[fmt(c.get_color(i)) for i in watch] if c is not None else frozen[n] for n, c in enumerate(confs)]
        return [index_of(g), rows,
                [[attrs(p, k), [fmt(p[i]) for i in watch] if is_g[k] else None, ref_attrs(g, k),
                  None if is_g[k] else [fmt(p.get_color(a)) for a, _ in accs[k]], report_ok(p, k)] for p, k in synced],
                sorted(set(n for n, (a, b) in enumerate(zip(orig, now)) if a != b) | mutated)]

    steps = [["ok", 0, [], None] + snapshot()]
    for n, op in enumerate(case["ops"]):
        try:
            k = op["k"]
            idx, pal, extra = 0, [], None
            conf = None
            if k != "new" and k != "synced" and op.get("c") is not None:
                conf = confs[op["c"]]
                if conf is None:
                    raise _IllFormedCase("the case names a configuration it has dropped")
            if k == "new":
                cls = C.ColorsConfig
                if op["builtin"] is not None:
                    cls = type("Cfg", (C.ColorsConfig,), {"BUILT_IN_CONFIG": objs[op["builtin"]], "__slots__": ()})
                d = None if op["init"] is None else arg(op["init"], op.get("fresh"))
                # `dropb`: the caller lets go of these configurations right before it builds the new one (nothing
                # happens in between: the allocator gives the new object the old address if it can)
                if drop_confs(op.get("dropb", ()), steps[-1][5]):
                    gc.collect()
                if d is None:
                    c = hunt("conf", lambda: cls(no_color=op["nc"]))
                else:
                    c = hunt("conf", lambda: cls(d, no_color=op["nc"]))
                    done(op["init"], d)
                confs.append(c)
                idx = len(confs) - 1
            elif k == "setg":
                C.set_global_colors_config(conf)
                if conf is None:
                    g = C.get_global_colors_config()
                    if index_of(g) < 0:
                        born("conf", g)
                        confs.append(g)
                    idx = index_of(g)
                else:
                    idx = op["c"]
            elif k == "synced":
                p = get_class(op["cls"])(synced=True)
                j = [n for n, (q, _) in enumerate(synced) if q is p]
                if not j:
                    synced.append((p, op["cls"]))
                    j = [len(synced) - 1]
                idx = j[0]
                pal = attrs(p, op["cls"])
            elif k == "reg":
                d = arg(op["items"], op.get("fresh"))
                (conf if conf is not None else C.get_global_colors_config()).add_new_items(d, "later %d" % n)
                done(op["items"], d)
            elif k == "regcls":
                get_class(op["cls"]).register_in_colors_conf(conf if conf is not None else C.get_global_colors_config())
            elif k == "use":
                if op["via"] == "user":
                    U = type("U%d" % n, (C.PaletteUser,), {"PALETTE_CLASS": get_class(op["cls"])})
                    p = U._mk_palette(None, False, conf)
                else:
                    p = get_class(op["cls"])(conf) if conf is not None else get_class(op["cls"])()
                pal = attrs(p, op["cls"])
                the_conf = conf if conf is not None else C.get_global_colors_config()
                extra = [ref_attrs(the_conf, op["cls"]),
                         [fmt(p[i]) for i in watch] if is_g[op["cls"]] else None,
                         [fmt(the_conf.get_color(i)) for i in watch]]
            else:
                the_conf = conf if conf is not None else C.get_global_colors_config()
                p = the_conf.get_palette()
                pal = attrs(p, 0)
                extra = [ref_attrs(the_conf, 0), [fmt(p[i]) for i in watch], [fmt(the_conf.get_color(i)) for i in watch]]
            steps.append(["ok", idx, pal, extra] + snapshot())
            # the caller lets go of what it does not need any more: the palette just obtained, classes made by a
            # factory after their last use, configurations the case says are dropped here
            p = U = conf = the_conf = c = g = cls = d = None
            dropped = False
            for kk in [kk for kk, last in eph_last.items() if last == n and classes[kk] is not None]:
                forget("cls", classes[kk])
                classes[kk] = None
                if kk in eph_dicts:
                    forget("dict", eph_dicts.pop(kk)[1])
                dropped = True
            if drop_confs(op.get("dropc", ()), steps[-1][5]):
                dropped = True
            if dropped:
                gc.collect()
        except Exception as e:
            steps.append(["err", SX.exc_name(e)])
            break
    out = {"steps": steps}
    if any(life.values()):
        out["life"] = life
    return out


def _cref_term(c):
    return "None" if c is None else f"(Some {SX.cnat(c)})"


def _nat_list(l):
    return "[" + "; ".join(SX.cnat(x) for x in l) + "]" if l else "(@nil nat)"


def _coq_world(case):
    objs = case["objs"]
    cls_terms = []
    for cl in case["classes"]:
        d = "None" if cl["d"] is None else f"(Some {_cfg_term(objs[cl['d']])})"
        acc = SX.clist(SX.cstr(sid) for _, sid in _full_acc(cl))
        cls_terms.append(f"mk_pclass {d} {_nat_list(cl['parents'])} {acc} {SX.cbool(cl['g'])}")
    ops = []
    for op in case["ops"]:
        k = op["k"]
        if k == "new":
            init = "(@nil (list Z * cval))" if op["init"] is None else _cfg_term(objs[op["init"]])
            b = "None" if op["builtin"] is None else f"(Some {_cfg_term(objs[op['builtin']])})"
            ops.append(f"WNew {SX.cbool(op['nc'])} {init} {b}")
        elif k == "setg":
            ops.append(f"WSetGlobal {_cref_term(op['c'])}")
        elif k == "synced":
            ops.append(f"WSynced {SX.cnat(op['cls'])}")
        elif k == "reg":
            ops.append(f"WReg {_cref_term(op['c'])} {_items_term(objs[op['items']])}")
        elif k == "regcls":
            ops.append(f"WRegCls {SX.cnat(op['cls'])} {_cref_term(op['c'])}")
        elif k == "use":
            ops.append(f"WUse {SX.cnat(op['cls'])} {_cref_term(op['c'])}")
        else:
            ops.append(f"WPal {_cref_term(op['c'])}")
    watch = SX.clist(SX.cstr(w) for w in case["watch"]) if case["watch"] else "(@nil (list Z))"
    return (f"WCase {SX.clist(cls_terms) if cls_terms else '(@nil pclass)'} {watch} "
            f"{SX.clist(ops) if ops else '(@nil wop)'}")


def _expected_world(case, obs):
    """(table steps): the distinct parameter strings, sorted by code points, and the steps with every formatter
    replaced by its index in the table - the encoding of C14/Run.v run_world"""
    seen = set()

    def P(x):
        t = tuple(_params(x))
        seen.add(t)
        return t
    raw = []
    for st in obs["steps"]:
        if st[0] == "err":
            raw.append(SX.err(st[1]))
            continue
        _, idx, pal, _extra, gi, confs, synced, mut = st
        raw.append([0, idx, [P(x) for x in pal], gi,
                    [[P(x) for x in row] for row in confs],
                    [[[P(x) for x in e[0]], [P(x) for x in e[1]] if e[1] is not None else [],
                      [P(x) for x in e[3]] if e[3] is not None else []] for e in synced],
                    list(mut)])
    table = sorted(seen)
    pos = {t: n for n, t in enumerate(table)}

    def enc(x):
        if isinstance(x, tuple):
            return pos[x]
        if isinstance(x, list):
            return [enc(e) for e in x]
        return x
    return SX.dumps([[list(t) for t in table], [enc(st) for st in raw]])


def _world_strings(case):
    def walk(d):
        for k, v in d.items():
            yield k
            if isinstance(v, str):
                yield v
            elif isinstance(v, dict):
                yield from walk(v)
    for o in case["objs"]:
        yield from walk(o)
    yield from case["watch"]
    for cl in case["classes"]:
        for _, sid in cl["acc"]:
            yield sid


def _in_model_world(case, obs):
    if "__hang__" in obs:
        return False
    if any(ord(ch) > 127 for s in _world_strings(case) for ch in s):
        return False
    for op in case["ops"]:
        if op["k"] == "reg" and not all(isinstance(v, str) for v in case["objs"][op["items"]].values()):
            return False
    return True


def _oracle_world(case, obs):
    """the statement on a session, independent of the Coq model: (1) no argument is ever modified, (2) the global
    configuration is the object that was installed, (3) every access path - accessor attributes of every synced
    palette, palette[id], a freshly obtained palette - agrees with get_color of the configuration it stands for at the
    same moment, (4) the colours of every configuration are the resolution of the descriptions registered in it so
    far (the explicit items first, BUILT_IN_CONFIG, then what components / direct registrations brought)"""
    if "__hang__" in obs:
        return [("hang", "the session did not return")]
    c = _consts()
    dflt = c["dflt"]
    objs = case["objs"]
    flat = [_flatten_ref(o) for o in objs]
    real_builtin = _flatten_ref(c["builtin"])
    cls = [{"d": None, "parents": [], "g": True, "accids": [i for _, i in c["accessors"]]}]
    for cl in case["classes"]:
        cls.append({"d": cl["d"], "parents": cl["parents"], "g": cl["g"], "accids": [i for _, i in _full_acc(cl)]})
    confs = [{"nc": False, "batches": [{}, real_builtin], "reg": set()}]
    state = {"g": 0}
    synced = [0]

    def register(k, i):
        if k in confs[i]["reg"]:
            return
        for p in cls[k]["parents"]:
            register(p, i)
        if cls[k]["d"] is not None:
            confs[i]["reg"].add(k)
            confs[i]["batches"].append(flat[cls[k]["d"]])

    def spec_of(conf):
        """{id: parsed} of a configuration or None when the statement does not speak about it"""
        S = {}
        for b in conf["batches"]:
            if b is None:
                return None
            for sid, s in b.items():
                if sid in S:
                    continue
                if not _ID_RE.match(sid):
                    return None
                d = doc_parse(s)
                if d is None:
                    return None
                S[sid] = d
        return None if _has_cycle(S) else S

    out = []
    steps = obs["steps"]
    for n in range(len(steps)):
        st = steps[n]
        what = "import ak.color" if n == 0 else f"operation {n} ({case['ops'][n - 1]['k']})"
        op = case["ops"][n - 1] if n else None
        target = None
        if op is not None:
            k = op["k"]
            ci = op.get("c")
            if k == "new":
                b = real_builtin if op["builtin"] is None else flat[op["builtin"]]
                confs.append({"nc": op["nc"], "batches": [{} if op["init"] is None else flat[op["init"]], b], "reg": set()})
            elif k == "setg":
                if ci is None:
                    confs.append({"nc": False, "batches": [{}, real_builtin], "reg": set()})
                    ci = len(confs) - 1
                state["g"] = ci
                for kk in synced:
                    register(kk, ci)
            elif k == "synced":
                if op["cls"] not in synced:
                    register(op["cls"], state["g"])
                    synced.append(op["cls"])
            elif k == "reg":
                confs[state["g"] if ci is None else ci]["batches"].append(flat[op["items"]])
            elif k == "regcls":
                register(op["cls"], state["g"] if ci is None else ci)
            elif k == "use":
                target = state["g"] if ci is None else ci
                register(op["cls"], target)
            else:
                target = state["g"] if ci is None else ci
        specs = [spec_of(cf) for cf in confs]
        if st[0] == "err":
            if all(s is not None for s in specs) and st[1] == "AssertionError" and any(cls[kk]["parents"] for kk in synced):
                out.append(("synced-parent-reentrancy",
                            f"{what} raised AssertionError: a synced palette class with PARENT_PALETTES is registered "
                            f"re-entrantly while the global configuration is re-synced"))
            elif all(s is not None for s in specs):
                out.append(("raises-on-valid", f"{what} raised {st[1]} although every configuration holds an acyclic set "
                                               f"of valid descriptions"))
            break
        _, idx, pal, extra, gi, ccols, spals, mut = st
        if mut:
            names = ["objs[%d]" % m if m < len(objs) else "ColorsConfig.BUILT_IN_CONFIG" for m in mut]
            out.append(("argument-mutated", f"after {what}: the caller's dictionaries {names} were modified"))
            break
        if gi != state["g"] or len(ccols) != len(confs):
            out.append(("global-identity", f"after {what}: the global configuration is object #{gi} of {len(ccols)}, "
                                           f"expected #{state['g']} of {len(confs)}"))
            break
        bad = None
        # (3) access paths agree with the configuration they stand for, at this very moment
        for j, (a, live, ref, gc, rep) in enumerate(spals):
            if (gc is not None and gc != a) or not rep:
                bad = ("synced-get-color-stale", f"after {what}: synced palette #{j}: get_color(accessor name) gives {gc!r}, "
                                                 f"the accessor attributes are {a!r}; make_report() agrees with the attributes: {rep}")
                break
            if a != ref:
                bad = ("synced-stale", f"after {what}: accessor attributes of synced palette #{j} (class {synced[j] if j < len(synced) else '?'}) "
                                       f"are {a!r}, the global configuration's get_color gives {ref!r}")
                break
            if live is not None and 0 <= gi < len(ccols) and live != ccols[gi]:
                bad = ("synced-stale", f"after {what}: synced palette #{j}[id] gives {live!r}, the global configuration {ccols[gi]!r}")
                break
        if bad is None and extra is not None:
            ref, live, cnow = extra
            if pal != ref or (live is not None and live != cnow):
                bad = ("palette-stale", f"after {what}: the palette obtained has {pal!r} / {live!r}, its configuration gives "
                                        f"{ref!r} / {cnow!r}")
        # (4) the colours are the resolution of the registered descriptions
        if bad is None:
            for i, (cf, S) in enumerate(zip(confs, specs)):
                if S is None:
                    continue
                want = [_spec_color(S, sid, cf["nc"], dflt) for sid in case["watch"]]
                if ccols[i] != want:
                    diff = [(sid, g, w) for sid, g, w in zip(case["watch"], ccols[i], want) if g != w][:3]
                    bad = ("no-color-effects" if cf["nc"] else "wrong-color",
                           f"after {what}: configuration #{i} gives {diff!r} (id, got, demanded by its descriptions)")
                    break
        if bad is None and specs[state["g"]] is not None:
            S, cf = specs[state["g"]], confs[state["g"]]
            for j, (a, live, ref, gc, rep) in enumerate(spals):
                if j >= len(synced):
                    break
                want = [_spec_color(S, sid, cf["nc"], dflt) for sid in cls[synced[j]]["accids"]]
                if a != want:
                    bad = ("synced-stale", f"after {what}: synced palette #{j} has {a!r}, the global configuration's descriptions demand {want!r}")
                    break
        if bad is None and extra is not None and target is not None and specs[target] is not None:
            kcls = op["cls"] if op["k"] == "use" else 0
            want = [_spec_color(specs[target], sid, confs[target]["nc"], dflt) for sid in cls[kcls]["accids"]]
            if pal != want:
                bad = ("palette-stale", f"after {what}: the palette obtained has {pal!r}, the configuration's descriptions demand {want!r}")
        if bad is not None:
            out.append(bad)
            break
    return out


def _shrink_world(case):
    for i in range(len(case["ops"])):
        op = case["ops"][i]
        if op["k"] in ("new",) or (op["k"] == "setg" and op["c"] is None):
            continue              # creates a configuration object: later indices depend on it
        c = dict(case)
        c["ops"] = case["ops"][:i] + case["ops"][i + 1:]
        yield c
    if case["ops"] and case["ops"][-1]["k"] in ("new", "setg"):
        c = dict(case)
        c["ops"] = case["ops"][:-1]
        yield c
    for n, o in enumerate(case["objs"]):
        for k in o:
            c = dict(case)
            c["objs"] = list(case["objs"])
            c["objs"][n] = {kk: vv for kk, vv in o.items() if kk != k}
            yield c
    for w in case["watch"]:
        if len(case["watch"]) > 1:
            c = dict(case)
            c["watch"] = [x for x in case["watch"] if x != w]
            yield c


TECHNIQUE = ("Coq proof (invariant over registration histories, induction over the resolution walk) on a hand-written "
             "Gallina model + per-run correspondence check (vm_compute vs implementation) + tables and the statements of "
             "resolve() regenerated from the source")
LEVEL_TEXT = ("Full (about the model): resolve_correct (for ALL histories of registration batches and get_palette calls whose "
              "descriptions parse and whose first-wins union is acyclic: no exception, same ids, an id is resolved to r iff its "
              "chain is complete and yields r, get_color = formatter of the resolution / effect-free while pending / default "
              "syntax for unknown ids), order_independent + order_independent_perm + batching_irrelevant, explicit_wins, "
              "later_registration_completes, no_color_plain and no_color_always (no hypotheses), palette_current, "
              "flatten_nested, parser_colors_wf (no parsed description can make ColorFmt raise), consts_ok; for the module state "
              "(several configurations, set_global_colors_config, Palette classes with SYNTAX_DEFAULTS / PARENT_PALETTES, synced "
              "palettes and the recursive re-sync; C14/World.v) synced_current (whenever a sequence of API calls returns, every "
              "synced palette carries exactly the formatters the global configuration gives now for its accessors and points to "
              "it - no hypothesis on the descriptions), world_confs_are_histories (every configuration object of a session is the "
              "result of a registration history, so resolve_correct etc. apply to it) and synced_resolve_correct (their "
              "combination).  The statements of "
              "resolve() (both branches), the colour/modifier tables, _COLORS_NAMES, BUILT_IN_CONFIG, DFLT_SYNTAX_ID and the "
              "GlobalPalette accessors are re-read from the source on every run and the obligations about them re-proved.  "
              "Tested only (correspondence + oracle, not proved): that the parser accepts exactly the documented grammar "
              "(only 'accepted => well-formed colours' is proved), make_report, compound and no_color palettes, the cache of "
              "non-synced palettes of user classes (modelled, compared, not proved current), that the calls of a session do not "
              "raise (the session theorems are conditional on normal return; the re-entrancy AssertionError repaired by a35bf60 "
              "is reproduced by the model from the statement shape of register_in_colors_conf), that registration goes by the identity of LIVE objects (the model "
              "numbers the classes / configurations of a session, every one made is a new one; sessions world:churn-* create and drop "
              "30-60 classes, configurations and dictionaries so that addresses are re-used), that no argument dictionary is "
              "modified (arguments are values in the model: a dictionary used twice has the same contents; the harness passes "
              "every dictionary by reference, re-uses it and compares it with its original after every call), non-ASCII input.")
LEVEL_NOTE = ("Trusted: Coq kernel + vm_compute; the hand model's fidelity (checked by correspondence, not proved); the ast "
              "extractor and harness; Python str.split/strip/int as modelled for ASCII.")
DESIGN_REF = "DESIGN.md section 8, C14"
