(* C18/LemmasLadder.v -- reading a ladder table = reading the table with the
   "same as above" cells filled in (ladder_equiv, ladder_origins, and the
   refutation for stop_on="blank first"). *)
From Coq Require Import ZArith List Bool Lia.
From AK Require Import Common.Sx Common.Err C18.Base gen.C18_Consts C18.Model C18.Lemmas.
Import ListNotations.

(* ------------------------------------------------------------------ *)
(* specification: the filled-in table (on cell values)                 *)

(* a run of blank cells at the start of [cur] takes the cells of the row above *)
Fixpoint vfill_from (prev cur : list cval) {struct cur} : list cval :=
  match cur with
  | [] => []
  | v :: vs =>
      if val_empty v then
        match prev with
        | [] => cur
        | p :: ps => p :: vfill_from ps vs
        end
      else cur
  end.
(* ... counted from the first titled column f *)
Definition vfill_row (f : nat) (prev cur : list cval) : list cval :=
  firstn f cur ++ vfill_from (skipn f prev) (skipn f cur).

(* the rows below the title row, down to the first wholly blank row (which, like everything
   below it, is left alone); the first data row has nothing above it *)
Fixpoint vfill_body (f : nat) (prev : option (list cval)) (rows : list (list cval))
  : list (list cval) :=
  match rows with
  | [] => []
  | r :: rest =>
      if vrow_blank r then rows
      else let cur := match prev with None => r | Some p => vfill_row f p r end in
           cur :: vfill_body f (Some cur) rest
  end.

(* the worksheet with the "same as above" cells filled in *)
Fixpoint fill_sheet (sh : list (list cval)) : list (list cval) :=
  match sh with
  | [] => []
  | vs :: rest =>
      if vrow_blank vs then vs :: fill_sheet rest
      else vs :: match first_some_pos (map val_title vs) 0 with
                 | None => rest
                 | Some f => vfill_body f None rest
                 end
  end.

(* the values of an item (None = the row gave no object) *)
Definition item_vals (it : option obj) : option (list value) :=
  option_map (fun o => map fst (o_attrs o)) it.

(* ------------------------------------------------------------------ *)
(* construct depends on the cell values only                           *)

Definition res_rel {A B} (R : A -> B -> Prop) (r : res A) (r' : res B) : Prop :=
  match r, r' with
  | Ok a, Ok b => R a b
  | Err e, Err e' => e = e'
  | _, _ => False
  end.

Lemma map_res_rel {A B C} (R : B -> C -> Prop) (f : A -> res B) (g : A -> res C) l :
  (forall x, In x l -> res_rel R (f x) (g x)) ->
  res_rel (Forall2 R) (map_res f l) (map_res g l).
Proof.
  induction l as [|x l IH]; intros H; cbn [map_res]; [constructor|].
  pose proof (H x (or_introl eq_refl)) as Hx.
  destruct (f x) as [y|e], (g x) as [z|e']; cbn in Hx; try contradiction; [|exact Hx].
  assert (IH' := IH (fun y Hy => H y (or_intror Hy))).
  destruct (map_res f l), (map_res g l); cbn in IH'; try contradiction; cbn; [|exact IH'].
  constructor; assumption.
Qed.

Definition src_sim (s s' : src) : Prop :=
  match s, s' with
  | SCell x, SCell x' => c_val x = c_val x'
  | SMissing d, SMissing d' => d = d'
  | SExt d, SExt d' => d = d'
  | SRange n cs, SRange n' cs' => n = n' /\ map c_val cs = map c_val cs'
  | _, _ => False
  end.

Lemma nth_res_vals (row row' : list cell) i :
  map c_val row = map c_val row' ->
  res_rel (fun x x' => c_val x = c_val x') (nth_res row i) (nth_res row' i).
Proof.
  revert row' i. induction row as [|x row IH]; intros [|x' row'] i H; try discriminate.
  - destruct i; cbn; reflexivity.
  - cbn in H. injection H as H1 H2. destruct i as [|i]; cbn; [exact H1|].
    apply (IH row' i H2).
Qed.

Lemma Forall2_cval_map (l l' : list cell) :
  Forall2 (fun x x' => c_val x = c_val x') l l' -> map c_val l = map c_val l'.
Proof. induction 1; cbn; congruence. Qed.

Lemma src_of_vals row row' b :
  map c_val row = map c_val row' -> res_rel src_sim (src_of row b) (src_of row' b).
Proof.
  intros H. destruct b as [i|d|d|rn ids]; cbn [src_of]; try (cbn; reflexivity).
  - pose proof (nth_res_vals row row' i H) as Hi.
    destruct (nth_res row i), (nth_res row' i); cbn in *; auto.
  - pose proof (map_res_rel (fun x x' => c_val x = c_val x') (nth_res row) (nth_res row') ids
                  (fun i _ => nth_res_vals row row' i H)) as Hm.
    destruct (map_res (nth_res row) ids), (map_res (nth_res row') ids); cbn in *; auto.
    split; [reflexivity|apply Forall2_cval_map; exact Hm].
Qed.

Lemma keys_empty_sim l l' : Forall2 src_sim l l' -> keys_empty l = keys_empty l'.
Proof.
  induction 1 as [|s s' l l' Hs H IH]; [reflexivity|].
  destruct s, s'; cbn in Hs; try contradiction; cbn [keys_empty]; try reflexivity.
  rewrite Hs. destruct (c_val c0); [exact IH|reflexivity..].
Qed.

Lemma Forall2_firstn {A B} (R : A -> B -> Prop) n : forall l l',
  Forall2 R l l' -> Forall2 R (firstn n l) (firstn n l').
Proof.
  induction n as [|n IH]; intros l l' H; cbn [firstn]; [constructor|].
  inversion H; subst; constructor; auto.
Qed.

Lemma map_res_val_cells cv cs :
  map_res (val_from_cell cv) cs = map_res (val_from_val cv) (map c_val cs).
Proof.
  induction cs as [|c cs IH]; cbn [map map_res]; [reflexivity|].
  unfold val_from_cell at 1. rewrite IH. reflexivity.
Qed.

Lemma range_value_vals isd cv rn cs cs' :
  map c_val cs = map c_val cs' -> range_value isd cv rn cs = range_value isd cv rn cs'.
Proof.
  intros H. unfold range_value. rewrite !map_res_val_cells, H. reflexivity.
Qed.

Lemma build_attr_sim ru s s' :
  src_sim s s' -> res_rel (fun a a' => fst a = fst a') (build_attr ru s) (build_attr ru s').
Proof.
  intros H. destruct ru as [col cv def|d|isd cv hd]; destruct s, s'; cbn in H; try contradiction;
    cbn [build_attr]; try (cbn; congruence).
  - unfold val_from_cell. rewrite H. destruct (val_from_val cv (c_val c0)); cbn; reflexivity.
  - destruct H as [-> H]. rewrite (range_value_vals isd cv names0 cells cells0 H).
    destruct (range_value isd cv names0 cells0); cbn; reflexivity.
Qed.

Lemma build_all_sim : forall rules srcs srcs',
  Forall2 src_sim srcs srcs' ->
  res_rel (Forall2 (fun a a' : value * origin => fst a = fst a'))
          (map_res (fun p => build_attr (fst p) (snd p)) (combine rules srcs))
          (map_res (fun p => build_attr (fst p) (snd p)) (combine rules srcs')).
Proof.
  induction rules as [|ru rules IH]; intros srcs srcs' H; [cbn; constructor|].
  destruct H as [|s s' srcs srcs' Hs H]; [cbn; constructor|].
  cbn [combine map_res fst snd].
  pose proof (build_attr_sim ru s s' Hs) as Hb.
  destruct (build_attr ru s), (build_attr ru s'); cbn in Hb; try contradiction; [|exact Hb].
  specialize (IH srcs srcs' H).
  destruct (map_res _ (combine rules srcs)), (map_res _ (combine rules srcs')); cbn in IH;
    try contradiction; cbn; [|exact IH].
  constructor; assumption.
Qed.

Lemma is_vnone_sim (l l' : list (value * origin)) :
  Forall2 (fun a a' => fst a = fst a') l l' -> forallb is_vnone l = forallb is_vnone l'.
Proof.
  induction 1 as [|a a' l l' Ha H IH]; [reflexivity|]. cbn [forallb]. unfold is_vnone at 1 3.
  rewrite Ha, IH. reflexivity.
Qed.

Lemma map_fst_sim (l l' : list (value * origin)) :
  Forall2 (fun a a' => fst a = fst a') l l' -> map fst l = map fst l'.
Proof. induction 1; cbn; congruence. Qed.

Lemma construct_vals rules bs k row row' :
  map c_val row = map c_val row' ->
  res_rel (fun it it' => item_vals it = item_vals it')
          (construct rules bs k row) (construct rules bs k row').
Proof.
  intros H. unfold construct.
  pose proof (map_res_rel src_sim (src_of row) (src_of row') bs
                (fun b _ => src_of_vals row row' b H)) as Hs.
  destruct (map_res (src_of row) bs) as [srcs|e], (map_res (src_of row') bs) as [srcs'|e'];
    cbn in Hs; try contradiction; [|exact Hs].
  rewrite (keys_empty_sim _ _ (Forall2_firstn _ k _ _ Hs)).
  destruct (keys_empty (firstn k srcs')) as [ke|e]; [|cbn; reflexivity].
  destruct (ke && negb (Nat.eqb k 0)); [cbn; reflexivity|].
  destruct (Nat.ltb (length rules) k); [cbn; reflexivity|].
  destruct Hs as [|s s' srcs srcs' Hs1 Hs]; [cbn; reflexivity|].
  destruct s, s'; cbn in Hs1; try contradiction; try (cbn; reflexivity).
  assert (Hall : Forall2 src_sim (SCell c :: srcs) (SCell c0 :: srcs')) by (constructor; assumption).
  pose proof (build_all_sim rules _ _ Hall) as Hb.
  destruct (map_res _ (combine rules (SCell c :: srcs))) as [attrs|e],
           (map_res _ (combine rules (SCell c0 :: srcs'))) as [attrs'|e'];
    cbn in Hb; try contradiction; [|exact Hb].
  rewrite (is_vnone_sim _ _ (Forall2_firstn _ k _ _ Hb)).
  destruct (negb (Nat.eqb k 0) && forallb is_vnone (firstn k attrs')); cbn; [reflexivity|].
  rewrite (map_fst_sim _ _ Hb). reflexivity.
Qed.

(* ------------------------------------------------------------------ *)
(* the ladder substitution computes the fill-down                      *)

Lemma fill_from_vals : forall cur prev,
  (length cur <= length prev)%nat ->
  exists r, fill_from prev cur = Ok r /\
            map c_val r = vfill_from (map c_val prev) (map c_val cur) /\
            length r = length cur.
Proof.
  induction cur as [|c cs IH]; intros prev Hl; cbn [fill_from map vfill_from].
  - exists []. auto.
  - unfold cell_empty. destruct (val_empty (c_val c)).
    + destruct prev as [|p ps]; [cbn in Hl; lia|]. cbn [length] in Hl.
      destruct (IH ps) as [r [H1 [H2 H3]]]; [lia|]. rewrite H1.
      exists (p :: r). cbn [map length]. rewrite H2, H3. auto.
    + exists (c :: cs). auto.
Qed.

Lemma fill_row_vals f prev cur :
  length prev = length cur ->
  exists r, fill_row f prev cur = Ok r /\
            map c_val r = vfill_row f (map c_val prev) (map c_val cur) /\
            length r = length cur.
Proof.
  intros Hl. unfold fill_row, vfill_row.
  destruct (fill_from_vals (skipn f cur) (skipn f prev)) as [r [H1 [H2 H3]]].
  { rewrite !skipn_length. lia. }
  rewrite H1. exists (firstn f cur ++ r). split; [reflexivity|].
  rewrite map_app, H2, <- !firstn_map, <- !skipn_map. split; [reflexivity|].
  rewrite app_length, H3, firstn_length, skipn_length. lia.
Qed.

Lemma vfill_from_length : forall cur prev, length (vfill_from prev cur) = length cur.
Proof.
  induction cur as [|v vs IH]; intros prev; cbn [vfill_from]; [reflexivity|].
  destruct (val_empty v); [|reflexivity]. destruct prev; [reflexivity|]. cbn. rewrite IH. reflexivity.
Qed.

Lemma vfill_row_length f prev cur : length (vfill_row f prev cur) = length cur.
Proof.
  unfold vfill_row. rewrite app_length, vfill_from_length, firstn_length, skipn_length. lia.
Qed.

(* filling never turns a row that has a non-blank cell into a blank row *)
Lemma vfill_from_blank : forall cur prev,
  vrow_blank (vfill_from prev cur) = true -> vrow_blank cur = true.
Proof.
  induction cur as [|v vs IH]; intros prev H; cbn [vfill_from] in H; [reflexivity|].
  destruct (val_empty v) eqn:E; [|exact H].
  destruct prev as [|p ps]; [exact H|].
  unfold vrow_blank in *. cbn [forallb] in *. rewrite E. cbn.
  apply andb_prop in H as [_ H]. exact (IH ps H).
Qed.

Lemma vfill_row_blank f prev cur :
  vrow_blank (vfill_row f prev cur) = true -> vrow_blank cur = true.
Proof.
  unfold vfill_row, vrow_blank. rewrite forallb_app. intros H. apply andb_prop in H as [H1 H2].
  apply vfill_from_blank in H2. unfold vrow_blank in H2.
  rewrite <- (firstn_skipn f cur) at 1. rewrite forallb_app, H1, H2. reflexivity.
Qed.

(* with a blank first title the first cell of a row is not part of the ladder *)
Lemma vfill_row_hd f prev cur : (0 < f)%nat -> hd_error (vfill_row f prev cur) = hd_error cur.
Proof.
  intros Hf. unfold vfill_row. destruct f as [|f]; [lia|]. destruct cur as [|v vs]; reflexivity.
Qed.

(* the end-of-table test sees the same thing on the raw and on the filled row *)
Lemma vis_end_fill cf cf' f prev vs :
  stop_first cf' = stop_first cf ->
  (stop_first cf = false \/ (0 < f)%nat) ->
  vrow_blank vs = false ->
  vis_end cf' (vfill_row f prev vs) = vis_end cf vs.
Proof.
  intros Hs Hg Hb. unfold vis_end. rewrite Hs. destruct (stop_first cf) eqn:E.
  - destruct Hg as [Hg|Hg]; [discriminate|].
    pose proof (vfill_row_hd f prev vs Hg) as Hh.
    destruct (vfill_row f prev vs) as [|a l], vs as [|v vs']; cbn in Hh; try discriminate; try reflexivity.
    injection Hh as ->. reflexivity.
  - destruct (vrow_blank (vfill_row f prev vs)) eqn:E2; [|congruence].
    apply vfill_row_blank in E2. congruence.
Qed.

(* ------------------------------------------------------------------ *)
(* the two loops in lock step                                          *)

(* same item values row by row, same exception; generic in the item type (objects / tuples of objects) *)
Definition out_sim_g {X V : Type} (vals : X -> V) (a b : list X * option err) : Prop :=
  map vals (fst a) = map vals (fst b) /\ snd a = snd b.
Definition out_sim (a b : list (option obj) * option err) : Prop := out_sim_g item_vals a b.
(* the values of a tuple of items *)
Definition tuple_vals (t : list (option obj)) : list (option (list value)) := map item_vals t.
Definition out_sim_m (a b : list (list (option obj)) * option err) : Prop := out_sim_g tuple_vals a b.

Definition plain_of (cf : config) : config :=
  mkConfig (cf_rules cf) (cf_nid cf) (cf_stop cf) false.
Definition plain_m (mc : mconfig) : mconfig := mkMConfig (mc_objs mc) (mc_stop mc) false.

(* a constructor of items that looks at the cell values only *)
Definition ctor_vals {X V : Type} (vals : X -> V) (ctor : list cell -> res X) : Prop :=
  forall row row', map c_val row = map c_val row' ->
                   res_rel (fun it it' => vals it = vals it') (ctor row) (ctor row').

Lemma construct_all_vals objs bss : ctor_vals tuple_vals (construct_all objs bss).
Proof.
  intros row row' H. unfold construct_all.
  pose proof (map_res_rel (fun it it' => item_vals it = item_vals it')
                (fun p => construct (fst (fst p)) (snd p) (snd (fst p)) row)
                (fun p => construct (fst (fst p)) (snd p) (snd (fst p)) row')
                (combine objs bss)
                (fun p _ => construct_vals (fst (fst p)) (snd p) (snd (fst p)) row row' H)) as Hm.
  destruct (map_res _ (combine objs bss)) as [t|e], (map_res _ (combine objs bss)) as [t'|e'];
    cbn in Hm |- *; try contradiction; [|exact Hm].
  unfold tuple_vals. induction Hm; cbn; congruence.
Qed.

Lemma iter_gen_sim {X V : Type} (vals : X -> V) cf (ctor : list cell -> res X) f w :
  ctor_vals vals ctor ->
  cf_ladder cf = true ->
  (stop_first cf = false \/ (0 < f)%nat) ->
  forall vrows r0 prevL prevP,
    Forall (fun vs => length vs = w) vrows ->
    (forall p, prevL = Some p -> length p = w) ->
    out_sim_g vals (iter_gen cf ctor (Some f) prevL (index_rows r0 vrows))
              (iter_gen (plain_of cf) ctor (Some f) prevP
                        (index_rows r0 (vfill_body f (option_map (map c_val) prevL) vrows))).
Proof.
  intros Hctor Hlad Hg. induction vrows as [|vs vrows IH]; intros r0 prevL prevP Hw Hp.
  - cbn. split; reflexivity.
  - inversion Hw as [|? ? Hw1 Hw2]; subst. cbn [vfill_body].
    destruct (vrow_blank vs) eqn:Eb.
    + (* a wholly blank row ends the table in both readings (or raises in both) *)
      cbn [index_rows iter_gen]. rewrite !is_end_index.
      assert (Hv : vis_end (plain_of cf) vs = vis_end cf vs) by reflexivity. rewrite Hv.
      assert (He : vis_end cf vs = Ok true \/ exists e, vis_end cf vs = Err e).
      { unfold vis_end. destruct (stop_first cf).
        - destruct vs as [|v vs']; [right; eauto|]. left. unfold vrow_blank in Eb. cbn in Eb.
          apply andb_prop in Eb as [-> _]. reflexivity.
        - left. rewrite Eb. reflexivity. }
      destruct He as [->|[e ->]]; split; reflexivity.
    + set (curv := match option_map (map c_val) prevL with
                   | None => vs | Some p => vfill_row f p vs end).
      cbn [index_rows iter_gen]. rewrite !is_end_index.
      assert (Hend : vis_end (plain_of cf) curv = vis_end cf vs).
      { unfold curv. destruct prevL as [p|]; cbn [option_map]; [|reflexivity].
        apply vis_end_fill; auto. }
      rewrite Hend. destruct (vis_end cf vs) as [[|]|e]; try (split; reflexivity).
      unfold cur_row. cbn [cf_ladder plain_of]. rewrite Hlad.
      (* the row handed to the constructor in the ladder reading *)
      assert (Hcur : exists cur, (match prevL with
                                  | Some p => fill_row f p (index_row r0 0 vs)
                                  | None => Ok (index_row r0 0 vs) end) = Ok cur /\
                                 map c_val cur = curv /\ length cur = length vs).
      { unfold curv. destruct prevL as [p|]; cbn [option_map].
        - destruct (fill_row_vals f p (index_row r0 0 vs)) as [r [H1 [H2 H3]]].
          { rewrite index_row_length. rewrite (Hp p eq_refl). reflexivity. }
          exists r. rewrite map_cval_index_row in H2. rewrite index_row_length in H3. auto.
        - exists (index_row r0 0 vs). rewrite map_cval_index_row, index_row_length. auto. }
      destruct Hcur as [cur [Hc1 [Hc2 Hc3]]]. rewrite Hc1.
      pose proof (Hctor cur (index_row r0 0 curv)) as Hcv.
      rewrite map_cval_index_row in Hcv. specialize (Hcv Hc2).
      destruct (ctor cur) as [o|e], (ctor (index_row r0 0 curv)) as [o'|e'];
        cbn in Hcv; try contradiction.
      * specialize (IH (S r0) (Some cur) (Some (index_row r0 0 curv)) Hw2).
        cbn [option_map] in IH. rewrite Hc2 in IH.
        assert (Hp' : forall p, Some cur = Some p -> length p = length vs).
        { intros p Hq. injection Hq as <-. exact Hc3. }
        specialize (IH Hp'). unfold out_sim_g in *.
        destruct (iter_gen cf ctor (Some f) (Some cur) (index_rows (S r0) vrows)) as [os e1].
        destruct (iter_gen (plain_of cf) ctor (Some f) (Some (index_row r0 0 curv)) _) as [os' e2].
        cbn [fst snd map] in *. destruct IH as [IH1 IH2]. rewrite Hcv, IH1, IH2. split; reflexivity.
      * subst e'. split; reflexivity.
Qed.

(* ------------------------------------------------------------------ *)
(* ladder_equiv                                                        *)

Lemma val_title_empty v : is_nil (val_title v) = val_empty v.
Proof. destruct v; reflexivity. Qed.

Lemma first_some_pos_nonblank : forall vs pos,
  vrow_blank vs = false -> exists f, first_some_pos (map val_title vs) pos = Some f.
Proof.
  induction vs as [|v vs IH]; intros pos H; [discriminate|].
  cbn [map first_some_pos]. rewrite val_title_empty.
  unfold vrow_blank in H. cbn [forallb] in H. destruct (val_empty v); [|eauto].
  cbn in H. apply IH. exact H.
Qed.

Lemma read_cells_sim known cf w :
  cf_ladder cf = true ->
  forall sh r0,
    Forall (fun vs => length vs = w) sh ->
    (stop_first cf = false \/
     forall t tvs, find_title sh r0 = Some (t, tvs) -> first_some_pos (map val_title tvs) 0 <> Some 0%nat) ->
    out_sim (read_cells_k known cf (index_rows r0 sh))
            (read_cells_k known (plain_of cf) (index_rows r0 (fill_sheet sh))).
Proof.
  intros Hlad. induction sh as [|vs rest IH]; intros r0 Hw Hg.
  - cbn. split; reflexivity.
  - inversion Hw as [|? ? Hw1 Hw2]; subst. cbn [fill_sheet find_title] in *.
    destruct (vrow_blank vs) eqn:Eb.
    + unfold read_cells_k. cbn [index_rows skip_blank]. rewrite !row_empty_index, Eb.
      apply (IH (S r0) Hw2). exact Hg.
    + unfold read_cells_k. cbn [index_rows skip_blank]. rewrite !row_empty_index, Eb.
      rewrite !titles_of_index. cbn [cf_rules plain_of].
      destruct (bind_all_k known (cf_rules cf) (map val_title vs)) as [bs|e]; [|split; reflexivity].
      destruct (first_some_pos_nonblank vs 0 Eb) as [f Hf]. rewrite Hf.
      rewrite !iter_rows_gen. cbn [cf_rules cf_nid plain_of].
      apply (iter_gen_sim item_vals cf _ f (length vs) (construct_vals _ _ _) Hlad)
        with (prevL := None) (prevP := None); auto.
      * destruct Hg as [Hg|Hg]; [left; exact Hg|right].
        specialize (Hg r0 vs eq_refl). rewrite Hf in Hg. destruct f; [congruence|lia].
      * intros p Hp. discriminate.
Qed.

(* the same for a reader with several rule sets *)
Lemma read_cells_m_sim mc w :
  mc_ladder mc = true ->
  forall sh r0,
    Forall (fun vs => length vs = w) sh ->
    (stop_first (mc_loop mc) = false \/
     forall t tvs, find_title sh r0 = Some (t, tvs) -> first_some_pos (map val_title tvs) 0 <> Some 0%nat) ->
    out_sim_m (read_cells_m mc (index_rows r0 sh))
              (read_cells_m (plain_m mc) (index_rows r0 (fill_sheet sh))).
Proof.
  intros Hlad. induction sh as [|vs rest IH]; intros r0 Hw Hg.
  - cbn. split; reflexivity.
  - inversion Hw as [|? ? Hw1 Hw2]; subst. cbn [fill_sheet find_title] in *.
    destruct (vrow_blank vs) eqn:Eb.
    + unfold read_cells_m. cbn [index_rows skip_blank]. rewrite !row_empty_index, Eb.
      apply (IH (S r0) Hw2). exact Hg.
    + unfold read_cells_m. cbn [index_rows skip_blank]. rewrite !row_empty_index, Eb.
      rewrite !titles_of_index. cbn [mc_objs plain_m].
      destruct (bind_objs (known_all (mc_objs mc)) (map val_title vs) (mc_objs mc)) as [bss|e];
        [|split; reflexivity].
      destruct (first_some_pos_nonblank vs 0 Eb) as [f Hf]. rewrite Hf.
      rewrite !iter_rows_m_gen. cbn [mc_objs plain_m].
      change (mc_loop (plain_m mc)) with (plain_of (mc_loop mc)).
      apply (iter_gen_sim tuple_vals (mc_loop mc) _ f (length vs) (construct_all_vals _ _) Hlad)
        with (prevL := None) (prevP := None); auto.
      * destruct Hg as [Hg|Hg]; [left; exact Hg|right].
        specialize (Hg r0 vs eq_refl). rewrite Hf in Hg. destruct f; [congruence|lia].
      * intros p Hp. discriminate.
Qed.

Lemma ladder_equiv_m_gen mc sh w :
  Forall (fun vs => length vs = w) sh ->
  mc_ladder mc = true ->
  (stop_first (mc_loop mc) = false \/ first_some_pos (sheet_titles sh) 0 <> Some 0%nat) ->
  out_sim_m (read_table_m mc sh) (read_table_m (plain_m mc) (fill_sheet sh)).
Proof.
  intros Hw Hlad Hg. unfold read_table_m, index_sheet. apply (read_cells_m_sim mc w Hlad sh 0 Hw).
  destruct Hg as [Hg|Hg]; [left; exact Hg|right]. intros t tvs Ht.
  unfold sheet_titles, title_row in Hg. rewrite Ht in Hg. exact Hg.
Qed.

(* Reading a ladder table gives the same objects (and the same exception, if any) as reading the
   filled-in table plainly -- for the default end rule, and for "blank first" when the first
   sheet column is not part of the ladder (its title is blank). *)
Lemma ladder_equiv_gen known cf sh w :
  Forall (fun vs => length vs = w) sh ->
  cf_ladder cf = true ->
  (stop_first cf = false \/ first_some_pos (sheet_titles sh) 0 <> Some 0%nat) ->
  out_sim (read_table_k known cf sh) (read_table_k known (plain_of cf) (fill_sheet sh)).
Proof.
  intros Hw Hlad Hg. unfold read_table_k, index_sheet. apply (read_cells_sim known cf w Hlad sh 0 Hw).
  destruct Hg as [Hg|Hg]; [left; exact Hg|right]. intros t tvs Ht.
  unfold sheet_titles, title_row in Hg. rewrite Ht in Hg. exact Hg.
Qed.

Lemma ladder_equiv_l known cf sh w :
  Forall (fun vs => length vs = w) sh -> cf_ladder cf = true -> stop_first cf = false ->
  out_sim (read_table_k known cf sh) (read_table_k known (plain_of cf) (fill_sheet sh)).
Proof. intros Hw Hl Hs. apply (ladder_equiv_gen known cf sh w); auto. Qed.

(* the faithful model violates the statement for stop_on = "blank first" *)
Definition int_conv : conv := mkConv KInt None None None.
Definition refute_cf : config :=
  mkConfig [RPlain [89] int_conv None; RPlain [77] int_conv None; RPlain [73] int_conv None]
           0 blank_first true.
Definition refute_sheet : list (list cval) :=
  [ [CStr [89]; CStr [77]; CStr [73]];
    [CInt 2019; CInt 11; CInt 1];
    [CNone; CInt 12; CInt 2];
    [CInt 2020; CInt 1; CInt 3] ].

Lemma ladder_blank_first_refuted_l :
  exists cf sh w,
    Forall (fun vs => length vs = w) sh /\ cf_ladder cf = true /\ stop_first cf = true /\
    length (fst (read_table cf sh)) = 1%nat /\
    length (fst (read_table (plain_of cf) (fill_sheet sh))) = 3%nat /\
    snd (read_table cf sh) = None /\ snd (read_table (plain_of cf) (fill_sheet sh)) = None.
Proof.
  exists refute_cf, refute_sheet, 3%nat. split; [repeat constructor|].
  vm_compute. repeat split; reflexivity.
Qed.

(* ------------------------------------------------------------------ *)
(* stop_on = "blank first" with the ladder starting in the first sheet column: the ladder
   reading is a prefix of the reading of the filled-in table (finding ladder-blank-first)      *)

(* b continues a: same items, then possibly more; a either agrees with b to the end or ended
   without an exception *)
Definition out_prefix_g {X V : Type} (vals : X -> V) (a b : list X * option err) : Prop :=
  exists rest, map vals (fst b) = map vals (fst a) ++ rest /\
               ((rest = [] /\ snd a = snd b) \/ snd a = None).
Definition out_prefix (a b : list (option obj) * option err) : Prop := out_prefix_g item_vals a b.

Lemma out_sim_prefix {X V : Type} (vals : X -> V) a b : out_sim_g vals a b -> out_prefix_g vals a b.
Proof. intros [H1 H2]. exists []. rewrite app_nil_r. auto. Qed.

Lemma iter_gen_prefix {X V : Type} (vals : X -> V) cf (ctor : list cell -> res X) :
  cf_ladder cf = true -> stop_first cf = true ->
  forall vrows r0 prevL prevP,
    out_prefix_g vals (iter_gen cf ctor (Some 0%nat) prevL (index_rows r0 vrows))
                 (iter_gen (plain_of cf) ctor (Some 0%nat) prevP
                           (index_rows r0 (vfill_body 0 (option_map (map c_val) prevL) vrows))).
Proof.
  intros Hlad Hstop. induction vrows as [|vs vrows IH]; intros r0 prevL prevP.
  - apply out_sim_prefix. split; reflexivity.
  - cbn [vfill_body]. destruct (vrow_blank vs) eqn:Eb.
    + (* a wholly blank row ends the table in both readings (or raises in both) *)
      apply out_sim_prefix.
      cbn [index_rows iter_gen]. rewrite !is_end_index.
      assert (Hv : vis_end (plain_of cf) vs = vis_end cf vs) by reflexivity. rewrite Hv.
      destruct (vis_end cf vs) as [[|]|e] eqn:Ee; try (split; reflexivity).
      exfalso. unfold vis_end in Ee. rewrite Hstop in Ee. destruct vs as [|v vs']; [discriminate|].
      unfold vrow_blank in Eb. cbn in Eb. apply andb_prop in Eb as [Ev _]. rewrite Ev in Ee. discriminate.
    + destruct vs as [|v vs']; [discriminate|].
      destruct (val_empty v) eqn:Ev.
      * (* "same as above" in the first column: the ladder reading ends here *)
        cbn [index_rows iter_gen index_row]. unfold is_end at 1. rewrite Hstop.
        unfold cell_empty. cbn [c_val]. rewrite Ev.
        eexists. cbn [fst snd map app]. split; [reflexivity|]. right. reflexivity.
      * (* first cell not blank: no substitution, both readings work on the sheet row itself *)
        assert (Hcurv : match option_map (map c_val) prevL with
                        | None => v :: vs' | Some p => vfill_row 0 p (v :: vs') end = v :: vs').
        { destruct prevL as [p|]; cbn [option_map]; [|reflexivity].
          unfold vfill_row. cbn [firstn skipn app vfill_from]. rewrite Ev. reflexivity. }
        rewrite Hcurv.
        cbn [index_rows iter_gen]. rewrite !is_end_index.
        assert (Hv : vis_end (plain_of cf) (v :: vs') = vis_end cf (v :: vs')) by reflexivity. rewrite Hv.
        unfold vis_end. rewrite Hstop, Ev.
        unfold cur_row. cbn [cf_ladder plain_of]. rewrite Hlad.
        assert (Hcur : (match prevL with
                        | Some p => fill_row 0 p (index_row r0 0 (v :: vs'))
                        | None => Ok (index_row r0 0 (v :: vs')) end) = Ok (index_row r0 0 (v :: vs'))).
        { destruct prevL as [p|]; [|reflexivity].
          unfold fill_row. cbn [index_row skipn firstn fill_from]. unfold cell_empty. cbn [c_val].
          rewrite Ev. reflexivity. }
        rewrite Hcur.
        destruct (ctor (index_row r0 0 (v :: vs'))) as [o|e].
        -- specialize (IH (S r0) (Some (index_row r0 0 (v :: vs'))) (Some (index_row r0 0 (v :: vs')))).
           cbn [option_map] in IH. rewrite map_cval_index_row in IH.
           destruct IH as [rest [IH1 IH2]].
           destruct (iter_gen cf ctor (Some 0%nat) (Some (index_row r0 0 (v :: vs'))) (index_rows (S r0) vrows))
             as [os e1].
           destruct (iter_gen (plain_of cf) ctor (Some 0%nat) (Some (index_row r0 0 (v :: vs'))) _) as [os' e2].
           unfold out_prefix_g. cbn [fst snd map] in *. exists rest. rewrite IH1. split; [reflexivity|exact IH2].
        -- apply out_sim_prefix. split; reflexivity.
Qed.

Lemma read_cells_prefix known cf :
  cf_ladder cf = true -> stop_first cf = true ->
  forall sh r0,
    (forall t tvs, find_title sh r0 = Some (t, tvs) -> first_some_pos (map val_title tvs) 0 = Some 0%nat) ->
    out_prefix (read_cells_k known cf (index_rows r0 sh))
               (read_cells_k known (plain_of cf) (index_rows r0 (fill_sheet sh))).
Proof.
  intros Hlad Hstop. induction sh as [|vs rest IH]; intros r0 Hg.
  - apply out_sim_prefix. split; reflexivity.
  - cbn [fill_sheet find_title] in *. destruct (vrow_blank vs) eqn:Eb.
    + unfold read_cells_k. cbn [index_rows skip_blank]. rewrite !row_empty_index, Eb.
      apply (IH (S r0)). exact Hg.
    + unfold read_cells_k. cbn [index_rows skip_blank]. rewrite !row_empty_index, Eb.
      rewrite !titles_of_index. cbn [cf_rules plain_of].
      destruct (bind_all_k known (cf_rules cf) (map val_title vs)) as [bs|e];
        [|apply out_sim_prefix; split; reflexivity].
      rewrite (Hg r0 vs eq_refl).
      rewrite !iter_rows_gen. cbn [cf_rules cf_nid plain_of].
      apply (iter_gen_prefix item_vals cf _ Hlad Hstop rest (S r0) None None).
Qed.

(* For every ladder reading (both end rules): the items are a prefix of the items of the filled-in
   table read plainly; either the two readings agree to the end (same exception, if any), or
   stop_on = "blank first", the ladder starts in the first sheet column, and the ladder reading
   ended without an exception (by rows_in_order: at a row whose first cell is blank). *)
Lemma ladder_prefix_l known cf sh w :
  Forall (fun vs => length vs = w) sh -> cf_ladder cf = true ->
  exists rest,
    map item_vals (fst (read_table_k known (plain_of cf) (fill_sheet sh))) =
    map item_vals (fst (read_table_k known cf sh)) ++ rest /\
    ((rest = [] /\ snd (read_table_k known cf sh) = snd (read_table_k known (plain_of cf) (fill_sheet sh))) \/
     (stop_first cf = true /\ first_some_pos (sheet_titles sh) 0 = Some 0%nat /\
      snd (read_table_k known cf sh) = None)).
Proof.
  intros Hw Hlad.
  destruct (stop_first cf) eqn:Hstop.
  2:{ destruct (ladder_equiv_gen known cf sh w Hw Hlad (or_introl Hstop)) as [H1 H2].
      exists []. rewrite app_nil_r. auto. }
  destruct (first_some_pos (sheet_titles sh) 0) as [[|f]|] eqn:Ef.
  - assert (Hp : out_prefix (read_table_k known cf sh) (read_table_k known (plain_of cf) (fill_sheet sh))).
    { unfold read_table_k, index_sheet. apply (read_cells_prefix known cf Hlad Hstop sh 0).
      intros t tvs Ht. unfold sheet_titles, title_row in Ef. rewrite Ht in Ef. exact Ef. }
    destruct Hp as [rest [H1 [H2|H2]]]; exists rest; auto.
  - destruct (ladder_equiv_gen known cf sh w Hw Hlad) as [H1 H2]; [right; rewrite Ef; discriminate|].
    exists []. rewrite app_nil_r. auto.
  - destruct (ladder_equiv_gen known cf sh w Hw Hlad) as [H1 H2]; [right; rewrite Ef; discriminate|].
    exists []. rewrite app_nil_r. auto.
Qed.

(* the same for a reader with several rule sets *)
Lemma read_cells_m_prefix mc :
  mc_ladder mc = true -> stop_first (mc_loop mc) = true ->
  forall sh r0,
    (forall t tvs, find_title sh r0 = Some (t, tvs) -> first_some_pos (map val_title tvs) 0 = Some 0%nat) ->
    out_prefix_g tuple_vals (read_cells_m mc (index_rows r0 sh))
                 (read_cells_m (plain_m mc) (index_rows r0 (fill_sheet sh))).
Proof.
  intros Hlad Hstop. induction sh as [|vs rest IH]; intros r0 Hg.
  - apply out_sim_prefix. split; reflexivity.
  - cbn [fill_sheet find_title] in *. destruct (vrow_blank vs) eqn:Eb.
    + unfold read_cells_m. cbn [index_rows skip_blank]. rewrite !row_empty_index, Eb.
      apply (IH (S r0)). exact Hg.
    + unfold read_cells_m. cbn [index_rows skip_blank]. rewrite !row_empty_index, Eb.
      rewrite !titles_of_index. cbn [mc_objs plain_m].
      destruct (bind_objs (known_all (mc_objs mc)) (map val_title vs) (mc_objs mc)) as [bss|e];
        [|apply out_sim_prefix; split; reflexivity].
      rewrite (Hg r0 vs eq_refl).
      rewrite !iter_rows_m_gen. cbn [mc_objs plain_m].
      change (mc_loop (plain_m mc)) with (plain_of (mc_loop mc)).
      apply (iter_gen_prefix tuple_vals (mc_loop mc) _ Hlad Hstop rest (S r0) None None).
Qed.

Lemma ladder_prefix_m_l mc sh w :
  Forall (fun vs => length vs = w) sh -> mc_ladder mc = true ->
  exists rest,
    map tuple_vals (fst (read_table_m (plain_m mc) (fill_sheet sh))) =
    map tuple_vals (fst (read_table_m mc sh)) ++ rest /\
    ((rest = [] /\ snd (read_table_m mc sh) = snd (read_table_m (plain_m mc) (fill_sheet sh))) \/
     (stop_first (mc_loop mc) = true /\ first_some_pos (sheet_titles sh) 0 = Some 0%nat /\
      snd (read_table_m mc sh) = None)).
Proof.
  intros Hw Hlad.
  destruct (stop_first (mc_loop mc)) eqn:Hstop.
  2:{ destruct (ladder_equiv_m_gen mc sh w Hw Hlad (or_introl Hstop)) as [H1 H2].
      exists []. rewrite app_nil_r. auto. }
  destruct (first_some_pos (sheet_titles sh) 0) as [[|f]|] eqn:Ef.
  - assert (Hp : out_prefix_g tuple_vals (read_table_m mc sh) (read_table_m (plain_m mc) (fill_sheet sh))).
    { unfold read_table_m, index_sheet. apply (read_cells_m_prefix mc Hlad Hstop sh 0).
      intros t tvs Ht. unfold sheet_titles, title_row in Ef. rewrite Ht in Ef. exact Ef. }
    destruct Hp as [rest [H1 [H2|H2]]]; exists rest; auto.
  - destruct (ladder_equiv_m_gen mc sh w Hw Hlad) as [H1 H2]; [right; rewrite Ef; discriminate|].
    exists []. rewrite app_nil_r. auto.
  - destruct (ladder_equiv_m_gen mc sh w Hw Hlad) as [H1 H2]; [right; rewrite Ef; discriminate|].
    exists []. rewrite app_nil_r. auto.
Qed.

(* ------------------------------------------------------------------ *)
(* ladder_origins                                                      *)

Lemma nth_error_firstn' {A} : forall n (l : list A) i, (i < n)%nat -> nth_error (firstn n l) i = nth_error l i.
Proof.
  induction n as [|n IH]; intros l i Hi; [lia|]. destruct l as [|x l]; [reflexivity|].
  destruct i as [|i]; [reflexivity|]. cbn. apply IH. lia.
Qed.

Lemma nth_error_skipn' {A} : forall n (l : list A) k, nth_error (skipn n l) k = nth_error l (n + k).
Proof.
  induction n as [|n IH]; intros l k; [reflexivity|]. destruct l as [|x l]; [destruct k; reflexivity|].
  cbn. apply IH.
Qed.

Lemma nth_error_ext' {A} : forall (l l' : list A), (forall k, nth_error l k = nth_error l' k) -> l = l'.
Proof.
  induction l as [|x l IH]; intros [|y l'] H.
  - reflexivity.
  - specialize (H 0%nat). discriminate.
  - specialize (H 0%nat). discriminate.
  - pose proof (H 0%nat) as H0. cbn in H0. injection H0 as ->. f_equal. apply IH.
    intros k. exact (H (S k)).
Qed.

Lemma fill_from_keep : forall cur prev r i y,
  fill_from prev cur = Ok r -> nth_error cur i = Some y -> cell_empty y = false ->
  nth_error r i = Some y.
Proof.
  induction cur as [|c cs IH]; intros prev r i y H Hi Hy; [destruct i; discriminate|].
  cbn [fill_from] in H. destruct (cell_empty c) eqn:E.
  - destruct prev as [|p ps]; [discriminate|].
    destruct (fill_from ps cs) as [r'|e] eqn:E2; [|discriminate]. injection H as <-.
    destruct i as [|i]; cbn in Hi |- *.
    + injection Hi as <-. congruence.
    + eapply IH; eauto.
  - injection H as <-. exact Hi.
Qed.

Lemma fill_row_keep f prev cur r i y :
  fill_row f prev cur = Ok r -> nth_error cur i = Some y -> cell_empty y = false ->
  nth_error r i = Some y.
Proof.
  unfold fill_row. intros H Hi Hy.
  destruct (fill_from (skipn f prev) (skipn f cur)) as [r'|e] eqn:E; [|discriminate].
  injection H as <-.
  assert (Hlen : (i < length cur)%nat) by (apply nth_error_Some; congruence).
  destruct (Nat.lt_ge_cases i f) as [Hlt|Hge].
  - rewrite nth_error_app1 by (rewrite firstn_length; lia).
    rewrite nth_error_firstn' by exact Hlt. exact Hi.
  - rewrite nth_error_app2 by (rewrite firstn_length; lia).
    rewrite firstn_length, Nat.min_l by lia.
    eapply fill_from_keep; [exact E| |exact Hy].
    rewrite nth_error_skipn'. replace (f + (i - f))%nat with i by lia. exact Hi.
Qed.

Lemma vis_end_nonblank cf vs : vis_end cf vs = Ok false -> vrow_blank vs = false.
Proof.
  unfold vis_end. destruct (stop_first cf).
  - destruct vs as [|v vs]; [discriminate|]. intros H. injection H as H.
    unfold vrow_blank. cbn. rewrite H. reflexivity.
  - intros H. injection H as H. exact H.
Qed.

Lemma run_ladder_inv cf bs f w :
  cf_ladder cf = true ->
  forall vrows r0 prev tr e,
    Forall (fun vs => length vs = w) vrows ->
    (forall p, prev = Some p -> length p = w) ->
    run_ok cf bs (Some f) prev (index_rows r0 vrows) tr e ->
    forall j st, nth_error tr j = Some st ->
      nth_error (vfill_body f (option_map (map c_val) prev) vrows) j = Some (map c_val (st_cur st)) /\
      (forall c y, nth_error (st_raw st) c = Some y -> cell_empty y = false ->
                   nth_error (st_cur st) c = Some y).
Proof.
  intros Hlad. induction vrows as [|vs vrows IH]; intros r0 prev tr e Hw Hp Hrun j st Hj.
  - cbn in Hrun. inversion Hrun; subst. destruct j; discriminate.
  - cbn [index_rows] in Hrun. inversion Hw as [|? ? Hw1 Hw2]; subst.
    inversion Hrun; subst; try (destruct j; discriminate).
    match goal with H : is_end _ _ = Ok false |- _ => rename H into Hend end.
    match goal with H : cur_row _ _ _ _ = Ok cur |- _ => rename H into Hc end.
    match goal with H : run_gen _ _ _ (Some cur) _ _ _ |- _ => rename H into Hr end.
    rewrite is_end_index in Hend. apply vis_end_nonblank in Hend.
    cbn [vfill_body]. rewrite Hend.
    unfold cur_row in Hc. rewrite Hlad in Hc.
    assert (Hcur : map c_val cur = match option_map (map c_val) prev with
                                   | None => vs | Some p => vfill_row f p vs end /\
                   length cur = length vs /\
                   (forall c y, nth_error (index_row r0 0 vs) c = Some y -> cell_empty y = false ->
                                nth_error cur c = Some y)).
    { destruct prev as [p|]; cbn [option_map].
      - destruct (fill_row_vals f p (index_row r0 0 vs)) as [r [H1 [H2 H3]]].
        { rewrite index_row_length. rewrite (Hp p eq_refl). reflexivity. }
        rewrite H1 in Hc. injection Hc as <-.
        rewrite map_cval_index_row in H2. rewrite index_row_length in H3.
        repeat split; auto. intros c y Hy1 Hy2. eapply fill_row_keep; eauto.
      - injection Hc as <-. rewrite map_cval_index_row, index_row_length. auto. }
    destruct Hcur as [Hc1 [Hc2 Hc3]].
    destruct j as [|j]; cbn in Hj.
    + injection Hj as <-. cbn [st_cur st_raw nth_error]. rewrite Hc1. auto.
    + cbn [nth_error]. rewrite <- Hc1.
      apply (IH (S r0) (Some cur) tr0 e Hw2); auto.
      intros p Hq. injection Hq as <-. exact Hc2.
Qed.

(* rows of the filled-in sheet below the title row *)
Lemma fill_sheet_body : forall sh r0 t tvs f,
  find_title sh r0 = Some (t, tvs) -> first_some_pos (map val_title tvs) 0 = Some f ->
  forall k, nth_error (fill_sheet sh) (S (t - r0) + k) =
            nth_error (vfill_body f None (skipn (S (t - r0)) sh)) k.
Proof.
  induction sh as [|vs rest IH]; intros r0 t tvs f Ht Hf k; [discriminate|].
  cbn [find_title fill_sheet] in *. destruct (vrow_blank vs).
  - pose proof (skip_blank_find rest (S r0)) as Hs. rewrite Ht in Hs.
    destruct Hs as [_ [_ [Hle _]]].
    replace (t - r0)%nat with (S (t - S r0)) by lia.
    cbn [Nat.add nth_error skipn]. apply (IH (S r0) t tvs f Ht Hf).
  - injection Ht as <- <-. rewrite Nat.sub_diag. cbn [Nat.add nth_error skipn]. rewrite Hf. reflexivity.
Qed.

Lemma skipn_Forall {A} (P : A -> Prop) n : forall l, Forall P l -> Forall P (skipn n l).
Proof.
  induction n as [|n IH]; intros l H; [exact H|]. destruct l; [constructor|].
  inversion H; subst. cbn. apply IH. assumption.
Qed.

Lemma assoc_get_in {A} k (v : A) : forall d, assoc_get k d = Some v -> In (k, v) d.
Proof.
  induction d as [|[k' v'] d IH]; intros H; [discriminate|]. cbn [assoc_get] in H.
  destruct (str_eqb k k') eqn:E.
  - apply str_eqb_eq in E. subst k'. injection H as ->. left. reflexivity.
  - right. apply IH. exact H.
Qed.

(* In a ladder reading, every origin (r, c) of the object of sheet row R = t+1+j -- the origin of
   a single-cell attribute, or the origin recorded under some key of a ranged attribute -- is a
   cell with title+1 <= r <= R that holds exactly what the filled-in table has at (R, c); and it
   is the object's own cell (r = R) whenever that cell is not blank. *)
Lemma ladder_origins_l known cf sh w items e t tvs j o i v og r c :
  Forall (fun vs => length vs = w) sh ->
  cf_ladder cf = true ->
  read_table_k known cf sh = (items, e) ->
  title_row sh = Some (t, tvs) ->
  nth_error items j = Some (Some o) ->
  nth_error (o_attrs o) i = Some (v, og) ->
  (og = OCell r c \/ exists d k, og = ORange d /\ assoc_get k d = Some (r, c)) ->
  (S t <= r <= S t + j)%nat /\
  (exists x, cell_at sh r c = Some x /\ cell_at (fill_sheet sh) (S t + j) c = Some x) /\
  (forall y, cell_at sh (S t + j) c = Some y -> val_empty y = false -> r = (S t + j)%nat).
Proof.
  intros Hw Hlad Hread Ht Hj Hi Hog.
  pose proof (read_table_run known cf sh) as H. rewrite Ht in H.
  destruct H as [H1 [H2 [H3 H4]]]. cbv zeta in H4.
  destruct (bind_all_k known (cf_rules cf) (map val_title tvs)) as [bs|e0] eqn:Eb.
  2:{ rewrite H4 in Hread. injection Hread as <- <-. destruct j; discriminate. }
  destruct H4 as [body [tr [e1 [Hb [Hrun Hr]]]]]. rewrite Hr in Hread.
  injection Hread as <- <-. rewrite nth_error_map in Hj.
  destruct (nth_error tr j) as [st|] eqn:Est; [|discriminate]. cbn in Hj. injection Hj as Hj.
  assert (Hnone : forall p : list cell, @None (list cell) = Some p -> row_ok sh (S t) (S t) 0 p)
    by (intros p Hp; discriminate).
  destruct (run_inv sh (S t) cf _ _ body (S t) None tr e1 Hb (le_n _) Hnone Hrun j st Est)
    as [[vs [Hvs Hraw]] Hrow].
  destruct (run_construct _ _ _ _ _ _ _ Hrun j st Est) as [_ Hc]. rewrite Hj in Hc.
  pose proof (construct_ok _ _ _ _ _ _ _ Eb Hc) as Hok.
  (* the body rows are the sheet rows below the title *)
  assert (Hbody : body = skipn (S t) sh).
  { apply nth_error_ext'. intros k. rewrite Hb, nth_error_skipn'. reflexivity. }
  destruct (first_some_pos_nonblank tvs 0 H2) as [f Hf].
  rewrite Hf in Hrun.
  assert (Hwb : Forall (fun vs => length vs = w) body) by (rewrite Hbody; apply skipn_Forall; exact Hw).
  assert (Hnone' : forall p : list cell, @None (list cell) = Some p -> length p = w)
    by (intros p Hp; discriminate).
  destruct (run_ladder_inv cf bs f w Hlad body (S t) None tr e1 Hwb Hnone' Hrun j st Est)
    as [Hfill Hkeep].
  cbn [option_map] in Hfill.
  (* the claim for any cell x of the row handed to construct *)
  assert (Core : forall idx x, nth_error (st_cur st) idx = Some x ->
            (S t <= c_row x <= S t + j)%nat /\
            (exists xv, cell_at sh (c_row x) (c_col x) = Some xv /\
                        cell_at (fill_sheet sh) (S t + j) (c_col x) = Some xv) /\
            (forall y, cell_at sh (S t + j) (c_col x) = Some y -> val_empty y = false ->
                       c_row x = (S t + j)%nat)).
  { intros idx x Hx1.
    destruct (row_ok_nth _ _ _ _ _ _ _ Hrow Hx1) as [G1 [G2 G3]]. cbn in G2.
    assert (Hx1' : nth_error (st_cur st) (c_col x) = Some x) by (rewrite G2; exact Hx1).
    split; [exact G3|]. split.
    - exists (c_val x). split; [exact G1|].
      unfold cell_at.
      pose proof (fill_sheet_body sh 0 t tvs f Ht Hf j) as Hfs. rewrite Nat.sub_0_r in Hfs.
      rewrite Hfs, <- Hbody, Hfill. rewrite nth_error_map, Hx1'. reflexivity.
    - intros y Hy Hne. unfold cell_at in Hy. rewrite Hvs in Hy.
      assert (Hy' : nth_error (st_raw st) (c_col x) = Some (mkCell (S t + j) (c_col x) y)).
      { rewrite Hraw. clear - Hy. revert Hy. generalize (c_col x) as cc. intros cc Hy.
        assert (G : forall R ws c0 k, nth_error ws k = Some y ->
                    nth_error (index_row R c0 ws) k = Some (mkCell R (c0 + k) y)).
        { clear. intros R. induction ws as [|v ws IH]; intros c0 [|k] H; cbn in H; try discriminate.
          - injection H as ->. cbn. rewrite Nat.add_0_r. reflexivity.
          - cbn [index_row nth_error]. rewrite (IH (S c0) k H). f_equal. f_equal. lia. }
        apply (G (S t + j)%nat vs 0%nat cc Hy). }
      rewrite (Hkeep _ _ Hy' Hne) in Hx1'. injection Hx1' as Hx. rewrite <- Hx. reflexivity. }
  (* the attribute *)
  destruct (Forall2_nth_r _ _ _ _ _ Hok Hi) as [ru [_ Ha]].
  unfold attr_ok in Ha. cbn [snd fst] in Ha.
  destruct Hog as [->|[d [k [-> Hk]]]].
  - destruct ru as [col cv def|d|isd cv hd]; try contradiction.
    destruct Ha as [idx [x [sv [Hx1 [Hx2 [Hx3 _]]]]]].
    destruct (Core idx x Hx1) as [C1 [C2 C3]]. rewrite Hx2, Hx3 in *. auto.
  - destruct ru as [col cv def|d0|isd cv hd]; try contradiction.
    destruct Ha as [ids [cells [_ [Hcells [_ ->]]]]].
    apply assoc_get_in, dict_of_in, in_combine_r in Hk.
    apply in_map_iff in Hk as [x [Hx Hin]]. unfold cpos in Hx. injection Hx as Hx2 Hx3.
    apply In_nth_error in Hin as [n Hn].
    destruct (Forall2_nth_r _ _ _ _ _ Hcells Hn) as [idx [_ Hx1]].
    destruct (Core idx x Hx1) as [C1 [C2 C3]]. rewrite Hx2, Hx3 in *. auto.
Qed.
