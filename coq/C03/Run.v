(* C03/Run.v -- correspondence entry points of C03.
   [Grammar]: the constructor (factorization, tables, left-recursion check) and
   the raw parse of each token list, exactly as C01.Run does (same argument
   order, so harness/props/llp_common.py:coq_case serves both).
   [Ctors]: constructor outcome only, for a batch of grammars over a common
   terminal set (used by the exhaustive small-grammar sweep). *)
From Coq Require Import ZArith List Bool.
From AK Require Export LLP.Build.
Import ListNotations.

(* outcome of LLParser.__init__ as far as C03 is concerned: the pipeline of
   LLP/Build.v:build without the FIRST/FOLLOW tables (they cannot fail) *)
Definition ctor_outcome (ug : list (sym * list (list sym))) (terminals : list sym) (smart : bool) : res unit :=
  bind (factorize ug terminals smart) (fun '(g, _) =>
    rec_check g (terminals ++ [END_TOKEN]) (nullables g)).

Inductive case :=
| Grammar (ug : list (sym * list (list sym))) (terminals : list sym) (smart : bool) (start : sym)
          (fuel : nat) (inputs : list (list (sym * list Z)))
| Ctors (terminals : list sym) (gs : list (list (sym * list (list sym)) * bool)).

Definition run (c : case) : sx :=
  match c with
  | Grammar ug terminals smart start fuel inputs =>
      match build ug terminals smart start with
      | Err e => SL [SZ 1; SZ (err_code e)]
      | Ok p =>
          SL [SZ 0; sx_bool (is_ambiguous (p_tables p));
              SL (map (fun inp => sx_res sx_tree (p_parse p fuel (mk_toks inp))) inputs)]
      end
  | Ctors terminals gs =>
      SL (map (fun '(ug, smart) =>
                 match ctor_outcome ug terminals smart with
                 | Ok _ => SZ 0
                 | Err e => SZ (err_code e)
                 end) gs)
  end.
