(* C02/LemBase.v -- list-as-set, association-list and iteration lemmas used by
   the exactness proofs of nullable / FIRST / FOLLOW. *)
From Coq Require Import ZArith List Bool Lia.
From AK Require Import Common.Err LLP.Base LLP.Table C02.Model.
Import ListNotations.

(* ---------------- symbols ---------------- *)
Lemma sym_eqb_eq : forall a b : sym, sym_eqb a b = true <-> a = b.
Proof.
  induction a as [|x a IH]; destruct b as [|y b]; simpl; split; intro H;
    try reflexivity; try discriminate.
  - apply andb_true_iff in H. destruct H as [H1 H2].
    apply Z.eqb_eq in H1. apply IH in H2. subst. reflexivity.
  - inversion H; subst. rewrite Z.eqb_refl. simpl. apply IH. reflexivity.
Qed.

Lemma sym_eqb_refl : forall a : sym, sym_eqb a a = true.
Proof. intro a. apply sym_eqb_eq. reflexivity. Qed.

Lemma sym_eqb_neq : forall a b : sym, sym_eqb a b = false <-> a <> b.
Proof.
  intros a b. split; intro H.
  - intro E. apply sym_eqb_eq in E. congruence.
  - destruct (sym_eqb a b) eqn:E; auto. apply sym_eqb_eq in E. contradiction.
Qed.

Lemma sym_eq_dec : forall a b : sym, {a = b} + {a <> b}.
Proof.
  intros a b. destruct (sym_eqb a b) eqn:E.
  - left. apply sym_eqb_eq. exact E.
  - right. apply sym_eqb_neq. exact E.
Qed.

Lemma mem_In : forall s l, mem s l = true <-> In s l.
Proof.
  intros s l. unfold mem. rewrite existsb_exists. split.
  - intros [x [Hx E]]. apply sym_eqb_eq in E. subst. exact Hx.
  - intro H. exists s. split; auto. apply sym_eqb_refl.
Qed.

Lemma mem_false : forall s l, mem s l = false <-> ~ In s l.
Proof.
  intros s l. split; intro H.
  - intro HI. apply mem_In in HI. congruence.
  - destruct (mem s l) eqn:E; auto. apply mem_In in E. contradiction.
Qed.

(* ---------------- add_set / union_set ---------------- *)
Lemma add_set_In : forall x s l, In x (add_set s l) <-> x = s \/ In x l.
Proof.
  intros x s l. unfold add_set. destruct (mem s l) eqn:E.
  - apply mem_In in E. split; [auto|]. intros [->|H]; auto.
  - rewrite in_app_iff. simpl. split; [intros [H|[H|[]]]; auto | intros [H|H]; auto].
Qed.

Lemma add_set_ext : forall s l, exists e, add_set s l = l ++ e.
Proof.
  intros s l. unfold add_set. destruct (mem s l).
  - exists []. rewrite app_nil_r. reflexivity.
  - exists [s]. reflexivity.
Qed.

Lemma NoDup_snoc : forall (s : sym) l, NoDup l -> ~ In s l -> NoDup (l ++ [s]).
Proof.
  intros s l. induction l as [|x l IH]; simpl; intros H N.
  - constructor; [auto | constructor].
  - inversion H; subst. constructor.
    + rewrite in_app_iff. simpl. intros [A|[A|[]]]; auto.
    + apply IH; auto.
Qed.

Lemma add_set_NoDup : forall s l, NoDup l -> NoDup (add_set s l).
Proof.
  intros s l H. unfold add_set. destruct (mem s l) eqn:E; auto.
  apply mem_false in E. apply NoDup_snoc; auto.
Qed.

Lemma union_set_In : forall x b a, In x (union_set a b) <-> In x a \/ In x b.
Proof.
  intros x b. unfold union_set. induction b as [|s b IH]; simpl; intro a.
  - tauto.
  - rewrite IH. rewrite add_set_In. split; [intros [[H|H]|H]; auto | intros [H|[H|H]]; auto].
Qed.

Lemma union_set_ext : forall b a, exists e, union_set a b = a ++ e.
Proof.
  unfold union_set. induction b as [|s b IH]; simpl; intro a.
  - exists []. rewrite app_nil_r. reflexivity.
  - destruct (add_set_ext s a) as [e1 E1]. destruct (IH (add_set s a)) as [e2 E2].
    exists (e1 ++ e2). rewrite E2, E1. rewrite app_assoc. reflexivity.
Qed.

Lemma union_set_NoDup : forall b a, NoDup a -> NoDup (union_set a b).
Proof.
  unfold union_set. induction b as [|s b IH]; simpl; intros a H; auto.
  apply IH. apply add_set_NoDup. exact H.
Qed.

(* ---------------- association lists of sets ---------------- *)
Lemma sm_set_keys : forall m k v, map fst (sm_set m k v) = map fst m.
Proof.
  induction m as [|[k0 w] m IH]; simpl; intros k v; auto.
  destruct (sym_eqb k0 k); simpl; [reflexivity|]. rewrite IH. reflexivity.
Qed.

Lemma sm_get_set_same : forall m k v, In k (map fst m) -> sm_get (sm_set m k v) k = v.
Proof.
  induction m as [|[k0 w] m IH]; simpl; intros k v H; [contradiction|].
  destruct (sym_eqb k0 k) eqn:E; simpl.
  - rewrite E. reflexivity.
  - rewrite E. apply IH. destruct H as [H|H]; auto.
    apply sym_eqb_neq in E. contradiction.
Qed.

Lemma sm_get_set_other : forall m k v k', k <> k' -> sm_get (sm_set m k v) k' = sm_get m k'.
Proof.
  induction m as [|[k0 w] m IH]; simpl; intros k v k' N; auto.
  destruct (sym_eqb k0 k) eqn:E; simpl.
  - apply sym_eqb_eq in E. subst k0.
    destruct (sym_eqb k k') eqn:E2; auto. apply sym_eqb_eq in E2. contradiction.
  - destruct (sym_eqb k0 k'); auto.
Qed.

Lemma sm_set_notin : forall m k v, ~ In k (map fst m) -> sm_set m k v = m.
Proof.
  induction m as [|[k0 w] m IH]; simpl; intros k v N; auto.
  destruct (sym_eqb k0 k) eqn:E.
  - apply sym_eqb_eq in E. subst. exfalso. apply N. auto.
  - rewrite IH; auto.
Qed.

Lemma sm_get_set_cases : forall m k v k',
  (k = k' /\ In k (map fst m) /\ sm_get (sm_set m k v) k' = v) \/ sm_get (sm_set m k v) k' = sm_get m k'.
Proof.
  intros m k v k'. destruct (sym_eq_dec k k') as [E|N].
  - subst k'. destruct (in_dec sym_eq_dec k (map fst m)) as [I|NI].
    + left. split; auto. split; auto. apply sm_get_set_same. exact I.
    + right. rewrite sm_set_notin; auto.
  - right. apply sm_get_set_other. exact N.
Qed.

Lemma sm_get_notin : forall m k, ~ In k (map fst m) -> sm_get m k = [].
Proof.
  induction m as [|[k0 w] m IH]; simpl; intros k N; auto.
  destruct (sym_eqb k0 k) eqn:E.
  - apply sym_eqb_eq in E. subst. exfalso. apply N. auto.
  - apply IH. intro H. apply N. auto.
Qed.

Lemma sm_get_In : forall m k, In k (map fst m) -> In (k, sm_get m k) m.
Proof.
  induction m as [|[k0 w] m IH]; simpl; intros k H; [contradiction|].
  destruct (sym_eqb k0 k) eqn:E.
  - apply sym_eqb_eq in E. subst. left. reflexivity.
  - right. apply IH. destruct H as [H|H]; auto. apply sym_eqb_neq in E. contradiction.
Qed.

Lemma sm_get_map_init : forall (h : sym -> list sym) (g : grammar) k,
  (forall a b, a = b -> h a = h b) ->
  sm_get (map (fun kv => (fst kv, h (fst kv))) g) k = if mem k (gkeys g) then h k else [].
Proof.
  intros h g k Hh. induction g as [|[k0 rs] g IH]; simpl; auto.
  rewrite IH. unfold mem at 1. simpl.
  destruct (sym_eqb k0 k) eqn:E.
  - apply sym_eqb_eq in E. subst. rewrite sym_eqb_refl. simpl. reflexivity.
  - assert (E2 : sym_eqb k k0 = false).
    { apply sym_eqb_neq. apply sym_eqb_neq in E. congruence. }
    rewrite E2. simpl. reflexivity.
Qed.

(* extension: same keys, every set only grows at its end *)
Definition ext (m m' : setmap) : Prop :=
  Forall2 (fun a b => fst a = fst b /\ exists e, snd b = snd a ++ e) m m'.

Lemma ext_refl : forall m, ext m m.
Proof.
  induction m as [|a m IH]; constructor; auto.
  split; auto. exists []. rewrite app_nil_r. reflexivity.
Qed.

Lemma ext_trans : forall a b c, ext a b -> ext b c -> ext a c.
Proof.
  intros a b c H. revert c. induction H as [|x y a b [K [e E]] H IH]; intros c H2.
  - inversion H2. constructor.
  - inversion H2 as [|y' z b' c' [K2 [e2 E2]] H3]; subst. constructor.
    + split; [congruence|]. exists (e ++ e2). rewrite E2, E. rewrite app_assoc. reflexivity.
    + apply IH. exact H3.
Qed.

Lemma ext_sm_set : forall m k v, (exists e, v = sm_get m k ++ e) -> ext m (sm_set m k v).
Proof.
  induction m as [|[k0 w] m IH]; simpl; intros k v H.
  - constructor.
  - destruct (sym_eqb k0 k) eqn:E.
    + constructor; [|apply ext_refl]. simpl. split; [reflexivity|]. exact H.
    + constructor; [|apply IH; exact H]. simpl. split; [reflexivity|]. exists []. rewrite app_nil_r. reflexivity.
Qed.

Lemma ext_keys : forall m m', ext m m' -> map fst m' = map fst m.
Proof.
  intros m m' H. induction H as [|x y a b [K _] H IH]; simpl; auto. rewrite IH, K. reflexivity.
Qed.

Lemma ext_get : forall m m' k, ext m m' -> exists e, sm_get m' k = sm_get m k ++ e.
Proof.
  intros m m' k H. induction H as [|[k1 v1] [k2 v2] a b [K [e E]] H IH]; simpl in *.
  - exists []. reflexivity.
  - subst k2. destruct (sym_eqb k1 k).
    + exists e. exact E.
    + exact IH.
Qed.

Lemma ext_get_In : forall m m' k t, ext m m' -> In t (sm_get m k) -> In t (sm_get m' k).
Proof.
  intros m m' k t H I. destruct (ext_get m m' k H) as [e E]. rewrite E. apply in_or_app. auto.
Qed.

Fixpoint ssum (m : setmap) : nat :=
  match m with [] => 0 | kv :: r => length (snd kv) + ssum r end.

Lemma ext_cases : forall m m', ext m m' -> m' = m \/ (ssum m < ssum m')%nat.
Proof.
  intros m m' H. induction H as [|[k1 v1] [k2 v2] a b [K [e E]] H IH]; simpl in *.
  - left. reflexivity.
  - subst k2 v2. rewrite app_length. destruct e as [|x e].
    + rewrite app_nil_r. destruct IH as [IH|IH].
      * left. subst. reflexivity.
      * right. simpl. lia.
    + right. simpl. destruct IH as [IH|IH]; [subst|]; lia.
Qed.

Definition sets_ok (U : list sym) (m : setmap) : Prop :=
  Forall (fun kv => NoDup (snd kv) /\ incl (snd kv) U) m.

Lemma sets_ok_get : forall U m k, sets_ok U m -> NoDup (sm_get m k) /\ incl (sm_get m k) U.
Proof.
  intros U m k H. induction H as [|[k0 w] m [H1 H2] H IH]; simpl.
  - split; [constructor|]. intros x [].
  - destruct (sym_eqb k0 k); auto.
Qed.

Lemma sets_ok_set : forall U m k v, sets_ok U m -> NoDup v -> incl v U -> sets_ok U (sm_set m k v).
Proof.
  intros U m k v H Hn Hi. induction H as [|[k0 w] m [H1 H2] H IH]; simpl.
  - constructor.
  - destruct (sym_eqb k0 k); constructor; auto.
Qed.

Lemma sets_ok_bound : forall U m, sets_ok U m -> (ssum m <= length m * length U)%nat.
Proof.
  intros U m H. induction H as [|[k0 w] m [H1 H2] H IH]; simpl in *; [lia|].
  pose proof (NoDup_incl_length H1 H2). lia.
Qed.

(* ---------------- iteration up to a fixpoint ---------------- *)
Lemma iter_fix : forall {A} (f : A -> A) n x, f x = x -> iter n f x = x.
Proof.
  intros A f n. induction n as [|n IH]; simpl; intros x H; auto.
  rewrite H. apply IH. exact H.
Qed.

Lemma iter_inv : forall {A} (P : A -> Prop) (f : A -> A),
  (forall x, P x -> P (f x)) -> forall n x, P x -> P (iter n f x).
Proof.
  intros A P f Hf n. induction n as [|n IH]; simpl; intros x H; auto.
Qed.

Lemma iter_progress : forall {A} (P : A -> Prop) (f : A -> A) (m : A -> nat),
  (forall x, P x -> P (f x)) ->
  (forall x, P x -> f x = x \/ (m x < m (f x))%nat) ->
  forall n x, P x -> f (iter n f x) = iter n f x \/ (m x + n <= m (iter n f x))%nat.
Proof.
  intros A P f m Hp Hs n. induction n as [|n IH]; simpl; intros x H.
  - right. lia.
  - destruct (Hs x H) as [E|L].
    + left. rewrite E. rewrite iter_fix; auto.
    + destruct (IH (f x) (Hp x H)) as [E|L2]; [left; exact E|right; lia].
Qed.

Lemma iter_reaches_fixpoint : forall {A} (P : A -> Prop) (f : A -> A) (m : A -> nat) (B : nat),
  (forall x, P x -> P (f x)) ->
  (forall x, P x -> f x = x \/ (m x < m (f x))%nat) ->
  (forall x, P x -> (m x <= B)%nat) ->
  forall n x, (B < n)%nat -> P x -> f (iter n f x) = iter n f x.
Proof.
  intros A P f m B Hp Hs Hb n x Hn H.
  destruct (iter_progress P f m Hp Hs n x H) as [E|L]; auto.
  pose proof (Hb _ (iter_inv P f Hp n x H)). lia.
Qed.

(* ---------------- grammar lookup ---------------- *)
Lemma glookup_In : forall (g : grammar) k rs, glookup g k = Some rs -> In (k, rs) g.
Proof.
  induction g as [|[k0 w] g IH]; simpl; intros k rs H; [discriminate|].
  destruct (sym_eqb k0 k) eqn:E.
  - apply sym_eqb_eq in E. inversion H; subst. left. reflexivity.
  - right. apply IH. exact H.
Qed.

Lemma grules_In_g : forall (g : grammar) k r, In r (grules g k) -> In (k, grules g k) g.
Proof.
  intros g k r H. unfold grules in *. destruct (glookup g k) eqn:E.
  - apply glookup_In. exact E.
  - destruct H.
Qed.

Lemma grules_key : forall (g : grammar) k r, In r (grules g k) -> In k (gkeys g).
Proof.
  intros g k r H. apply grules_In_g in H. unfold gkeys. apply in_map_iff.
  exists (k, grules g k). auto.
Qed.

Lemma In_grules : forall (g : grammar) k rs, NoDup (gkeys g) -> In (k, rs) g -> grules g k = rs.
Proof.
  induction g as [|[k0 w] g IH]; simpl; intros k rs N H; [contradiction|].
  unfold grules. simpl. inversion N as [|? ? N1 N2]; subst.
  destruct H as [H|H].
  - inversion H; subst. rewrite sym_eqb_refl. reflexivity.
  - destruct (sym_eqb k0 k) eqn:E.
    + apply sym_eqb_eq in E. subst. exfalso. apply N1. unfold gkeys. apply in_map_iff.
      exists (k, rs). auto.
    + apply (IH k rs N2 H).
Qed.

Lemma nodupb_NoDup : forall l, nodupb l = true -> NoDup l.
Proof.
  induction l as [|x l IH]; simpl; intro H; constructor.
  - apply andb_true_iff in H. destruct H as [H _]. apply negb_true_iff in H.
    apply mem_false. exact H.
  - apply IH. apply andb_true_iff in H. tauto.
Qed.
