(* C12/Model.v -- executable model of table printing in ak/ppobj.py
   (_PPTableImpl.gen_ch_lines 1805-1927, ReprStructure.detect_actual_columns_widths
   1242-1261, gen_title_lines_ch_chunks_all 1283-1300, RecordField._gen_title_lines
   728-746, FieldType.fit_to_width 594-649, FieldType / _DefaultFieldType /
   _DefaultTitleFieldType cell text, PPEnumFieldType 1987-2168, set_limits /
   PPTableFormat.make limits, remove_columns) and CHText.resize_chunks_list /
   calc_chunks_len in ak/color.py 539-566.

   Observation = the lines of str(PPTable(...).ch_text(no_color=True)) (what print shows),
   so a chunk is modelled by its text only (a [str]); a cell is a list of chunks.
   Strings are lists of code points; widths / lengths / counts are [nat].
   A record value enters as [cell]: Python's str(value), whether the value is a
   keyword or a Number (-> right alignment), whether it is None, and the index
   of its class under Python's == (used by break-by and by the enum lookup).
   Literal constants come from gen/C12_Consts.v (re-read from the source on
   every run).  No proofs in this file. *)
From Coq Require Import ZArith List Bool Arith.
From AK Require Import Common.Sx Common.Err gen.C12_Consts.
Import ListNotations.

Notation str := (list Z).

(* ------------------------------------------------------------------ helpers *)
Definition spaces (n : nat) : str := repeat c_space n.

Fixpoint total_len (chunks : list str) : nat :=       (* CHText.calc_chunks_len *)
  match chunks with
  | [] => O
  | c :: r => length c + total_len r
  end.

Fixpoint sum_nat (l : list nat) : nat :=
  match l with [] => O | x :: r => x + sum_nat r end.

Fixpoint max_list (l : list nat) (dflt : nat) : nat :=  (* max(iterable); dflt if empty *)
  match l with
  | [] => dflt
  | x :: r => match r with [] => x | _ => Nat.max x (max_list r dflt) end
  end.

(* str(n) for a non-negative int *)
Fixpoint dec_digits (fuel n : nat) (acc : str) : str :=
  match fuel with
  | O => acc
  | S f => let acc' := (48 + Z.of_nat (n mod 10))%Z :: acc in
           if (n / 10 =? 0)%nat then acc' else dec_digits f (n / 10) acc'
  end.
Definition dec (n : nat) : str := dec_digits (S n) n [].

(* ------------------------------------------------ color.py resize_chunks_list *)
Fixpoint resize_loop (items : list str) (remaining : nat) : list str :=
  match items with
  | [] => [spaces remaining]                 (* result.append(make_plain(" "*remaining_len)) *)
  | it :: rest =>
      if (remaining =? 0)%nat then []        (* return result *)
      else if (length it <=? remaining)%nat then it :: resize_loop rest (remaining - length it)
      else firstn remaining it :: resize_loop rest 0
  end.

Definition resize_chunks_list (chunks : list str) (new_len : nat) : list str :=
  let existing := total_len chunks in
  if (existing =? new_len)%nat then chunks
  else if (existing <? new_len)%nat then chunks ++ [spaces (new_len - existing)]
  else resize_loop chunks new_len.

(* ------------------------------------------------ ppobj.py FieldType.fit_to_width *)
Inductive align := ALeft | ACenter | ARight.

Definition fit_to_width (chunks : list str) (width : nat) (al : align) : list str :=
  let len := total_len chunks in
  if (len =? width)%nat then chunks
  else if (len <? width)%nat then
    let filler := (width - len)%nat in
    match al with
    | ACenter => let l := (filler / 2)%nat in [spaces l] ++ chunks ++ [spaces (filler - l)]
    | ALeft => chunks ++ [spaces filler]
    | ARight => spaces filler :: chunks
    end
  else
    let dots_len := Nat.min dots_max width in
    let visible := (width - dots_len)%nat in
    resize_chunks_list chunks visible ++ [repeat c_dot dots_len].

Definition fit_text (chunks : list str) (width : nat) (al : align) : str :=
  concat (fit_to_width chunks width al).

(* ------------------------------------------------------------------ values *)
Record cell := mkCell {
  v_text : str;      (* str(value) *)
  v_right : bool;    (* is_keyword_value(value) or isinstance(value, Number) *)
  v_none : bool;     (* value is None *)
  v_eq : Z           (* index of the value's class under Python == *)
}.
Definition dummy_cell : cell := mkCell [] false false (-1)%Z.

Definition align_of (right : bool) : align := if right then ARight else ALeft.

(* ------------------------------------------------------------------ enum field type *)
Inductive fmod := MNone | MFull | MVal | MName | MBad.

Record ekey := mkKey {
  k_eq : Z;          (* == class of the key (the MISSING object: a class of its own) *)
  k_len : nat;       (* len(str(key)) *)
  k_none : bool;     (* key is None *)
  k_name : str       (* enum name *)
}.
Record enum_t := mkEnum {
  e_keys : list ekey;           (* self.enum_values, including a MISSING entry if given *)
  e_missing : option str        (* name of enum_values.get(MISSING); None = not given *)
}.

(* self.max_val_len = max((len(str(x)) for x in self.enum_values if x is not None), default=1) *)
Definition max_val_len (e : enum_t) : nat :=
  max_list (map k_len (filter (fun k => negb (k_none k)) (e_keys e))) enum_dflt_val_len.

Definition missing_name (e : enum_t) : str :=
  match e_missing e with Some n => n | None => enum_dflt_missing end.

Fixpoint enum_find (keys : list ekey) (q : Z) : option str :=
  match keys with
  | [] => None
  | k :: r => if (k_eq k =? q)%Z then Some (k_name k) else enum_find r q
  end.

(* what both _make_text_cache_for_val and _make_len_cache_for_val compute first:
   None = the special "single None" cell, Some (name, val_len) otherwise *)
Definition enum_entry (e : enum_t) (v : cell) : option (str * nat) :=
  match enum_find (e_keys e) (v_eq v) with
  | Some name => Some (name, max_val_len e)
  | None => if v_none v then None
            else Some (missing_name e, Nat.max (max_val_len e) (length (v_text v)))
  end.

(* PPEnumFieldType.get_cell_text_len (the separately computed length) *)
Definition enum_len (e : enum_t) (m : fmod) (v : cell) : nat :=
  match enum_entry e v with
  | None => length (v_text v)                       (* len(str(None)) *)
  | Some (name, val_len) =>
      match m with
      | MVal => val_len
      | MName => length name
      | _ => val_len + 1 + length name              (* 'full' and None *)
      end
  end.

(* PPEnumFieldType.make_desired_cell_ch_chunks *)
Definition enum_chunks (e : enum_t) (m : fmod) (v : cell) : list str * align :=
  match enum_entry e v with
  | None => ([v_text v], align_of (v_right v))
  | Some (name, val_len) =>
      match m with
      | MVal => ([v_text v], align_of (v_right v))
      | MName => ([name], align_of (v_right v))
      | _ =>
          let pad := (val_len - length (v_text v))%nat in
          ((if (0 <? pad)%nat then [spaces pad] else []) ++ [v_text v; [c_space]; name], ALeft)
      end
  end.

(* ------------------------------------------------------------------ fields, columns *)
Inductive kind := KDefault | KEnum (e : enum_t).

(* an item of a title: a str, or another object shown as str(obj) *)
Inductive traw := TStr (s : str) | TObj (text : str) (right : bool).

Record field := mkField {
  f_name : str;
  f_title : option (list traw);   (* fields_titles.get(name), a single item as a 1-list *)
  f_kind : kind
}.
Definition dummy_field : field := mkField [] None KDefault.

Record col := mkCol {
  c_field : nat;                  (* index of the field *)
  c_mod : fmod;
  c_brk : bool;
  c_widths : option (nat * nat)   (* ':min-max' of the fmt; None = the field type's *)
}.

(* str.split('\n') *)
Fixpoint split_nl (s : str) (cur : str) : list str :=
  match s with
  | [] => [rev cur]
  | c :: r => if (c =? 10)%Z then rev cur :: split_nl r [] else split_nl r (c :: cur)
  end.

(* str.strip(): characters with str.isspace() *)
Definition py_space (c : Z) : bool :=
  ((9 <=? c) && (c <=? 13) || (28 <=? c) && (c <=? 32) || (c =? 133) || (c =? 160)
   || (c =? 5760) || (8192 <=? c) && (c <=? 8202) || (c =? 8232) || (c =? 8233)
   || (c =? 8239) || (c =? 8287) || (c =? 12288))%Z.
Fixpoint lstrip (s : str) : str :=
  match s with
  | [] => []
  | c :: r => if py_space c then lstrip r else s
  end.
Definition strip (s : str) : str := rev (lstrip (rev (lstrip s))).

(* RecordField._gen_title_lines: items as (text, right-aligned?) *)
Definition title_lines (f : field) : list (str * bool) :=
  let items := match f_title f with None => [TStr (f_name f)] | Some l => l end in
  flat_map (fun it => match it with
                      | TStr s => map (fun l => (strip l, false)) (split_nl s [])
                      | TObj t r => [(t, r)]
                      end) items.

Definition col_field (fields : list field) (c : col) : field := nth (c_field c) fields dummy_field.

Definition col_min (c : col) : nat := match c_widths c with Some (a, _) => a | None => dflt_min_width end.
Definition col_max (c : col) : nat := match c_widths c with Some (_, b) => b | None => dflt_max_width end.

(* FieldType._verify_fmt_modifier, called by ReprColumn.__init__ *)
Definition mod_ok (k : kind) (m : fmod) : bool :=
  match k, m with
  | _, MNone => true
  | KDefault, _ => false
  | KEnum _, MBad => false
  | KEnum _, _ => true
  end.

Definition fetch (rec : list cell) (c : col) : cell := nth (c_field c) rec dummy_cell.

(* ReprColumn.get_cell_text_len *)
Definition cell_len (fields : list field) (c : col) (rec : list cell) : nat :=
  match f_kind (col_field fields c) with
  | KDefault => length (v_text (fetch rec c))
  | KEnum e => enum_len e (c_mod c) (fetch rec c)
  end.

(* FieldType.make_desired_cell_ch_chunks *)
Definition cell_desired (fields : list field) (c : col) (rec : list cell) : list str * align :=
  let v := fetch rec c in
  match f_kind (col_field fields c) with
  | KDefault => ([v_text v], align_of (v_right v))
  | KEnum e => enum_chunks e (c_mod c) v
  end.

(* ReprColumn.make_cell_ch_chunks, flattened *)
Definition cell_text (fields : list field) (c : col) (w : nat) (rec : list cell) : str :=
  let '(chunks, al) := cell_desired fields c rec in fit_text chunks w al.

(* ------------------------------------------------------------------ width negotiation *)
Definition title_width (f : field) : nat :=          (* max(len(str(l)) for l in title_lines) *)
  max_list (map (fun p => length (fst p)) (title_lines f)) 0.

Definition init_width (fields : list field) (c : col) : nat :=
  Nat.min (col_max c) (Nat.max (col_min c) (title_width (col_field fields c))).

Definition widen (fields : list field) (rec : list cell) (c : col) (w : nat) : nat :=
  if (w <? col_max c)%nat then Nat.max w (Nat.min (col_max c) (cell_len fields c rec)) else w.

Fixpoint widen_all (fields : list field) (rec : list cell) (cols : list col) (ws : list nat) : list nat :=
  match cols, ws with
  | c :: cr, w :: wr => widen fields rec c w :: widen_all fields rec cr wr
  | _, _ => []
  end.

Fixpoint all_at_max (cols : list col) (ws : list nat) : bool :=
  match cols, ws with
  | c :: cr, w :: wr => (w =? col_max c)%nat && all_at_max cr wr
  | _, _ => true
  end.

Fixpoint negotiate (fields : list field) (cols : list col) (ws : list nat) (recs : list (list cell)) : list nat :=
  match recs with
  | [] => ws
  | r :: rest =>
      let ws' := widen_all fields r cols ws in
      if all_at_max cols ws' then ws' else negotiate fields cols ws' rest
  end.

(* ------------------------------------------------------------------ table lines *)
Inductive tline := TRec (r : list cell) | TBreak | TSkip.

Definition is_rec (t : tline) : bool := match t with TRec _ => true | _ => false end.

Fixpoint eq_keys (a b : list Z) : bool :=
  match a, b with
  | [], [] => true
  | x :: ar, y :: br => (x =? y)%Z && eq_keys ar br
  | _, _ => false
  end.

Fixpoint body_lines (brk : list col) (prev : option (list Z)) (recs : list (list cell)) : list tline :=
  match recs with
  | [] => []
  | r :: rest =>
      let cur := map (fun c => v_eq (fetch r c)) brk in
      let tail := TRec r :: body_lines brk (Some cur) rest in
      match prev with
      | Some p => if eq_keys p cur then tail else TBreak :: tail
      | None => tail
      end
  end.

Definition visible_recs (tl : list tline) : list (list cell) :=
  flat_map (fun t => match t with TRec r => [r] | _ => [] end) tl.

Definition count_recs (tl : list tline) : nat := length (filter is_rec tl).

(* record limits: (visible lines, n_skipped) *)
Definition apply_limits (lim : option nat * option nat) (nrecords : nat) (tl : list tline)
  : list tline * nat :=
  match lim with
  | (Some nf, Some nl) =>
      if (nf + nl + limit_slack <? length tl)%nat then
        let first := if (nf =? 0)%nat then [] else firstn nf tl in
        let last := if (nl =? 0)%nat then [] else skipn (length tl - nl) tl in
        (first ++ [TSkip] ++ last, (nrecords - (count_recs first + count_recs last))%nat)
      else (tl, O)
  | _ => (tl, O)
  end.

(* ------------------------------------------------------------------ rendering *)
Record table := mkTable {
  t_fields : list field;
  t_cols : option (list col);              (* columns section of fmt; None = all fields *)
  t_skip : list nat;                       (* skip_columns, as field indexes *)
  t_records : list (list cell);
  t_header : option str;
  t_footer : option str;
  t_fmt_limits : option (nat * nat);       (* 'n:m' section of fmt *)
  t_arg_limits : option (option nat * option nat)   (* limits= argument *)
}.

Definition default_cols (fields : list field) : list col :=
  map (fun i => mkCol i MNone false None) (seq 0 (length fields)).

Definition columns (t : table) : list col :=
  let cs := match t_cols t with Some l => l | None => default_cols (t_fields t) end in
  filter (fun c => negb (existsb (Nat.eqb (c_field c)) (t_skip t))) cs.

Definition limits (t : table) : option nat * option nat :=
  match t_arg_limits t with
  | Some p => p
  | None => match t_fmt_limits t with Some (a, b) => (Some a, Some b) | None => (None, None) end
  end.

Definition footer_text (t : table) : str :=
  match t_footer t with
  | Some s => s
  | None => footer_prefix ++ dec (length (t_records t)) ++ footer_suffix
  end.

Definition border_line (ws : list nat) : str :=
  flat_map (fun w => c_plus :: repeat c_minus w) ws ++ [c_plus].

(* _make_table_line *)
Fixpoint join_cells (cells : list str) : str :=
  match cells with
  | [] => []
  | [c] => c
  | c :: r => c ++ c_sep :: join_cells r
  end.
Definition table_line (cells : list str) : str := c_sep :: join_cells cells ++ [c_sep].

Definition service_line (chunks : list str) (inner : nat) : str :=
  c_sep :: fit_text chunks inner ALeft ++ [c_sep].

Definition title_cell (fields : list field) (i : nat) (c : col) (w : nat) : str :=
  let tl := title_lines (col_field fields c) in
  match nth_error tl i with
  | Some (text, rt) => fit_text [text] w (align_of rt)
  | None => fit_text [[]] w ALeft              (* title_item = "" *)
  end.

Fixpoint map2 {A B C} (f : A -> B -> C) (la : list A) (lb : list B) : list C :=
  match la, lb with
  | a :: ar, b :: br => f a b :: map2 f ar br
  | _, _ => []
  end.

Definition record_line (fields : list field) (cols : list col) (ws : list nat) (r : list cell) : str :=
  table_line (map2 (fun c w => cell_text fields c w r) cols ws).

Definition render_tline (fields : list field) (cols : list col) (ws : list nat)
           (inner n_skipped : nat) (t : tline) : str :=
  match t with
  | TRec r => record_line fields cols ws r
  | TBreak => c_sep :: spaces inner ++ [c_sep]
  | TSkip => service_line [skip_prefix; dec n_skipped ++ skip_suffix] inner
  end.

Definition widths (fields : list field) (cols : list col) (vis : list tline) : list nat :=
  negotiate fields cols (map (init_width fields) cols) (visible_recs vis).

(* the printed table, still in parts (the theorems speak about the parts) *)
Record layout := mkLayout {
  l_ws : list nat;                 (* negotiated column widths *)
  l_header : list str;             (* zero or one line *)
  l_titles : list str;
  l_body : list (tline * str);     (* what each body line stands for, and its text *)
  l_skipped : nat;                 (* n_skipped *)
  l_footer : list str              (* zero or one line *)
}.

Definition table_width (ws : list nat) : nat := (sum_nat ws + length ws + 1)%nat.

Definition layout_lines (y : layout) : list str :=
  let border := border_line (l_ws y) in
  [border] ++ l_header y ++ l_titles y ++ [border] ++ map snd (l_body y) ++ [border] ++ l_footer y.

Definition all_table_lines (t : table) : list tline :=
  body_lines (filter c_brk (columns t)) None (t_records t).

Definition layout_of (t : table) : res layout :=
  let fields := t_fields t in
  let cols := columns t in
  (* construction: ReprColumn.__init__ verifies the modifier *)
  if negb (forallb (fun c => mod_ok (f_kind (col_field fields c)) (c_mod c))
                   (match t_cols t with Some l => l | None => default_cols fields end))
  then Err ValueErr
  else
  let '(vis, n_skipped) := apply_limits (limits t) (length (t_records t)) (all_table_lines t) in
  match cols with
  | [] => Err AssertErr          (* fit_to_width(..., table_width - 2 = -1): assert width >= 0 *)
  | _ =>
    if existsb (fun c => match title_lines (col_field fields c) with [] => true | _ => false end) cols
    then Err ValueErr            (* max() of an empty sequence in get_title_cell_text_len *)
    else
    let ws := widths fields cols vis in
    let tw := table_width ws in
    let inner := (tw - 2)%nat in
    let ntitle := max_list (map (fun c => length (title_lines (col_field fields c))) cols) 0 in
    Ok (mkLayout ws
          match t_header t with
          | Some ((_ :: _) as h) => [service_line [h] inner]
          | _ => []
          end
          (map (fun i => table_line (map2 (title_cell fields i) cols ws)) (seq 0 ntitle))
          (map (fun tl => (tl, render_tline fields cols ws inner n_skipped tl)) vis)
          n_skipped
          match footer_text t with
          | [] => []
          | f => [fit_text [f] tw ALeft]
          end)
  end.

Definition render (t : table) : res (list str) :=
  match layout_of t with
  | Ok y => Ok (layout_lines y)
  | Err e => Err e
  end.
