(* C05/LemmasNest.v -- items (squashing of one-level choice symbols) and
   containers nested in containers to any depth: the cleaned value is the
   encoding of the denoted data. *)
From Coq Require Import ZArith List Bool Lia.
From AK Require Import Common.Err LLP.Base gen.C05_Consts C05.Model C05.Lemmas C05.LemmasList C05.LemmasMap.
Import ListNotations.

(* the abstract data a text denotes *)
Inductive D : Type :=
| DAtom (s : list Z)
| DAbsent
| DList (l : list D)
| DMap (l : list (list Z * D))            (* pairs in source order, keys may repeat *)
| DSeq (l : list (sym * D)).              (* elements in source order with the symbol they matched *)

(* its representation in TElement.value after the cleanup *)
Fixpoint enc (d : D) : cv :=
  match d with
  | DAtom s => CStr s
  | DAbsent => CNone
  | DList l => CList (map enc l)
  | DMap l => CDict (dict_of (map (fun kv => (CStr (fst kv), enc (snd kv))) l))
  | DSeq l => CList (map (fun nd => CElem (fst nd) true (enc (snd nd))) l)
  end.

Lemma enc_none : forall d, enc d = CNone -> d = DAbsent.
Proof. destruct d; simpl; intro H; try discriminate; reflexivity. Qed.

Lemma last_map_enc : forall ds, last (map enc ds) CNone = enc (last ds DAbsent).
Proof.
  induction ds as [|d ds IH]; [reflexivity|]. destruct ds as [|d' ds]; [reflexivity|].
  change (last (map enc (d :: d' :: ds)) CNone) with (last (map enc (d' :: ds)) CNone).
  change (last (d :: d' :: ds) DAbsent) with (last (d' :: ds) DAbsent). exact IH.
Qed.

(* ------------------------------------------------------------------ *)
(* unfolding of the model                                              *)

Lemma cl_tok : forall E n v fc fch, tmpl_get (e_tmpl E) n = None ->
  cl E (RTok n v) (MClean fc fch) = Ok (OTe (mkTe n true (CStr v)) fch).
Proof. intros. simpl. now rewrite H. Qed.

Lemma cl_null : forall E n fc fch, tmpl_get (e_tmpl E) n = None ->
  cl E (RNull n) (MClean fc fch) = Ok (OTe (mkTe n true CNone) fch).
Proof. intros. simpl. now rewrite H. Qed.

Lemma cl_seq : forall E n ch fc fch, tmpl_get (e_tmpl E) n = None ->
  cl E (RSeq n ch) (MClean fc fch) =
  if e_seqclean E then
    match all_ok (map (fun c => get_te (cl E c (MClean false false))) ch) with
    | Err e => Err e
    | Ok cs => Ok (OTe (mkTe n true (CList (map te_cv cs))) fch)
    end
  else Ok (OTe (embed (RSeq n ch)) fch).
Proof. intros. simpl. rewrite H. rewrite map_map. reflexivity. Qed.

Lemma cl_single : forall E c x fc fch, tmpl_get (e_tmpl E) c = None ->
  cl E (RNode c [x]) (MClean fc fch) =
  match cl E x (MClean false (mem c (e_choice E))) with
  | Ok (OTe child ns) =>
      if mem c (e_squash E) then let r := squash E c fc fch child ns in Ok (OTe (fst r) (snd r))
      else Ok (OTe (mkTe c false (CList [te_cv child])) fch)
  | Ok _ => Err OtherErr
  | Err e => Err e
  end.
Proof.
  intros. simpl. rewrite H.
  destruct (cl E x (MClean false (mem c (e_choice E)))) as [[child ns|l|l]|e]; reflexivity.
Qed.

Section Nest.
  Variable E : env.

  (* an element whose cleanup does not depend on the position it is in: a token,
     a template symbol, a sequence *)
  Definition is_base (t : rt) : Prop :=
    match t with
    | RTok n _ => tmpl_get (e_tmpl E) n = None
    | RSeq n _ => tmpl_get (e_tmpl E) n = None
    | _ => exists T, tmpl_get (e_tmpl E) (rname t) = Some T
    end.

  (* a symbol with single-symbol productions only, not a kept symbol *)
  Definition choice_ok (c : sym) : Prop :=
    tmpl_get (e_tmpl E) c = None /\ mem c (e_squash E) = true /\ mem c (e_keep E) = false.

  (* [den t d]: the derivation tree [t] denotes the data [d] *)
  Inductive den : rt -> D -> Prop :=
  | den_tok n v : tmpl_get (e_tmpl E) n = None -> den (RTok n v) (DAtom v)
  | den_list n o t ds :
      tmpl_get (e_tmpl E) n = Some (TL (list_init n o)) -> lopts_ok n o ->
      rname t = n -> valid (list_gen (list_init n o)) t = true ->
      lo_opt o && is_rnull t = false ->
      dens (litems n o t) ds ->
      (* the reading of "[a, ]" with an empty last item as a final delimiter is excluded *)
      (lo_afd o = false \/ last ds DAbsent <> DAbsent) ->
      (is_some (lo_open o) = true \/ ds <> [DAbsent]) ->
      den t (DList ds)
  | den_list_absent n o :
      tmpl_get (e_tmpl E) n = Some (TL (list_init n o)) -> lopts_ok n o -> lo_opt o = true ->
      valid (list_gen (list_init n o)) (RNull n) = true ->
      den (RNull n) DAbsent
  | den_map n o t kts kvs :
      tmpl_get (e_tmpl E) n = Some (TM (map_init n o)) -> mopts_ok n o ->
      rname t = n -> valid (map_gen (map_init n o)) t = true ->
      mo_opt o && is_rnull t = false ->
      mcontent n o t = flat_map (fun p => [fst p; snd p]) kts ->
      denps kts kvs ->
      den t (DMap kvs)
  | den_map_absent n o :
      tmpl_get (e_tmpl E) n = Some (TM (map_init n o)) -> mopts_ok n o -> mo_opt o = true ->
      valid (map_gen (map_init n o)) (RNull n) = true ->
      den (RNull n) DAbsent
  | den_seq n ch nds :
      tmpl_get (e_tmpl E) n = None ->
      (e_seqclean E = true \/ Forall (fun c => is_tok c = true) ch) ->
      densb ch nds ->
      den (RSeq n ch) (DSeq nds)
  | den_choice c x d : choice_ok c -> is_base x -> den x d -> den (RNode c [x]) d
  | den_null c : tmpl_get (e_tmpl E) c = None -> den (RNull c) DAbsent
  with dens : list rt -> list D -> Prop :=
  | dens_nil : dens [] []
  | dens_cons t d ts ds : den t d -> dens ts ds -> dens (t :: ts) (d :: ds)
  with denps : list (rt * rt) -> list (list Z * D) -> Prop :=
  | denps_nil : denps [] []
  | denps_cons k v s d kts kvs :
      den k (DAtom s) -> den v d -> denps kts kvs -> denps ((k, v) :: kts) ((s, d) :: kvs)
  with densb : list rt -> list (sym * D) -> Prop :=
  | densb_nil : densb [] []
  | densb_cons c d cs nds : is_base c -> den c d -> densb cs nds -> densb (c :: cs) ((rname c, d) :: nds).

  Scheme den_mut := Minimality for den Sort Prop
    with dens_mut := Minimality for dens Sort Prop
    with denps_mut := Minimality for denps Sort Prop
    with densb_mut := Minimality for densb Sort Prop.
  Combined Scheme den_mutind from den_mut, dens_mut, denps_mut, densb_mut.

  (* what the cleanup returns for an element that denotes d *)
  Definition base_result (t : rt) (d : D) : Prop :=
    forall fc fch, exists x,
      cl E t (MClean fc fch) = Ok (OTe x fch) /\ te_name x = rname t /\ te_leaf x = true /\ te_val x = enc d.

  Definition item_result (t : rt) (d : D) : Prop :=
    exists x ns, cl E t (MClean true false) = Ok (OTe x ns) /\ item_value x = enc d.

  Lemma base_item : forall t d, base_result t d -> item_result t d.
  Proof.
    intros t d H. destruct (H true false) as (x & Hx & _ & Hl & Hv).
    exists x, false. split; [exact Hx|]. unfold item_value. now rewrite Hl.
  Qed.

  (* squash_item: a one-level choice (or chain) symbol around a position
     independent element disappears when it is a container entry *)
  Lemma squash_item_l : forall c x d,
    choice_ok c -> base_result x d ->
    exists y ns, cl E (RNode c [x]) (MClean true false) = Ok (OTe y ns) /\
                 te_leaf y = true /\ te_val y = enc d /\ item_value y = enc d.
  Proof.
    intros c x d (Hc & Hs & Hk) Hx.
    destruct (Hx false (mem c (e_choice E))) as (y & Hy & _ & Hl & Hv).
    rewrite (cl_single E c x true false Hc), Hy, Hs. unfold squash. rewrite Hk. cbn [orb andb].
    rewrite orb_true_r. cbn [fst snd].
    exists y, (mem c (e_choice E)). repeat split; auto. unfold item_value. now rewrite Hl.
  Qed.

  Definition P_den (t : rt) (d : D) : Prop := (is_base t -> base_result t d) /\ item_result t d.
  Definition P_dens (ts : list rt) (ds : list D) : Prop :=
    exists xs, clean_tes E ts = Ok xs /\ map item_value xs = map enc ds.
  Definition P_denps (kts : list (rt * rt)) (kvs : list (list Z * D)) : Prop :=
    clean_pairs E (flat_map (fun p => [fst p; snd p]) kts) = Ok (map (fun kv => (CStr (fst kv), enc (snd kv))) kvs).
  Definition P_densb (cs : list rt) (nds : list (sym * D)) : Prop :=
    (exists xs, all_ok (map (fun c => get_te (cl E c (MClean false false))) cs) = Ok xs /\
                map te_cv xs = map (fun nd => CElem (fst nd) true (enc (snd nd))) nds) /\
    (Forall (fun c => is_tok c = true) cs ->
     map (fun c => te_cv (embed c)) cs = map (fun nd => CElem (fst nd) true (enc (snd nd))) nds).

  Lemma strong_both : forall t d, base_result t d -> P_den t d.
  Proof. intros t d H. split; [intros _; exact H|now apply base_item]. Qed.

  Lemma hashable_pairs : forall (kvs : list (list Z * D)),
    forallb (fun kv : cv * cv => hashable (fst kv)) (map (fun kv => (CStr (fst kv), enc (snd kv))) kvs) = true.
  Proof. induction kvs as [|kv kvs IH]; simpl; auto. Qed.

  Theorem nested_l :
    (forall t d, den t d -> P_den t d) /\
    (forall ts ds, dens ts ds -> P_dens ts ds) /\
    (forall kts kvs, denps kts kvs -> P_denps kts kvs) /\
    (forall cs nds, densb cs nds -> P_densb cs nds).
  Proof.
    apply den_mutind.
    - (* token *)
      intros n v H. apply strong_both. intros fc fch. exists (mkTe n true (CStr v)).
      rewrite (cl_tok E n v fc fch H). repeat split.
    - (* list *)
      intros n o t ds HT OK Hn V Hopt _ (xs & Hxs & Hmap) G1 G2.
      apply strong_both. intros fc fch.
      rewrite (list_denote_l n o OK E t fc fch HT Hn V), Hopt. unfold litems in Hxs. unfold litems. rewrite Hxs.
      eexists. split; [reflexivity|]. cbn [te_name te_leaf te_val]. repeat split; [now rewrite Hn|].
      simpl enc. f_equal. rewrite Hmap. apply list_post_id.
      + destruct G1 as [G1|G1]; [now left|right]. rewrite last_map_enc. intro H. apply enc_none in H. contradiction.
      + destruct G2 as [G2|G2]; [now left|right]. intro H. apply G2.
        destruct ds as [|d [|d' ds]]; try discriminate. injection H as H. apply enc_none in H. now subst.
    - (* absent optional list *)
      intros n o HT OK Hopt V. apply strong_both. intros fc fch.
      rewrite (list_denote_l n o OK E (RNull n) fc fch HT eq_refl V), Hopt. simpl.
      eexists. split; [reflexivity|]. repeat split.
    - (* map *)
      intros n o t kts kvs HT OK Hn V Hopt Hc _ Hps.
      apply strong_both. intros fc fch.
      rewrite (map_denote_l n o OK E t fc fch HT Hn V), Hopt, Hc. red in Hps. rewrite Hps.
      rewrite py_dict_hashable by apply hashable_pairs.
      eexists. split; [reflexivity|]. cbn [te_name te_leaf te_val]. repeat split. now rewrite Hn.
    - (* absent optional map *)
      intros n o HT OK Hopt V. apply strong_both. intros fc fch.
      rewrite (map_denote_l n o OK E (RNull n) fc fch HT eq_refl V), Hopt. simpl.
      eexists. split; [reflexivity|]. repeat split.
    - (* sequence *)
      intros n ch nds HT Hsc _ ((xs & Hxs & Hmap) & Htok).
      apply strong_both. intros fc fch. rewrite (cl_seq E n ch fc fch HT).
      destruct (e_seqclean E) eqn:SC.
      + rewrite Hxs. eexists. split; [reflexivity|]. cbn [te_name te_leaf te_val rname]. repeat split.
        simpl enc. now rewrite Hmap.
      + destruct Hsc as [Hsc|Hsc]; [discriminate|].
        eexists. split; [reflexivity|]. cbn [embed te_name te_leaf te_val rname]. repeat split.
        simpl enc. now rewrite (Htok Hsc).
    - (* one-level choice *)
      intros c x d Hc Hb _ [Hx _]. split.
      + intros [T HT]. destruct Hc as [Hc _]. simpl in HT. congruence.
      + destruct (squash_item_l c x d Hc (Hx Hb)) as (y & ns & Hy & _ & _ & Hv). now exists y, ns.
    - (* empty production *)
      intros c H. split.
      + intros [T HT]. simpl in HT. congruence.
      + exists (mkTe c true CNone), false. now rewrite (cl_null E c true false H).
    - (* dens *)
      exists []. split; reflexivity.
    - intros t d ts ds _ [_ (x & ns & Hx & Hv)] _ (xs & Hxs & Hmap).
      exists (x :: xs). rewrite clean_tes_cons, Hx. cbn [get_te]. rewrite Hxs. split; [reflexivity|].
      simpl. now rewrite Hv, Hmap.
    - (* denps *)
      reflexivity.
    - intros k v s d kts kvs _ [_ (k' & kns & Hk & Hkv)] _ [_ (v' & vns & Hv & Hvv)] _ Hps.
      red. red in Hps. cbn [flat_map fst snd app clean_pairs]. rewrite Hk, Hv. cbn [get_te].
      rewrite Hps. simpl in Hkv. now rewrite Hkv, Hvv.
    - (* densb *)
      split; [exists []; split; reflexivity | reflexivity].
    - intros c d cs nds Hb _ [Hc _] _ [(xs & Hxs & Hmap) Htok]. split.
      + destruct (Hc Hb false false) as (x & Hx & Hn & Hl & Hv).
        exists (x :: xs). cbn [map all_ok]. rewrite Hx. cbn [get_te]. rewrite Hxs. split; [reflexivity|].
        simpl. rewrite Hmap. f_equal. unfold te_cv. now rewrite Hn, Hl, Hv.
      + intro F. inversion F as [|? ? Fc Fcs]; subst. simpl. rewrite (Htok Fcs). f_equal.
        destruct c; try discriminate.
        destruct (Hc Hb false false) as (x & Hx & Hn & Hl & Hv).
        simpl in Hb. rewrite (cl_tok E n v false false Hb) in Hx. injection Hx as <-. simpl in Hv.
        simpl. now rewrite Hv.
  Qed.
End Nest.

(* ------------------------------------------------------------------ *)
(* does a cleaned value still contain the raw subtree of a template?   *)

Fixpoint has_raw (tm : list (sym * tmpl)) (v : cv) : bool :=
  match v with
  | CNone | CStr _ => false
  | CList l => existsb (has_raw tm) l
  | CDict l => existsb (fun kv => has_raw tm (fst kv) || has_raw tm (snd kv)) l
  | CElem n leaf x => (negb leaf && is_some (tmpl_get tm n)) || has_raw tm x
  end.
