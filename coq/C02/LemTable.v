(* C02/LemTable.v -- the parse table: predict sets are exact, the table is
   complete and sound, is_ambiguous means "some cell holds two rules",
   LL(1) grammars are reported conflict-free. *)
From Coq Require Import ZArith List Bool Lia.
From AK Require Import Common.Err LLP.Base LLP.Table C02.Model C02.Spec C02.LemBase C02.LemNull
  C02.LemFirst C02.LemFollow.
Import ListNotations.

(* ---------- what wf_grammar gives ---------- *)
Record wf (g : grammar) (terms : list sym) (start : sym) : Prop := mkWf {
  wf_nodup : NoDup (gkeys g);
  wf_keys_nt : forall k, In k (gkeys g) -> mem k terms = false;
  wf_rsym : forall nt r, In r (grules g nt) -> rsym r = nt;
  wf_syms : forall nt r X, In r (grules g nt) -> In X (rprod r) -> mem X terms = false -> In X (gkeys g);
  wf_start : In start (gkeys g);
  wf_end : In END_TOKEN terms }.

Lemma wf_grammar_wf : forall g terms start, wf_grammar g terms start = true -> wf g terms start.
Proof.
  intros g terms start H. unfold wf_grammar in H.
  repeat (apply andb_true_iff in H; let H2 := fresh "W" in destruct H as [H H2]).
  assert (ND : NoDup (gkeys g)) by (apply nodupb_NoDup; exact H).
  assert (RULE : forall nt r, In r (grules g nt) -> wf_rule g terms nt r = true).
  { intros nt r Hr. rewrite forallb_forall in W1.
    pose proof (W1 _ (grules_In_g g nt r Hr)) as Q. simpl in Q. rewrite forallb_forall in Q. auto. }
  constructor; auto.
  - intros k Hk. rewrite forallb_forall in W2. apply negb_true_iff. auto.
  - intros nt r Hr. pose proof (RULE nt r Hr) as Q. unfold wf_rule in Q.
    apply andb_true_iff in Q. destruct Q as [Q _]. apply sym_eqb_eq. exact Q.
  - intros nt r X Hr HX HT. pose proof (RULE nt r Hr) as Q. unfold wf_rule in Q.
    apply andb_true_iff in Q. destruct Q as [_ Q]. rewrite forallb_forall in Q.
    pose proof (Q X HX) as Q2. rewrite HT in Q2. simpl in Q2. apply mem_In. exact Q2.
  - apply mem_In. exact W0.
  - apply mem_In. exact W.
Qed.

(* ---------- predict ---------- *)
Section CPredict.
  Variables terms nulls : list sym.
  Variable fs : setmap.
  Hypothesis Hdis : forall s, mem s terms = true -> mem s nulls = false.

  Lemma predict_seq_spec : forall p acc,
    (forall t, In t (fst (predict_seq terms nulls fs p acc)) <-> In t acc \/ cfirst terms nulls fs p t) /\
    snd (predict_seq terms nulls fs p acc) = forallb (fun x => mem x nulls) p.
  Proof.
    induction p as [|s r IH]; intro acc.
    - simpl. split; auto. intro t. split; [auto|]. intros [H|H]; auto. exfalso. apply (cfirst_nil _ _ _ _ H).
    - simpl. destruct (mem s terms) eqn:E.
      + simpl. rewrite (Hdis s E). simpl. split; auto. intro t. rewrite cfirst_cons.
        unfold sym_first. rewrite E, (Hdis s E). rewrite add_set_In. simpl. intuition; try discriminate; try congruence.
      + destruct (mem s nulls) eqn:En.
        * destruct (IH (union_set acc (sm_get fs s))) as [A B]. split; auto.
          intro t. rewrite A. rewrite cfirst_cons. unfold sym_first. rewrite E. rewrite union_set_In.
          rewrite En. intuition.
        * simpl. split; auto. intro t. rewrite cfirst_cons. unfold sym_first. rewrite E, En.
          rewrite union_set_In. intuition; try discriminate; try congruence.
  Qed.

  Lemma predict_In : forall fol r t,
    In t (predict terms nulls fs fol r) <->
    cfirst terms nulls fs (rprod r) t \/
    (forallb (fun x => mem x nulls) (rprod r) = true /\ In t (sm_get fol (rsym r))).
  Proof.
    intros fol r t. unfold predict. destruct (predict_seq_spec (rprod r) []) as [A B].
    destruct (predict_seq terms nulls fs (rprod r) []) as [st alln]. simpl in A, B. subst alln.
    destruct (forallb _ (rprod r)).
    - rewrite union_set_In. rewrite A. simpl. intuition.
    - rewrite A. simpl. intuition; try discriminate; try congruence.
  Qed.
End CPredict.

(* ---------- sort_rules is a permutation ---------- *)
Lemma insert_rule_In : forall r x l, In x (insert_rule r l) <-> x = r \/ In x l.
Proof.
  intros r x l. induction l as [|y l IH]; simpl.
  - split; [intros [H|[]]; auto | intros [H|[]]; auto].
  - destruct (rsort r <? rsort y)%Z; simpl.
    + split; [intros [H|H]; auto | intros [H|H]; auto].
    + rewrite IH. split; [intros [H|[H|H]]; auto | intros [H|[H|H]]; auto].
Qed.

Lemma insert_rule_length : forall r l, length (insert_rule r l) = S (length l).
Proof.
  intros r l. induction l as [|y l IH]; simpl; auto.
  destruct (rsort r <? rsort y)%Z; simpl; auto.
Qed.

Lemma sort_rules_In : forall l x, In x (sort_rules l) <-> In x l.
Proof.
  intros l x. unfold sort_rules.
  assert (G : forall acc, In x (fold_left (fun acc r => insert_rule r acc) l acc) <-> In x l \/ In x acc).
  { induction l as [|r l IH]; simpl; intro acc; [tauto|]. rewrite IH. rewrite insert_rule_In.
    split; [intros [H|[H|H]]; auto | intros [[H|H]|H]; auto]. }
  rewrite G. simpl. tauto.
Qed.

Lemma sort_rules_length : forall l, length (sort_rules l) = length l.
Proof.
  intro l. unfold sort_rules.
  assert (G : forall acc, length (fold_left (fun acc r => insert_rule r acc) l acc) = (length l + length acc)%nat).
  { induction l as [|r l IH]; simpl; intro acc; auto. rewrite IH. rewrite insert_rule_length. lia. }
  rewrite G. simpl. lia.
Qed.

Lemma filter_two : forall {A} (f : A -> bool) (l : list A), (2 <= length (filter f l))%nat ->
  exists i j a b, i <> j /\ nth_error l i = Some a /\ nth_error l j = Some b /\ f a = true /\ f b = true.
Proof.
  intros A f l. induction l as [|x l IH]; simpl; intro H; [lia|].
  destruct (f x) eqn:E.
  - simpl in H. destruct (filter f l) as [|y fl] eqn:EF; [simpl in H; lia|].
    assert (Hy : In y (filter f l)) by (rewrite EF; left; reflexivity).
    apply filter_In in Hy. destruct Hy as [Hy Hfy].
    apply In_nth_error in Hy. destruct Hy as [j Hj].
    exists 0%nat, (S j), x, y. simpl. repeat split; auto.
  - destruct (IH H) as [i [j [a [b [N [Hi [Hj [Fa Fb]]]]]]]].
    exists (S i), (S j), a, b. simpl. repeat split; auto.
Qed.

Lemma filter_two_conv : forall {A} (f : A -> bool) (l : list A) i j a b,
  i <> j -> nth_error l i = Some a -> nth_error l j = Some b -> f a = true -> f b = true ->
  (2 <= length (filter f l))%nat.
Proof.
  intros A f l. induction l as [|x l IH]; intros i j a b N Hi Hj Fa Fb.
  - destruct i; discriminate.
  - assert (ONE : forall k c, nth_error l k = Some c -> f c = true -> (1 <= length (filter f l))%nat).
    { intros k c Hk Fc. apply nth_error_In in Hk.
      assert (I : In c (filter f l)) by (apply filter_In; auto).
      destruct (filter f l); [destruct I|simpl; lia]. }
    destruct i as [|i]; destruct j as [|j]; simpl in *.
    + contradiction.
    + inversion Hi; subst. rewrite Fa. simpl. pose proof (ONE j b Hj Fb). lia.
    + inversion Hj; subst. rewrite Fb. simpl. pose proof (ONE i a Hi Fa). lia.
    + assert (L : (2 <= length (filter f l))%nat) by (apply (IH i j a b); auto).
      destruct (f x); simpl; lia.
Qed.

(* ---------- the table of a well-formed grammar ---------- *)
Section TableExact.
  Variable g : grammar.
  Variable terms : list sym.
  Variable start : sym.
  Hypothesis Hwf : wf g terms start.

  Let T := make_tables g terms start.
  Let nulls := nullables g.
  Let fs := first_sets g terms nulls.
  Let fol := follow_sets g terms nulls fs start.

  Lemma T_fields : t_terminals T = terms /\ t_nulls T = nulls /\ t_first T = fs /\ t_follow T = fol /\ t_grammar T = g.
  Proof. repeat split. Qed.

  Lemma nulls_not_terms : forall s, mem s terms = true -> mem s nulls = false.
  Proof.
    intros s Hs. apply mem_false. intro Hn.
    apply (nullables_keys g (wf_nodup _ _ _ Hwf)) in Hn.
    rewrite (wf_keys_nt _ _ _ Hwf s Hn) in Hs. discriminate.
  Qed.

  Theorem predict_exact_l : forall nt r t, In r (grules g nt) ->
    (In t (predict terms nulls fs fol r) <-> Predict g terms start r t).
  Proof.
    intros nt r t Hr. rewrite (predict_In terms nulls fs nulls_not_terms fol r t). unfold Predict. unfold fol, fs, nulls.
    rewrite (cfirst_exact g terms (wf_nodup _ _ _ Hwf)).
    rewrite (nulls_forallb g (wf_nodup _ _ _ Hwf)).
    rewrite (follow_exact_l g terms start (wf_nodup _ _ _ Hwf) (wf_syms _ _ _ Hwf) (wf_start _ _ _ Hwf) (wf_end _ _ _ Hwf)).
    tauto.
  Qed.

  Lemma table_get_In : forall nt tok r,
    In r (table_get T nt tok) <-> In r (grules g nt) /\ In tok (predict terms nulls fs fol r).
  Proof.
    intros nt tok r. unfold table_get. rewrite sort_rules_In. rewrite filter_In.
    rewrite mem_In. reflexivity.
  Qed.

  Theorem table_exact_l : forall nt tok r,
    In r (table_get T nt tok) <-> In r (grules g nt) /\ Predict g terms start r tok.
  Proof.
    intros nt tok r. rewrite table_get_In. split; intros [A B]; split; auto.
    - apply (predict_exact_l nt); auto.
    - apply (predict_exact_l nt); auto.
  Qed.

  Lemma predict_terms : forall nt r t, In r (grules g nt) -> In t (predict terms nulls fs fol r) -> In t terms.
  Proof.
    intros nt r t Hr H. apply (predict_In terms nulls fs nulls_not_terms) in H.
    destruct H as [[pre [s [post [E [_ Hi]]]]]|[_ H]].
    - unfold sym_first in Hi. destruct (mem s terms) eqn:Es.
      + destruct Hi as [Hi|[]]. subst. apply mem_In. exact Es.
      + apply (proj2 (sets_ok_get terms fs s (first_sets_ok g terms (wf_nodup _ _ _ Hwf)))). exact Hi.
    - apply (proj2 (sets_ok_get terms fol (rsym r)
        (follow_sets_ok g terms start (wf_nodup _ _ _ Hwf) (wf_end _ _ _ Hwf)))).
      exact H.
  Qed.

  Lemma table_keys_In : forall nt tok,
    In (nt, tok) (table_keys T) <-> In nt (gkeys g) /\ In tok terms /\ table_get T nt tok <> [].
  Proof.
    intros nt tok. unfold table_keys. rewrite in_flat_map. split.
    - intros [kv [Hkv H]]. apply in_flat_map in H. destruct H as [tok' [Ht H]].
      destruct (table_get T (fst kv) tok') eqn:E; [destruct H|].
      destruct H as [H|[]]. inversion H; subst. split; [|split]; auto.
      + unfold gkeys. apply in_map. exact Hkv.
      + rewrite E. discriminate.
    - intros [H1 [H2 H3]]. unfold gkeys in H1. apply in_map_iff in H1. destruct H1 as [kv [E Hkv]].
      exists kv. split; auto. apply in_flat_map. exists tok. split; auto. subst nt.
      destruct (table_get T (fst kv) tok); [contradiction|]. left. reflexivity.
  Qed.

  Theorem is_ambiguous_spec_l :
    is_ambiguous T = false <-> forall nt tok, (length (table_get T nt tok) <= 1)%nat.
  Proof.
    unfold is_ambiguous. split.
    - intros H nt tok. destruct (table_get T nt tok) as [|r cell] eqn:E; [simpl; lia|].
      assert (Hr : In r (table_get T nt tok)) by (rewrite E; left; reflexivity).
      apply table_get_In in Hr. destruct Hr as [Hr Hp].
      assert (K : In (nt, tok) (table_keys T)).
      { apply table_keys_In. split; [apply (grules_key g nt r Hr)|]. split.
        - apply (predict_terms nt r); auto.
        - rewrite E. discriminate. }
      destruct (existsb _ (table_keys T)) eqn:X; [discriminate|].
      assert (Q : negb (length (table_get T nt tok) =? 1)%nat = false).
      { destruct (negb (length (table_get T nt tok) =? 1)%nat) eqn:Y; auto.
        assert (existsb (fun k => negb (length (table_get T (fst k) (snd k)) =? 1)%nat) (table_keys T) = true).
        { apply existsb_exists. exists (nt, tok). auto. }
        congruence. }
      apply negb_false_iff in Q. apply Nat.eqb_eq in Q. rewrite E in Q. lia.
    - intro H. destruct (existsb _ (table_keys T)) eqn:X; auto.
      apply existsb_exists in X. destruct X as [[nt tok] [K Q]]. simpl in Q.
      apply table_keys_In in K. destruct K as [_ [_ K]]. pose proof (H nt tok) as L.
      destruct (table_get T nt tok) as [|r [|r2 cell]]; [contradiction| |simpl in L; lia].
      simpl in Q. discriminate.
  Qed.

  Theorem ll1_not_ambiguous_l : LL1 g terms start -> is_ambiguous T = false.
  Proof.
    intro HL. apply is_ambiguous_spec_l. intros nt tok. unfold table_get. rewrite sort_rules_length.
    destruct (le_lt_dec (length (filter (fun r => mem tok (predict (t_terminals T) (t_nulls T) (t_first T) (t_follow T) r)) (grules (t_grammar T) nt))) 1) as [L|L]; auto.
    exfalso. apply filter_two in L. destruct L as [i [j [a [b [N [Hi [Hj [Fa Fb]]]]]]]].
    apply mem_In in Fa. apply mem_In in Fb.
    apply (HL nt i j a b tok); auto.
    - apply (predict_exact_l nt); auto. apply nth_error_In with (n := i). exact Hi.
    - apply (predict_exact_l nt); auto. apply nth_error_In with (n := j). exact Hj.
  Qed.

  Theorem not_ambiguous_ll1_l : is_ambiguous T = false -> LL1 g terms start.
  Proof.
    intros HA nt i j ri rj t Hi Hj N Pi Pj.
    pose proof (proj1 is_ambiguous_spec_l HA nt t) as L. unfold table_get in L.
    rewrite sort_rules_length in L.
    assert (Ri : In ri (grules g nt)) by (apply nth_error_In with (n := i); exact Hi).
    assert (Rj : In rj (grules g nt)) by (apply nth_error_In with (n := j); exact Hj).
    pose proof (filter_two_conv
      (fun r => mem t (predict (t_terminals T) (t_nulls T) (t_first T) (t_follow T) r))
      (grules (t_grammar T) nt) i j ri rj N Hi Hj) as Q.
    assert (2 <= length (filter (fun r => mem t (predict (t_terminals T) (t_nulls T) (t_first T) (t_follow T) r))
                                (grules (t_grammar T) nt)))%nat; [|lia].
    apply Q; apply mem_In.
    - apply (predict_exact_l nt); auto.
    - apply (predict_exact_l nt); auto.
  Qed.

  (* a conflict-free cell holds exactly the predicted rule *)
  Lemma cell_single : forall nt tok r, is_ambiguous T = false ->
    In r (grules g nt) -> Predict g terms start r tok -> table_get T nt tok = [r].
  Proof.
    intros nt tok r HA Hr Hp. pose proof (proj1 is_ambiguous_spec_l HA nt tok) as L.
    assert (I : In r (table_get T nt tok)) by (apply table_exact_l; auto).
    destruct (table_get T nt tok) as [|x [|y cell]]; [destruct I| |simpl in L; lia].
    destruct I as [I|[]]. subst. reflexivity.
  Qed.
End TableExact.
