(* C04/LemmasConc.v -- the concrete matcher of the harness lexicon (Model.v
   lex_matcher / close_matcher) meets the hypotheses made about re, and its
   values are the lexemes (for a quoted pattern: the lexeme without the quotes). *)
From Coq Require Import ZArith List Bool Lia.
From AK Require Import Common.Err LLP.Base gen.C04_Consts C04.Model C04.LemmasText C04.LemmasLex.
Import ListNotations.
Open Scope Z_scope.

Definition pat_ok (p : pat) : Prop :=
  match p with PLit s => s <> [] | PEol s => s <> [] | _ => True end.
Definition lexicon_ok (lx : lexicon) : Prop := Forall (fun gp => pat_ok (snd gp)) lx.

Lemma prefixb_length : forall s l, prefixb s l = true -> (length s <= length l)%nat.
Proof.
  induction s as [|a s IH]; intros l H; cbn [length]; [lia|].
  destruct l as [|b l]; cbn [prefixb] in H; [discriminate|].
  apply andb_true_iff in H. destruct H as [_ H]. apply IH in H. cbn [length]. lia.
Qed.

Lemma prefixb_firstn : forall s l, prefixb s l = true -> firstn (length s) l = s.
Proof.
  induction s as [|a s IH]; intros l H; cbn [length firstn]; auto.
  destruct l as [|b l]; cbn [prefixb] in H; [discriminate|].
  apply andb_true_iff in H. destruct H as [E H]. apply Z.eqb_eq in E. subst. f_equal. apply IH. exact H.
Qed.

Lemma span_while_le : forall f l, (span_while f l <= length l)%nat.
Proof. induction l as [|c l IH]; cbn [span_while length]; [lia|]. destruct (f c); lia. Qed.

Lemma match_pat_bounds : forall p rest n v, pat_ok p -> match_pat p rest = Some (n, v) -> (0 < n <= length rest)%nat.
Proof.
  intros p rest n v OK H. destruct p as [s|lo hi| |s|q]; cbn [match_pat pat_ok] in *.
  - destruct (prefixb s rest) eqn:Pf; [|discriminate]. inversion H; subst.
    apply prefixb_length in Pf. destruct v; [contradiction|cbn [length] in *; lia].
  - destruct (Nat.eqb_spec (span_while (in_range lo hi) rest) 0); [discriminate|]. inversion H; subst.
    pose proof (span_while_le (in_range lo hi) rest). lia.
  - destruct (Nat.eqb_spec (span_while is_space rest) 0); [discriminate|]. inversion H; subst.
    pose proof (span_while_le is_space rest). lia.
  - destruct (prefixb s rest) eqn:Pf; [|discriminate]. inversion H; subst.
    apply prefixb_length in Pf. pose proof (span_while_le (is_not 10) (skipn (length s) rest)) as W.
    rewrite skipn_length in W. destruct s; [contradiction|cbn [length] in *; lia].
  - destruct rest as [|c r]; [discriminate|]. destruct (c =? q); [|discriminate].
    destruct (nth_error r (span_while (is_not q) r)) eqn:N; [|discriminate]. inversion H; subst.
    apply nth_error_lt in N. cbn [length]. lia.
Qed.

Lemma first_match_in : forall lx rest g n v, first_match lx rest = Some (g, n, v) ->
  exists p, In (g, p) lx /\ match_pat p rest = Some (n, v).
Proof.
  induction lx as [|[g' p'] lx IH]; intros rest g n v H; cbn [first_match] in H; [discriminate|].
  destruct (match_pat p' rest) as [[n' v']|] eqn:M.
  - inversion H; subst. exists p'. split; [left; reflexivity|exact M].
  - destruct (IH _ _ _ _ H) as [p [I Mp]]. exists p. split; [right; exact I|exact Mp].
Qed.

Theorem lex_matcher_ok : forall lx, lexicon_ok lx -> matcher_ok (lex_matcher lx).
Proof.
  intros lx OK text col g e v H. unfold lex_matcher in H.
  destruct (first_match lx (skipn col text)) as [[[g' n] v']|] eqn:F; [|discriminate].
  inversion H; subst. destruct (first_match_in _ _ _ _ _ F) as [p [I M]].
  unfold lexicon_ok in OK. rewrite Forall_forall in OK. specialize (OK _ I). cbn [snd] in OK.
  pose proof (match_pat_bounds _ _ _ _ OK M) as B. rewrite skipn_length in B. lia.
Qed.

Lemma find_sub_bounds : forall closer rest k, find_sub closer rest = Some k -> (k + length closer <= length rest)%nat.
Proof.
  intros closer. induction rest as [|c r IH]; intros k H.
  - cbn [find_sub] in H. destruct (prefixb closer []) eqn:Pf; [|discriminate]. inversion H; subst.
    apply prefixb_length in Pf. lia.
  - cbn [find_sub] in H. destruct (prefixb closer (c :: r)) eqn:Pf.
    + inversion H; subst. apply prefixb_length in Pf. lia.
    + destruct (find_sub closer r) as [k'|] eqn:F; [|discriminate]. inversion H; subst.
      specialize (IH _ eq_refl). cbn [length]. lia.
Qed.

Theorem cfg_spans_ok : forall c, spans_ok (cfg_span_of c).
Proof.
  intros c g bm text col e v S L H. unfold cfg_span_of in S.
  destruct (assoc (c_spans c) g) as [closer|]; [|discriminate]. inversion S; subst.
  unfold close_matcher in H. destruct (find_sub closer (skipn col text)) as [k|] eqn:F; [|discriminate].
  inversion H; subst. apply find_sub_bounds in F. rewrite skipn_length in F. lia.
Qed.

(* the value of a token of the harness lexicon is its lexeme; for a quoted pattern the
   lexeme is quote + value + quote *)
Lemma span_while_stop : forall f r k, span_while f r = k -> forall c, nth_error r k = Some c -> f c = false.
Proof.
  intros f. induction r as [|a r IH]; intros k H c N; cbn [span_while] in H.
  - subst. discriminate.
  - destruct (f a) eqn:Fa.
    + subst k. cbn [nth_error] in N. eapply IH; eauto.
    + subst k. cbn [nth_error] in N. inversion N; subst. exact Fa.
Qed.

Lemma firstn_S_nth : forall (r : list Z) k c, nth_error r k = Some c -> firstn (S k) r = firstn k r ++ [c].
Proof.
  induction r as [|a r IH]; intros k c N; [destruct k; discriminate|].
  destruct k; cbn [nth_error] in N.
  - inversion N; subst. reflexivity.
  - cbn [firstn app]. f_equal. apply IH. exact N.
Qed.

Lemma match_pat_lexeme : forall p rest n v, match_pat p rest = Some (n, v) ->
  match p with
  | PQuoted q => firstn n rest = q :: v ++ [q]
  | _ => firstn n rest = v
  end.
Proof.
  intros p rest n v H. destruct p as [s|lo hi| |s|q]; cbn [match_pat] in H.
  - destruct (prefixb s rest) eqn:Pf; [|discriminate]. inversion H; subst. apply prefixb_firstn. exact Pf.
  - destruct (span_while (in_range lo hi) rest =? 0)%nat; [discriminate|]. inversion H; subst. reflexivity.
  - destruct (span_while is_space rest =? 0)%nat; [discriminate|]. inversion H; subst. reflexivity.
  - destruct (prefixb s rest); [|discriminate]. inversion H; subst. reflexivity.
  - destruct rest as [|c r]; [discriminate|]. destruct (Z.eqb_spec c q) as [->|]; [|discriminate].
    destruct (nth_error r (span_while (is_not q) r)) as [x|] eqn:N; [|discriminate]. inversion H; subst.
    pose proof (span_while_stop _ _ _ eq_refl _ N) as St. unfold is_not in St.
    apply negb_false_iff in St. apply Z.eqb_eq in St. subst x.
    cbn [firstn]. f_equal. apply firstn_S_nth. exact N.
Qed.

Theorem lex_matcher_lexeme : forall lx text col g e v,
  lex_matcher lx text col = Some (g, e, v) ->
  exists p, In (g, p) lx /\
    match p with
    | PQuoted q => slice text col e = q :: v ++ [q]
    | _ => slice text col e = v
    end.
Proof.
  intros lx text col g e v H. unfold lex_matcher in H.
  destruct (first_match lx (skipn col text)) as [[[g' n] v']|] eqn:F; [|discriminate].
  inversion H; subst. destruct (first_match_in _ _ _ _ _ F) as [p [I M]].
  exists p. split; auto. apply match_pat_lexeme in M. unfold slice.
  replace (col + n - col)%nat with n by lia. exact M.
Qed.
