(* C07/Run.v -- entry point of the correspondence check. *)
From Coq Require Import ZArith List Bool Arith.
From AK Require Export Common.Sx Common.Err C07.Model.
Import ListNotations.

(* a commit of a repository that pins components, as the harness builds it: build tags before
   finalize_build_tag_info, the major.minor of the version file saved in the commit (None: missing /
   unreadable), and per component (position = index in [p_cis]) the pinned version *)
Record rawcommit := mkRawC {
  raw_parents : list nat;
  raw_expl : bool;
  raw_tags : list rawtag;
  raw_saved : option (Z * Z);
  raw_pins : list (option bn) }.
(* RCommit.build_nums = get_builds_numbers(commit); _mk_rcommits in the model sorts again (idempotent) *)
Definition finalize_commit (r : rawcommit) : commit :=
  mkC (raw_parents r) (raw_expl r) (builds_numbers (raw_saved r) (raw_tags r)) (raw_pins r).

(* one repository of the collection that pins components: the finished graphs of its components
   (in the order of its component list), its commits, its branch heads in processing order *)
Record pcase := mkP {
  p_cis : list cinfo;
  p_commits : list rawcommit;
  p_heads : list (nat * nat) }.

Inductive case :=
| Order (repos : list nat) (deps : deps_t)
(* one collection of repositories: [tags] = every repository's commits (saved version, raw tags);
   [parents] = the repositories that pin components *)
| Bump (tags : list (list (option (Z * Z) * list rawtag))) (parents : list pcase).

Definition sx_bn (b : bn) : sx := let '(x, y, z) := b in SL [SZ x; SZ y; SZ z].

(* from_build_nums is compared as a sorted list (its order is dict order in the code) *)
Definition sx_bump (b : bump) : sx :=
  SL [sx_bn (b_to_bn b); sx_list sx_bn (bn_sort (b_from_bns b));
      sx_option sx_nat (b_to b); sx_list sx_nat (b_from b)].

(* get_printable_rcommits(): explicit ones, newest iid first, as commit numbers *)
Definition printable (rcs : list (Z * rcommit)) (rb : rbuild) : list nat :=
  map (fun i => rc_commit (match zfind i rcs with Some r => r | None => no_rcommit end))
      (filter (fun i => rc_expl (match zfind i rcs with Some r => r | None => no_rcommit end))
              (rev (rb_rcommits rb))).

(* the bumps of an RBuild: bumps.get(component k) for every component of the repository *)
Definition sx_rbuild (n : nat) (rcs : list (Z * rcommit)) (p : Z * rbuild) : sx :=
  let rb := snd p in
  SL [sx_bn (rb_bn rb); SZ (rb_type rb); sx_list sx_nat (printable rcs rb);
      sx_list (fun k => sx_option sx_bump (rb_bump k rb)) (seq 0 n)].

(* [branches latest build first; per component: included_at of every RBuild (entries of this repository)] *)
Definition sx_report (n : nat) (r : report) : sx :=
  SL [sx_list (fun br => SL [sx_nat (fst br); sx_list (sx_rbuild n (r_rcs r)) (rev (snd br))]) (r_branches r);
      sx_list (sx_list (fun p => SL [sx_nat (fst p);
                                     sx_list (fun q => SL [sx_nat (fst q); sx_bn (snd q)]) (snd p)]))
              (r_included r)].

Fixpoint reports (ps : list pcase) : res (list sx) :=
  match ps with
  | [] => Ok []
  | p :: r => bind (parent_report (p_cis p) (map finalize_commit (p_commits p)) (p_heads p))
                   (fun rep => bind (reports r) (fun l => Ok (sx_report (length (p_cis p)) rep :: l)))
  end.

Definition run (c : case) : sx :=
  match c with
  | Order repos deps =>
      sx_res (fun l => sx_list (fun p => SL [sx_nat (fst p); sx_list sx_nat (snd p)]) l)
             (reports_order repos deps)
  | Bump tags parents =>
      (* [reports of the repositories that pin components; get_builds_numbers of every commit of every repository] *)
      sx_res (fun l => SL [SL l;
                           sx_list (sx_list (fun p => sx_list sx_bn (builds_numbers (fst p) (snd p)))) tags])
             (reports parents)
  end.
