(* C01/FactSmart2.v -- expansions are preserved when a rule  a b  (b a suffix symbol)
   is replaced by  a :: (each production of b), and when one entry of the grammar is
   replaced by an equivalent one. *)
From Coq Require Import ZArith List Bool Lia Permutation.
From AK Require Import Common.Err LLP.Base LLP.Factor C01.Basics C01.Spec C01.FactExp C01.FactProps C01.FactAll C01.FactSmart1.
Import ListNotations.
Local Open Scope nat_scope.

Definition expand_prods (G : grammar) (SS : list sym) (F : nat) (ps : list (list sym)) : option (list (list sym)) :=
  concat_opt (map (expand G SS F) ps).

Lemma expand_rules_prods : forall G SS F rules, expand_rules G SS F rules = expand_prods G SS F (map rprod rules).
Proof. intros. unfold expand_rules, expand_prods. now rewrite map_map. Qed.

Lemma expand_prods_app : forall G SS F a b,
  expand_prods G SS F (a ++ b) =
  match expand_prods G SS F a with
  | Some x => match expand_prods G SS F b with Some y => Some (x ++ y) | None => None end
  | None => None
  end.
Proof. intros. unfold expand_prods. rewrite map_app. apply concat_opt_app. Qed.

Lemma expand_prods_mono : forall G SS F F' ps es, F <= F' ->
  expand_prods G SS F ps = Some es -> expand_prods G SS F' ps = Some es.
Proof.
  intros G SS F F' ps es Hle H. unfold expand_prods in *.
  eapply concat_opt_map_ext; [|exact H]. intros x e _ Hx. eapply expand_mono; eassumption.
Qed.

Definition ExpP (G : grammar) (SS : list sym) (ps es : list (list sym)) : Prop :=
  exists F, expand_prods G SS F ps = Some es.

Lemma Exp_ExpP : forall G SS rules es, Exp G SS rules es <-> ExpP G SS (map rprod rules) es.
Proof. intros. unfold Exp, ExpP. split; intros [F H]; exists F; now rewrite expand_rules_prods in *. Qed.

(* ---------------- a terminal in front ---------------- *)
Lemma expand_cons : forall G SS F a p, mem a SS = false ->
  expand G SS F (a :: p) = option_map (map (cons a)) (expand G SS F p).
Proof.
  intros G SS F a p Ha. destruct F as [|F]; [reflexivity|]. cbn [expand].
  destruct p as [|s0 p0].
  - cbn [last]. rewrite Ha. reflexivity.
  - change (last (a :: s0 :: p0) []) with (last (s0 :: p0) []).
    change (removelast (a :: s0 :: p0)) with (a :: removelast (s0 :: p0)).
    destruct (mem (last (s0 :: p0) []) SS); [|reflexivity].
    destruct (concat_opt (map (fun r => expand G SS F (rprod r)) (grules G (last (s0 :: p0) [])))) as [eb|]; [|reflexivity].
    cbn [option_map]. f_equal. rewrite map_map. reflexivity.
Qed.

Lemma concat_opt_map_cons : forall (f : list sym -> option (list (list sym))) a ps eb,
  concat_opt (map f ps) = Some eb ->
  concat_opt (map (fun p => option_map (map (cons a)) (f p)) ps) = Some (map (cons a) eb).
Proof.
  intros f a. induction ps as [|p ps IH]; intros eb H; cbn [map concat_opt] in *.
  - injection H as <-. reflexivity.
  - destruct (f p) as [e|]; [|discriminate]. destruct (concat_opt (map f ps)) as [y|] eqn:E; [|discriminate].
    injection H as <-. cbn [option_map]. rewrite (IH y eq_refl). now rewrite map_app.
Qed.

(* the productions that replace the rules rr of a symbol expand to the same list *)
Lemma inline_rules : forall terminals G SS F rr es,
  (forall r a b, In r rr -> inl_of terminals SS G r = Some (a, b) -> mem a SS = false) ->
  expand_rules G SS F rr = Some es ->
  expand_prods G SS F (flat_map (newprods_of terminals SS G) rr) = Some es.
Proof.
  intros terminals G SS F. induction rr as [|r rr IH]; intros es Ha H.
  - cbn in *. assumption.
  - rewrite expand_rules_cons in H. destruct (expand G SS F (rprod r)) as [e|] eqn:Er; [|discriminate].
    destruct (expand_rules G SS F rr) as [y|] eqn:Ey; [|discriminate]. injection H as <-.
    cbn [flat_map]. rewrite expand_prods_app.
    rewrite (IH y); [|intros r0 a b Hr0; apply Ha; now right|reflexivity].
    assert (Hr : expand_prods G SS F (newprods_of terminals SS G r) = Some e).
    { unfold newprods_of. destruct (inl_of terminals SS G r) as [[a b]|] eqn:Ei.
      - destruct (inl_of_Some _ _ _ _ _ _ Ei) as [Hp [Hb _]].
        assert (Hasf : mem a SS = false) by (eapply Ha; [now left|eassumption]).
        rewrite Hp in Er. destruct F as [|F0]; [discriminate|].
        destruct (expand_group_inv G SS F0 [a] b e Hb Er) as [eb [Heb ->]].
        unfold expand_prods. rewrite map_map.
        rewrite (map_ext _ (fun sr => option_map (map (cons a)) (expand G SS (S F0) (rprod sr))))
          by (intros sr; now apply expand_cons).
        rewrite <- (map_map rprod (fun p => option_map (map (cons a)) (expand G SS (S F0) p))).
        apply (expand_rules_mono G SS F0 (S F0)) in Heb; [|lia].
        rewrite expand_rules_prods in Heb. unfold expand_prods in Heb.
        now apply concat_opt_map_cons.
      - unfold expand_prods. cbn [map concat_opt]. rewrite Er. now rewrite app_nil_r. }
    now rewrite Hr.
Qed.

(* ---------------- one entry replaced ---------------- *)
Section Transfer.
  Variables (g g' : grammar) (SS : list sym) (s : sym).
  Hypothesis Hother : forall x, x <> s -> grules g' x = grules g x.

  (* expansions that never reach s are the same in both grammars *)
  Lemma transfer_above :
    (forall k v r, In (k, v) g -> In r v -> ref_longer SS k r) ->
    forall F p, (forall x, In x (tail1 SS (mkRule [] p 0)) -> length s < length x) ->
    expand g' SS F p = expand g SS F p.
  Proof.
    intros Hrank. induction F as [|F IH]; intros p Hp; [reflexivity|].
    cbn [expand]. destruct p as [|s0 p0]; [reflexivity|].
    destruct (mem (last (s0 :: p0) []) SS) eqn:Em; [|reflexivity].
    set (b := last (s0 :: p0) []) in *.
    assert (Hb : length s < length b).
    { apply Hp. unfold tail1. cbn [rprod]. fold b. rewrite Em. now left. }
    assert (Hbs : b <> s) by (intros ->; lia).
    rewrite (Hother b Hbs). f_equal. f_equal. apply map_ext_in. intros r Hr.
    apply IH. intros x Hx.
    destruct (in_dec sym_eq_dec b (gkeys g)) as [Hk|Hk].
    - assert (Hlt : length b < length x).
      { apply (Hrank b (grules g b) r); [now apply grules_key_In|assumption|].
        unfold tail1 in *. cbn [rprod] in Hx. exact Hx. }
      lia.
    - rewrite (grules_not_key _ _ Hk) in Hr. contradiction.
  Qed.

  Lemma transfer_above_prods :
    (forall k v r, In (k, v) g -> In r v -> ref_longer SS k r) ->
    forall F ps, (forall p x, In p ps -> In x (tail1 SS (mkRule [] p 0)) -> length s < length x) ->
    expand_prods g' SS F ps = expand_prods g SS F ps.
  Proof.
    intros Hrank F ps H. unfold expand_prods. f_equal. apply map_ext_in. intros p Hp.
    apply transfer_above; [assumption|]. intros x Hx. eapply H; eassumption.
  Qed.

  (* if the entry of s is replaced by an equivalent one, everything expands as before *)
  Hypothesis Hs : forall es, Exp g SS (grules g s) es -> Exp g' SS (grules g' s) es.

  Lemma transfer_through : forall F p es, expand g SS F p = Some es -> exists F', expand g' SS F' p = Some es.
  Proof.
    induction F as [|F IH]; intros p es H; [discriminate|].
    destruct p as [|s0 p0].
    - exists 1. exact H.
    - destruct (mem (last (s0 :: p0) []) SS) eqn:Em.
      2:{ exists 1. cbn [expand] in *. now rewrite Em in *. }
      destruct (snoc_cases _ (s0 :: p0)) as [Hc|[pre [b Hc]]]; [discriminate|].
      rewrite Hc in *. rewrite last_snoc in Em.
      destruct (expand_group_inv g SS F pre b es Em H) as [eb [Heb ->]].
      assert (Hx : exists F', expand_rules g' SS F' (grules g' b) = Some eb).
      { destruct (sym_eq_dec b s) as [->|Hbs].
        - apply Hs. now exists F.
        - rewrite (Hother b Hbs).
          clear -Heb IH. revert eb Heb. induction (grules g b) as [|r l IHl]; intros eb Heb.
          + exists 0. exact Heb.
          + rewrite expand_rules_cons in Heb. destruct (expand g SS F (rprod r)) as [e|] eqn:Er; [|discriminate].
            destruct (expand_rules g SS F l) as [y|] eqn:Ey; [|discriminate]. injection Heb as <-.
            destruct (IH _ _ Er) as [F1 H1]. destruct (IHl y eq_refl) as [F2 H2].
            apply (Exp_cons g' SS r l F1 e y H1). now exists F2. }
      destruct Hx as [F' HF']. exists (S F'). now apply expand_group.
  Qed.

  Lemma transfer_through_rules : forall rules es, Exp g SS rules es -> Exp g' SS rules es.
  Proof.
    intros rules es [F H]. revert es H. induction rules as [|r l IHl]; intros es H.
    - exists 0. exact H.
    - rewrite expand_rules_cons in H. destruct (expand g SS F (rprod r)) as [e|] eqn:Er; [|discriminate].
      destruct (expand_rules g SS F l) as [y|] eqn:Ey; [|discriminate]. injection H as <-.
      destruct (transfer_through _ _ _ Er) as [F1 H1].
      apply (Exp_cons g' SS r l F1 e y H1). now apply IHl.
  Qed.
End Transfer.
