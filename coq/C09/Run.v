(* C09/Run.v -- entry point of the correspondence check.
   Every escape sequence of a case comes from _ColorSequences.make applied to one of the case's formatter
   arguments.  [run] therefore evaluates, beside the hand model, the functions TRANSLATED from the current
   source (gen/C09_Translated.v through TransInst.tr_make) on every formatter argument of the case, text and
   bytes: when they give what the hand model's [make] gives, the observation of the case is the same with
   either; the line is then the model's observation, else (99 model (translated results)).  When the source
   has left the translator's subset (translation_available = false, the proof step is already broken) the
   hand model is compared alone. *)
From Coq Require Import ZArith List Bool.
From AK Require Export Common.Sx Common.Err C09.Model C09.Term C09.Seq.
From AK Require Import Common.PyLib gen.C09_Translated C09.TransInst.
Import ListNotations.
Open Scope Z_scope.

Inductive case :=
| Fmt (a : fmtargs) (text : list Z)                    (* ColorFmt(args)(text), ColorBytes(args)(text.encode()) *)
| Text (items : list (option fmtargs * list Z))        (* CHText( *parts ); None = a plain str part *)
| Strip (s : list Z)                                   (* CHText.strip_colors(s) on an arbitrary string *)
| SeqOps (fmts : list fmtargs)                         (* a pool of ColorFmt / ColorBytes objects, created once, *)
         (pcs : list (option nat * list Z))            (* pieces fmt_k(text) / plain str, created once, *)
         (n : nat) (ops : list op)                     (* n texts, and the operations on them (Seq.v) *)
| Pad (a : fmtargs) (text l r : list Z).               (* round 5: format(ColorFmt(args)(text), spec) and the same on
                                                          CHText(chunk): the padding l / r that str.__format__ puts
                                                          around the plain text stands OUTSIDE prefix .. suffix *)

Definition sx_colour (c : colour) : sx :=
  match c with Default => SL [SZ 0] | Named n => SL [SZ 1; SZ n] | Idx n => SL [SZ 2; SZ n] end.

Definition sx_attrs (a : attrs) : sx :=
  SL [sx_colour (fg a); sx_colour (bg a); sx_bool (bold a); sx_bool (faint a);
      sx_bool (underline a); sx_bool (blink a); sx_bool (crossed a)].

Definition attrs_eqb (a b : attrs) : bool :=
  colour_eqb (fg a) (fg b) && colour_eqb (bg a) (bg b) && Bool.eqb (bold a) (bold b) &&
  Bool.eqb (faint a) (faint b) && Bool.eqb (underline a) (underline b) &&
  Bool.eqb (blink a) (blink b) && Bool.eqb (crossed a) (crossed b).

(* consecutive characters shown with the same attributes are grouped *)
Fixpoint group (l : list shown) : list (attrs * list Z) :=
  match l with
  | [] => []
  | (c, a) :: r =>
      match group r with
      | (b, cs) :: gs => if attrs_eqb a b then (a, c :: cs) :: gs else (a, [c]) :: (b, cs) :: gs
      | [] => [(a, [c])]
      end
  end.

(* what the reference terminal makes of a string: (bad, ground?, final attrs, shown runs) *)
Definition sx_term (r : tstate * list shown) : sx :=
  let st := fst r in
  SL [sx_bool (t_bad st);
      sx_bool (match t_lx st with LText => true | _ => false end);
      sx_attrs (t_at st);
      sx_list (fun p => SL [sx_attrs (fst p); sx_str (snd p)]) (group (snd r))].

Fixpoint build (items : list (option fmtargs * list Z)) : res (list chunk) :=
  match items with
  | [] => Ok []
  | (None, t) :: r => bind (build r) (fun cs => Ok (plain_chunk t :: cs))
  | (Some a, t) :: r =>
      match make a false with
      | Err e => Err e
      | Ok ps => bind (build r) (fun cs => Ok (fmt_call ps t :: cs))
      end
  end.

(* piece (Some k, text) is formatter k of the pool applied to text *)
Definition resolve (fmts : list fmtargs) (pc : option nat * list Z) : option fmtargs * list Z :=
  (option_map (fun k => nth k fmts no_args) (fst pc), snd pc).

Definition run_model (c : case) : sx :=
  match c with
  | Fmt a text =>
      SL [ sx_res (fun ps => let s := chunk_str (fmt_call ps text) in
                             SL [sx_str s; sx_str (strip s); sx_term (term s)])
                  (make a false);
           sx_res (fun ps => sx_str (fst ps ++ utf8 text ++ snd ps)) (make a true) ]
  | Text items =>
      sx_res (fun cs => let x := chtext_of cs in
                        let s := chtext_str x in
                        SL [sx_str s; sx_str (plain_text x); SZ (scrlen x);
                            sx_str (strip s); sx_term (term s)])
             (build items)
  | Strip s => SL [sx_str (strip s); sx_term (term s)]
  | SeqOps fmts pcs n ops =>
      match first_err fmts with
      | Some e => sx_res (fun x : sx => x) (Err e)
      | None => sx_res (fun pieces => SL (exec fmts pieces ops (repeat [] n)))
                       (build (map (resolve fmts) pcs))
      end
  | Pad a text l r =>
      (* _CHTextChunk.__format__ = CHText(chunk).__format__: fill characters, the rendered chunk, fill characters *)
      sx_res (fun ps => let s := l ++ chunk_str (fmt_call ps text) ++ r in
                        SL [sx_str s; sx_str (strip s); sx_term (term s)])
             (make a false)
  end.

(* ---- the translated make next to the hand model's ---- *)
Fixpoint zlist_eqb (a b : list Z) : bool :=
  match a, b with
  | [], [] => true
  | x :: a', y :: b' => Z.eqb x y && zlist_eqb a' b'
  | _, _ => false
  end.

Definition res_pair_eqb (a b : res (list Z * list Z)) : bool :=
  match a, b with
  | Ok (p, s), Ok (p', s') => zlist_eqb p p' && zlist_eqb s s'
  | Err e, Err e' => err_eqb e e'
  | _, _ => false
  end.

Definition makes_agree (a : fmtargs) : bool :=
  res_pair_eqb (make a false) (tr_make a false) && res_pair_eqb (make a true) (tr_make a true).

Definition fmts_of (c : case) : list fmtargs :=
  match c with
  | Fmt a _ => [a]
  | Text items => flat_map (fun it => match fst it with Some a => [a] | None => [] end) items
  | Strip _ => []
  | SeqOps fmts _ _ _ => fmts
  | Pad a _ _ _ => [a]
  end.

Definition sx_make (r : res (list Z * list Z)) : sx :=
  sx_res (fun ps => SL [sx_str (fst ps); sx_str (snd ps)]) r.

Definition run (c : case) : sx :=
  let m := run_model c in
  if translation_available then
    if forallb makes_agree (fmts_of c) then m
    else SL [SZ 99; m; sx_list (fun a => SL [sx_make (tr_make a false); sx_make (tr_make a true)])
                              (filter (fun a => negb (makes_agree a)) (fmts_of c))]
  else m.
