(* C17/Base.v -- basic facts about strings, python dicts and the heap of C17/Model.v *)
From Coq Require Import ZArith List Bool Lia.
From AK Require Import Common.Sx Common.Err gen.C17_Consts C17.Codec C17.Model.
Import ListNotations.
Open Scope Z_scope.

(* ------------------------------------------------------------------ *)
(* strings                                                              *)

Lemma str_eqb_spec a b : reflect (a = b) (str_eqb a b).
Proof.
  revert b. induction a as [|x a IH]; intros [|y b]; cbn [str_eqb]; try (constructor; congruence).
  destruct (Z.eqb_spec x y) as [->|N]; cbn [andb].
  - destruct (IH b) as [->|N]; constructor; congruence.
  - constructor. congruence.
Qed.

Lemma str_eqb_refl a : str_eqb a a = true.
Proof. destruct (str_eqb_spec a a); congruence. Qed.

Lemma str_eqb_neq a b : a <> b -> str_eqb a b = false.
Proof. destruct (str_eqb_spec a b); congruence. Qed.

Lemma str_eqb_sym a b : str_eqb a b = str_eqb b a.
Proof. destruct (str_eqb_spec a b), (str_eqb_spec b a); congruence. Qed.

(* ------------------------------------------------------------------ *)
(* heap                                                                 *)

Lemma hget_app_l (h e : heap) r : (r < length h)%nat -> hget (h ++ e) r = hget h r.
Proof. intros H. unfold hget. apply nth_error_app1. exact H. Qed.

Lemma hget_some_lt (h : heap) r c : hget h r = Some c -> (r < length h)%nat.
Proof. intros H. apply nth_error_Some. unfold hget in H. congruence. Qed.

Lemma hget_app_some (h e : heap) r c : hget h r = Some c -> hget (h ++ e) r = Some c.
Proof. intros H. rewrite hget_app_l; [exact H|]. eapply hget_some_lt; eauto. Qed.

Lemma hget_last (h : heap) c : hget (h ++ [c]) (length h) = Some c.
Proof. unfold hget. rewrite nth_error_app2 by lia. rewrite Nat.sub_diag. reflexivity. Qed.

Lemma hset_last (h : heap) c c' : hset (h ++ [c]) (length h) c' = h ++ [c'].
Proof. induction h as [|x h IH]; cbn [hset app length]; [reflexivity|]. rewrite IH. reflexivity. Qed.

Lemma hset_length (h : heap) r c : length (hset h r c) = length h.
Proof. revert r. induction h as [|x h IH]; intros [|r]; cbn [hset length]; auto. Qed.

(* ------------------------------------------------------------------ *)
(* python dicts as association lists                                     *)

Lemma dict_mem_get k (d : dict) : dict_mem k d = match dict_get k d with Some _ => true | None => false end.
Proof.
  induction d as [|[k' v] d IH]; cbn [dict_mem dict_get]; [reflexivity|].
  destruct (str_eqb k' k); cbn [orb]; [reflexivity|exact IH].
Qed.

Lemma dict_get_set_same k v (d : dict) : dict_get k (dict_set k v d) = Some v.
Proof.
  induction d as [|[k' v'] d IH]; cbn [dict_set dict_get].
  - rewrite str_eqb_refl. reflexivity.
  - destruct (str_eqb k' k) eqn:E; cbn [dict_get]; rewrite E; [reflexivity|exact IH].
Qed.

Lemma dict_get_set_other k k' v (d : dict) : k <> k' -> dict_get k' (dict_set k v d) = dict_get k' d.
Proof.
  intros N. induction d as [|[k0 v0] d IH]; cbn [dict_set dict_get].
  - rewrite (str_eqb_neq k k' N). reflexivity.
  - destruct (str_eqb_spec k0 k) as [->|N0]; cbn [dict_get].
    + rewrite (str_eqb_neq k k' N). reflexivity.
    + destruct (str_eqb k0 k'); [reflexivity|exact IH].
Qed.

Lemma dict_set_notin k v (d : dict) : dict_mem k d = false -> dict_set k v d = d ++ [(k, v)].
Proof.
  induction d as [|[k' v'] d IH]; cbn [dict_mem dict_set app]; [reflexivity|].
  intros H. apply orb_false_iff in H as [H1 H2]. rewrite H1, IH by exact H2. reflexivity.
Qed.

Lemma dict_set_keys_in k v (d : dict) : dict_mem k d = true -> map fst (dict_set k v d) = map fst d.
Proof.
  induction d as [|[k' v'] d IH]; cbn [dict_mem dict_set map fst]; [discriminate|].
  destruct (str_eqb k' k) eqn:E; cbn [orb map fst]; [reflexivity|].
  intros H. rewrite IH by exact H. reflexivity.
Qed.

Lemma dict_mem_in k (d : dict) : dict_mem k d = true <-> In k (map fst d).
Proof.
  induction d as [|[k' v'] d IH]; cbn [dict_mem map fst In]; [split; [discriminate|tauto]|].
  destruct (str_eqb_spec k' k) as [->|N]; cbn [orb]; [tauto|].
  rewrite IH. split; [tauto|]. intros [E|H]; [congruence|exact H].
Qed.

Lemma nodup_snoc {A} (l : list A) x : NoDup l -> ~ In x l -> NoDup (l ++ [x]).
Proof.
  induction 1 as [|y l Hy Hl IH]; intros Hx; cbn [app].
  - constructor; [intros []|constructor].
  - constructor.
    + intros Hin. apply in_app_or in Hin as [Hin|[->|[]]]; [contradiction|]. apply Hx. left. reflexivity.
    + apply IH. intros Hin. apply Hx. right. exact Hin.
Qed.

Lemma dict_set_nodup k v (d : dict) : NoDup (map fst d) -> NoDup (map fst (dict_set k v d)).
Proof.
  intros H. destruct (dict_mem k d) eqn:E.
  - rewrite dict_set_keys_in by exact E. exact H.
  - rewrite dict_set_notin by exact E. rewrite map_app. cbn [map fst].
    apply nodup_snoc; [exact H|]. intros Hin. apply dict_mem_in in Hin. congruence.
Qed.
