"""C18  Objects read from a sheet match their source cells  (ak/xlsread.py)"""
import ast
import os

from harness.lib import pytranslate
from harness.lib import sx as SX

ID = "C18"
COQ_DIR = "C18"
RUN_MOD = "C18.Run"
MODEL_TARGETS = ["C18/Run.vo"]
PROOF_TARGETS = ["C18/Lemmas.vo", "C18/LemmasLadder.vo", "C18/LemmasCoord.vo", "C18/LemmasRange.vo", "C18/LemmasSession.vo",
                 "C18/LemmasMulti.vo", "C18/TransEq.vo", "C18/LemmasText.vo"]
PROPS = ["C18/Props.v", "C18/PropsTranslated.v", "C18/PropsText.v"]
ALLOWED_AXIOMS = []
IMPL_TIMEOUT = 10.0
COQ_SHARD = 100

RULE = ("generated worksheets (harness-side mock of an openpyxl worksheet): 1-5 attributes of every rule kind "
        "(plain with each converter and custom none/true/false sets, optional present/missing, external, ranged dict/set "
        "with and without default), known columns permuted, unknown and blank-titled columns before/between/after, "
        "duplicate titles, 0-3 leading blank rows (None or whitespace-only), blank/invalid cells, both end-of-table rules "
        "with an end row and trailing content, ladder sheets with 1-3 levels and runs of blanks over several rows, "
        "sheets wider than 26 columns (range groups across the Z/AA boundary; corpus: ZZ/AAA boundary, duplicate titles inside "
        "the range group, ladder range cells of different rows, row 9/10).  Sessions (cases k='sess', model Session.v): 2-5 "
        "readings in ONE process of sheets that are read again, edited in place (same worksheet object), re-ordered by columns or "
        "unrelated, with repeated cell texts and repeated rows, through iter_table / read_table / a shared XlsObjReadRules / shared "
        "XlsRecordAttrReadRules / one rules dict shared by several classes, and through the TableReader mixin (read_list, iter_xls, "
        "read_map) of class hierarchies (derived classes overriding ATTR_RULES, _ATTRS order/subset, _NUM_ID_ATTRS, STOP_ON, LADDER_FORMAT, or "
        "nothing; both end rules and ladder sheets through the mixin; base "
        "first, derived first, random order; unrelated classes), two generators advanced in turn (ladder readings in progress); "
        "between the readings the caller edits in place values it has been given (list.append, set.add, dict[k]=v, d[k].append on "
        "cell_list / cell_set / CellRangeDict / CellRangeSet / callable-default values, all of them or a subset, each with its own "
        "marker); every object of every reading is observed when produced and again at the end of the session.  "
        "Several object classes per table (cases k='multi', model Model.read_table_m / Run.ReadM): XlsTableReader(r1, ..., rn) with "
        "0-3 rule sets (mostly 2-3), disjoint and overlapping columns (two objects reading the same column, the same XlsObjReadRules "
        "object twice), ranged attributes in one or in several of them, the unknown columns as one run, scattered between the known "
        "columns (a column of one object inside the would-be range of another) or split in two, ladder sheets, both end rules, wide "
        "sheets, converter objects shared between the rule sets or not; every tuple is observed when produced, then the caller edits "
        "values of the objects (as in a session) and every object is observed again.  All single and multi readings: worksheet "
        "titles vary (with spaces, quotes, brackets), str(obj) and get_attr_origin(..., incl_ws=True) (every attribute; every key, "
        "not strict; an unknown attribute) are observed; float cells (2.5, 1.0 == True, 0.0 == False, 1e16, a float title).  "
        "Cell texts (round 4): with a small probability in every family, and in a family of its own (gen_text_case: mostly list / set / "
        "str columns and ranged dicts of lists), the words, the padding, the blank cells and the titles contain every str.isspace code "
        "point, the str.splitlines() boundaries that are not new lines (VT FF FS GS RS NEL LS PS, a lone CR, CR LF) and look-alikes that "
        "are neither white space nor separators (NUL, ZWSP, BOM, ';', fullwidth / Arabic comma, ...) strictly inside an element, at its "
        "border, next to ',' and new line, as a whole element; list cells use ',', new line, CR LF and doubled separators, also at the "
        "ends of the text; none / true / false values are respelled (padded, other case, fullwidth); int columns hold texts int() would "
        "accept (' 12', '12\\n', '+12', '1_000', fullwidth and Arabic-Indic digits, 12.0).  "
        "Non-trivial = distinct case that yields at least one object (session: at least two readings that yield an object).")
TRUSTED_BASE = [
    "gen/C18_Consts.v: CellBool/_CellReader value sets, origin markers, the 'blank first' and '*' literals are read from "
    "ak/xlsread.py by harness/props/c18.py:gen_consts (ast, fail-closed); the same extractor insists that get_attr_origin's "
    "range text is sorted(origins.values(), key=_coord_sort_key) and that _coord_sort_key is statement for statement the "
    "function modelled as Model.coord_sort_key (rstrip of the ASCII digits, (len(col), col, int(row)))",
    "python semantics used by the model: str.strip()/str.isspace() code points (Model.spaces: all 29 of them are generated as padding "
    "and inside words, so a difference from the running python is a disagreement), str.rstrip(chars), int() of an ASCII digit "
    "string, str(int)/str(bool), == and hash across int/bool/str/None, str and tuple ordering, stability of sorted(), dict "
    "insertion order (compared on every run by the correspondence check)",
    "the harness-side mock worksheet yields rectangular rows from A1 with openpyxl coordinates (column letters + 1-based row)",
    "sessions: python's list.append / set.add / dict item assignment as mirrored by Session.mut_value; XlsObject.make_objects_map "
    "is NOT trusted any more: the map entry points (read_map / read_table_make_map) are compared with the harness's own "
    "_ref_objects_map of the objects of the modelled list reading of the same sheet (oracle signature map-reading, not modelled)",
    "float (and other) cell values enter the model as Base.COther (str(v), the int v equals): python's str() of a float and "
    "float == int are computed by the harness",
    "the digest of an object's observation is a polynomial hash modulo 2^61 (Run.hash_sx, mirrored in c18.py)",
    "for the *_translated theorems (coq/C18/PropsTranslated.v): the shared translator harness/lib/pytranslate.py (Python ast -> Gallina, "
    "fail closed, NOT verified; `python -m harness.lib.pytranslate --selftest` compares ~4400 calls of 21 translated functions with "
    "CPython, among them sorted(key=...) on coordinates) and coq/Common/PyLib.v: str.rstrip(chars), len, slices, int(str) for ASCII "
    "text (ValueError otherwise), tuples, sorted(it, key=f) = all keys first, then the stable order by < on the keys (py_sorted_by; "
    "< on (int, str, int) tuples lexicographic), list indexing with negative indices, f-strings / + on str, if/elif/else; the hook "
    "c18._translate hands the translator _coord_sort_key and the body of the single `if range_key is None:` branch of "
    "XlsObject.get_attr_origin as a function of origins.values() : list of str (the recorded coordinates in insertion order) and "
    "ws_prefix : str",
]
ASSUMPTIONS = [
    "cell values are None, str, int, bool or float (generated); any other value (datetime, Decimal) enters the model the same way "
    "(Base.COther: python's str(v) and the int it equals are passed in by the harness) but is not generated",
    "worksheet rows are rectangular and start at A1 (as openpyxl's iter_rows() yields them); ragged rows are modelled "
    "(IndexError) but not claimed",
    "default values are plain immutable values, or callables returning them or a fresh list",
    "an XlsTableReader object is used for one reading (a second iter_table on the same object fails its own assertion: "
    "_ObjScrCellsMap.defaults_factories is never reset)",
]
MODELLED = ("ak/xlsread.py: _CellReader/CellStr/CellInt/CellBool/CellList/CellSet, CellRangeDict/CellRangeSet, "
            "XlsObject.__init__/construct/get_attr_origin, XlsRecordAttrReadRules/XlsObjReadRules (rule shapes), "
            "_ObjScrCellsMap.bind_titles_row/cells_from_row, XlsTableReader.iter_table; sessions (Session.v): a reading is a function "
            "of the sheet and of the rules of THAT call (for TableReader.iter_xls/read_list: the ATTR_RULES, _ATTRS, _NUM_ID_ATTRS, STOP_ON "
            "and LADDER_FORMAT of the class that was asked, own or inherited), in-place edits of a produced value change that value only; "
            "several object classes per table (XlsTableReader(r1, ..., rn).iter_table: Model.read_table_m, the known column names are "
            "the union over all rule sets); incl_ws and str(obj) up to the logic id (Model.get_attr_origin_ws, obj_head); "
            "not modelled: make_objects_map/ensure_equal (oracle clause map-reading against the harness's own reference), logic_id "
            "(oracle clause logic-id)")


class ExtractError(Exception):
    pass


# ------------------------------------------------------------------ constants
def _cval(v):
    if v is None:
        return "CNone"
    if isinstance(v, bool):
        return f"(CBool {SX.cbool(v)})"
    if isinstance(v, int):
        return f"(CInt {SX.cZ(v)})"
    if isinstance(v, str):
        return f"(CStr {SX.cstr(v)})"
    raise ExtractError(f"value {v!r} is outside the modelled cell values")


def _cvals(vals):
    vals = list(vals)
    if not vals:
        return "(@nil cval)"
    return "[" + "; ".join(_cval(v) for v in vals) + "]"


def _lit_collection(node, what):
    """literal set/list/tuple (possibly wrapped in set()/list()/frozenset()) -> list of values"""
    if isinstance(node, ast.Call) and isinstance(node.func, ast.Name) and node.func.id in ("set", "list", "frozenset", "tuple") \
            and len(node.args) <= 1 and not node.keywords:
        if not node.args:
            return []
        node = node.args[0]
    try:
        val = ast.literal_eval(node)
    except Exception as e:
        raise ExtractError(f"{what} is not a literal collection: {e}")
    if not isinstance(val, (set, list, tuple, frozenset)):
        raise ExtractError(f"{what} is not a collection")
    out = []
    for v in val:
        if not (v is None or isinstance(v, (bool, int, str))):
            raise ExtractError(f"{what}: element {v!r} outside None/bool/int/str")
        out.append(v)
    out.sort(key=lambda v: (type(v).__name__, repr(v)))
    return out


def _class(tree, name):
    for n in tree.body:
        if isinstance(n, ast.ClassDef) and n.name == name:
            return n
    raise ExtractError(f"class {name} not found")


def _class_attr(cls, name):
    for n in cls.body:
        if isinstance(n, ast.Assign) and len(n.targets) == 1 and isinstance(n.targets[0], ast.Name) and n.targets[0].id == name:
            return n.value
    raise ExtractError(f"{cls.name}.{name} not found")


def _method(cls, name):
    for n in cls.body:
        if isinstance(n, ast.FunctionDef) and n.name == name:
            return n
    raise ExtractError(f"{cls.name}.{name} not found")


def _is_name(node, name):
    return isinstance(node, ast.Name) and node.id == name


def _cmp(node, left_pred, op, right_pred):
    return (isinstance(node, ast.Compare) and len(node.ops) == 1 and isinstance(node.ops[0], op)
            and left_pred(node.left) and right_pred(node.comparators[0]))


def _const_str_assigns(body, target):
    """string constants assigned to `target` directly in this statement list"""
    out = []
    for st in body:
        if isinstance(st, ast.Assign) and len(st.targets) == 1 and _is_name(st.targets[0], target) \
                and isinstance(st.value, ast.Constant) and isinstance(st.value.value, str):
            out.append(st.value.value)
    return out


_KEY_FN_NAME = "_coord_sort_key"
_KEY_FN_REF = ("def _coord_sort_key(coord):\n"
               "    col = coord.rstrip('0123456789')\n"
               "    return len(col), col, int(coord[len(col):])\n")
_SORTED_REF = "cells_coords = sorted(origins.values(), key=_coord_sort_key)"


def _translate(src):
    """_coord_sort_key and the `range_key is None` branch of XlsObject.get_attr_origin (as a function of origins.values() and
    ws_prefix) of the current source -> coq/gen/C18_Translated.v, by the shared translator harness/lib/pytranslate.py (fail
    closed); coq/C18/TransEq.v proves them equal to the hand model's coord_sort_key / range_text"""
    tree = ast.parse(src)
    gao = _method(_class(tree, "XlsObject"), "get_attr_origin")
    branches = [n for n in ast.walk(gao) if isinstance(n, ast.If) and isinstance(n.test, ast.Compare)
                and isinstance(n.test.left, ast.Name) and n.test.left.id == "range_key" and len(n.test.ops) == 1
                and isinstance(n.test.ops[0], ast.Is) and isinstance(n.test.comparators[0], ast.Constant)
                and n.test.comparators[0].value is None]
    if len(branches) != 1:
        raise pytranslate.Unsupported("get_attr_origin: not exactly one `if range_key is None:` branch")
    tr = pytranslate.Translator(src, pytranslate.Config(source_name="ak/xlsread.py"))
    kt = tr.add_function(_KEY_FN_NAME, ["str"])
    rt = tr.add_block("range_origin_text", branches[0].body, [("origins.values()", None, ("list", "str")), ("ws_prefix", None, "str")])
    tr.check_hygiene()
    if kt != ("tuple", ("int", "str", "int")) or rt != "str":
        raise pytranslate.Unsupported(f"_coord_sort_key returns {kt}, the range-text branch {rt}: (int, str, int) and str expected")
    return tr.emit("_coord_sort_key, range text of get_attr_origin")


def _translation_stub(reason):
    return pytranslate.stub(pytranslate.Config(source_name="ak/xlsread.py"), reason, [
        ("T__coord_sort_key", "(v : list Z) : res (Z * list Z * Z)"),
        ("T_range_origin_text", "(vs : list (list Z)) (p : list Z) : res (list Z)")])


def gen_consts(repo):
    """constants (ast extractor below) + translation (harness/lib/pytranslate.py).  The translation of THIS source (or the stub
    saying why there is none) is written even when the constant extractor refuses the source; any refusal is raised."""
    src = open(os.path.join(repo, "ak", "xlsread.py")).read()
    try:
        translated, terr = _translate(src), None
    except pytranslate.Unsupported as e:
        translated, terr = _translation_stub(str(e)), e
    except (ExtractError, SyntaxError) as e:
        translated, terr = _translation_stub(str(e)), None      # the extractor below reports it
    from harness.lib import coqrun
    try:
        gens = _gen_consts_only(src)
    except Exception:
        with coqrun.Lock():
            coqrun.write_gen("C18_Translated", translated)
        raise
    gens["C18_Translated"] = translated
    if terr is not None:
        with coqrun.Lock():
            for name, text in gens.items():
                coqrun.write_gen(name, text)
        raise ExtractError(f"translator (harness/lib/pytranslate.py): {terr}")
    return gens


def _gen_consts_only(src):
    tree = ast.parse(src)
    reader = _class(tree, "_CellReader")
    cbool = _class(tree, "CellBool")
    reader_none = _lit_collection(_class_attr(reader, "_NONE_VALUES"), "_CellReader._NONE_VALUES")
    bool_true = _lit_collection(_class_attr(cbool, "_TRUE_VALUES"), "CellBool._TRUE_VALUES")
    bool_false = _lit_collection(_class_attr(cbool, "_FALSE_VALUES"), "CellBool._FALSE_VALUES")
    bool_none = _lit_collection(_class_attr(cbool, "_NONE_VALUES"), "CellBool._NONE_VALUES")

    # XlsObject.__init__: the if/elif chain that records origins
    xo = _class(tree, "XlsObject")
    init = _method(xo, "__init__")
    marker_na = marker_skipped = None
    coord_ok = False
    for node in ast.walk(init):
        if isinstance(node, ast.If):
            t = node.test
            isnone = lambda n: isinstance(n, ast.Constant) and n.value is None  # noqa: E731
            if _cmp(t, lambda n: _is_name(n, "cell_type"), ast.Is, isnone):
                got = _const_str_assigns(node.body, "attr_origins")
                if len(got) != 1:
                    raise ExtractError("XlsObject.__init__: 'cell_type is None' branch does not set one origin marker")
                marker_na = got[0]
            elif _cmp(t, lambda n: _is_name(n, "cell"), ast.Is, isnone):
                got = _const_str_assigns(node.body, "attr_origins")
                if len(got) != 1:
                    raise ExtractError("XlsObject.__init__: 'cell is None' branch does not set one origin marker")
                marker_skipped = got[0]
                # the else branch must record cell.coordinate
                for st in node.orelse:
                    if isinstance(st, ast.Assign) and _is_name(st.targets[0], "attr_origins") \
                            and isinstance(st.value, ast.Attribute) and st.value.attr == "coordinate" \
                            and _is_name(st.value.value, "cell"):
                        coord_ok = True
    if marker_na is None or marker_skipped is None or not coord_ok:
        raise ExtractError("XlsObject.__init__: origin recording chain not recognised")

    # get_attr_origin: cells_coords = sorted(origins.values(), key=_coord_sort_key), the two markers;
    # _coord_sort_key: exactly the function modelled as Model.coord_sort_key
    key_fn = None
    for n in tree.body:
        if isinstance(n, ast.FunctionDef) and n.name == _KEY_FN_NAME:
            key_fn = n
    if key_fn is None:
        raise ExtractError(f"module function {_KEY_FN_NAME} not found: get_attr_origin's range text is not sorted by "
                           "(column, row) keys; the model of the range text (Model.range_text) must be revised")
    body = [st for st in key_fn.body
            if not (isinstance(st, ast.Expr) and isinstance(st.value, ast.Constant) and isinstance(st.value.value, str))]
    ref = ast.parse(_KEY_FN_REF).body[0]
    if ast.dump(key_fn.args) != ast.dump(ref.args) or key_fn.decorator_list \
            or [ast.dump(st) for st in body] != [ast.dump(st) for st in ref.body]:
        raise ExtractError(f"{_KEY_FN_NAME} is not the modelled key function; Model.coord_sort_key must be revised")
    gao = _method(xo, "get_attr_origin")
    sorted_plain = False
    marker_range_empty = marker_key_na = None
    ref_sorted = ast.dump(ast.parse(_SORTED_REF).body[0].value)
    for node in ast.walk(gao):
        if isinstance(node, ast.Assign) and len(node.targets) == 1 and _is_name(node.targets[0], "cells_coords"):
            if ast.dump(node.value) == ref_sorted:
                sorted_plain = True
            else:
                raise ExtractError(f"get_attr_origin: cells_coords is not {_SORTED_REF.split(' = ')[1]}; "
                                   "the model of the range text must be revised")
        if isinstance(node, ast.Assign) and len(node.targets) == 1 and _is_name(node.targets[0], "cells_range_descr") \
                and isinstance(node.value, ast.Constant) and isinstance(node.value.value, str):
            marker_range_empty = node.value.value
        if isinstance(node, ast.Assign) and len(node.targets) == 1 and _is_name(node.targets[0], "val_cell_origin") \
                and isinstance(node.value, ast.Constant) and isinstance(node.value.value, str):
            marker_key_na = node.value.value
    if not sorted_plain or marker_range_empty is None or marker_key_na is None:
        raise ExtractError("get_attr_origin: range text computation not recognised")

    # iter_table: stop_on == '<literal>' guarding the first-cell test
    tr = _class(tree, "XlsTableReader")
    it = _method(tr, "iter_table")
    blank_first = None
    for node in ast.walk(it):
        if isinstance(node, ast.If) and _cmp(node.test, lambda n: _is_name(n, "stop_on"), ast.Eq,
                                             lambda n: isinstance(n, ast.Constant) and isinstance(n.value, str)):
            inner = [n for n in node.body if isinstance(n, ast.If)]
            ok = False
            for i in inner:
                c = i.test
                if isinstance(c, ast.Call) and isinstance(c.func, ast.Attribute) and c.func.attr == "_cell_is_empty" \
                        and len(c.args) == 1 and isinstance(c.args[0], ast.Subscript) and _is_name(c.args[0].value, "row") \
                        and isinstance(c.args[0].slice, ast.Constant) and c.args[0].slice.value == 0 \
                        and any(isinstance(b, ast.Break) for b in i.body):
                    ok = True
            if not ok:
                raise ExtractError("iter_table: the 'blank first' branch is not `if _cell_is_empty(row[0]): break`")
            # the else branch: _row_is_empty(row) -> break
            ok2 = False
            for i in node.orelse:
                if isinstance(i, ast.If) and isinstance(i.test, ast.Call) and isinstance(i.test.func, ast.Attribute) \
                        and i.test.func.attr == "_row_is_empty" and any(isinstance(b, ast.Break) for b in i.body):
                    ok2 = True
            if not ok2:
                raise ExtractError("iter_table: the default end-of-table branch is not `if _row_is_empty(row): break`")
            blank_first = node.test.comparators[0].value
    if blank_first is None:
        raise ExtractError("iter_table: stop_on comparison not found")

    # bind_titles_row: column_name == "*"
    cm = _class(tree, "_ObjScrCellsMap")
    star = None
    for node in ast.walk(_method(cm, "bind_titles_row")):
        if isinstance(node, ast.If) and _cmp(node.test, lambda n: isinstance(n, ast.Attribute) and n.attr == "column_name",
                                             ast.Eq, lambda n: isinstance(n, ast.Constant) and isinstance(n.value, str)):
            star = node.test.comparators[0].value
            break
    if star is None:
        raise ExtractError("bind_titles_row: range marker comparison not found")

    text = ("(* generated from ak/xlsread.py by harness/props/c18.py -- do not edit *)\n"
            "From Coq Require Import ZArith List.\nFrom AK Require Import C18.Base.\nImport ListNotations.\n"
            f"Definition reader_none : list cval := {_cvals(reader_none)}.\n"
            f"Definition bool_true : list cval := {_cvals(bool_true)}.\n"
            f"Definition bool_false : list cval := {_cvals(bool_false)}.\n"
            f"Definition bool_none : list cval := {_cvals(bool_none)}.\n"
            f"Definition marker_na : str := {SX.cstr(marker_na)}.\n"
            f"Definition marker_skipped : str := {SX.cstr(marker_skipped)}.\n"
            f"Definition marker_range_empty : str := {SX.cstr(marker_range_empty)}.\n"
            f"Definition marker_key_na : str := {SX.cstr(marker_key_na)}.\n"
            f"Definition blank_first : str := {SX.cstr(blank_first)}.\n"
            f"Definition star : str := {SX.cstr(star)}.\n")
    return {"C18_Consts": text}


# ------------------------------------------------------------------ mock worksheet (harness side)
def col_letters(c):
    """0 -> A, 25 -> Z, 26 -> AA (openpyxl get_column_letter(c+1))"""
    out = ""
    c += 1
    while c > 0:
        c, rem = divmod(c - 1, 26)
        out = chr(65 + rem) + out
    return out


def coord(r, c):
    return f"{col_letters(c)}{r + 1}"


def parse_coord(text):
    """'AB12' -> (11, 27) or None"""
    if not isinstance(text, str):
        return None
    i = 0
    while i < len(text) and "A" <= text[i] <= "Z":
        i += 1
    letters, digits = text[:i], text[i:]
    if not letters or not digits or not all("0" <= d <= "9" for d in digits) or digits[0] == "0":
        return None
    c = 0
    for ch in letters:
        c = c * 26 + (ord(ch) - 64)
    return int(digits) - 1, c - 1


class _Cell:
    __slots__ = ("parent", "coordinate", "value", "row", "column")

    def __init__(self, parent, r, c, value):
        self.parent = parent
        self.coordinate = coord(r, c)
        self.value = value
        self.row = r + 1
        self.column = c + 1

    def __repr__(self):
        return f"<Cell {self.parent.title!r}.{self.coordinate}>"


class _Worksheet:
    def __init__(self, title, rows):
        self.title = title
        self._rows = [tuple(_Cell(self, r, c, v) for c, v in enumerate(row)) for r, row in enumerate(rows)]

    def iter_rows(self):
        for row in self._rows:
            yield row


# ------------------------------------------------------------------ cases
CONV_KINDS = ["str", "int", "bool", "list", "set"]
SPACES = [" ", "\t", "\n", "\u00a0", "\u2003", "\x1f", "\u3000", "\x85"]
# round 4: the character classes the converters depend on.
# every code point str.strip() removes (str.isspace of the running python; the model's table is Model.spaces: a difference shows as a
# disagreement of model and implementation on the cells padded with the character)
WS_ALL = [chr(c) for c in range(0x3100) if chr(c).isspace()]
# where str.splitlines() breaks a text although it is neither ',' nor a new line for CellList
LINE_BREAKS = ["\x0b", "\x0c", "\r", "\x1c", "\x1d", "\x1e", "\x85", "\u2028", "\u2029", "\r\n"]
# look like blanks / separators / digits, but are neither white space nor ',' nor '\n'
NOT_WS = ["\x00", "\x08", "\x1b", "\x7f", "\u180e", "\u200b", "\u200d", "\u2060", "\ufeff", ";", "|", "\uff0c", "\u060c",
          "\\n", "/", "'", "\"", "\u3001", "_", "."]
TXT_P = [0.03]      # probability of an "exotic" choice; gen_text_case raises it


def _x(rng):
    return rng.random() < TXT_P[0]


def _cv(kind, **kw):
    d = {"k": kind}
    d.update(kw)
    return d


def _ws(rng):
    if _x(rng):
        return rng.choice(WS_ALL) if rng.random() < 0.8 else rng.choice(LINE_BREAKS)
    return rng.choice(SPACES)


def _blank(rng):
    r = rng.random()
    if r < 0.7:
        return None
    if r < 0.85:
        return ""
    return "".join(_ws(rng) for _ in range(rng.randint(1, 2)))


def _plain_word(rng):
    return rng.choice(["a", "bb", "Zed", "x y", "7", "k-1", "é", "True", "None", "v", "0", "-"])


def _word(rng):
    w = _plain_word(rng)
    if not _x(rng):
        return w
    if rng.random() < 0.12:
        # nothing but look-alikes: not white space, so this IS a value (an element of a list cell, a non-blank cell)
        return "".join(rng.choice(NOT_WS) for _ in range(rng.choice([1, 1, 2])))
    # a character of one of the three classes strictly INSIDE the word (it must stay there), sometimes two
    for _ in range(rng.choice([1, 1, 1, 2])):
        inner = rng.choice(rng.choice([LINE_BREAKS, LINE_BREAKS, WS_ALL, NOT_WS]))
        w = w + inner + _plain_word(rng)
    if rng.random() < 0.3:
        # ... or at its border, where only white space goes away
        edge = rng.choice(rng.choice([LINE_BREAKS, WS_ALL, NOT_WS, NOT_WS]))
        w = edge + w if rng.random() < 0.5 else w + edge
    return w


def _pad(rng, s):
    if rng.random() < 0.25:
        s = _ws(rng) + s
    if rng.random() < 0.25:
        s = s + _ws(rng)
    if _x(rng) and rng.random() < 0.5:
        s = "".join(_ws(rng) for _ in range(rng.randint(1, 3))) + s + "".join(_ws(rng) for _ in range(rng.randint(0, 3)))
    return s


def _respell(rng, v):
    """a cell text that a sloppy comparison (strip / lower / int()) would take for v"""
    if isinstance(v, bool) or v is None:
        v = str(v)
    if isinstance(v, int):
        t = str(v)
        return rng.choice([t, " " + t, t + "\n", t + ".0", "+" + t, "0" + t, t.translate({48 + i: 0xff10 + i for i in range(10)}),
                           t.translate({48 + i: 0x660 + i for i in range(10)}), t[:1] + "_" + t[1:] if len(t) > 1 else t + "_",
                           float(v)])
    if not isinstance(v, str):
        return v
    return rng.choice([_ws(rng) + v, v + _ws(rng), v.upper(), v.lower(), v.swapcase(), v.capitalize(), v + rng.choice(NOT_WS),
                       rng.choice(NOT_WS) + v, _pad(rng, v), "".join(chr(ord(c) + 0xfee0) if "!" <= c <= "~" else c for c in v)])


LIST_SEPS = [",", "\n", ", ", ",\n"]
LIST_SEPS_X = [",", "\n", "\r\n", ",\r\n", "\r\n,", "\n\r", "\n\n", ",,", " , ", "\t,\t", ",\n,"]


def _cell_for(rng, cv, p_blank=0.12, p_bad=0.03):
    """a cell value for a column read with converter cv"""
    k = cv["k"]
    r = rng.random()
    if r < p_blank:
        return _blank(rng)
    if _x(rng) and rng.random() < 0.15:
        # near misses of the converter's own special values (none / true / false values are compared as they are)
        pool = list(cv.get("none", [])) + (list(cv.get("true", ["v", 1, "1", True, "True"])) +
                                           list(cv.get("false", [None, "", False, "False"])) if k == "bool" else [])
        pool = [v for v in pool if v != ""]
        if pool:
            return _respell(rng, rng.choice(pool))
    bad = r < p_blank + p_bad
    if k == "int":
        if bad:
            if _x(rng):
                return _respell(rng, rng.choice([0, 1, 7, 12, -3, 2020, 1000]))
            return rng.choice(["12", "x", " 5", 2.5, 3.0])
        return rng.choice([0, 1, 2, 7, 10, -3, 2019, 2020, 123456789012, True, False]) if rng.random() < 0.3 else rng.randint(-50, 3000)
    if k == "bool":
        if bad:
            return rng.choice(["yes", 2, "true", " v"])
        tv = cv["true"] if "true" in cv else ["v", 1, "1", True, "True"]
        fv = cv["false"] if "false" in cv else [None, "", False, "False", 0]
        pool = tv if (rng.random() < 0.5 and tv) or not fv else fv
        if _x(rng) and rng.random() < 0.5 and pool:
            return _respell(rng, rng.choice(pool))      # ' v', 'V', 'true', 'TRUE', '1 ', fullwidth: compared as they are
        if rng.random() < 0.05:
            return rng.choice([1.0, 0.0, -0.0])       # float cells: 1.0 == 1 == True, 0.0 == False
        return rng.choice(pool) if pool else "yes"
    if k in ("list", "set"):
        if bad:
            return rng.choice([5, True, 1.5])
        exotic = _x(rng)
        n = rng.randint(0, 5 if exotic else 4)
        items = [_pad(rng, _word(rng)) if rng.random() < 0.85 else "" for _ in range(n)]
        if exotic:
            # an element that is nothing but a look-alike (BOM, ZWSP, NUL, ';' ...): not white space, so it is an element
            items = [_pad(rng, rng.choice(NOT_WS)) if rng.random() < 0.1 else it for it in items]
        out = ""
        for i, it in enumerate(items):
            if i:
                out += rng.choice(LIST_SEPS_X if exotic else LIST_SEPS)
            out += it
        if exotic and rng.random() < 0.3:
            # separators / line breaks at the very ends of the text
            e = rng.choice(LIST_SEPS_X + LINE_BREAKS)
            out = e + out if rng.random() < 0.5 else out + e
        return out
    # str
    if rng.random() < 0.2:
        return rng.choice([5, -12, True, False, 0, 10 ** 15, 2.5, -0.5, 1e16, 0.0, 3.0])
    return _pad(rng, _word(rng))


def _conv(rng, kinds=CONV_KINDS):
    k = rng.choice(kinds)
    cv = _cv(k)
    if rng.random() < 0.15:
        cv["none"] = rng.choice([[], [None, ""], ["-", None], [None, 0], ["None", None]])
    if k == "bool" and rng.random() < 0.25:
        cv["true"] = rng.choice([["y", "Y", 1], ["x"], [True]])
        cv["false"] = rng.choice([["n", None], [None, "", 0], []])
    return cv


def _default(rng):
    return {"v": rng.choice([None, None, 0, 17, "dflt", "", True, -1])}


TITLE_POOL = ["Id", "Name", "Status", "Year", "Month", "Day", "Person's name", "Event Id", "kind", "2020", "x y", "Ünï", "N°"]
TITLE_POOL_X = ["Per\x0bson", "Tag\rset", "a\u2028b", "to be\x85continued", "N\u00a0o", "two\nlines", "x\x1cy", "Id\ufeff", "\u200bId",
                "Name;", "a,b", "NAME", "name", "Status\x00"]
UNKNOWN_POOL = ["math", "science", "history", "cs", "art", "pe", "bio", "u1", "u2", "q 1", "42", "zz", "1.5"]


def gen_sheet_case(rng, wide=False, force=None):
    """one worksheet + rule set.  force: dict of options to pin (ladder, stop, ...)"""
    force = force or {}
    n_attrs = rng.randint(1, 5)
    titles_pool = rng.sample(TITLE_POOL, len(TITLE_POOL))
    if _x(rng):
        # titles with a line-break / blank / look-alike character inside (a title is str(cell.value).strip(), compared as it is)
        titles_pool += rng.sample(TITLE_POOL_X, 3)
    rules = []
    known_cols = []     # (title, conv) of columns present in the sheet for plain attrs
    n_range = 0
    misuse = rng.random() < 0.04
    kinds = force.get("kinds", CONV_KINDS)
    for i in range(n_attrs):
        r = rng.random()
        if i == 0 and not misuse:
            r = 0.0     # the first attribute must come from a cell (anchor)
        if r < 0.55:
            cv = _conv(rng, kinds)
            title = titles_pool.pop()
            ru = {"t": "plain", "col": title, "cv": cv}
            present = True
            if rng.random() < 0.35:
                ru["def"] = _default(rng)
                present = rng.random() < 0.5 or i == 0 and not misuse
            elif misuse and rng.random() < 0.3:
                present = False            # required column missing -> ValueError
            if present:
                known_cols.append((title, cv))
            if rng.random() < 0.08 and known_cols:
                # two attributes reading the same column
                ru["col"] = rng.choice(known_cols)[0]
            rules.append(ru)
        elif r < 0.72:
            form = rng.choice(["none", "tuple", "callable"])
            d = {"v": None} if form == "none" else _default(rng)
            rules.append({"t": "ext", "def": d, "form": form})
        else:
            prev_range = next((x for x in rules if x["t"] == "range"), None)
            ru = {"t": "range", "dict": rng.random() < 0.5,
                  "cv": dict(prev_range["cv"]) if prev_range is not None and rng.random() < 0.85 else
                  _conv(rng, force.get("rkinds", ["bool", "int", "str", "bool", "list"]) if rng.random() < 0.8 or "rkinds" in force
                        else CONV_KINDS)}
            if rng.random() < 0.4:
                ru["def"] = _default(rng)
            rules.append(ru)
            n_range += 1
    nid = rng.choice([0, 1, 1, 1, 2, min(3, n_attrs)]) if not misuse else rng.choice([0, 1, 2, n_attrs, n_attrs + 1])
    nid = min(nid, n_attrs) if not misuse else nid

    # ---- columns
    cols = []   # (title_cell_value, conv for data)
    for title, cv in known_cols:
        if any(t == title for t, _ in cols):
            continue
        cols.append((title, cv))
    rng.shuffle(cols)
    range_cv = next((ru["cv"] for ru in rules if ru["t"] == "range"), None)
    unknown = rng.sample(UNKNOWN_POOL, len(UNKNOWN_POOL))
    run_len = 0
    if n_range:
        run_len = rng.choice([1, 2, 2, 3, 3, 4, 5]) if rng.random() < 0.9 else 0
        if run_len == 0:
            for ru in rules:
                if ru["t"] == "range" and rng.random() < 0.75:
                    ru.setdefault("def", _default(rng))
        if wide:
            run_len = rng.randint(2, 6)
    elif rng.random() < 0.4:
        run_len = rng.randint(1, 3)    # unknown columns without a ranged attribute
    run = [(unknown.pop(), range_cv or _cv("str")) for _ in range(run_len)]
    if run and rng.random() < 0.06 and len(run) >= 2:
        run[-1] = (run[0][0], run[-1][1])        # duplicate title inside the run
    pos = rng.randint(0, len(cols))
    cols[pos:pos] = run
    # blank-titled columns anywhere, further unknown columns behind a separator
    for _ in range(rng.choice([0, 0, 1, 1, 2, 3])):
        cols.insert(rng.randint(0, len(cols)), (_blank(rng), _cv("str")))
    if n_range and run and rng.random() < 0.35:
        # unknown columns that are NOT part of the run (separated by a known/blank column)
        idx_run_end = max(i for i, c in enumerate(cols) if c in run) + 1
        sep_after = [i for i in range(idx_run_end, len(cols))
                     if cols[i][0] is None or not isinstance(cols[i][0], str) or not cols[i][0].strip()
                     or any(cols[i][0] == t for t, _ in known_cols)]
        if sep_after:
            at = rng.randint(sep_after[0] + 1, len(cols))
            cols.insert(at, (unknown.pop(), _cv("str")))
    if rng.random() < 0.05 and cols:
        # duplicate known title (the later column wins in col_names_ids)
        c = rng.choice(cols)
        cols.insert(rng.randint(0, len(cols)), c)
    if wide:
        # push the run (or everything) across the Z/AA boundary
        first_run = next((i for i, c in enumerate(cols) if c in run), len(cols))
        target = rng.choice([22, 23, 24, 25, 26, 27, 50])
        filler = max(0, target - first_run)
        fill_cols = [(None if rng.random() < 0.8 else "", _cv("str")) for _ in range(filler)]
        at = rng.randint(0, first_run)
        # fillers must not split the run: insert before it
        cols[at:at] = fill_cols
    if not cols:
        cols.append((_blank(rng), _cv("str")))
    rows, qkeys, stop, ladder = _finish_sheet(rng, cols, force)
    return {"k": "read", "rows": rows, "rules": rules, "nid": nid, "stop": stop, "ladder": bool(ladder),
            "qkeys": qkeys, "misuse": bool(misuse), "title": _ws_title(rng)}


WS_TITLES = ["Sheet 1", "pupils", "a b c", "Ünï x", "'q'", "x)y", " lead", "tab\tx", "2020", "two  spaces", "(", "n/a"]


def gen_text_case(rng, wide=False):
    """round 4: a reading whose cell texts are full of the characters the converters could treat differently from what is documented:
    every white space code point (str.strip), the str.splitlines() boundaries that are not '\\n' (VT FF FS GS RS NEL LS PS, a lone
    CR, CR LF), look-alikes that are NOT white space / separators (ZWSP, BOM, NUL, ';', fullwidth comma, fullwidth / Arabic digits,
    '1_000'), inside the elements of list / set cells, at their borders, next to ',' and '\\n'; respelled none / true / false values;
    strings that int() would accept in int columns.  Mostly list / set / str columns and ranged dicts of lists."""
    old = TXT_P[0]
    TXT_P[0] = rng.choice([0.3, 0.5, 0.7])
    try:
        force = {"kinds": rng.choice([["list", "set"], ["list", "set", "str"], ["str", "bool", "int"], ["list", "set", "str", "bool", "int"]]),
                 "rkinds": rng.choice([["list"], ["list", "set", "str"], ["bool", "str", "int", "list"]]),
                 "p_bad": rng.choice([0.0, 0.0, 0.05, 0.15])}
        if rng.random() < 0.7:
            force["ladder"] = False
        c = gen_sheet_case(rng, wide=wide, force=force)
    finally:
        TXT_P[0] = old
    c["text"] = True
    return c


def _ws_title(rng):
    return "sheet1" if rng.random() < 0.4 else rng.choice(WS_TITLES)


def _finish_sheet(rng, cols, force):
    """title row, data rows (ladder runs of blanks), leading blank rows, end row + trailing content for the columns
    cols = [(title cell value, converter of the data cells)] -> (rows, qkeys, stop, ladder)"""
    width = len(cols)

    ladder = force.get("ladder", rng.random() < 0.4)
    stop = force.get("stop", rng.choice(["blank all", "blank all", "blank first", "blank first", "other"]))
    if stop == "other":
        stop = rng.choice(["blank all", "blank  first", "", "BLANK FIRST"])

    def title_cell(t):
        if t is None or not isinstance(t, str) or not t.strip():
            return t
        if t.isdigit() and rng.random() < 0.5:
            return int(t)
        if t == "1.5" and rng.random() < 0.5:
            return 1.5          # a float title cell: the column is titled str(1.5)
        return _pad(rng, t)
    title_row = [title_cell(t) for t, _ in cols]

    # ---- data rows
    n_rows = rng.choice([0, 1, 2, 2, 3, 3, 4, 4, 5, 6, 8])
    p_bad = 0.0 if rng.random() < 0.75 else 0.03
    p_bad = force.get("p_bad", p_bad)
    data = []
    for _ in range(n_rows):
        row = []
        for t, cv in cols:
            if t is None or (isinstance(t, str) and not t.strip()):
                row.append(_blank(rng) if rng.random() < 0.8 else _word(rng))    # content outside the table
            else:
                row.append(_cell_for(rng, cv, p_bad=p_bad))
        data.append(row)
    first_titled = next((i for i, t in enumerate(title_row) if t is not None and str(t).strip() != ""), None)
    if stop == "blank first" and rng.random() < 0.85:
        for row in data:
            if row[0] is None or str(row[0]).strip() == "":
                row[0] = rng.choice([1, "x", 5, "r"])
    if ladder and first_titled is not None and data:
        levels = rng.randint(1, 3)
        for i in range(1, len(data)):
            depth = rng.choice([0, 0, 1, 1, 2, 3, width])
            depth = min(depth, levels if depth != width else width)
            if stop == "blank first" and first_titled == 0 and rng.random() < 0.6:
                depth = 0       # keep many such tables free of the known ladder/blank-first conflict
            for c in range(first_titled, min(width, first_titled + depth)):
                data[i][c] = _blank(rng)
    # a data row must not be wholly blank unless it is meant to end the table (it may happen: fine)
    rows = []
    for _ in range(rng.choice([0, 0, 1, 2, 3])):
        rows.append([_blank(rng) for _ in range(width)])
    rows.append(title_row)
    rows += data
    if rng.random() < 0.6:
        # explicit end row + trailing content
        if stop == "blank first":
            end = [_blank(rng)] + [(_word(rng) if rng.random() < 0.6 else _blank(rng)) for _ in range(width - 1)]
        else:
            end = [_blank(rng) for _ in range(width)]
        rows.append(end)
        for _ in range(rng.choice([0, 1, 2])):
            rows.append([rng.choice([_word(rng), 3, None, "tail"]) for _ in range(width)])
    stripped_titles = []
    for t in title_row:
        s = "" if t is None else str(t).strip()
        if s and s not in stripped_titles:
            stripped_titles.append(s)
    qkeys = stripped_titles[:12] + ["no such key"]
    if len(stripped_titles) > 12:
        qkeys += rng.sample(stripped_titles[12:], min(4, len(stripped_titles) - 12))
    return rows, qkeys, stop, ladder


def gen_cases(rng, tier):
    big = tier == "thorough"
    cases = []
    n = 6000 if big else 700
    for i in range(n):
        cases.append(gen_sheet_case(rng, wide=(i % 12 == 0)))
    for i in range(1200 if big else 120):
        cases.append(gen_sheet_case(rng, force={"ladder": True, "stop": rng.choice(["blank all", "blank all", "blank first"])}))
    for i in range(400 if big else 40):
        cases.append(gen_sheet_case(rng, wide=True, force={"ladder": rng.random() < 0.3}))
    # round 4: cell texts with every white space / line boundary / look-alike character
    for i in range(1800 if big else 240):
        cases.append(gen_text_case(rng, wide=(i % 40 == 0)))
    # ragged rows (the mock can produce them, openpyxl cannot): correspondence only
    for i in range(100 if big else 12):
        c = gen_sheet_case(rng)
        if len(c["rows"]) >= 2:
            j = rng.randrange(len(c["rows"]))
            cut = rng.randint(0, max(0, len(c["rows"][j]) - 1))
            c["rows"][j] = c["rows"][j][:cut]
            c["ragged"] = True
            cases.append(c)
    # several object classes read from one table (XlsTableReader(r1, ..., rn)): 2-3 rule sets, overlapping / disjoint columns,
    # ranged attributes in one or several of them, the columns of one object next to / inside the would-be range of another
    multi = []
    for i in range(2500 if big else 300):
        force = None
        if i % 5 == 0:
            force = {"ladder": True, "stop": rng.choice(["blank all", "blank all", "blank first"])}
        elif i % 5 == 1:
            force = {"ladder": False, "stop": rng.choice(["blank all", "blank first"])}
        multi.append(gen_multi_case(rng, wide=(i % 17 == 0), force=force))
    # sessions: several readings in one process, class hierarchies with the TableReader mixin, edits of produced values
    sess = [gen_session_case(rng, "hier" if i % 2 else "alias") for i in range(800 if big else 120)]
    # spread evenly (a session costs about three single readings, a multi reading two: keeps the Coq shards balanced)
    sess = [x for pair in zip(sess, multi) for x in pair] + sess[len(multi):] + multi[len(sess):]
    stride = max(1, len(cases) // len(sess))
    out = []
    for i, c in enumerate(cases):
        out.append(c)
        if i % stride == stride - 1 and sess:
            out.append(sess.pop())
    return out + sess


def search_cases(rng, tier):
    out = []
    for i in range(4000):
        out.append(gen_sheet_case(rng, wide=(i % 6 == 0), force={"ladder": True} if i % 3 == 0 else None))
    for i in range(2000):
        out.append(gen_text_case(rng))
    for i in range(1500):
        out.append(gen_session_case(rng, "hier" if i % 2 else "alias"))
    for i in range(2500):
        out.append(gen_multi_case(rng, wide=(i % 10 == 0), force={"ladder": True} if i % 3 == 0 else None))
    return out


def kind(case):
    if case.get("k") == "sess":
        return "session-" + case.get("flavour", "?")
    if case.get("k") == "multi":
        parts = [f"multi{len(case['objs'])}", "ladder" if case["ladder"] else "plain",
                 "first" if case["stop"] == "blank first" else "all"]
        nr = sum(1 for ob in case["objs"] for r in ob["rules"] if r["t"] == "range")
        if nr:
            parts.append(f"range{min(nr, 2)}")
        if case.get("muts"):
            parts.append("edits")
        return "-".join(parts)
    parts = ["ladder" if case["ladder"] else "plain",
             "first" if case["stop"] == "blank first" else "all"]
    if any(r["t"] == "range" for r in case["rules"]):
        parts.append("range")
    if len(case["rows"]) and max(len(r) for r in case["rows"]) > 26:
        parts.append("wide")
    if case.get("ragged"):
        parts.append("ragged")
    if case.get("misuse"):
        parts.append("misuse")
    if case.get("text"):
        parts.append("text")
    return "-".join(parts)


# ------------------------------------------------------------------ implementation
def _is_rect(case):
    rows = case["rows"]
    return len({len(r) for r in rows}) <= 1


def _canon_simple(v):
    if v is None:
        return ["n"]
    if isinstance(v, bool):
        return ["b", v]
    if isinstance(v, int):
        return ["i", v]
    if isinstance(v, str):
        return ["s", v]
    if isinstance(v, list) and all(isinstance(x, str) for x in v):
        return ["l", list(v)]
    if isinstance(v, (set, frozenset)) and all(isinstance(x, str) for x in v):
        return ["S", sorted(v)]
    return ["?", repr(v)]


def _canon_value(v):
    if isinstance(v, dict):
        return ["d", sorted([[k, _canon_simple(x)] for k, x in v.items()], key=lambda kv: kv[0])]
    return _canon_simple(v)


def _mk_conv(xl, cv):
    kw = {}
    if "none" in cv:
        kw["none_values"] = list(cv["none"])
    k = cv["k"]
    if k == "bool":
        if "true" in cv:
            kw["true_values"] = list(cv["true"])
        if "false" in cv:
            kw["false_values"] = list(cv["false"])
        return xl.CellBool(**kw) if kw else xl.cell_bool
    cls = {"str": xl.CellStr, "int": xl.CellInt, "list": xl.CellList, "set": xl.CellSet}[k]
    dflt = {"str": xl.cell_str, "int": xl.cell_int, "list": xl.cell_list, "set": xl.cell_set}[k]
    return cls(**kw) if kw else dflt


def _mk_rules(xl, case):
    rules = {}
    for i, ru in enumerate(case["rules"]):
        name = f"a{i}"
        if ru["t"] == "plain":
            cv = _mk_conv(xl, ru["cv"])
            rules[name] = (ru["col"], cv, {"default_val": ru["def"]["v"]}) if "def" in ru else (ru["col"], cv)
        elif ru["t"] == "ext":
            form = ru.get("form", "tuple")
            if form == "none":
                rules[name] = None
            elif form == "callable":
                dv = ru["def"]["v"]
                rules[name] = (None, None, {"default_val": (lambda dv=dv: list(dv) if isinstance(dv, list) else dv)})
            else:
                rules[name] = (None, None, {"default_val": ru["def"]["v"]})
        else:
            rc = (xl.CellRangeDict if ru["dict"] else xl.CellRangeSet)(_mk_conv(xl, ru["cv"]))
            rules[name] = ("*", rc, {"default_val": ru["def"]["v"]}) if "def" in ru else ("*", rc)
    return rules


def _res(f, *a, **kw):
    try:
        return ["ok", f(*a, **kw)]
    except BaseException as e:  # noqa
        if type(e).__name__ == "Hang":
            raise
        return ["err", SX.exc_name(e)]


def _obs_obj(o, names, qkeys, with_origins=True):
    """what a user can see of one produced object: every attribute value and every origin query"""
    attrs = []
    for name in names:
        try:
            a = {"v": _canon_value(getattr(o, name))}
        except AttributeError:      # an object of another class than the one that was read
            a = {"v": ["?", "no such attribute"]}
        if with_origins:
            a["o"] = _res(o.get_attr_origin, name)
            a["ko"] = [_res(o.get_attr_origin, name, k) for k in qkeys]
            a["kn"] = [_res(o.get_attr_origin, name, k, strict=False) for k in qkeys]
        attrs.append(a)
    it = {"attrs": attrs}
    if with_origins:
        it["unk"] = _res(o.get_attr_origin, "no_such_attribute")
        # what depends on the worksheet title: str(obj) up to the logic id, the origins with incl_ws=True
        def head():
            text, tail = str(o), f"{o.logic_id}>"
            return text[:-len(tail)] if text.endswith(tail) else "?" + text
        it["head"] = _res(head)
        it["ws"] = [[_res(o.get_attr_origin, name, incl_ws=True),
                     [_res(o.get_attr_origin, name, k, incl_ws=True, strict=False) for k in qkeys]] for name in names]
        it["wsunk"] = _res(o.get_attr_origin, "no_such_attribute", incl_ws=True)
        it["lid"] = _res(lambda: _canon_key(o.logic_id))
    return it


def _read(xl, case, rows, ladder, with_origins=True):
    n = len(case["rules"])
    names = [f"a{i}" for i in range(n)]
    cls = type("XlGen", (xl.XlsObject,), {"_ATTRS": names, "_NUM_ID_ATTRS": case["nid"]})
    ws = _Worksheet(case.get("title", "sheet1"), rows)
    items = []
    err = None
    try:
        rules = _mk_rules(xl, case)
        for o in xl.iter_table(ws, cls, rules, stop_on=case["stop"], ladder_format=ladder):
            items.append(None if o is None else _obs_obj(o, names, case["qkeys"], with_origins))
    except BaseException as e:  # noqa
        if type(e).__name__ == "Hang":
            raise
        err = SX.exc_name(e)
    return {"items": items, "err": err}


def impl_run(case):
    from ak import xlsread as xl
    if case.get("k") == "sess":
        return _run_session(xl, case)
    if case.get("k") == "multi":
        return _run_multi(xl, case)
    obs = _read(xl, case, case["rows"], case["ladder"])
    if case["ladder"] and _is_rect(case):
        # the property's second sentence: the same table with the "same as above" cells filled in, read plainly
        obs["filled"] = _read(xl, case, ref_fill(case["rows"]), False, with_origins=False)
    return obs


# ------------------------------------------------------------------ model side
def _c_cval(v):
    if v is None:
        return "CNone"
    if isinstance(v, bool):
        return f"(CBool {SX.cbool(v)})"
    if isinstance(v, int):
        return f"(CInt {SX.cZ(v)})"
    if isinstance(v, float):
        # any other cell value: python's str(v), and the int it is == to, are passed to the model (Base.COther)
        num = f"(Some {SX.cZ(int(v))})" if v == int(v) else "None"
        return f"(COther {SX.cstr(str(v))} {num})"
    return f"(CStr {SX.cstr(v)})"


def _c_cvals(vs):
    return "(@nil cval)" if not vs else "[" + "; ".join(_c_cval(v) for v in vs) + "]"


def _c_sval(v):
    if isinstance(v, list):
        return f"(VList {_c_strs(v)})"
    if v is None:
        return "VNone"
    if isinstance(v, bool):
        return f"(VBool {SX.cbool(v)})"
    if isinstance(v, int):
        return f"(VInt {SX.cZ(v)})"
    return f"(VStr {SX.cstr(v)})"


def _c_conv(cv):
    kind_ = {"str": "KStr", "int": "KInt", "bool": "KBool", "list": "KList", "set": "KSet"}[cv["k"]]

    def o(key):
        return f"(Some {_c_cvals(cv[key])})" if key in cv else "None"
    return f"(mkConv {kind_} {o('none')} {o('true')} {o('false')})"


def _c_rule(ru):
    if ru["t"] == "plain":
        d = f"(Some {_c_sval(ru['def']['v'])})" if "def" in ru else "None"
        return f"RPlain {SX.cstr(ru['col'])} {_c_conv(ru['cv'])} {d}"
    if ru["t"] == "ext":
        return f"RExt {_c_sval(ru['def']['v'])}"
    return f"RRange {SX.cbool(ru['dict'])} {_c_conv(ru['cv'])} {SX.cbool('def' in ru)}"


def _c_strs(l):  # noqa: E741
    return "(@nil (list Z))" if not l else "[" + "; ".join(SX.cstr(s) for s in l) + "]"


def _c_rows(rows):
    return "[" + "; ".join(_c_cvals(r) for r in rows) + "]" if rows else "(@nil (list cval))"


def _c_rules(rules):
    return "[" + "; ".join(_c_rule(r) for r in rules) + "]" if rules else "(@nil rule)"


def coq_case(case, obs):
    if case.get("k") == "sess":
        return _coq_session(case)
    if case.get("k") == "multi":
        return _coq_multi(case)
    return (f"Read {SX.cstr(case.get('title', 'sheet1'))} {_c_rows(case['rows'])} {_c_rules(case['rules'])} "
            f"{SX.cnat(case['nid'])} {SX.cstr(case['stop'])} {SX.cbool(case['ladder'])} {_c_strs(case['qkeys'])}")


def _sx_simple(v):
    t = v[0]
    if t == "n":
        return [0]
    if t == "i":
        return [1, v[1]]
    if t == "b":
        return [2, 1 if v[1] else 0]
    if t == "s":
        return [3, SX.s(v[1])]
    if t == "l":
        return [4, [SX.s(x) for x in v[1]]]
    if t == "S":
        return [5, [SX.s(x) for x in v[1]]]
    return [99, SX.s(str(v[1]))]


def _sx_value(v, ru):
    if v[0] == "d":
        return [6, [[SX.s(k), _sx_simple(x)] for k, x in v[1]]]
    if v[0] == "S" and ru["t"] == "range":
        return [7, [SX.s(x) for x in v[1]]]
    return _sx_simple(v)


def _sx_res(r):
    return SX.ok(SX.s(r[1])) if r[0] == "ok" else SX.err(r[1])


H_P = 2305843009213693951
H_B = 1000003


def hash_sx(x, h=1):
    """mirror of C18/Run.v hash_sx on a nested list of ints (polynomial digest modulo 2^61, reduction by bit mask)"""
    if isinstance(x, bool):
        x = 1 if x else 0
    if isinstance(x, int):
        return (h * H_B + x + 7) & H_P
    h = (h * H_B + 3) & H_P
    for e in x:
        h = hash_sx(e, h)
    return (h * H_B + 5) & H_P


def obj_sx(it, rules, ws=False):
    """one object as C18/Run.v encodes it: sx_obj (ws=False, sessions) / sx_obj_ws (single and multi readings)"""
    attrs = []
    for a, ru in zip(it["attrs"], rules):
        attrs.append([_sx_value(a["v"], ru), _sx_res(a["o"]), [_sx_res(r) for r in a["ko"]], [_sx_res(r) for r in a["kn"]]])
    attrs.append(_sx_res(it["unk"]))
    if not ws:
        return attrs
    head = SX.s(it["head"][1]) if it["head"][0] == "ok" else [-1]
    return [attrs, head, [[_sx_res(w[0]), [_sx_res(r) for r in w[1]]] for w in it["ws"]], _sx_res(it["wsunk"])]


def full_sx(case, obs, ws=False):
    """the full observation, as C18/Run.v run_full encodes it"""
    items = [[] if it is None else [obj_sx(it, case["rules"], ws)] for it in obs["items"]]
    e = [] if obs["err"] is None else [SX.ERR_CODES.get(obs["err"], SX.ERR_OTHER)]
    return [items, e]


def expected_sx(case, obs):
    if case.get("k") == "sess":
        return _expected_session(case, obs)
    if case.get("k") == "multi":
        return _expected_multi(case, obs)
    items, e = full_sx(case, obs, ws=True)
    return SX.dumps([[[0] if not it else hash_sx(it[0]) for it in items], e])


# ------------------------------------------------------------------ oracle: the statement, independently


def _is_blank(v):
    return v is None or str(v).strip() == ""


def _title(v):
    return "" if v is None else str(v).strip()


def ref_fill(rows):
    """the table with the 'same as above' cells filled in: after the title row (first non-blank row), up to the
    first wholly blank row, a run of blank cells starting at the first titled column takes the values of the
    (filled) row above; the first data row and everything else is unchanged"""
    rows = [list(r) for r in rows]
    t = next((i for i, r in enumerate(rows) if not all(_is_blank(v) for v in r)), None)
    if t is None:
        return rows
    fcp = next((i for i, v in enumerate(rows[t]) if _title(v)), None)
    if fcp is None:
        return rows
    prev = None
    for i in range(t + 1, len(rows)):
        row = rows[i]
        if all(_is_blank(v) for v in row):
            break
        if prev is not None:
            for c in range(fcp, len(row)):
                if _is_blank(row[c]) and c < len(prev):
                    row[c] = prev[c]
                else:
                    break
        prev = row
    return rows


class _Bad(Exception):
    pass


def _py_in(v, vals):
    return any(v == x for x in vals)     # python ==: 1 == True, 0 == False


def ref_convert(cv, v, consts=None):
    """what 'converting a cell' means for each declared converter -> canonical value, or raises _Bad"""
    k = cv["k"]
    none_vals = cv["none"] if "none" in cv else ([] if k == "bool" else [None])
    if _py_in(v, none_vals):
        return ["n"]
    if k == "str":
        return ["s", "" if v is None else str(v).strip()]
    if k == "int":
        if isinstance(v, bool):
            return ["b", v]
        if isinstance(v, int):
            return ["i", v]
        raise _Bad()
    if k == "bool":
        tv = cv["true"] if "true" in cv else ["v", 1, "1", True, "True"]
        fv = cv["false"] if "false" in cv else [None, "", False, "False"]
        if _py_in(v, tv):
            return ["b", True]
        if _py_in(v, fv):
            return ["b", False]
        raise _Bad()
    if k in ("list", "set"):
        if v is None:
            items = []
        elif isinstance(v, str):
            items = [x.strip() for x in v.replace("\n", ",").split(",")]
            items = [x for x in items if x]
        else:
            raise _Bad()
        return ["l", items] if k == "list" else ["S", sorted(set(items))]
    raise AssertionError(k)


def _truthy(cv_val):
    t = cv_val[0]
    if t == "n":
        return False
    return bool(cv_val[1])


def _table_rows(rows, stop):
    """(index of the title row, indices of the data rows up to the end-of-table rule)"""
    t = next((i for i, r in enumerate(rows) if not all(_is_blank(v) for v in r)), None)
    if t is None:
        return None, []
    out = []
    for i in range(t + 1, len(rows)):
        r = rows[i]
        if stop == "blank first":
            if _is_blank(r[0]):
                break
        elif all(_is_blank(v) for v in r):
            break
        out.append(i)
    return t, out


def _expected_run(titles, rules, extra=()):
    """the columns of the range group: the first maximal run of titled columns that no rule claims by name
    (extra: the names claimed by the rules of the OTHER object classes read from the same table)"""
    known = {ru["col"] for ru in rules if ru["t"] == "plain" and ru["col"] != "*"} | set(extra)
    run = []
    started = False
    for i, t in enumerate(titles):
        is_range = bool(t) and t not in known
        if is_range:
            started = True
            run.append(i)
        elif started:
            break
    return run


def oracle(case, obs):
    if "__hang__" in obs:
        return [("hang", "read_table did not return")]
    if case.get("k") == "sess":
        return _oracle_session(case, obs)
    if case.get("k") == "multi":
        return _oracle_multi(case, obs)
    if case.get("ragged") or not _is_rect(case):
        return []       # outside the property's quantifier (openpyxl rows are rectangular)
    out = []
    extra = case.get("known_extra", ())
    rows = case["rows"]
    rules = case["rules"]
    stop = case["stop"]
    ladder = case["ladder"]
    items = obs["items"]
    err = obs["err"]
    filled = ref_fill(rows) if ladder else rows
    t, data_idx = _table_rows(filled, stop)
    titles = [_title(v) for v in rows[t]] if t is not None else []
    plain_star = any(ru["t"] == "plain" and ru["col"] == "*" for ru in rules)
    if plain_star:
        return []
    misuse = _is_misuse(case, titles)

    def add(sig, msg):
        out.append((sig, msg))

    # ---- (1) one item per data row, in sheet order, up to the end-of-table rule
    if err is None:
        if len(items) != len(data_idx):
            sig = "row-count"
            if ladder and stop == "blank first" and len(items) < len(data_idx):
                # the open finding, and nothing else: the reading ended (without exception) at the first data row of the
                # filled-in table it did not yield, the ladder starts in the first sheet column, and that row's own first
                # cell is blank although it is not blank once filled in ('same as above')  [Props.ladder_prefix]
                r_stop = data_idx[len(items)]
                fcp = next((i for i, x in enumerate(titles) if x), None)
                if fcp == 0 and _is_blank(rows[r_stop][0]) and not _is_blank(filled[r_stop][0]):
                    sig = "ladder-blank-first"
            add(sig, f"{len(items)} items for {len(data_idx)} data rows (title row {t}, stop_on={stop!r}, ladder={ladder}); "
                     f"rows={rows!r}")
    else:
        if len(items) > len(data_idx):
            add("row-count", f"{len(items)} items yielded before {err} but only {len(data_idx)} data rows")
        elif not misuse and not case.get("err_elsewhere"):
            # an exception is acceptable only where the declared rules cannot be applied
            # (err_elsewhere: several object classes per table, the exception is accounted for by _oracle_multi)
            why = _legit_error(case, filled, t, titles, data_idx, len(items))
            if why is None:
                add("unexpected-error", f"{err} after {len(items)} items although every cell of the next row converts "
                                        f"and all required columns exist; rows={rows!r} rules={rules!r}")
    if t is None:
        return out
    run_cols = _expected_run(titles, rules, extra)
    run_keys = {titles[c] for c in run_cols}
    ws_name = case.get("title", "sheet1")
    if " " in ws_name:
        ws_name = f"'{ws_name}'"

    def with_ws(r):
        return ["ok", ws_name + " " + r[1]] if r[0] == "ok" else r

    # ---- (2) per object / attribute: value == convert(cell(s) at the reported origin), or the default
    for j, it in enumerate(items):
        if j >= len(data_idx):
            break
        R = data_idx[j]
        if it is None:
            # no object for this row: acceptable only when every id attribute is None
            k = min(case["nid"], len(rules))
            if k == 0:
                add("spurious-none", f"row {R} gave None although _NUM_ID_ATTRS is 0")
            elif not misuse:
                vals = []
                raw_none = True
                for ru in rules[:k]:
                    vals.append(_ref_attr_value(ru, filled[R], titles, run_cols))
                    # the column an attribute is read from is the LAST one with its title (col_names_ids)
                    last = [c for c, tt in enumerate(titles) if tt == ru["col"]][-1:]
                    raw_none = raw_none and all(filled[R][c] is None for c in last)
                # XlsObject.construct: no object when the id cells are empty or the id values are all None
                if not raw_none and any(v is not _UNKNOWN and v != ["n"] for v in vals):
                    add("spurious-none", f"row {R} gave None although its id attributes read {vals!r}")
            continue
        if "ws" in it:
            # incl_ws=True puts "<sheet name> " (quoted when it has a space) in front of what is reported without it;
            # str(obj) names the class, the sheet and the anchor cell (= the cell of the first attribute)
            for i, (a, w) in enumerate(zip(it["attrs"], it["ws"])):
                if w[0] != with_ws(a["o"]) or w[1] != [with_ws(r) for r in a["kn"]]:
                    add("origin-ws-prefix", f"object {j} (row {R}) attribute {i}: get_attr_origin(..., incl_ws=True) gives {w!r}, "
                                            f"without incl_ws {a['o']!r} / {a['kn']!r}, sheet title {case.get('title', 'sheet1')!r}")
            if it["wsunk"] != with_ws(it["unk"]):
                add("origin-ws-prefix", f"object {j}: unknown attribute with incl_ws=True gives {it['wsunk']!r}")
            if it["attrs"] and it["attrs"][0]["o"][0] == "ok" and not misuse:
                want_head = f"<{case.get('cname', 'XlGen')}({ws_name} {it['attrs'][0]['o'][1]}) "
                if it["head"] != ["ok", want_head]:
                    add("str-head", f"object {j} (row {R}): str(obj) starts {it['head']!r}, expected {want_head!r}")
            k = case["nid"]
            if not misuse and k <= len(it["attrs"]) and all(a["v"][0] in "nbislS" for a in it["attrs"][:k]):
                vals = [a["v"] for a in it["attrs"][:k]]
                want_lid = vals[0] if k == 1 else ["t", vals]
                if it["lid"] != ["ok", want_lid]:
                    add("logic-id", f"object {j} (row {R}): logic_id is {it['lid']!r}, the id attributes are {vals!r}")
        for i, (a, ru) in enumerate(zip(it["attrs"], rules)):
            where = f"object {j} (row {R}) attribute {i} {ru!r}"
            v = a["v"]
            o = a["o"]
            if o[0] != "ok":
                add("origin-raises", f"{where}: get_attr_origin raised {o[1]}")
                continue
            text = o[1]
            if ru["t"] == "ext":
                if text != "<n/a>":
                    add("origin-marker", f"{where}: external attribute reports origin {text!r}")
                if v != _canon_simple(ru["def"]["v"]):
                    add("default-value", f"{where}: value {v!r} is not the declared default")
                continue
            if ru["t"] == "plain":
                rc = parse_coord(text)
                if rc is None:
                    # not a coordinate: must be the missing optional column
                    if ru["col"] in titles:
                        add("origin-marker", f"{where}: origin {text!r} although column {ru['col']!r} exists")
                    elif "def" not in ru:
                        add("origin-marker", f"{where}: origin {text!r} for a required column")
                    elif v != _canon_simple(ru["def"]["v"]):
                        add("default-value", f"{where}: value {v!r} is not the declared default {ru['def']['v']!r}")
                    continue
                r_, c_ = rc
                if not (0 <= r_ < len(rows) and 0 <= c_ < len(rows[r_])):
                    add("origin-outside", f"{where}: origin {text} is outside the sheet")
                    continue
                if titles[c_] != ru["col"]:
                    add("origin-column", f"{where}: origin {text} is in column titled {titles[c_]!r}, not {ru['col']!r}")
                try:
                    want = ref_convert(ru["cv"], rows[r_][c_])
                except _Bad:
                    want = ["<conversion error>"]
                if want != v:
                    add("origin-value", f"{where}: value {v!r} but the cell at {text} holds {rows[r_][c_]!r} -> {want!r}")
                _check_position(add, where, ladder, rows, filled, R, r_, c_, text)
                continue
            # ---- ranged attribute
            keys_ok = {}
            for k, ko in zip(case["qkeys"], a["ko"]):
                if k in run_keys:
                    if ko[0] != "ok" or parse_coord(ko[1]) is None:
                        add("range-detect", f"{where}: column {k!r} belongs to the range group but get_attr_origin(attr, {k!r}) = {ko!r}")
                    else:
                        keys_ok[k] = parse_coord(ko[1])
                elif ko[0] == "ok":
                    add("range-detect", f"{where}: {k!r} is not a column of the range group but has origin {ko[1]!r}")
            if v[0] == "d":
                got_keys = {k for k, _ in v[1]}
                if got_keys != run_keys:
                    add("range-detect", f"{where}: keys {sorted(got_keys)!r}, the range group is {sorted(run_keys)!r} (titles {titles!r})")
            elif v[0] == "S":
                if not set(v[1]) <= run_keys:
                    add("range-detect", f"{where}: members {v[1]!r} outside the range group {sorted(run_keys)!r}")
            else:
                add("range-value", f"{where}: value {v!r} is neither dict nor set")
                continue
            cells = []
            for k, (r_, c_) in keys_ok.items():
                if not (0 <= r_ < len(rows) and 0 <= c_ < len(rows[r_])):
                    add("origin-outside", f"{where}: origin of key {k!r} is outside the sheet")
                    continue
                cells.append((r_, c_))
                if titles[c_] != k:
                    add("origin-column", f"{where}: origin of key {k!r} is in column titled {titles[c_]!r}")
                try:
                    want = ref_convert(ru["cv"], rows[r_][c_])
                except _Bad:
                    want = ["<conversion error>"]
                if v[0] == "d":
                    got = dict((kk, vv) for kk, vv in v[1]).get(k)
                    if got != want:
                        add("origin-value", f"{where}: value[{k!r}] = {got!r} but the cell at {coord(r_, c_)} holds {rows[r_][c_]!r} -> {want!r}")
                else:
                    if want != ["<conversion error>"] and (k in v[1]) != _truthy(want):
                        add("origin-value", f"{where}: membership of {k!r} is {k in v[1]} but the cell at {coord(r_, c_)} holds {rows[r_][c_]!r}")
                _check_position(add, where + f" key {k!r}", ladder, rows, filled, R, r_, c_, coord(r_, c_))
            # the range text: "<first>:<last>" must name the leftmost and the rightmost source cell
            if len(keys_ok) == len(run_keys) and len(case["qkeys"]) > len(titles) - titles.count(""):
                pass
            all_keys_queried = run_keys <= set(case["qkeys"])
            if all_keys_queried:
                cs = sorted(set(cells), key=lambda rc: (rc[1], rc[0]))
                if not cs:
                    want_text = None
                    if parse_coord(text) is not None or ":" in text:
                        add("origin-range-text", f"{where}: no source cells but origin {text!r}")
                elif len(cs) == 1:
                    want_text = coord(*cs[0])
                else:
                    want_text = coord(*cs[0]) + ":" + coord(*cs[-1])
                if want_text is not None and text != want_text:
                    letters = {len(col_letters(c)) for _, c in cs}
                    sig = "origin-range-string-sort" if len(letters) > 1 and _string_sorted_text(cs) == text else "origin-range-text"
                    add(sig, f"{where}: get_attr_origin reports {text!r}, the source cells are "
                             f"{[coord(*x) for x in cs]!r} (expected {want_text!r})")

    # ---- (3) ladder: same objects as the filled-in table read plainly
    if ladder and "filled" in obs and not misuse:
        f = obs["filled"]
        mine = [None if it is None else [a["v"] for a in it["attrs"]] for it in items]
        theirs = [None if it is None else [a["v"] for a in it["attrs"]] for it in f["items"]]
        if mine != theirs or err != f["err"]:
            sig = "ladder-equiv"
            if stop == "blank first" and err is None and len(mine) <= len(theirs) and mine == theirs[:len(mine)]:
                t2, d2 = _table_rows(filled, stop)
                fcp = next((i for i, x in enumerate(titles) if x), None)
                # exactly the open finding: ladder, stop_on='blank first', the ladder starts in the first sheet column,
                # the readings agree up to a row whose own first cell is blank ('same as above': non-blank once filled in),
                # where the ladder reading ended without an exception
                if len(mine) < len(d2) and fcp == 0 and _is_blank(rows[d2[len(mine)]][0]) \
                        and not _is_blank(filled[d2[len(mine)]][0]):
                    sig = "ladder-blank-first"
            add(sig, f"ladder reading gives {len(mine)} items (err {err}), the filled-in table read plainly gives "
                     f"{len(theirs)} (err {f['err']}); rows={rows!r} stop_on={stop!r}; first difference at "
                     f"{next((i for i, (x, y) in enumerate(zip(mine, theirs)) if x != y), min(len(mine), len(theirs)))}")
    # de-duplicate signatures, keep the first message of each
    seen = set()
    uniq = []
    for sig, msg in out:
        if sig not in seen:
            seen.add(sig)
            uniq.append((sig, msg[:1500]))
    return uniq


def _string_sorted_text(cs):
    texts = sorted(coord(*x) for x in cs)
    return texts[0] + ":" + texts[-1]


def _check_position(add, where, ladder, rows, filled, R, r_, c_, text):
    if not ladder:
        if r_ != R:
            add("origin-row", f"{where}: origin {text} is not in the object's row {R + 1}")
        return
    # ladder: the origin is the cell that actually holds the value of the filled-in table
    if r_ > R:
        add("ladder-origin", f"{where}: origin {text} lies below the object's row {R + 1}")
    elif r_ != R and not _is_blank(rows[R][c_]):
        add("ladder-origin", f"{where}: own cell {coord(R, c_)} is not blank but the origin is {text}")
    elif filled[R][c_] != rows[r_][c_] or type(filled[R][c_]) is not type(rows[r_][c_]):
        add("ladder-origin", f"{where}: origin {text} holds {rows[r_][c_]!r}, the filled-in table has {filled[R][c_]!r}")
    elif r_ != R and any(not _is_blank(rows[x][c_]) for x in range(r_ + 1, R)):
        add("ladder-origin", f"{where}: origin {text} is not the nearest filled cell above {coord(R, c_)}")


_UNKNOWN = object()


def _is_misuse(case, titles):
    """rule sets the class cannot be used with (AttributeError/AssertionError/IndexError by construction):
    the first attribute and the id attributes must be read from single cells of present columns"""
    rules = case["rules"]
    if not rules or case["nid"] > len(rules):
        return True
    for ru in rules[:max(1, case["nid"])]:
        if ru["t"] != "plain" or ru["col"] not in titles:
            return True
    return False


def _ref_attr_value(ru, row, titles, run_cols):
    """value the rule gives on a (filled) row, _UNKNOWN when it cannot be computed simply"""
    if ru["t"] == "ext":
        return _canon_simple(ru["def"]["v"])
    if ru["t"] == "range":
        return ["d"]      # never None
    cols = [i for i, t in enumerate(titles) if t == ru["col"]]
    if not cols:
        return _canon_simple(ru["def"]["v"]) if "def" in ru else _UNKNOWN
    if len(cols) > 1:
        return _UNKNOWN
    try:
        return ref_convert(ru["cv"], row[cols[0]])
    except _Bad:
        return _UNKNOWN


def _err_explained(case, n_items):
    """may reading case['rows'] with case['rules'] raise after n_items items? (misuse of the class counts)"""
    rows = case["rows"]
    filled = ref_fill(rows) if case["ladder"] else rows
    t, data_idx = _table_rows(filled, case["stop"])
    titles = [_title(v) for v in rows[t]] if t is not None else []
    if _is_misuse(case, titles):
        return True
    return _legit_error(case, filled, t, titles, data_idx, n_items) is not None


def _legit_error(case, filled, t, titles, data_idx, n_items):
    """reason why the reading may raise after n_items items, or None"""
    rules = case["rules"]
    if t is None:
        return None
    run_cols = _expected_run(titles, rules, case.get("known_extra", ()))
    for ru in rules:
        if ru["t"] == "plain" and ru["col"] not in titles and "def" not in ru:
            return "required column missing"
        if ru["t"] == "range" and not run_cols and "def" not in ru:
            return "no columns for a ranged attribute"
    if n_items >= len(data_idx):
        return None
    row = filled[data_idx[n_items]]
    for ru in rules:
        if ru["t"] == "plain":
            for c, tt in enumerate(titles):
                if tt == ru["col"]:
                    try:
                        ref_convert(ru["cv"], row[c])
                    except _Bad:
                        return "cell does not convert"
        elif ru["t"] == "range":
            for c in range(len(titles)):
                if titles[c] in {titles[x] for x in run_cols}:
                    try:
                        ref_convert(ru["cv"], row[c])
                    except _Bad:
                        return "range cell does not convert"
    return None


def nontrivial(case, obs):
    if case.get("k") == "multi":
        return isinstance(obs, dict) and any(it is not None for tup in obs.get("tuples", []) for it in tup)
    if case.get("k") == "sess":
        return isinstance(obs, dict) and sum(1 for rd in obs.get("reads", []) if any(it is not None for it in rd["items"])) >= 2
    return isinstance(obs, dict) and any(it is not None for it in obs.get("items", []))


def outcome(case, obs):
    if "__hang__" in obs:
        return "hang"
    if case.get("k") == "sess":
        return "sess:" + ("err" if any(rd["err"] for rd in obs["reads"]) else "ok")
    if case.get("k") == "multi":
        return f"multi:{'err:' + obs['err'] if obs['err'] else 'ok'}:{min(obs['n'], 4)}{'+' if obs['n'] > 4 else ''}"
    return f"{'err:' + obs['err'] if obs['err'] else 'ok'}:{min(len(obs['items']), 4)}{'+' if len(obs['items']) > 4 else ''}"


def shrink_candidates(case):
    if case.get("k") == "sess":
        yield from _shrink_session(case)
        return
    if case.get("k") == "multi":
        yield from _shrink_multi(case)
        return
    rows = case["rows"]
    # drop a row
    for i in range(len(rows) - 1, -1, -1):
        c = dict(case)
        c["rows"] = rows[:i] + rows[i + 1:]
        yield c
    # drop a column
    if rows:
        w = max(len(r) for r in rows)
        for j in range(w - 1, -1, -1):
            c = dict(case)
            c["rows"] = [r[:j] + r[j + 1:] for r in rows]
            yield c
    # drop the last attribute
    if len(case["rules"]) > 1:
        c = dict(case)
        c["rules"] = case["rules"][:-1]
        c["nid"] = min(case["nid"], len(c["rules"]))
        yield c


# ------------------------------------------------------------------ sessions
# Several readings in ONE process, through every entry point (iter_table, read_table, a shared XlsObjReadRules /
# XlsRecordAttrReadRules, the TableReader mixin of a class hierarchy), on sheets that are re-read, edited in place or
# re-ordered, with in-place modifications of values of the produced objects in between.  Every object of every
# reading is observed when it is produced AND at the end of the session.  Model: coq/C18/Session.v.
MARK = "†"
MIXIN_VIAS = ("mx_list", "mx_iter")
WHOLE_VIAS = ("table", "mx_list")
FUNC_VIAS = ("iter", "table", "rr", "ar")


def _step_rules(case, st):
    """(attribute names in _ATTRS order, _NUM_ID_ATTRS, the rules in that order) that a read step must be read with:
    the rules passed to the call, for the mixin the ATTR_RULES of the class that was asked to read"""
    c = case["classes"][st["cls"]]
    if st["via"] in MIXIN_VIAS:
        if "rules" in st or not _cls_root(case, st["cls"])["mixin"]:
            raise ValueError("ill-formed session: mixin read with explicit rules / of a class without the mixin")
        rd = c["rules"]
    else:
        rd = st.get("rules", c["rules"])
    return c["names"], c["nid"], [rd[n] for n in c["names"]]


def _cls_cfg(c):
    """effective (STOP_ON, LADDER_FORMAT) of a class record (TableReader's defaults when never set in the hierarchy)"""
    return c.get("stop", "blank all"), bool(c.get("ladder", False))


def _step_cfg(case, st):
    # TableReader.iter_xls: iter_table(worksheet, cls, cls.ATTR_RULES, stop_on=cls.STOP_ON, ladder_format=cls.LADDER_FORMAT)
    if st["via"] in MIXIN_VIAS:
        return _cls_cfg(case["classes"][st["cls"]])
    return st["stop"], bool(st["ladder"])


def _cls_root(case, ci):
    c = case["classes"][ci]
    while c["base"] is not None:
        c = case["classes"][c["base"]]
    return c


def _check_classes(case):
    """the class records hold EFFECTIVE names / nid / rules; what is not in 'own' must equal the base's"""
    for ci, c in enumerate(case["classes"]):
        if c["base"] is None:
            if not {"names", "nid"} <= set(c["own"]) or (c["mixin"] and "rules" not in c["own"]):
                raise ValueError("ill-formed session: root class")
            if ("stop" not in c["own"] and _cls_cfg(c)[0] != "blank all") or ("ladder" not in c["own"] and _cls_cfg(c)[1]):
                raise ValueError("ill-formed session: root class setting not owned")
            continue
        if not 0 <= c["base"] < ci:
            raise ValueError("ill-formed session: base index")
        b = case["classes"][c["base"]]
        for key in ("names", "nid", "rules"):
            if key not in c["own"] and c[key] != b[key]:
                raise ValueError(f"ill-formed session: class {ci} inherits {key} but differs")
        for k, key in enumerate(("stop", "ladder")):
            if key not in c["own"] and _cls_cfg(c)[k] != _cls_cfg(b)[k]:
                raise ValueError(f"ill-formed session: class {ci} inherits {key} but differs")
        if "rules" in c["own"] and not _cls_root(case, ci)["mixin"]:
            raise ValueError("ill-formed session: ATTR_RULES on a class without the mixin")
        if not set(c["names"]) <= set(c["rules"]):
            raise ValueError("ill-formed session: attribute without rule")


def _sess_title(ws_id):
    """worksheet titles of a session: the sheets of one process have different names (one with a space: quoted)"""
    return "sheet1" if ws_id == 0 else f"sheet {ws_id}" if ws_id % 2 else f"s{ws_id}"


def _sess_reads(case):
    return [st for st in case["steps"] if st["op"] == "read"]


class _Session:
    def __init__(self, xl, case):
        self.xl = xl
        self.case = case
        self.convs = {}
        self.rule_objs = {}
        self.attr_rule_objs = {}
        self.rrules = {}
        self.sheets = {}
        self.classes = []
        for ci, c in enumerate(case["classes"]):
            d = {}
            if "names" in c["own"]:
                d["_ATTRS"] = list(c["names"])
            if "nid" in c["own"]:
                d["_NUM_ID_ATTRS"] = c["nid"]
            if "rules" in c["own"]:
                d["ATTR_RULES"] = self.mk_rules(c["rules"], c.get("rev", False))
            if "stop" in c["own"]:
                d["STOP_ON"] = _cls_cfg(c)[0]
            if "ladder" in c["own"]:
                d["LADDER_FORMAT"] = _cls_cfg(c)[1]
            if c["base"] is None:
                bases = (xl.XlsObject, xl.TableReader) if c["mixin"] else (xl.XlsObject,)
            else:
                bases = (self.classes[c["base"]],)
            self.classes.append(type(f"XlC{ci}", bases, d))

    def conv(self, cv):
        key = repr(sorted(cv.items()))
        if key not in self.convs:
            self.convs[key] = _mk_conv(self.xl, cv)
        return self.convs[key]

    def mk_rules(self, rd, rev=False, as_objects=False):
        xl = self.xl
        rules = {}
        names = list(rd)
        if rev:
            names.reverse()
        for name in names:
            ru = rd[name]
            if ru["t"] == "plain":
                cv = self.conv(ru["cv"])
                spec = (ru["col"], cv, {"default_val": ru["def"]["v"]}) if "def" in ru else (ru["col"], cv)
            elif ru["t"] == "ext":
                form = ru.get("form", "tuple")
                dv = ru["def"]["v"]
                if form == "none":
                    spec = None
                elif form == "callable":
                    spec = (None, None, {"default_val": (lambda dv=dv: list(dv) if isinstance(dv, list) else dv)})
                else:
                    spec = (None, None, {"default_val": dv})
            else:
                rkey = repr(("range", ru["dict"], sorted(ru["cv"].items())))
                if rkey not in self.convs:
                    self.convs[rkey] = (xl.CellRangeDict if ru["dict"] else xl.CellRangeSet)(self.conv(ru["cv"]))
                rc = self.convs[rkey]
                spec = ("*", rc, {"default_val": ru["def"]["v"]}) if "def" in ru else ("*", rc)
            if as_objects and spec is not None:
                okey = (name, repr(ru))
                if okey not in self.attr_rule_objs:
                    kw = spec[2] if len(spec) == 3 else {}
                    self.attr_rule_objs[okey] = xl.XlsRecordAttrReadRules(name, spec[0], spec[1], **kw)
                spec = self.attr_rule_objs[okey]
            rules[name] = spec
        return rules

    def sheet(self, st):
        """the worksheet object of a step: one object per 'ws' id; a later step with the same id and the same
        dimensions EDITS the cells of that object in place (the sheet changed between two readings)"""
        rows = st["rows"]
        ws = self.sheets.get(st["ws"])
        if ws is not None and [len(r) for r in ws._rows] == [len(r) for r in rows]:
            for cells, vals in zip(ws._rows, rows):
                for cell, v in zip(cells, vals):
                    cell.value = v
            return ws
        ws = _Worksheet(_sess_title(st["ws"]), rows)
        self.sheets[st["ws"]] = ws
        return ws

    def opener(self, st):
        """thunk -> iterable of the objects of this read step"""
        xl = self.xl
        cls = self.classes[st["cls"]]
        ws = self.sheet(st)
        via = st["via"]
        stop, ladder = _step_cfg(self.case, st)
        if via == "mx_list":
            return lambda: cls.read_list(ws)
        if via == "mx_iter":
            return lambda: cls.iter_xls(ws)
        rd = st.get("rules", self.case["classes"][st["cls"]]["rules"])
        rd = {n: rd[n] for n in rd}

        def go():
            if via == "ar":
                rules = self.mk_rules(rd, st.get("rev", False), as_objects=True)
            elif st.get("share"):
                key = (repr(rd), bool(st.get("rev")))
                if key not in self.rule_objs:
                    self.rule_objs[key] = self.mk_rules(rd, st.get("rev", False))
                rules = self.rule_objs[key]
            else:
                rules = self.mk_rules(rd, st.get("rev", False))
            if via == "table":
                return xl.read_table(ws, cls, rules, stop_on=stop, ladder_format=ladder)
            if via == "rr":
                key = (st["cls"], repr(rd))
                if key not in self.rrules:
                    self.rrules[key] = xl.XlsObjReadRules(cls, rules)
                rr = self.rrules[key]
                return (x for (x,) in xl.XlsTableReader(rr).iter_table(ws, stop_on=stop, ladder_format=ladder))
            return xl.iter_table(ws, cls, rules, stop_on=stop, ladder_format=ladder)
        return go

    def map_call(self, st):
        xl = self.xl
        cls = self.classes[st["cls"]]
        ws = self.sheet(st)
        stop, ladder = _step_cfg(self.case, st)
        if st["via"] in MIXIN_VIAS:
            return lambda: cls.read_map(ws)
        rd = st.get("rules", self.case["classes"][st["cls"]]["rules"])
        rules = self.mk_rules({n: rd[n] for n in rd}, st.get("rev", False))
        return lambda: xl.read_table_make_map(ws, cls, rules, stop_on=stop, ladder_format=ladder)


def _exc(e):
    if type(e).__name__ == "Hang":
        raise e
    return SX.exc_name(e)


def _apply_mut(o, name, inner, m):
    """the caller edits the value it has been given (mirror of Session.mut_value)"""
    v = getattr(o, name, None)
    if inner is not None:
        if not isinstance(v, dict) or inner not in v:
            return
        v = v[inner]
        if isinstance(v, list):
            v.append(m)
        elif isinstance(v, set):
            v.add(m)
        return
    if isinstance(v, list):
        v.append(m)
    elif isinstance(v, set):
        v.add(m)
    elif isinstance(v, dict):
        v[m] = m


def _run_session(xl, case):
    _check_classes(case)
    S = _Session(xl, case)
    steps = case["steps"]
    recs = []

    def new_rec(st):
        names, _nid, _rules = _step_rules(case, st)
        rec = {"st": st, "names": names, "objs": [], "items": [], "err": None, "cls_ok": True, "map": None}
        recs.append(rec)
        return rec

    def take(rec, o):
        rec["objs"].append(o)
        if o is not None and type(o) is not S.classes[rec["st"]["cls"]]:
            rec["cls_ok"] = False
        rec["items"].append(None if o is None else _obs_obj(o, rec["names"], rec["st"]["qkeys"]))

    def run_group(group):
        its = []
        for k, rec in enumerate(group):
            if k and rec["st"]["ws"] == group[0]["st"]["ws"] and rec["st"]["rows"] != group[0]["st"]["rows"]:
                S.sheets.pop(rec["st"]["ws"], None)     # the first generator keeps reading its own worksheet object
            try:
                its.append(iter(S.opener(rec["st"])()))
            except BaseException as e:  # noqa
                rec["err"] = _exc(e)
                its.append(None)
        alive = [it is not None for it in its]
        while any(alive):
            for k, rec in enumerate(group):
                if not alive[k]:
                    continue
                try:
                    o = next(its[k])
                except StopIteration:
                    alive[k] = False
                except BaseException as e:  # noqa
                    rec["err"] = _exc(e)
                    alive[k] = False
                else:
                    take(rec, o)
        for rec in group:
            if rec["st"]["via"] in WHOLE_VIAS and rec["err"] is not None:
                rec["objs"], rec["items"] = [], []
            if rec["st"].get("also_map"):
                rec["map"] = _map_check(S, rec)
            if rec["st"]["via"] in MIXIN_VIAS:
                rec["direct"] = _direct_check(S, rec)

    i = 0
    while i < len(steps):
        st = steps[i]
        if st["op"] == "mut":
            if st["r"] < len(recs):
                rec = recs[st["r"]]
                if st["j"] < len(rec["objs"]) and rec["objs"][st["j"]] is not None and st["a"] < len(rec["names"]):
                    _apply_mut(rec["objs"][st["j"]], rec["names"][st["a"]], st.get("inner"), st["m"])
            i += 1
            continue
        group = [new_rec(st)]
        if st.get("il") and i + 1 < len(steps) and steps[i + 1]["op"] == "read":
            group.append(new_rec(steps[i + 1]))     # two generators advanced in turn
            i += 1
        run_group(group)
        i += 1
    reads = []
    for rec in recs:
        end = [None if o is None else _obs_obj(o, rec["names"], rec["st"]["qkeys"]) for o in rec["objs"]]
        reads.append({"items": rec["items"], "err": rec["err"], "end": end, "cls_ok": rec["cls_ok"], "map": rec["map"],
                      "direct": rec.get("direct")})
    return {"reads": reads}


def _direct_check(S, rec):
    """a mixin reading of class C must be iter_table(ws, C, C's rules, stop_on=C.STOP_ON, ladder_format=C.LADDER_FORMAT);
    -> None | ["settings-ignored", text] (it is the direct reading with the DEFAULT settings instead) | ["differs", text]"""
    st = rec["st"]
    xl = S.xl
    cls = S.classes[st["cls"]]
    c = S.case["classes"][st["cls"]]
    stop, ladder = _cls_cfg(c)
    ws = S.sheet(st)
    whole = st["via"] in WHOLE_VIAS

    def direct(stop_, ladder_):
        items, err = [], None
        try:
            for o in xl.iter_table(ws, cls, S.mk_rules(dict(c["rules"])), stop_on=stop_, ladder_format=ladder_):
                items.append(None if o is None else _obs_obj(o, rec["names"], st["qkeys"]))
        except BaseException as e:  # noqa
            err = _exc(e)
        if whole and err is not None:
            items = []
        return items, err
    mine = (rec["items"], rec["err"])
    want = direct(stop, ladder)
    if mine == want:
        return None
    text = (f"class with STOP_ON={stop!r} LADDER_FORMAT={ladder}: the mixin reading gives {len(mine[0])} items (err {mine[1]}), "
            f"iter_table with these arguments gives {len(want[0])} (err {want[1]}); first difference at item "
            f"{next((i for i, (x, y) in enumerate(zip(mine[0], want[0])) if x != y), min(len(mine[0]), len(want[0])))}")
    if (stop, ladder) != ("blank all", False) and mine == direct("blank all", False):
        return ["settings-ignored", text + "; the mixin reading equals iter_table with the default stop_on / ladder_format"]
    return ["differs", text]


def _map_check(S, rec):
    """read_map / read_table_make_map of the same sheet must be make_objects_map of the objects of the reading"""
    st = rec["st"]
    cls = S.classes[st["cls"]]
    names, qk = rec["names"], st["qkeys"]
    class ReadFailed(Exception):
        pass

    def objs_then_error():
        yield from rec["objs"]
        if rec["err"] is not None:
            raise ReadFailed()
    if rec["err"] is not None and st["via"] in WHOLE_VIAS:
        return None         # the objects before the exception were not seen
    try:
        want = ["ok", _ref_objects_map(objs_then_error(), names)]
    except ReadFailed:
        want = ["err", rec["err"]]
    except BaseException as e:  # noqa
        want = ["err", _exc(e)]
    try:
        got = ["ok", S.map_call(st)()]
    except BaseException as e:  # noqa
        got = ["err", _exc(e)]
    if want[0] != got[0]:
        return f"list reading then make_objects_map: {want[0]} {want[1] if want[0] == 'err' else ''}; map reading: {got[0]} {got[1] if got[0] == 'err' else ''}"
    if want[0] == "err":
        return None if want[1] == got[1] else f"map reading raises {got[1]}, expected {want[1]}"
    w, g = want[1], got[1]
    if not isinstance(g, dict):
        return f"map reading returned {type(g).__name__}"
    if [_canon_key(k) for k in w] != [_canon_key(k) for k in g]:
        return f"keys {list(g)!r}, expected {list(w)!r}"
    for k in w:
        if type(g[k]) is not cls:
            return f"value for key {k!r} is a {type(g[k]).__name__}"
        a, b = _obs_obj(w[k], names, qk), _obs_obj(g[k], names, qk)
        if a != b:
            return f"object for key {k!r} differs: {b!r}, expected {a!r}"
    # the caller edits every value of the map it has been given: a later reading must not see these edits
    for k in g:
        for name in names:
            _apply_mut(g[k], name, None, MARK + "map")
            v = getattr(g[k], name, None)
            if isinstance(v, dict):
                for kk in list(v):
                    _apply_mut(g[k], name, kk, MARK + "map")
    return None


def _ref_objects_map(objs, names):
    """what 'a map of the objects by logic id' means (XlsObject.make_objects_map, written independently): rows without
    object are skipped; the key is the object's logic id (python dict semantics: TypeError for an unhashable id); a later
    object with the same id must have equal attribute values (ValueError otherwise) and takes the place of the earlier one"""
    d = {}
    for o in objs:
        if o is None:
            continue
        key = o.logic_id
        if key in d:
            for name in names:
                if getattr(o, name) != getattr(d[key], name):
                    raise ValueError(f"objects with the same logic id {key!r} differ in {name}")
        d[key] = o
    return d


def _canon_key(k):
    if isinstance(k, tuple):
        return ["t", [_canon_simple(x) for x in k]]
    return _canon_simple(k)


# ---- model side of a session
def _coq_session(case):
    _check_classes(case)
    ops = []
    binds = {}      # repeated sheets / sheet rows / rule sets are written once (let ... in): the terms stay small

    def share(text, prefix):
        if len(text) < 40:
            return text
        if text not in binds:
            binds[text] = f"{prefix}{len(binds)}"
        return binds[text]
    for st in case["steps"]:
        if st["op"] == "read":
            _names, nid, rules = _step_rules(case, st)
            stop, ladder = _step_cfg(case, st)
            rows = "[" + "; ".join(share(_c_cvals(r), "w") for r in st["rows"]) + "]" if st["rows"] else "(@nil (list cval))"
            rl = "[" + "; ".join(share("(" + _c_rule(r) + ")", "u") for r in rules) + "]" if rules else "(@nil rule)"
            ops.append(f"ORead (mkConfig {share(rl, 'l')} {SX.cnat(nid)} {SX.cstr(stop)} {SX.cbool(ladder)}) {share(rows, 's')} "
                       f"{share(_c_strs(st['qkeys']), 'q')} {SX.cbool(st['via'] in WHOLE_VIAS)}")
        else:
            inner = "None" if st.get("inner") is None else f"(Some {SX.cstr(st['inner'])})"
            ops.append(f"OMut {SX.cnat(st['r'])} {SX.cnat(st['j'])} {SX.cnat(st['a'])} {inner} {SX.cstr(st['m'])}")
    body = "Session " + ("[" + "; ".join(ops) + "]" if ops else "(@nil op)")
    lets = "".join(f"let {name} := {text} in " for text, name in binds.items())
    return f"({lets}{body})" if lets else body


def _expected_session(case, obs):
    out = []
    for st, rd in zip(_sess_reads(case), obs["reads"]):
        _names, _nid, rules = _step_rules(case, st)
        items, e = full_sx({"rules": rules}, {"items": rd["end"], "err": rd["err"]})
        hs = [[0] if not it else hash_sx(it[0]) for it in items]
        if not rd["cls_ok"]:
            hs = [-1 if not isinstance(h, list) else h for h in hs]       # objects of another class: never the model's
        out.append([hs, e])
    return SX.dumps(out)


# ---- the statement on a session, independently of the model
def _mut_canon(v, inner, m):
    """the python effect of _apply_mut on a canonical value"""
    t = v[0]
    if inner is not None:
        if t != "d":
            return v
        return ["d", [[k, _mut_canon(x, None, m) if k == inner and x[0] in ("l", "S") else x] for k, x in v[1]]]
    if t == "l":
        return ["l", v[1] + [m]]
    if t == "S":
        return ["S", sorted(set(v[1]) | {m})]
    if t == "d":
        kv = [[k, x] for k, x in v[1] if k != m] + [[m, ["s", m]]]
        return ["d", sorted(kv, key=lambda e: e[0])]
    return v


def _oracle_session(case, obs):
    out = []
    reads = _sess_reads(case)
    muts = {}
    ridx = -1
    for st in case["steps"]:
        if st["op"] == "read":
            ridx += 1
        elif st["r"] <= ridx:
            muts.setdefault((st["r"], st["j"], st["a"]), []).append((st.get("inner"), st["m"]))
    for r, (st, rd) in enumerate(zip(reads, obs["reads"])):
        names, nid, rules = _step_rules(case, st)
        stop, ladder = _step_cfg(case, st)
        tag = f"reading {r} ({st['via']}, class {st['cls']})"
        # (a) the property, on what the reading produced (as observed when it was produced)
        if not (st["via"] in WHOLE_VIAS and rd["err"] is not None):
            pc = {"k": "read", "rows": st["rows"], "rules": rules, "nid": nid, "stop": stop, "ladder": ladder,
                  "qkeys": st["qkeys"], "cname": f"XlC{st['cls']}", "title": _sess_title(st["ws"])}
            for sig, msg in oracle(pc, {"items": rd["items"], "err": rd["err"]}):
                out.append((sig, f"{tag}: {msg}"))
        # (b) objects of the class that was asked to read
        if not rd["cls_ok"]:
            out.append(("object-class", f"{tag}: produced objects are not instances of the class that was read"))
        # (c) the map reading is the map of the list reading
        if rd["map"]:
            out.append(("map-reading", f"{tag}: {rd['map']}"))
        # (c') the mixin reading is the direct reading with the class's own rules and settings
        if rd.get("direct"):
            sig = "mixin-ignores-stop-on-ladder" if rd["direct"][0] == "settings-ignored" else "mixin-direct"
            out.append((sig, f"{tag}: {rd['direct'][1]}; rows={st['rows']!r}"))
        # (d) the values still are the conversions of the source cells after the caller edited OTHER values
        for j, (it0, it1) in enumerate(zip(rd["items"], rd["end"])):
            if it0 is None or it1 is None:
                if it0 is not it1:
                    out.append(("shared-value", f"{tag}: object {j} appeared/disappeared"))
                continue
            for a, (a0, a1) in enumerate(zip(it0["attrs"], it1["attrs"])):
                want = a0["v"]
                for inner, m in muts.get((r, j, a), []):
                    want = _mut_canon(want, inner, m)
                if a1["v"] != want:
                    out.append(("shared-value",
                                f"{tag}: object {j} attribute {names[a]} read {a0['v']!r}; at the end of the session it is "
                                f"{a1['v']!r}, the caller's own edits of this value give {want!r} (a value shared with "
                                f"another object or another reading?)"))
                if (a0["o"], a0["ko"], a0["kn"]) != (a1["o"], a1["ko"], a1["kn"]):
                    out.append(("shared-origin", f"{tag}: object {j} attribute {names[a]}: get_attr_origin changed during the session"))
    seen = set()
    uniq = []
    for sig, msg in out:
        if sig not in seen:
            seen.add(sig)
            uniq.append((sig, msg[:1500]))
    return uniq


def _shrink_session(case):
    steps = case["steps"]
    # drop one modification
    for i in range(len(steps) - 1, -1, -1):
        if steps[i]["op"] == "mut":
            c = dict(case)
            c["steps"] = steps[:i] + steps[i + 1:]
            yield c
    # drop one reading (with the modifications of its objects)
    ridx = [i for i, st in enumerate(steps) if st["op"] == "read"]
    for k in range(len(ridx) - 1, -1, -1):
        new = []
        for i, st in enumerate(steps):
            if i == ridx[k]:
                continue
            if st["op"] == "mut":
                if st["r"] == k:
                    continue
                if st["r"] > k:
                    st = dict(st)
                    st["r"] -= 1
            elif i + 1 == ridx[k] and st.get("il"):
                st = dict(st)
                st.pop("il")
            new.append(st)
        c = dict(case)
        c["steps"] = new
        yield c
    # plainer entry points
    for i, st in enumerate(steps):
        if st["op"] == "read":
            for key in ("il", "also_map", "share", "rev"):
                if st.get(key):
                    st2 = dict(st)
                    st2.pop(key)
                    c = dict(case)
                    c["steps"] = steps[:i] + [st2] + steps[i + 1:]
                    yield c
    # drop a sheet row of one reading
    for i, st in enumerate(steps):
        if st["op"] == "read":
            for r in range(len(st["rows"]) - 1, 0, -1):
                st2 = dict(st)
                st2["rows"] = st["rows"][:r] + st["rows"][r + 1:]
                c = dict(case)
                c["steps"] = steps[:i] + [st2] + steps[i + 1:]
                yield c


# ---- generator of sessions
def _title_idx(rows):
    return next((i for i, r in enumerate(rows) if not all(_is_blank(v) for v in r)), None)


def _mutables(rules, titles, extra=()):
    """(attribute index, inner key or None) of the values a caller can edit in place"""
    out = []
    run = [titles[c] for c in _expected_run(titles, rules, extra)]
    for i, ru in enumerate(rules):
        if ru["t"] == "plain" and ru["cv"]["k"] in ("list", "set"):
            out.append((i, None))
        elif ru["t"] == "ext" and isinstance(ru["def"]["v"], list):
            out.append((i, None))
        elif ru["t"] == "range":
            out.append((i, None))
            if ru["dict"] and ru["cv"]["k"] in ("list", "set"):
                out += [(i, k) for k in run]
    return out


_KIND_SWAP = {"list": ["set", "str"], "set": ["list", "str"], "str": ["list", "set"], "int": ["str"], "bool": ["str", "int"]}


def _var_rules(rng, rules, titles):
    """a derived class's / another call's rule set for the same attributes: other converters, other columns, other defaults"""
    new = [dict(r, cv=dict(r["cv"])) if "cv" in r else dict(r) for r in rules]
    changed = False
    present = [t for t in titles if t]
    for i, ru in enumerate(new):
        r = rng.random()
        if ru["t"] == "plain":
            if r < 0.45:
                k = rng.choice(_KIND_SWAP[ru["cv"]["k"]])
                ru["cv"] = {key: v for key, v in ru["cv"].items() if key == "none"}
                ru["cv"]["k"] = k
                changed = True
            elif r < 0.65 and present:
                col = rng.choice(present)
                if col != ru["col"]:
                    ru["col"] = col
                    ru["cv"] = {"k": rng.choice(["str", "str", "list", "set"])}
                    changed = True
            elif r < 0.75 and i > 0:
                if "def" in ru:
                    del ru["def"]
                else:
                    ru["def"] = _default(rng)
                changed = True
        elif ru["t"] == "range" and r < 0.5:
            ru["dict"] = not ru["dict"]
            changed = True
        elif ru["t"] == "ext" and r < 0.3:
            ru["def"] = {"v": rng.choice([None, 3, "other"])}
            if ru.get("form") == "none":
                ru["form"] = "tuple"
            changed = True
    if not changed:
        for ru in new:
            if ru["t"] == "plain":
                k = rng.choice(_KIND_SWAP[ru["cv"]["k"]])
                ru["cv"] = {"k": k}
                break
    return new


def _dup_cells(rng, rows):
    """repeated cell texts: a data row is repeated, cells are copied down a column"""
    rows = [list(r) for r in rows]
    t = _title_idx(rows)
    if t is None or t + 1 >= len(rows):
        return rows
    if rng.random() < 0.7:
        i = rng.randint(t + 1, min(len(rows) - 1, t + 3))
        rows.insert(i + 1, list(rows[i]))
    for _ in range(rng.choice([0, 1, 2, 4])):
        i, j = rng.randint(t + 1, len(rows) - 1), rng.randint(t + 1, len(rows) - 1)
        c = rng.randrange(len(rows[i])) if rows[i] else 0
        if i != j and c < len(rows[j]) and c < len(rows[i]):
            rows[j][c] = rows[i][c]
    return rows


def _edit_cells(rng, rows):
    """the same sheet, some data cells changed (same dimensions)"""
    rows = [list(r) for r in rows]
    t = _title_idx(rows)
    if t is None or t + 1 >= len(rows):
        return rows
    for _ in range(rng.randint(1, 4)):
        i, j = rng.randint(t + 1, len(rows) - 1), rng.randint(t + 1, len(rows) - 1)
        if not rows[i]:
            continue
        c = rng.randrange(len(rows[i]))
        r = rng.random()
        if r < 0.5 and c < len(rows[j]):
            rows[i][c], rows[j][c] = rows[j][c], rows[i][c]
        elif r < 0.8 and isinstance(rows[i][c], str):
            rows[i][c] = rows[i][c] + rng.choice([",zz", "\nq", " "])
        else:
            rows[i][c] = rng.choice([None, "e", 4])
    return rows


def _perm_cols(rng, rows):
    """the same table with its columns in another order"""
    w = len(rows[0]) if rows else 0
    if any(len(r) != w for r in rows) or w < 2:
        return [list(r) for r in rows]
    perm = list(range(w))
    rng.shuffle(perm)
    return [[r[p] for p in perm] for r in rows]


def _titles_of(rows):
    t = _title_idx(rows)
    return [] if t is None else [_title(v) for v in rows[t]]


def gen_session_case(rng, flavour):
    hier = flavour == "hier"
    force = {}
    if hier and rng.random() < 0.35:
        force.update(ladder=False, stop="blank all")
    if rng.random() < 0.85:
        force["kinds"] = ["list", "set", "list", "set", "str", "int", "bool"]
        force["rkinds"] = ["bool", "list", "set", "str", "list", "int"]
    base = None
    for _ in range(30):
        base = gen_sheet_case(rng, force=force)
        for ru in base["rules"]:
            if ru["t"] == "ext" and ru.get("form") == "callable" and rng.random() < 0.6:
                ru["def"] = {"v": rng.choice([[], ["d"], ["p", "q"]])}
        if not base["misuse"] and _mutables(base["rules"], _titles_of(base["rows"])) and len(base["rows"]) >= 3:
            break
    if rng.random() < 0.6:
        # hashable id attributes (make_objects_map works)
        for ru in base["rules"][:max(1, base["nid"])]:
            if ru["t"] == "plain" and ru["cv"]["k"] in ("list", "set"):
                ru["cv"] = {"k": "str"}
    if rng.random() < 0.3:
        # list / set converters for which a blank cell is not None (none_values without None): [] / set() values
        for ru in base["rules"]:
            if ru["t"] in ("plain", "range") and ru["cv"]["k"] in ("list", "set") and rng.random() < 0.6:
                ru["cv"]["none"] = rng.choice([[], ["-"], [""]])
        t = _title_idx(base["rows"])
        if t is not None:
            for row in base["rows"][t + 1:]:
                for c in range(len(row)):
                    if rng.random() < 0.2:
                        row[c] = None
    map_all = rng.random() < 0.3
    n = len(base["rules"])
    names0 = [f"a{i}" for i in range(n)]
    rows0 = _dup_cells(rng, base["rows"])
    # sheets: ws id -> record; several steps may name the same ws id (same object, edited in place when the dimensions agree)
    sheets = [{"ws": 0, "rows": rows0, "qkeys": base["qkeys"], "stop": base["stop"], "ladder": base["ladder"]}]
    classes = [{"base": None, "mixin": hier or rng.random() < 0.35, "names": names0, "nid": base["nid"],
                "rules": dict(zip(names0, base["rules"])), "own": ["names", "nid", "rules"], "rev": rng.random() < 0.3}]
    if not classes[0]["mixin"]:
        classes[0]["own"] = ["names", "nid"]

    def own_cfg(c, stop, ladder):
        # STOP_ON / LADDER_FORMAT of a mixin class: usually what its sheet needs, sometimes only one of them / none (defaults)
        for key, val in rng.choice([[("stop", stop), ("ladder", ladder)]] * 4 + [[("stop", stop)], [("ladder", ladder)], []]):
            c[key] = val
            c["own"].append(key)
    if classes[0]["mixin"]:
        own_cfg(classes[0], base["stop"], bool(base["ladder"]))
    titles0 = _titles_of(rows0)
    for _ in range(rng.choice([1, 2, 2, 3]) if hier else rng.choice([0, 0, 1, 2])):
        b = rng.randrange(len(classes))
        bc = classes[b]
        c = {"base": b, "mixin": bc["mixin"], "names": list(bc["names"]), "nid": bc["nid"], "rules": dict(bc["rules"]),
             "own": [], "rev": rng.random() < 0.3}
        c["stop"], c["ladder"] = _cls_cfg(bc)
        what = rng.choice(["rules", "rules", "rules", "attrs", "nid", "none", "rules+attrs", "rules+nid", "cfg", "cfg", "rules+cfg"])
        if "cfg" in what and _cls_root({"classes": classes + [c]}, len(classes))["mixin"]:
            # a derived class with its own end rule / ladder setting
            r = rng.random()
            if r < 0.7:
                c["ladder"] = not c["ladder"]
                c["own"].append("ladder")
            if r > 0.4:
                c["stop"] = rng.choice([x for x in ("blank all", "blank first", "blank first", "") if x != c["stop"]])
                c["own"].append("stop")
        if "rules" in what and _cls_root({"classes": classes + [c]}, len(classes))["mixin"]:
            ordered = [c["rules"][nm] for nm in c["names"]]
            extra = {nm: ru for nm, ru in c["rules"].items() if nm not in c["names"]}
            c["rules"] = dict(zip(c["names"], _var_rules(rng, ordered, titles0)))
            c["rules"].update(extra)
            c["own"].append("rules")
        if "attrs" in what and len(c["names"]) >= 2:
            # another order / a subset of the attributes; the first one stays a cell of a present column
            first_ok = [nm for nm in c["names"] if c["rules"][nm]["t"] == "plain" and c["rules"][nm]["col"] in titles0]
            if first_ok:
                head = rng.choice(first_ok)
                rest = [nm for nm in c["names"] if nm != head]
                rng.shuffle(rest)
                if rng.random() < 0.4:
                    rest = rest[:rng.randint(0, len(rest))]
                c["names"] = [head] + rest
                c["nid"] = min(c["nid"], len(c["names"]))
                c["own"] += ["names", "nid"]
        if "nid" in what and "nid" not in c["own"]:
            c["nid"] = rng.choice([x for x in range(0, min(3, len(c["names"])) + 1) if x != c["nid"]] or [c["nid"]])
            c["own"].append("nid")
        classes.append(c)
    if rng.random() < (0.5 if hier else 0.25):
        # an unrelated class with its own sheet
        other = gen_sheet_case(rng, force=force)
        if not other["misuse"]:
            nm = [f"b{i}" for i in range(len(other["rules"]))]
            mixin = hier or rng.random() < 0.35
            classes.append({"base": None, "mixin": mixin, "names": nm, "nid": other["nid"], "rules": dict(zip(nm, other["rules"])),
                            "own": ["names", "nid", "rules"] if mixin else ["names", "nid"], "rev": False})
            if mixin:
                own_cfg(classes[-1], other["stop"], bool(other["ladder"]))
            sheets.append({"ws": 1, "rows": _dup_cells(rng, other["rows"]), "qkeys": other["qkeys"], "stop": other["stop"],
                           "ladder": other["ladder"], "root": len(classes) - 1})
    steps = []
    counter = [0]
    read_info = []      # per read: (rules, titles, n data rows)

    def add_muts(r, density):
        rules, titles, nrows = read_info[r]
        targets = [(j, a, inner) for j in range(nrows) for a, inner in _mutables(rules, titles)]
        if not targets:
            return
        if density < 1.0:
            targets = [t for t in targets if rng.random() < density] or [rng.choice(targets)]
        rng.shuffle(targets)
        for j, a, inner in targets[:24]:
            counter[0] += 1
            st = {"op": "mut", "r": r, "j": j, "a": a, "m": f"{MARK}{counter[0]}"}
            if inner is not None:
                st["inner"] = inner
            steps.append(st)

    cur = dict(sheets[0])
    n_reads = rng.choice([2, 3, 3, 4, 5] if hier else [2, 2, 3, 4])
    order_bias = rng.choice(["base-first", "derived-first", "random"])
    pair_next = False
    for k in range(n_reads):
        # which class
        roots0 = [ci for ci in range(len(classes)) if _cls_root({"classes": classes}, ci) is classes[0]]
        others = [ci for ci in range(len(classes)) if ci not in roots0]
        if others and rng.random() < 0.3 and not pair_next:
            ci = rng.choice(others)
            sh = dict(sheets[1])
        else:
            if k == 0 and order_bias == "base-first":
                ci = 0
            elif k == 0 and order_bias == "derived-first" and len(roots0) > 1:
                ci = rng.choice(roots0[1:])
            else:
                ci = rng.choice(roots0)
            # which sheet: the current one again, edited in place, re-ordered (same object or a new one)
            r = rng.random()
            if pair_next:
                r = rng.choice([0.5, 0.5, 0.1])     # the partner of a ladder reading in progress: the table with other cells
            if k == 0 or r < 0.4:
                sh = dict(cur)
            elif r < 0.6:
                sh = dict(cur, rows=_edit_cells(rng, cur["rows"]))
            elif r < 0.8:
                sh = dict(cur, rows=_perm_cols(rng, cur["rows"]))
            else:
                sh = dict(cur, rows=_perm_cols(rng, cur["rows"]), ws=2 + k)
            cur = dict(sh)
        c = classes[ci]
        mixin = _cls_root({"classes": classes}, ci)["mixin"]
        st = {"op": "read", "cls": ci, "ws": sh["ws"], "rows": sh["rows"], "qkeys": sh["qkeys"],
              "stop": sh["stop"], "ladder": sh["ladder"]}
        if mixin and rng.random() < (0.8 if hier else 0.5) and not pair_next:
            st["via"] = rng.choice(MIXIN_VIAS)
        else:
            st["via"] = rng.choice(["iter", "iter", "table", "rr", "ar"] if not pair_next else ["iter", "rr", "ar"])
            if rng.random() < 0.3:
                ordered = [c["rules"][nm] for nm in c["names"]]
                st["rules"] = dict(c["rules"])
                st["rules"].update(zip(c["names"], _var_rules(rng, ordered, _titles_of(sh["rows"]))))
            if rng.random() < 0.5:
                st["share"] = True
            if rng.random() < 0.2:
                st["rev"] = True
        if map_all or rng.random() < 0.1:
            st["also_map"] = True
        if k + 1 < n_reads and st["via"] not in WHOLE_VIAS and rng.random() < (0.45 if _step_cfg({"classes": classes}, st)[1] else 0.2):
            st["il"] = True
        pair_next = bool(st.get("il")) and _step_cfg({"classes": classes}, st)[1]
        steps.append(st)
        probe = {"classes": classes}
        _nm, _nid, rules = _step_rules(probe, st)
        t = _title_idx(sh["rows"])
        read_info.append((rules, _titles_of(sh["rows"]), 0 if t is None else min(10, len(sh["rows"]) - t - 1)))
        if st.get("il"):
            continue        # the partner is read before anything is edited
        if rng.random() < 0.85:
            add_muts(len(read_info) - 1, rng.choice([1.0, 1.0, 0.5, 0.2]))
            if len(read_info) >= 2 and rng.random() < 0.4:
                add_muts(rng.randrange(len(read_info) - 1), 0.3)
    return {"k": "sess", "flavour": flavour, "classes": classes, "steps": steps}



# ------------------------------------------------------------------ several object classes read from one table
# XlsTableReader(rules_1, ..., rules_n).iter_table(ws): every table row yields a tuple of n objects.  The column names
# claimed by name are those of ALL rule sets (a ranged attribute of one object must not swallow the columns of another).
# Model: Model.read_table_m; Run.ReadM (the reading as a Session [OReadM; OMut ...]: the caller edits values of the objects
# afterwards and every object is observed again at the end).
def _multi_known(case):
    return sorted({ru["col"] for ob in case["objs"] for ru in ob["rules"] if ru["t"] == "plain" and ru["col"] != "*"})


def _multi_pc(case, i, rows=None):
    """the i-th object class of a multi reading as a single-class case for the oracle"""
    ob = case["objs"][i]
    return {"k": "read", "rows": case["rows"] if rows is None else rows, "rules": ob["rules"], "nid": ob["nid"],
            "stop": case["stop"], "ladder": case["ladder"], "qkeys": case["qkeys"], "title": case.get("title", "sheet1"),
            "cname": ob["name"], "known_extra": _multi_known(case), "err_elsewhere": True}


def gen_multi_case(rng, wide=False, force=None):
    force = force or {}
    n_objs = force.get("n_objs", rng.choice([2, 2, 2, 2, 2, 3, 3, 3, 1, 0] if rng.random() < 0.25 else [2, 2, 3]))
    titles_pool = rng.sample(TITLE_POOL, len(TITLE_POOL))
    kinds = force.get("kinds", CONV_KINDS)
    misuse = rng.random() < 0.04
    objs = []
    known_cols = []         # (title, conv) of the columns present in the sheet for plain attributes, all objects
    range_rules = []
    want_ranges = rng.choice([0, 1, 1, 1, 2, 2, 3])
    for oi in range(n_objs):
        if objs and rng.random() < 0.07:
            # the same XlsObjReadRules object (same class, same rules) a second time: XlsTableReader(rr, rr)
            k = rng.randrange(len(objs))
            while "same_as" in objs[k]:
                k = objs[k]["same_as"]
            objs.append({"name": objs[k]["name"], "rules": [dict(r) for r in objs[k]["rules"]], "nid": objs[k]["nid"], "same_as": k})
            continue
        n_attrs = rng.randint(1, 4)
        rules = []
        for i in range(n_attrs):
            r = rng.random()
            if i == 0 and not misuse:
                r = 0.0     # the first attribute must come from a cell (anchor)
            elif len(range_rules) < want_ranges and rng.random() < 0.45:
                r = 0.9
            if r < 0.55 or (r >= 0.68 and len(range_rules) >= want_ranges):
                cv = _conv(rng, kinds)
                if known_cols and rng.random() < 0.15:
                    title, cv0 = rng.choice(known_cols)     # a column that another attribute / another object reads too
                    if rng.random() < 0.8:
                        cv = dict(cv0)
                else:
                    title = titles_pool.pop() if titles_pool else f"T{len(known_cols)}"
                ru = {"t": "plain", "col": title, "cv": cv}
                present = True
                if rng.random() < 0.3:
                    ru["def"] = _default(rng)
                    present = rng.random() < 0.5 or i == 0 and not misuse
                elif misuse and rng.random() < 0.3:
                    present = False            # required column missing -> ValueError
                if present and not any(t == title for t, _ in known_cols):
                    known_cols.append((title, cv))
                rules.append(ru)
            elif r < 0.68:
                form = rng.choice(["none", "tuple", "callable"])
                d = {"v": None} if form == "none" else _default(rng)
                rules.append({"t": "ext", "def": d, "form": form})
            else:
                ru = {"t": "range", "dict": rng.random() < 0.55,
                      "cv": dict(range_rules[0]["cv"]) if range_rules and rng.random() < 0.85 else
                      _conv(rng, force.get("rkinds", ["bool", "int", "str", "bool", "list", "set"]))}
                if rng.random() < 0.3:
                    ru["def"] = _default(rng)
                rules.append(ru)
                range_rules.append(ru)
        nid = rng.choice([0, 1, 1, 1, 2, min(3, n_attrs)]) if not misuse else rng.choice([0, 1, 2, n_attrs, n_attrs + 1])
        nid = min(nid, n_attrs) if not misuse else nid
        if not misuse and rng.random() < 0.85:
            # id attributes that are read from cells of present columns (anything else is an AttributeError by construction)
            lead = 0
            while lead < len(rules) and rules[lead]["t"] == "plain" and any(t == rules[lead]["col"] for t, _ in known_cols):
                lead += 1
            nid = min(nid, lead)
        objs.append({"name": f"XlM{oi}", "rules": rules, "nid": nid})

    # ---- columns: the known columns of all objects, the unknown ones as ONE run or scattered between them
    cols = list(known_cols)
    rng.shuffle(cols)
    unknown = rng.sample(UNKNOWN_POOL, len(UNKNOWN_POOL))
    range_cv = range_rules[0]["cv"] if range_rules else None
    n_unknown = rng.choice([1, 2, 2, 3, 3, 4, 5]) if (range_rules and rng.random() < 0.92) or rng.random() < 0.4 else 0
    if not n_unknown:
        for ru in range_rules:
            if rng.random() < 0.75:
                ru.setdefault("def", _default(rng))
        for ob in objs:         # copies of the rules (same_as) follow
            if "same_as" in ob:
                ob["rules"] = [dict(r) for r in objs[ob["same_as"]]["rules"]]
    if wide:
        n_unknown = max(n_unknown, rng.randint(2, 6))
    run = [(unknown.pop(), range_cv or _cv("str")) for _ in range(n_unknown)]
    if len(run) >= 2 and rng.random() < 0.06:
        run[-1] = (run[0][0], run[-1][1])        # duplicate title inside the run
    layout = rng.choice(["run", "run", "scatter", "scatter", "split"])
    if layout == "run" or wide:
        pos = rng.randint(0, len(cols))
        cols[pos:pos] = run
    elif layout == "scatter":
        for c in run:
            cols.insert(rng.randint(0, len(cols)), c)       # columns of this / the other objects inside the would-be range
    else:
        cut = rng.randint(0, len(run))
        p1 = rng.randint(0, len(cols))
        cols[p1:p1] = run[:cut]
        p2 = rng.randint(0, len(cols))
        cols[p2:p2] = run[cut:]
    for _ in range(rng.choice([0, 0, 0, 1, 1, 2])):
        cols.insert(rng.randint(0, len(cols)), (_blank(rng), _cv("str")))
    if rng.random() < 0.05 and cols:
        c = rng.choice(cols)
        cols.insert(rng.randint(0, len(cols)), c)       # duplicate title (the later column wins in col_names_ids)
    if wide:
        first_run = next((i for i, c in enumerate(cols) if c in run), len(cols))
        filler = max(0, rng.choice([22, 23, 24, 25, 26, 27]) - first_run)
        at = rng.randint(0, first_run)
        cols[at:at] = [(None if rng.random() < 0.8 else "", _cv("str")) for _ in range(filler)]
    if not cols:
        cols.append((_blank(rng), _cv("str")))
    rows, qkeys, stop, ladder = _finish_sheet(rng, cols, force)
    case = {"k": "multi", "title": _ws_title(rng), "rows": rows, "objs": objs, "stop": stop, "ladder": bool(ladder),
            "qkeys": qkeys, "misuse": bool(misuse), "share_conv": rng.random() < 0.5, "muts": []}
    # ---- the caller edits values of the produced objects afterwards (aliasing between the objects of a tuple / of rows)
    if objs and rng.random() < 0.7:
        titles = _titles_of(rows)
        known = _multi_known(case)
        t = _title_idx(rows)
        nrows = 0 if t is None else min(8, len(rows) - t - 1)
        targets = [(r * len(objs) + i, a, inner) for r in range(nrows) for i, ob in enumerate(objs)
                   for a, inner in _mutables(ob["rules"], titles, known)]
        density = rng.choice([1.0, 0.5, 0.2])
        targets = [x for x in targets if rng.random() < density]
        rng.shuffle(targets)
        for n, (j, a, inner) in enumerate(targets[:16]):
            m = {"j": j, "a": a, "m": f"{MARK}{n + 1}"}
            if inner is not None:
                m["inner"] = inner
            case["muts"].append(m)
    return case


def _run_multi(xl, case):
    obs = _read_multi(xl, case, case["rows"], case["ladder"], True)
    if case["ladder"] and _is_rect(case):
        f = _read_multi(xl, case, ref_fill(case["rows"]), False, False)
        obs["filled"] = {"tuples": f["tuples"], "err": f["err"]}
    return obs


def _read_multi(xl, case, rows, ladder, full):
    objs = case["objs"]
    n = len(objs)
    ws = _Worksheet(case.get("title", "sheet1"), rows)
    convs = {}

    def conv(cv):
        if not case.get("share_conv"):
            return _mk_conv(xl, cv)
        key = repr(sorted(cv.items()))
        if key not in convs:
            convs[key] = _mk_conv(xl, cv)
        return convs[key]
    names = [[f"a{i}" for i in range(len(ob["rules"]))] for ob in objs]
    tuples, produced, raw, err = [], [], [], None
    shape_ok = cls_ok = True
    try:
        classes, rrs = [], []
        for oi, ob in enumerate(objs):
            if "same_as" in ob:
                classes.append(classes[ob["same_as"]])
                rrs.append(rrs[ob["same_as"]])
                continue
            classes.append(type(ob["name"], (xl.XlsObject,), {"_ATTRS": names[oi], "_NUM_ID_ATTRS": ob["nid"]}))
            rrs.append(xl.XlsObjReadRules(classes[oi], _mk_rules_with(xl, ob["rules"], conv)))
        reader = xl.XlsTableReader(*rrs)
        for tup in reader.iter_table(ws, stop_on=case["stop"], ladder_format=ladder):
            raw.append(tup)         # the caller keeps what it was given: list(reader.iter_table(ws))
            if not isinstance(tup, (list, tuple)) or len(tup) != n:
                shape_ok = False
                tup = list(tup)[:n] if isinstance(tup, (list, tuple)) else []
                tup = list(tup) + [None] * (n - len(tup))
            for oi, o in enumerate(tup):
                if o is not None and type(o) is not classes[oi]:
                    cls_ok = False
            produced.append(list(tup))
            tuples.append([None if o is None else _obs_obj(o, names[oi], case["qkeys"], full) for oi, o in enumerate(tup)])
    except BaseException as e:  # noqa
        if type(e).__name__ == "Hang":
            raise
        err = SX.exc_name(e)
    out = {"n": len(tuples), "tuples": tuples, "err": err, "shape_ok": shape_ok, "cls_ok": cls_ok}
    # the tuples the caller was given still hold the objects they held when they were yielded (no container re-used)
    out["kept_ok"] = shape_ok and len({id(t) for t in raw}) == len(raw) and all(
        len(t) == len(p_) and all(a is b for a, b in zip(t, p_)) for t, p_ in zip(raw, produced))
    if full:
        flat = [(oi, o) for tup in produced for oi, o in enumerate(tup)]
        for m in case.get("muts", []):
            if m["j"] < len(flat):
                oi, o = flat[m["j"]]
                if o is not None and m["a"] < len(names[oi]):
                    _apply_mut(o, names[oi][m["a"]], m.get("inner"), m["m"])
        out["end"] = [None if o is None else _obs_obj(o, names[oi], case["qkeys"]) for oi, o in flat]
    return out


def _mk_rules_with(xl, rules, conv):
    """like _mk_rules, the converter objects come from conv(cv) (shared between the object classes or not)"""
    out = {}
    for i, ru in enumerate(rules):
        name = f"a{i}"
        if ru["t"] == "plain":
            cv = conv(ru["cv"])
            out[name] = (ru["col"], cv, {"default_val": ru["def"]["v"]}) if "def" in ru else (ru["col"], cv)
        elif ru["t"] == "ext":
            form = ru.get("form", "tuple")
            dv = ru["def"]["v"]
            if form == "none":
                out[name] = None
            elif form == "callable":
                out[name] = (None, None, {"default_val": (lambda dv=dv: list(dv) if isinstance(dv, list) else dv)})
            else:
                out[name] = (None, None, {"default_val": dv})
        else:
            rc = (xl.CellRangeDict if ru["dict"] else xl.CellRangeSet)(conv(ru["cv"]))
            out[name] = ("*", rc, {"default_val": ru["def"]["v"]}) if "def" in ru else ("*", rc)
    return out


def _coq_multi(case):
    objs = "[" + "; ".join(f"({SX.cstr(ob['name'])}, ({_c_rules(ob['rules'])}, {SX.cnat(ob['nid'])}))" for ob in case["objs"]) + "]" \
        if case["objs"] else "(@nil (list Z * (list rule * nat)))"
    muts = []
    for m in case.get("muts", []):
        inner = "None" if m.get("inner") is None else f"(Some {SX.cstr(m['inner'])})"
        muts.append(f"({SX.cnat(m['j'])}, {SX.cnat(m['a'])}, {inner}, {SX.cstr(m['m'])})")
    mtxt = "[" + "; ".join(muts) + "]" if muts else "(@nil (nat * nat * option (list Z) * list Z))"
    return (f"ReadM {SX.cstr(case.get('title', 'sheet1'))} {_c_rows(case['rows'])} {objs} {SX.cstr(case['stop'])} "
            f"{SX.cbool(case['ladder'])} {_c_strs(case['qkeys'])} {mtxt}")


def _expected_multi(case, obs):
    n = len(case["objs"])
    hs = []
    for j, it in enumerate(obs["end"]):
        if it is None:
            hs.append([0])
        elif not obs["cls_ok"]:
            hs.append(-1)       # objects of another class than the i-th rule set's: never the model's
        else:
            hs.append(hash_sx(obj_sx(it, case["objs"][j % n]["rules"], ws=True)))
    e = [] if obs["err"] is None else [SX.ERR_CODES.get(obs["err"], SX.ERR_OTHER)]
    return SX.dumps([obs["n"] if obs["shape_ok"] and obs.get("kept_ok", True) else -1, [hs, e]])


def _oracle_multi(case, obs):
    if case.get("ragged") or not _is_rect(case):
        return []
    objs = case["objs"]
    n = len(objs)
    if any(ru["t"] == "plain" and ru["col"] == "*" for ob in objs for ru in ob["rules"]):
        return []
    out = []
    if not obs["shape_ok"]:
        out.append(("tuple-shape", f"a table row did not yield a sequence of {n} items (one per rule set)"))
    if not obs["cls_ok"]:
        out.append(("object-class", "the i-th item of a tuple is not an instance of the class of the i-th rule set"))
    if obs["shape_ok"] and not obs.get("kept_ok", True):
        out.append(("tuple-shared", "the tuples kept by the caller (list(reader.iter_table(ws))) do not hold the objects they "
                                    "held when they were yielded: a container is re-used between rows"))
    err = obs["err"]
    # (a) the property for every object class, with the column names claimed by ALL rule sets as the known ones
    for i in range(n):
        pc = _multi_pc(case, i)
        po = {"items": [tup[i] for tup in obs["tuples"]], "err": err}
        if "filled" in obs:
            po["filled"] = {"items": [tup[i] for tup in obs["filled"]["tuples"]], "err": obs["filled"]["err"]}
        for sig, msg in oracle(pc, po):
            out.append((sig, f"object class {i} of {n}: {msg}"))
    # (b) an exception only where the rules of SOME object class cannot be applied
    if err is not None and n and not any(_err_explained(_multi_pc(case, i), obs["n"]) for i in range(n)):
        out.append(("unexpected-error", f"{err} after {obs['n']} tuples although the rules of every object class can be applied "
                                        f"to the next row; rows={case['rows']!r} objs={objs!r}"))
    if n == 0:
        # no rule set: one empty tuple per data row
        rows = case["rows"]
        filled = ref_fill(rows) if case["ladder"] else rows
        _t, data_idx = _table_rows(filled, case["stop"])
        if err is None and obs["n"] != len(data_idx) and not (case["ladder"] and case["stop"] == "blank first"):
            out.append(("row-count", f"{obs['n']} tuples for {len(data_idx)} data rows"))
    # (c) the caller's edits: a value at the end = the value read + the caller's own edits of THAT value
    muts = {}
    for m in case.get("muts", []):
        muts.setdefault((m["j"], m["a"]), []).append((m.get("inner"), m["m"]))
    flat0 = [it for tup in obs["tuples"] for it in tup]
    for j, (it0, it1) in enumerate(zip(flat0, obs.get("end", []))):
        if it0 is None or it1 is None:
            if it0 is not it1:
                out.append(("shared-value", f"object {j} appeared/disappeared"))
            continue
        for a, (a0, a1) in enumerate(zip(it0["attrs"], it1["attrs"])):
            want = a0["v"]
            for inner, mk in muts.get((j, a), []):
                want = _mut_canon(want, inner, mk)
            if a1["v"] != want:
                out.append(("shared-value", f"object {j} (row {j // n}, class {j % n}) attribute {a} read {a0['v']!r}; after the caller's "
                                            f"edits it is {a1['v']!r}, the caller's own edits of this value give {want!r}"))
            if (a0["o"], a0["ko"], a0["kn"]) != (a1["o"], a1["ko"], a1["kn"]):
                out.append(("shared-origin", f"object {j} attribute {a}: get_attr_origin changed after edits of values"))
    seen = set()
    uniq = []
    for sig, msg in out:
        if sig not in seen:
            seen.add(sig)
            uniq.append((sig, msg[:1500]))
    return uniq


def _shrink_multi(case):
    rows = case["rows"]
    if case.get("muts"):
        yield dict(case, muts=[])
        for i in range(len(case["muts"]) - 1, -1, -1):
            yield dict(case, muts=case["muts"][:i] + case["muts"][i + 1:])
    for i in range(len(rows) - 1, -1, -1):
        yield dict(case, rows=rows[:i] + rows[i + 1:], muts=[])
    if rows:
        w = max(len(r) for r in rows)
        for j in range(w - 1, -1, -1):
            yield dict(case, rows=[r[:j] + r[j + 1:] for r in rows], muts=[])
    for i in range(len(case["objs"]) - 1, -1, -1):
        if any(ob.get("same_as", -1) >= i for ob in case["objs"]):
            continue
        yield dict(case, objs=case["objs"][:i] + case["objs"][i + 1:], muts=[])
    for i, ob in enumerate(case["objs"]):
        if len(ob["rules"]) > 1 and "same_as" not in ob and not any(o.get("same_as") == i for o in case["objs"]):
            ob2 = dict(ob, rules=ob["rules"][:-1], nid=min(ob["nid"], len(ob["rules"]) - 1))
            yield dict(case, objs=case["objs"][:i] + [ob2] + case["objs"][i + 1:], muts=[])


TECHNIQUE = ("Second tie for the range text: _coord_sort_key and the range-text branch of XlsObject.get_attr_origin are translated from the "
             "current source to Gallina on every run by the shared fail-closed translator harness/lib/pytranslate.py "
             "(coq/gen/C18_Translated.v), proved equal to the hand model's coord_sort_key / range_text on the coordinates of worksheet "
             "cells (coq/C18/TransEq.v), range_text_extremes / range_text are restated for the translation (coq/C18/PropsTranslated.v) "
             "and the translated branch is evaluated on the origins of every ranged attribute of every object of every case (Run.v).  "
             "First tie: Coq proofs (structural induction over rows / columns, invariants of the row loop, refinement of the ladder "
             "loop to a fill-down specification) on a hand-written Gallina model + per-run correspondence check "
             "(vm_compute vs implementation on generated worksheets) + constants regenerated from the source")
LEVEL_TEXT = ("Full (model level, all sheets / rule sets, unbounded rows and columns; stated for XlsTableReader with ANY number of rule "
              "sets = object classes per table row, Model.read_table_m; the module-level iter_table / read_table / TableReader is the "
              "reader with one rule set, unpacked -- single_is_multi -- and origin_consistent_single, rows_in_order_single are derived "
              "as the one-element special case): origin_consistent (every attribute of every object of every tuple "
              "is the conversion of the sheet cell(s) at its recorded origin, in a column with the declared / "
              "detected title, or the declared default with the marker origin; the range group is detected against the column names "
              "claimed by ALL rule sets), objects_independent (the i-th items of the tuples are exactly what the i-th rule set reads on "
              "its own when the names claimed by all rule sets count as known; the reader stops where the first rule set cannot be "
              "read, with that exception), origin_reported + origin_reported_ws + range_key_consistent "
              "(get_attr_origin renders exactly the recorded origin, per key too; incl_ws only adds the sheet name), rows_in_order "
              "(one tuple per data row, one item per rule set, in order, "
              "up to the end row of the chosen rule; origins lie in the object's row, ladder: between the first data row and the "
              "object's row), range_detect + range_known_union + range_columns (the range group is the first maximal run of titled "
              "columns that no rule set names), ladder_equiv_multi / ladder_prefix_multi / ladder_origins_multi (the ladder theorems "
              "on tuples), "
              "range_text_extremes + range_text (the text of a whole ranged attribute is '<leftmost source cell>:<rightmost source "
              "cell>' for any number of columns -- A..Z, AA.. are proved to be ordered by the sort key -- and for source cells of "
              "different rows as in a ladder reading), ladder_origins (ladder: every origin, single-cell or per key of a ranged "
              "attribute, is the cell that holds what the filled-in table has, the object's own cell unless that is blank), "
              "ladder_equiv (ladder reading = plain reading of the filled-in table, default end rule) and ladder_equiv_guarded "
              "('blank first' when the first sheet column is not part of the ladder).  Refuted: ladder_equiv_statement (both end "
              "rules) by ladder_blank_first_refuted -- open finding ladder-blank-first; what does hold there is ladder_prefix (the "
              "ladder reading is a prefix of the filled-in reading and ends, without exception, at a row whose first cell is blank).  "
              "Sessions: session_local (at the end of ANY sequence of readings and caller edits, every reading still has the "
              "exception, the items, the origins and every attribute value the caller did not edit itself that reading its sheet with "
              "its rules alone gives), session_no_edits, session_edit_applied -- theorems about the model, in which values are fresh by "
              "construction; that ak/xlsread.py has no state between readings and shares no mutable value between objects / readings / "
              "class hierarchies is what the correspondence check on session cases compares (every object re-observed at the end of "
              "the session) and what the oracle signatures shared-value, shared-origin, object-class, map-reading state directly; a "
              "mixin reading is modelled as the direct reading with the class's own (or inherited) ATTR_RULES, STOP_ON and LADDER_FORMAT "
              "and is also compared in-process with iter_table called with exactly these (signatures mixin-ignores-stop-on-ladder -- "
              "fixed finding, 357b521 -- and mixin-direct).  "
              "Converters at the level of code points (PropsText.v): list_cell_split_spec (a list / set cell is split at ',' and at new "
              "line and nowhere else: the pieces are the maximal runs free of both, uniquely determined; each stripped, empty ones dropped), "
              "list_cell_one_element, str_strip_spec (strip removes exactly a prefix and a suffix of str.isspace code points), "
              "int_cell_no_text (CellInt converts no text), ex_list_texts.  "
              "Tested only (correspondence + oracle, no theorem): that a reading raises only where a declared rule cannot be applied "
              "(oracle signature unexpected-error), that a row yields None only when its id values are all None (spurious-none), "
              "logic_id = the id attribute values (logic-id), the map entry points (map-reading).  The ladder theorems for one rule set "
              "hold for any set of known names (read_table_k).  Theorems are about the Gallina model; its agreement with "
              "ak/xlsread.py is checked per run, not proved.")
LEVEL_NOTE = ("For translated_key_eq, translated_range_text_eq, range_text_extremes_translated, range_text_translated (closed under the global "
              "context; 43 statements in all) the trusted part is the translator harness/lib/pytranslate.py + coq/Common/PyLib.v "
              "(self-tested against CPython, not verified) and the declared parameter types, not the hand model's reading of the sort: "
              "an edit of _coord_sort_key or of the range-text branch that changes behaviour breaks TransEq.v (or leaves the subset = "
              "broken proof step).  Otherwise -- Trusted: Coq kernel + vm_compute; fidelity of the hand model (checked by correspondence, not proved); "
              "python str/==/sorting semantics mirrored in the model; the ast extractor and harness.")
DESIGN_REF = "DESIGN.md section 8, C18"
