(* C01/FactSmart3.v -- bookkeeping of references to suffix symbols during the undo
   pass: the references found in the live entries are, as a multiset, the live suffix
   symbols; one step removes exactly the inlined symbols. *)
From Coq Require Import ZArith List Bool Lia Permutation.
From AK Require Import Common.Err LLP.Base LLP.Factor C01.Basics C01.Spec C01.FactExp C01.FactProps C01.FactAll C01.FactSmart1.
Import ListNotations.
Local Open Scope nat_scope.

Definition tailsP (SS : list sym) (ps : list (list sym)) : list sym :=
  flat_map (fun p => tail1 SS (mkRule [] p 0)) ps.

Lemma tail1_prod : forall SS r, tail1 SS r = tail1 SS (mkRule [] (rprod r) 0).
Proof. reflexivity. Qed.

Lemma tails_prods : forall SS v, tails SS v = tailsP SS (map rprod v).
Proof.
  intros SS. induction v as [|r v IH]; [reflexivity|].
  unfold tails, tailsP in *. cbn [flat_map map]. now rewrite IH.
Qed.

Lemma tailsP_app : forall SS a b, tailsP SS (a ++ b) = tailsP SS a ++ tailsP SS b.
Proof. intros. unfold tailsP. apply flat_map_app. Qed.

Lemma tailsP_cons_front : forall SS a ps, mem a SS = false -> tailsP SS (map (cons a) ps) = tailsP SS ps.
Proof.
  intros SS a. induction ps as [|p ps IH]; intros Ha; [reflexivity|].
  unfold tailsP in *. cbn [map flat_map]. rewrite IH by assumption. f_equal.
  unfold tail1. cbn [rprod]. destruct p as [|s0 p0].
  - cbn [last]. now rewrite Ha.
  - reflexivity.
Qed.

(* ---------------- removing entries ---------------- *)
Lemma gremove_gremove : forall (g : grammar) R1 R2, gremove (gremove g R1) R2 = gremove g (R1 ++ R2).
Proof.
  intros g R1 R2. unfold gremove. induction g as [|[k v] g IH]; [reflexivity|].
  cbn [filter fst]. rewrite mem_app. destruct (mem k R1) eqn:E1; cbn [negb orb].
  - exact IH.
  - cbn [filter fst]. destruct (mem k R2); cbn [negb]; now rewrite IH.
Qed.

Lemma gremove_ext : forall (g : grammar) R1 R2, (forall k, mem k R1 = mem k R2) -> gremove g R1 = gremove g R2.
Proof.
  intros g R1 R2 H. unfold gremove. apply filter_ext. intros [k v]. cbn [fst]. now rewrite H.
Qed.

Lemma gremove_gupdate : forall (g : grammar) s v R, mem s R = true -> gremove (gupdate g s v) R = gremove g R.
Proof.
  intros g s v R Hs. unfold gremove. induction g as [|[k w] g IH]; [reflexivity|].
  cbn [gupdate]. destruct (sym_eqb k s) eqn:E.
  - apply sym_eqb_eq in E. subst k. cbn [filter fst]. now rewrite Hs.
  - cbn [filter fst]. destruct (mem k R); cbn [negb]; now rewrite IH.
Qed.

Lemma gremove_NoDup : forall (g : grammar) R, NoDup (gkeys g) -> NoDup (gkeys (gremove g R)).
Proof. intros g R H. rewrite gremove_keys. now apply NoDup_filter. Qed.

Lemma mem_single : forall (k x : sym), mem k [x] = sym_eqb k x.
Proof. intros. unfold mem. cbn. now rewrite orb_false_r. Qed.

Lemma filter_all : forall A (P : A -> bool) l, (forall x, In x l -> P x = true) -> filter P l = l.
Proof.
  intros A P. induction l as [|x l IH]; intros H; [reflexivity|].
  cbn. rewrite (H x (or_introl eq_refl)). f_equal. apply IH. intros y Hy. apply H. now right.
Qed.

Lemma flat_map_ext_in' : forall A B (f g : A -> list B) l, (forall x, In x l -> f x = g x) -> flat_map f l = flat_map g l.
Proof.
  intros A B f g. induction l as [|x l IH]; intros H; [reflexivity|].
  cbn. rewrite (H x (or_introl eq_refl)). f_equal. apply IH. intros y Hy. apply H. now right.
Qed.

Section Tails.
  Variable SS : list sym.

  Lemma gtails_remove1 : forall (L : grammar) k v, NoDup (gkeys L) -> In (k, v) L ->
    Permutation (gtails SS L) (tails SS v ++ gtails SS (gremove L [k])).
  Proof.
    induction L as [|[k0 v0] L IH]; intros k v Hnd Hin; [contradiction|].
    cbn [gkeys map fst] in Hnd. inversion Hnd as [|? ? Hn Hnd']; subst.
    unfold gremove. cbn [filter fst]. rewrite mem_single.
    destruct Hin as [Hin|Hin].
    - injection Hin as -> ->. rewrite sym_eqb_refl. cbn [negb]. unfold gtails at 1. cbn [flat_map snd].
      apply Permutation_app_head.
      rewrite filter_all; [reflexivity|]. intros [k1 v1] Hin1. cbn [fst]. rewrite mem_single.
      apply negb_true_iff. apply sym_eqb_neq. intros ->. apply Hn.
      change k with (fst (k, v1)). now apply in_map.
    - assert (Hk : k0 <> k).
      { intros ->. apply Hn. change k with (fst (k, v)). now apply in_map. }
      apply sym_eqb_neq in Hk. rewrite Hk. cbn [negb]. unfold gtails. cbn [flat_map snd].
      fold (gtails SS L). fold (gtails SS (filter (fun kv => negb (mem (fst kv) [k])) L)).
      rewrite (IH k v Hnd' Hin). unfold gremove. apply Permutation_app_swap_app.
  Qed.

  Lemma gtails_removeB : forall B (L : grammar), NoDup (gkeys L) -> NoDup B -> (forall b, In b B -> In b (gkeys L)) ->
    Permutation (gtails SS L) (flat_map (fun b => tails SS (grules L b)) B ++ gtails SS (gremove L B)).
  Proof.
    induction B as [|b0 B0 IH]; intros L Hnd HB Hk.
    - cbn [flat_map app]. unfold gremove. rewrite filter_all; [reflexivity|]. intros kv _. reflexivity.
    - inversion HB as [|? ? Hn HB0]; subst.
      assert (Hb0 : In (b0, grules L b0) L) by (apply grules_key_In; apply Hk; now left).
      rewrite (gtails_remove1 L b0 (grules L b0) Hnd Hb0).
      cbn [flat_map]. rewrite <- app_assoc. apply Permutation_app_head.
      set (L1 := gremove L [b0]).
      assert (Hnd1 : NoDup (gkeys L1)) by now apply gremove_NoDup.
      assert (Hk1 : forall b, In b B0 -> In b (gkeys L1)).
      { intros b Hb. unfold L1. rewrite gremove_keys. apply filter_In. split; [apply Hk; now right|].
        rewrite mem_single. apply negb_true_iff. apply sym_eqb_neq. intros ->. contradiction. }
      rewrite (IH L1 Hnd1 HB0 Hk1). unfold L1. rewrite gremove_gremove. cbn [app].
      apply Permutation_app_tail.
      replace (flat_map (fun b => tails SS (grules (gremove L [b0]) b)) B0)
        with (flat_map (fun b => tails SS (grules L b)) B0); [reflexivity|].
      apply flat_map_ext_in'. intros b Hb. rewrite gremove_grules; [reflexivity|].
      rewrite mem_single. apply sym_eqb_neq. intros ->. contradiction.
  Qed.
End Tails.

Section StepTails.
  Variables (terminals SS : list sym) (g : grammar).

  Lemma tail1_pair : forall r a b, rprod r = [a; b] -> mem b SS = true -> tail1 SS r = [b].
  Proof. intros r a b Hp Hb. unfold tail1. rewrite Hp. cbn [last]. now rewrite Hb. Qed.

  (* within the entry that is rewritten *)
  Lemma entry_tails : forall rr,
    (forall r a b, In r rr -> inl_of terminals SS g r = Some (a, b) -> mem a SS = false) ->
    Permutation (tails SS rr ++ flat_map (fun b => tails SS (grules g b)) (flat_map (rem_of terminals SS g) rr))
                (flat_map (rem_of terminals SS g) rr ++ tailsP SS (flat_map (newprods_of terminals SS g) rr)).
  Proof.
    induction rr as [|r rr IH]; intros Ha; [constructor|].
    assert (IH' := IH (fun r0 a b Hr0 => Ha r0 a b (or_intror Hr0))). clear IH.
    unfold tails at 1. cbn [flat_map]. fold (tails SS rr).
    unfold rem_of at 1 3, newprods_of at 1. destruct (inl_of terminals SS g r) as [[a b]|] eqn:Ei.
    - destruct (inl_of_Some _ _ _ _ _ _ Ei) as [Hp [Hb _]].
      assert (Hasf : mem a SS = false) by (eapply Ha; [now left|eassumption]).
      rewrite (tail1_pair r a b Hp Hb). cbn [app flat_map]. rewrite tailsP_app.
      replace (map (fun sr => a :: rprod sr) (grules g b)) with (map (cons a) (map rprod (grules g b))) by now rewrite map_map.
      rewrite tailsP_cons_front by assumption. rewrite <- tails_prods.
      apply perm_skip.
      etransitivity; [apply Permutation_app_swap_app|].
      etransitivity; [apply Permutation_app_head; exact IH'|]. apply Permutation_app_swap_app.
    - cbn [app flat_map]. unfold tailsP at 1. cbn [flat_map]. fold (tailsP SS (flat_map (newprods_of terminals SS g) rr)).
      rewrite <- tail1_prod. rewrite <- !app_assoc.
      etransitivity; [apply Permutation_app_head; exact IH'|]. apply Permutation_app_swap_app.
  Qed.

  Lemma step_tails : forall rem s rr v',
    NoDup (gkeys g) -> In (s, rr) g -> mem s rem = false ->
    let B := flat_map (rem_of terminals SS g) rr in
    (forall b, In b B -> In b (gkeys g) /\ mem b rem = false /\ b <> s) -> NoDup B ->
    map rprod v' = flat_map (newprods_of terminals SS g) rr ->
    (forall r a b, In r rr -> inl_of terminals SS g r = Some (a, b) -> mem a SS = false) ->
    Permutation (gtails SS (gremove g rem)) (B ++ gtails SS (gremove (gupdate g s v') (rem ++ B))).
  Proof.
    intros rem s rr v' Hnd Hs Hsrem B HB HBnd Hv' Ha.
    set (R := gtails SS (gremove g ((rem ++ [s]) ++ B))).
    assert (Hskey : In s (gkeys g)) by (change s with (fst (s, rr)); now apply in_map).
    (* old side *)
    assert (Hold : Permutation (gtails SS (gremove g rem)) ((B ++ tailsP SS (flat_map (newprods_of terminals SS g) rr)) ++ R)).
    { assert (HL : In (s, rr) (gremove g rem)) by (apply gremove_In; now split).
      rewrite (gtails_remove1 SS _ s rr (gremove_NoDup g rem Hnd) HL). rewrite gremove_gremove.
      set (L1 := gremove g (rem ++ [s])).
      assert (Hk1 : forall b, In b B -> In b (gkeys L1)).
      { intros b Hb. destruct (HB b Hb) as [H1 [H2 H3]]. unfold L1. rewrite gremove_keys. apply filter_In.
        split; [assumption|]. rewrite mem_app, H2, mem_single. apply negb_true_iff. cbn. now apply sym_eqb_neq. }
      rewrite (gtails_removeB SS B L1 (gremove_NoDup g _ Hnd) HBnd Hk1).
      unfold L1. rewrite gremove_gremove. fold R.
      replace (flat_map (fun b => tails SS (grules (gremove g (rem ++ [s])) b)) B)
        with (flat_map (fun b => tails SS (grules g b)) B).
      - rewrite app_assoc. apply Permutation_app_tail. apply entry_tails. exact Ha.
      - apply flat_map_ext_in'. intros b Hb. destruct (HB b Hb) as [H1 [H2 H3]].
        rewrite gremove_grules; [reflexivity|]. rewrite mem_app, H2, mem_single. cbn. now apply sym_eqb_neq. }
    rewrite Hold. rewrite <- app_assoc. apply Permutation_app_head.
    (* new side *)
    set (g' := gupdate g s v').
    assert (Hnd' : NoDup (gkeys g')) by (unfold g'; now rewrite gupdate_keys).
    assert (HsB : mem s (rem ++ B) = false).
    { rewrite mem_app, Hsrem. cbn. apply mem_not_In. intros Hin. destruct (HB s Hin) as [_ [_ H3]]. now apply H3. }
    assert (HL' : In (s, v') (gremove g' (rem ++ B))).
    { apply gremove_In. split; [|assumption]. unfold g'. apply gupdate_In; [assumption|]. right. auto. }
    rewrite (gtails_remove1 SS _ s v' (gremove_NoDup g' _ Hnd') HL'). rewrite gremove_gremove.
    rewrite tails_prods, Hv'. apply Permutation_app_head.
    unfold g'. rewrite gremove_gupdate.
    - unfold R. rewrite (gremove_ext g ((rem ++ B) ++ [s]) ((rem ++ [s]) ++ B)); [reflexivity|].
      intros k. rewrite !mem_app. destruct (mem k rem), (mem k B), (mem k [s]); reflexivity.
    - rewrite mem_app, mem_single, sym_eqb_refl. apply orb_true_r.
  Qed.
End StepTails.
