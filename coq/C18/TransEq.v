(* C18/TransEq.v -- _coord_sort_key and the range-text branch of XlsObject.get_attr_origin, TRANSLATED from the
   current ak/xlsread.py (gen/C18_Translated.v, written by harness/lib/pytranslate.py through c18.gen_consts on
   every run), are equal to the hand model's coord_sort_key / range_text on the coordinates of worksheet cells;
   hence range_text_extremes and range_text hold of the translated code. *)
From Coq Require Import ZArith List Bool Lia.
From AK Require Import Common.Sx Common.Err Common.PyLib Common.PyLibLemmas.
From AK Require Import C18.Base gen.C18_Consts C18.Model C18.Lemmas C18.LemmasCoord C18.LemmasRange gen.C18_Translated.
Import ListNotations.
Open Scope Z_scope.

Lemma translation_is_available : translation_available = true.
Proof. reflexivity. Qed.

(* ------------------------------------------------------------------ *)
(* PyLib's vocabulary against the hand model's helpers                  *)

Lemma digit_set c : existsb (Z.eqb c) [48; 49; 50; 51; 52; 53; 54; 55; 56; 57] = is_digit c.
Proof.
  unfold is_digit. cbn [existsb].
  repeat match goal with |- context [c =? ?k] => destruct (Z.eqb_spec c k) end;
    destruct (Z.leb_spec 48 c), (Z.leb_spec c 57); cbn; try reflexivity; lia.
Qed.

Lemma lstrip_digits s : py_lstrip s [48; 49; 50; 51; 52; 53; 54; 55; 56; 57] = drop_digits s.
Proof. induction s as [|c r IH]; [reflexivity|]. cbn [py_lstrip drop_digits]. rewrite digit_set, IH. reflexivity. Qed.

Lemma rstrip_digits_eq s : py_rstrip s [48; 49; 50; 51; 52; 53; 54; 55; 56; 57] = rstrip_digits s.
Proof. unfold py_rstrip, rstrip_digits. rewrite lstrip_digits. reflexivity. Qed.

Lemma str_ltb_eq a : forall b, py_str_ltb a b = str_ltb a b.
Proof.
  induction a as [|x a IH]; intros [|y b]; cbn [py_str_ltb str_ltb]; try reflexivity.
  rewrite IH. destruct (Z.ltb_spec x y), (Z.ltb_spec y x), (Z.eqb_spec x y); cbn; try reflexivity; lia.
Qed.

(* int(text) of a non-empty string of ASCII digits *)
Lemma digs_digits ds : forall acc st, Forall is_dig ds -> ds <> [] \/ st = PDDigit ->
  py_digs ds acc st = Some (fold_left (fun a c => 10 * a + (c - 48)) ds acc).
Proof.
  induction ds as [|c r IH]; intros acc st Hd Hne.
  - destruct Hne as [H| ->]; [congruence|reflexivity].
  - inversion Hd as [|? ? Hc Hr]; subst. cbn [py_digs fold_left].
    assert (py_is_digit c = true) as -> by (unfold py_is_digit, is_dig in *; apply andb_true_intro; split; apply Z.leb_le; lia).
    rewrite IH; [|exact Hr|right; reflexivity]. f_equal. f_equal. lia.
Qed.

Lemma drop_space_digit c r : is_dig c -> py_drop_space (c :: r) = c :: r.
Proof.
  intros H. cbn [py_drop_space]. unfold py_is_space, is_dig in *.
  destruct (Z.leb_spec 9 c), (Z.leb_spec c 13), (Z.eqb_spec c 32); cbn; try reflexivity; lia.
Qed.

Lemma int_of_str_digits ds : Forall is_dig ds -> ds <> [] -> py_int_of_str ds = Ok (int_of_digits ds).
Proof.
  intros Hd Hne. unfold py_int_of_str. cbv zeta.
  destruct ds as [|c r]; [congruence|]. inversion Hd as [|? ? Hc Hr]; subst.
  rewrite (drop_space_digit c r Hc).
  assert (exists c' r', rev (c :: r) = c' :: r' /\ is_dig c') as (c' & r' & Er & Hc').
  { assert (Forall is_dig (rev (c :: r))) as Hrev by (apply Forall_rev; exact Hd).
    destruct (rev (c :: r)) as [|c' r'] eqn:E.
    - apply (f_equal (@length Z)) in E. rewrite rev_length in E. discriminate.
    - exists c', r'. split; [reflexivity|]. inversion Hrev; assumption. }
  rewrite Er, (drop_space_digit c' r' Hc'), <- Er, rev_involutive.
  assert (forall (X : Type) (a b d : X), match c with 43 => a | 45 => b | _ => d end = d) as Hm.
  { intros X a b d. unfold is_dig in Hc. destruct c as [|p|p]; try reflexivity.
    do 6 (destruct p as [p|p|]; try reflexivity); lia. }
  rewrite Hm, (digs_digits (c :: r) 0 PDStart Hd) by (left; discriminate). reflexivity.
Qed.

Lemma py_slice_from {A} (l : list A) (a : nat) : (a <= length l)%nat -> py_slice l (Some (Z.of_nat a)) None = skipn a l.
Proof.
  intros H. unfold py_slice, py_clamp, py_len.
  destruct (Z.ltb_spec (Z.of_nat a) 0); [lia|].
  replace (Z.max 0 (Z.min (Z.of_nat (length l)) (Z.of_nat a))) with (Z.of_nat a) by lia.
  rewrite Nat2Z.id. replace (Z.to_nat (Z.of_nat (length l) - Z.of_nat a)) with (length (skipn a l)) by (rewrite skipn_length; lia).
  apply firstn_all.
Qed.

(* ------------------------------------------------------------------ *)
(* _coord_sort_key on the coordinate of a worksheet cell                 *)

Definition key_z (k : nat * str * Z) : Z * list Z * Z := let '(n, s, z) := k in (Z.of_nat n, s, z).

Theorem translated_key_eq fuel r c :
  T__coord_sort_key fuel (coord_text r c) = Ok (key_z (coord_sort_key (coord_text r c))).
Proof.
  rewrite coord_key_spec. unfold T__coord_sort_key. cbv zeta. rewrite rstrip_digits_eq.
  unfold coord_text.
  destruct (dec_pos_spec (Z.of_nat r + 1) ltac:(lia)) as [Hd Hv].
  rewrite rstrip_digits_spec by (auto using col_name_letters).
  unfold py_len. rewrite py_slice_from by (rewrite app_length; lia). rewrite skipn_app_len.
  rewrite int_of_str_digits; [cbn [bind key_z]; rewrite Hv; reflexivity|exact Hd|].
  intros E. rewrite E in Hv. cbn in Hv. lia.
Qed.

(* python's < on the translated keys is the model's key_ltb *)
Definition key_lt_t : Z * list Z * Z -> Z * list Z * Z -> bool :=
  fun '(a0, a1, a2) '(b0, b1, b2) =>
    if Z.ltb a0 b0 then true else if Z.ltb b0 a0 then false
    else if py_str_ltb a1 b1 then true else if py_str_ltb b1 a1 then false else Z.ltb a2 b2.

Lemma Zltb_of_nat a b : (Z.of_nat a <? Z.of_nat b) = Nat.ltb a b.
Proof. destruct (Z.ltb_spec (Z.of_nat a) (Z.of_nat b)), (Nat.ltb_spec a b); try reflexivity; lia. Qed.

Lemma key_lt_eq a b : key_lt_t (key_z a) (key_z b) = key_ltb a b.
Proof.
  destruct a as [[la sa] na], b as [[lb sb] nb]. cbn [key_z key_lt_t key_ltb]. rewrite !str_ltb_eq, !Zltb_of_nat. reflexivity.
Qed.

(* ------------------------------------------------------------------ *)
(* sorted(origins.values(), key=_coord_sort_key) on coordinates          *)

Definition keyed (ps : list (nat * nat)) : list ((Z * list Z * Z) * str) :=
  map (fun p => (key_z (coord_sort_key (pos_text p)), pos_text p)) ps.

Lemma mapM_keys fuel ps :
  py_mapM (fun x => match T__coord_sort_key fuel x with Ok kx => Ok (kx, x) | Err e => Err e end) (map pos_text ps)
  = Ok (keyed ps).
Proof.
  induction ps as [|[r c] ps IH]; [reflexivity|]. cbn [map py_mapM keyed]. unfold pos_text at 1. cbn [fst snd].
  rewrite translated_key_eq. fold (keyed ps). rewrite IH. reflexivity.
Qed.

Lemma keyed_snd ps : map snd (keyed ps) = map pos_text ps.
Proof. unfold keyed. rewrite map_map. reflexivity. Qed.

Lemma insert_keyed_eq p : forall ps,
  map snd (py_insert_keyed key_lt_t (key_z (coord_sort_key (pos_text p)), pos_text p) (keyed ps))
  = insert_by coord_leb (pos_text p) (map pos_text ps) /\
  exists qs, py_insert_keyed key_lt_t (key_z (coord_sort_key (pos_text p)), pos_text p) (keyed ps) = keyed qs.
Proof.
  induction ps as [|q ps [IH1 [qs IH2]]]; cbn [keyed map py_insert_keyed insert_by fst snd].
  - split; [reflexivity|exists [p]; reflexivity].
  - rewrite key_lt_eq. unfold coord_leb at 1.
    destruct (key_ltb (coord_sort_key (pos_text q)) (coord_sort_key (pos_text p))); cbn [negb map snd].
    + split; [f_equal; exact IH1|]. fold (keyed ps). rewrite IH2. exists (q :: qs). reflexivity.
    + split; [fold (keyed ps); rewrite keyed_snd; reflexivity|exists (p :: q :: ps); reflexivity].
Qed.

Lemma sort_keyed_eq ps :
  map snd (py_sort_keyed key_lt_t (keyed ps)) = sort_by coord_leb (map pos_text ps) /\
  exists qs, py_sort_keyed key_lt_t (keyed ps) = keyed qs.
Proof.
  induction ps as [|p ps [IH1 [qs IH2]]]; [split; [reflexivity|exists []; reflexivity]|].
  cbn [keyed map]. unfold py_sort_keyed, sort_by. cbn [fold_right].
  fold (keyed ps). fold (py_sort_keyed key_lt_t (keyed ps)). fold (sort_by coord_leb (map pos_text ps)).
  rewrite IH2. destruct (insert_keyed_eq p qs) as [E1 E2]. split; [|exact E2].
  rewrite E1. rewrite <- IH1, IH2, keyed_snd. reflexivity.
Qed.

Lemma py_list_get_last {A} (x : A) l d : py_list_get (x :: l) (-1) = Ok (last (x :: l) d).
Proof.
  unfold py_list_get, py_index_pos, py_len. cbn [length]. change (-1 <? 0) with true. cbv iota.
  destruct (Z.leb_spec 0 (-1 + Z.of_nat (S (length l)))); [|lia].
  destruct (Z.ltb_spec (-1 + Z.of_nat (S (length l))) (Z.of_nat (S (length l)))); [|lia]. cbn [andb].
  replace (Z.to_nat (-1 + Z.of_nat (S (length l)))) with (length l) by lia.
  assert (nth_error (x :: l) (length l) = Some (last (x :: l) d)) as ->; [|reflexivity].
  clear. revert x. induction l as [|y l IH]; intros x; [reflexivity|]. cbn [length nth_error]. rewrite IH. reflexivity.
Qed.

(* the range-text branch: ws_prefix + the model's range_text *)
Theorem translated_range_text_eq fuel (d : list (str * (nat * nat))) prefix :
  T_range_origin_text fuel (map (fun kv => pos_text (snd kv)) d) prefix = Ok (prefix ++ range_text d).
Proof.
  unfold T_range_origin_text.
  change (fun '(a0, a1, a2) '(b0, b1, b2) => _) with key_lt_t.
  rewrite <- (map_map snd pos_text). unfold py_sorted_by. rewrite mapM_keys.
  destruct (sort_keyed_eq (map snd d)) as [E _]. rewrite E. cbn [bind]. cbv zeta.
  unfold range_text. cbv zeta.
  replace (map (fun kv : str * (nat * nat) => coord_text (fst (snd kv)) (snd (snd kv))) d) with (map pos_text (map snd d))
    by (rewrite map_map; reflexivity).
  destruct (sort_by coord_leb (map pos_text (map snd d))) as [|x [|y l]].
  - reflexivity.
  - reflexivity.
  - unfold py_len. cbn [length]. 
    destruct (Z.eqb_spec (Z.of_nat (S (S (length l)))) 0); [lia|].
    destruct (Z.eqb_spec (Z.of_nat (S (S (length l)))) 1); [lia|].
    cbn [bind]. rewrite (py_list_get_nth _ 0 x) by (unfold py_len; cbn [length]; lia). cbn [bind Z.to_nat nth].
    rewrite (py_list_get_last x (y :: l) []). cbn [bind]. rewrite <- app_assoc. reflexivity.
Qed.

(* ------------------------------------------------------------------ *)
(* the range_text theorems, for the translated code                     *)

Definition coords_of (d : list (str * (nat * nat))) : list str := map (fun kv => pos_text (snd kv)) d.

Lemma range_text_extremes_t fuel prefix (d : list (str * (nat * nat))) :
  exists t, T_range_origin_text fuel (coords_of d) prefix = Ok (prefix ++ t) /\
  match map snd d with
  | [] => t = marker_range_empty
  | [p] => t = pos_text p
  | _ => exists p q, In p (map snd d) /\ In q (map snd d) /\
                     (forall x, In x (map snd d) -> pos_le p x /\ pos_le x q) /\
                     t = pos_text p ++ [58%Z] ++ pos_text q
  end.
Proof. exists (range_text d). split; [apply translated_range_text_eq|apply range_text_extremes_l]. Qed.

Lemma range_text_t fuel prefix names cells :
  NoDup names -> length names = length cells ->
  (forall i j x y, (i < j)%nat -> nth_error cells i = Some x -> nth_error cells j = Some y ->
                   (c_col x < c_col y)%nat) ->
  T_range_origin_text fuel (coords_of (dict_of (combine names (map cpos cells)))) prefix
  = Ok (prefix ++ range_text_spec (map cpos cells)).
Proof.
  intros H1 H2 H3. unfold coords_of. rewrite translated_range_text_eq. rewrite (range_text_l names cells H1 H2 H3). reflexivity.
Qed.
