"""Parent side: run cases through the implementation in fresh sub-processes."""
import json
import os
import subprocess
from concurrent.futures import ThreadPoolExecutor

from . import coqrun

VERIF = coqrun.VERIF
REPO = os.environ.get("VERIF_REPO", "/repo")
PY = os.environ.get("VERIF_PYTHON", "/venv/bin/python")


def impl_env():
    env = dict(os.environ)
    env["PYTHONPATH"] = REPO + os.pathsep + VERIF
    env["PYTHONHASHSEED"] = "0"
    env["PYTHONDONTWRITEBYTECODE"] = "1"
    env["VERIF_REPO"] = REPO
    env["AK_PY_VERIF"] = "1"
    return env


def _run_shard(args):
    idx, modname, cases, timeout = args
    wd = coqrun.workdir()
    inp = os.path.join(wd, f"impl_in_{idx}.jsonl")
    outp = os.path.join(wd, f"impl_out_{idx}.jsonl")
    results = []
    pending = list(cases)
    stderr_tail = ""
    while pending:
        with open(inp, "w") as f:
            for c in pending:
                f.write(json.dumps(c) + "\n")
        if os.path.exists(outp):
            os.unlink(outp)
        budget = 60 + timeout * len(pending)
        try:
            p = subprocess.run([PY, "-m", "harness.implworker", modname, inp, outp, str(timeout)],
                               cwd=VERIF, env=impl_env(), stdout=subprocess.PIPE,
                               stderr=subprocess.PIPE, text=True, timeout=budget)
            stderr_tail = p.stderr[-2000:]
            rc = p.returncode
        except subprocess.TimeoutExpired:
            rc = -9
        got = []
        if os.path.exists(outp):
            with open(outp) as f:
                for line in f:
                    line = line.strip()
                    if line:
                        try:
                            got.append(json.loads(line))
                        except ValueError:
                            break
        results += got
        pending = pending[len(got):]
        if pending and rc == 3:
            raise RuntimeError("implementation not imported from the repo: " + stderr_tail)
        if pending:
            if rc == 0 and not got:
                raise RuntimeError("impl worker produced nothing: " + stderr_tail)
            # the process died on pending[0] (segfault / kill / memory): record and go on
            results.append({"__hang__": 1, "died": rc, "stderr": stderr_tail[-500:]})
            pending = pending[1:]
    return idx, results


def run_cases(modname, cases, timeout=5.0, shard=None, jobs=None):
    jobs = jobs or coqrun.JOBS
    if shard is None:
        shard = max(1, min(400, (len(cases) + jobs - 1) // jobs))
    shards = [cases[i:i + shard] for i in range(0, len(cases), shard)]
    out = [None] * len(cases)
    with ThreadPoolExecutor(max_workers=jobs) as ex:
        for idx, res in ex.map(_run_shard, [(i, modname, sh, timeout) for i, sh in enumerate(shards)]):
            out[idx * shard: idx * shard + len(res)] = res
    return out
