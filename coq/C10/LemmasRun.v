(* C10/LemmasRun.v -- every operation of a history keeps the invariants of
   LemmasInv.v: inv_step, inv_run.  Guards (op_ok): user syntax items use the
   modelled colour language, no palette is requested with synced=True. *)
From Coq Require Import ZArith List Bool Lia.
From AK Require Import Common.Sx Common.Err C10.Sgr C10.SgrLemmas C10.Base gen.C10_Consts C10.Model C10.Lemmas C10.LemmasInv.
Import ListNotations.
Open Scope Z_scope.

Section Run.
Variable fts : list (Z * ftdef).

Definition op_ok (o : op) : Prop :=
  match o with
  | ONewConf _ _ init => smap_ok init
  | ORegister _ items => smap_ok items
  | ORender _ _ _ pa _ _ => pa <> PSynced
  | OMake _ _ _ _ pa _ => pa <> PSynced
  | _ => True
  end.

Notation mvs := (moves true fts).

Lemma moves_gc w : mvs w (gc true w).
Proof.
  unfold gc. eapply MsStep; [apply MGc|]. eapply MsStep; [apply MGc|]. apply moves_one. apply MGc.
Qed.

Lemma moves_resync w : w_synced w = [] -> mvs w (resync w).
Proof.
  intros Hs. unfold resync. destruct (w_global w) as [g|]; [|apply MsRefl].
  rewrite Hs. cbn [fold_left]. apply moves_one. apply MConf. apply conf_step_refl.
Qed.

Lemma inv_set_oracle w ids : inv fts w -> inv fts (set_oracle w ids).
Proof. intros H. apply (inv_roots fts w); auto. Qed.

Lemma inv_set_stack w st : inv fts w -> inv fts (set_stack w st).
Proof. intros H. apply (inv_roots fts w); auto. Qed.

Lemma inv_gc w : inv fts w -> inv fts (gc true w).
Proof. intros H. eapply inv_moves; [exact H|apply moves_gc]. Qed.

Lemma inv_mk_palette w K pa copt nc w' cp :
  inv fts w -> pa <> PSynced -> mk_palette true w K pa copt nc = Ok (w', cp) -> inv fts w'.
Proof.
  intros Hi Hpa E. eapply inv_moves; [exact Hi|]. eapply moves_mk_palette; [apply Hi|exact Hpa|exact E].
Qed.

Lemma inv_step w o w' ts : inv fts w -> op_ok o -> step true fts w o = Ok (w', ts) -> inv fts w'.
Proof.
  intros Hi Hok. destruct o as [c nc init|c|c items|copt|obj copt nc pa mode ids|h K copt nc pa ids|h obj ids|h obj mode ids]; cbn [step].
  - intros [= <- _]. eapply inv_move; [exact Hi|].
    destruct (new_conf_ok nc init true Hok) as (A & B & _). apply MNewConf; assumption.
  - intros [= <- _]. apply inv_gc. eapply inv_move; [exact Hi|]. apply MConf. apply conf_step_fields. apply incl_refl.
  - intros [= <- _]. apply inv_gc. eapply inv_moves; [exact Hi|]. apply moves_add_items; [apply Hi|exact Hok].
  - destruct copt as [c|].
    + intros [= <- _]. apply inv_gc.
      assert (inv fts (set_global w (Some c))) as H1 by (apply (inv_roots fts w); auto).
      eapply inv_moves; [exact H1|]. apply moves_resync. apply Hi.
    + intros [= <- _]. apply inv_gc.
      assert (inv fts (put_conf w (w_nextc w) (dflt_conf false))) as H0.
      { eapply inv_move; [exact Hi|]. apply MNewConf; apply dflt_conf_ok. }
      remember (put_conf w (w_nextc w) (dflt_conf false)) as wa eqn:Ea. clear Ea.
      assert (inv fts (set_global (set_nextc wa (w_nextc w - 1)) (Some (w_nextc w)))) as H1 by (apply (inv_roots fts wa); auto).
      eapply inv_moves; [exact H1|]. apply moves_resync. apply H1.
  - pose proof (obj_ok_all obj) as Hobj. pose proof Hok as Hpa.
    pose proof (inv_set_oracle w ids Hi) as H0.
    destruct (mk_palette true (set_oracle w ids) (o_cls obj) pa copt nc) as [[w1 cp]|] eqn:E1; [|discriminate].
    cbn [bind]. pose proof (inv_mk_palette _ _ _ _ _ _ _ H0 Hpa E1) as H1.
    pose proof (inv_set_stack w1 [cp] H1) as H1'.
    destruct (consume true fts (set_stack w1 [cp]) cp obj mode) as [[w2 t2]|] eqn:E2; [|discriminate].
    cbn [bind fst snd]. intros [= <- _]. apply inv_gc. apply inv_set_stack.
    eapply inv_moves; [exact H1'|].
    apply (good_consume true fts _ _ _ _ _ _ (proj1 H1') (or_introl eq_refl) Hobj E2).
  - pose proof (inv_set_oracle w ids Hi) as H0.
    destruct (mk_palette true (set_oracle w ids) K pa copt nc) as [[w1 cp]|] eqn:E1; [|discriminate].
    cbn [bind fst snd]. intros [= <- _]. apply inv_gc.
    pose proof (inv_mk_palette _ _ _ _ _ _ _ H0 Hok E1) as H1.
    apply (inv_roots fts w1); auto.
  - destruct (zfind h (w_hcmds w)) as [cp|] eqn:Eh; [|discriminate].
    pose proof (inv_set_oracle w ids Hi) as H0.
    destruct (gen_lines true fts (set_oracle w ids) cp obj) as [[w1 ls]|] eqn:E1; [|discriminate]. cbn [bind fst snd].
    intros [= <- _]. apply inv_gc. eapply inv_moves; [exact H0|].
    apply (good_gen_lines true fts _ _ _ _ _ (proj1 H0)) with (3 := E1); [|apply obj_ok_all].
    unfold held. apply in_or_app. right. apply zfind_In in Eh. apply in_map_iff. exists (h, cp). auto.
  - destruct (zfind h (w_hcmds w)) as [cp|] eqn:Eh; [|discriminate].
    pose proof (inv_set_oracle w ids Hi) as H0.
    destruct (consume true fts (set_oracle w ids) cp obj mode) as [[w1 ts1]|] eqn:E1; [|discriminate]. cbn [bind fst snd].
    intros [= <- _]. apply inv_gc. eapply inv_moves; [exact H0|].
    apply (good_consume true fts _ _ _ _ _ _ (proj1 H0)) with (3 := E1); [|apply obj_ok_all].
    unfold held. apply in_or_app. right. apply zfind_In in Eh. apply in_map_iff. exists (h, cp). auto.
Qed.

Lemma inv_run ops : forall w w' outs,
  inv fts w -> Forall op_ok ops -> run_ops true fts w ops = Ok (w', outs) -> inv fts w'.
Proof.
  induction ops as [|o ops IH]; intros w w' outs Hi Hok; cbn [run_ops]; [intros [= <- _]; exact Hi|].
  inversion Hok as [|? ? Ho Hops]; subst.
  destruct (step true fts w o) as [[w1 t1]|] eqn:E1; [|discriminate]. cbn [bind fst snd].
  destruct (run_ops true fts w1 ops) as [[w2 t2]|] eqn:E2; [|discriminate]. cbn [bind fst snd].
  intros [= <- _]. eapply IH; [|exact Hops|exact E2]. eapply inv_step; eassumption.
Qed.

(* reachable worlds *)
Definition reachable (w : world) : Prop :=
  exists ops outs, Forall op_ok ops /\ run_ops true fts w0 ops = Ok (w, outs).

Lemma inv_reachable w : reachable w -> inv fts w.
Proof. intros (ops & outs & Hok & E). eapply inv_run; [apply inv_w0|exact Hok|exact E]. Qed.

End Run.
