(* C14/LemHist.v -- registration histories: add_new_items keeps the invariant and
   leaves the registry saturated; get_color and the palette cache against the spec. *)
From Coq Require Import ZArith List Bool Lia Permutation.
From AK Require Import Common.Err C14.Model C14.LemBase C14.LemSpec C14.LemLoop.
Import ListNotations.
Open Scope Z_scope.

Ltac splits := repeat match goal with |- _ /\ _ => split end.

(* ------------------------------------------------------------------ the set of descriptions *)
Notation batch := (list (str * str)).

(* first registration wins *)
Fixpoint union_add (S : dset) (items : batch) : dset :=
  match items with
  | [] => S
  | (id, init) :: r =>
      if has_key id S then union_add S r
      else match parse_init_str init with
           | Ok d => union_add (S ++ [(id, d)]) r
           | Err _ => union_add S r
           end
  end.

(* syntactically valid descriptions *)
Definition valid (items : batch) : Prop :=
  Forall (fun it => exists d, parse_init_str (snd it) = Ok d) items.

Lemma extends_refl S : extends S S.
Proof. intros id d H. exact H. Qed.

Lemma extends_trans S1 S2 S3 : extends S1 S2 -> extends S2 S3 -> extends S1 S3.
Proof. intros H1 H2 id d H. apply H2, H1, H. Qed.

Lemma extends_snoc S id d : has_key id S = false -> extends S (S ++ [(id, d)]).
Proof. intros Hk i d0 H. rewrite lookup_app, H. reflexivity. Qed.

Lemma extends_union_add items : forall S, extends S (union_add S items).
Proof.
  induction items as [|[id init] r IH]; intros S; cbn [union_add]; [apply extends_refl|].
  destruct (has_key id S) eqn:Hk; [apply IH|].
  destruct (parse_init_str init); [|apply IH].
  eapply extends_trans; [apply extends_snoc; exact Hk|apply IH].
Qed.

Lemma step_mono S1 S2 a b : extends S1 S2 -> step S1 a b -> step S2 a b.
Proof. intros E (d & L & P). exists d. split; [apply E; exact L|exact P]. Qed.

Lemma reach_mono S1 S2 a b : extends S1 S2 -> reach S1 a b -> reach S2 a b.
Proof.
  intros E. induction 1 as [a b H|a b c H1 H2 IH].
  - apply reach_one. eapply step_mono; eauto.
  - eapply reach_cons; [eapply step_mono; eauto|exact IH].
Qed.

Lemma acyclic_mono S1 S2 : extends S1 S2 -> acyclic S2 -> acyclic S1.
Proof. intros E H a R. apply (H a). eapply reach_mono; eauto. Qed.

Lemma entry_ok_mono nc S1 S2 id d e : extends S1 S2 -> entry_ok nc S1 id d e -> entry_ok nc S2 id d e.
Proof.
  intros E [Hp [H|(r & R & A)]]; split; auto.
  right. exists r. split; [eapply resolves_mono; eauto|exact A].
Qed.

(* ------------------------------------------------------------------ the registration loop *)
Definition keep (m m' : smap) : Prop := forall x e, lookup x m = Some e -> lookup x m' = Some e.

Lemma has_key_same {V W} k (m : list (str * V)) (m' : list (str * W)) :
  map fst m = map fst m' -> has_key k m = has_key k m'.
Proof.
  intros K. destruct (has_key k m') eqn:E.
  - apply has_key_In. rewrite K. apply has_key_In. exact E.
  - apply has_key_false. apply has_key_false in E. eapply lookup_same_keys; [symmetry; exact K|exact E].
Qed.

Lemma Inv_snoc nc S m id d e :
  Inv nc S m -> has_key id S = false -> entry_ok nc (S ++ [(id, d)]) id d e ->
  Inv nc (S ++ [(id, d)]) (m ++ [(id, e)]).
Proof.
  intros [K I] Hk Hok. split; [rewrite !map_app, K; reflexivity|].
  assert (has_key id m = false) as Hkm by (rewrite (has_key_same id m S K); exact Hk).
  apply has_key_false in Hk. apply has_key_false in Hkm.
  intros i d0 e0 L0 Lm. rewrite lookup_app in L0. rewrite lookup_app in Lm.
  destruct (lookup i S) as [d1|] eqn:L1.
  - injection L0 as <-.
    destruct (lookup i m) as [e1|] eqn:Lm1.
    + injection Lm as <-. eapply entry_ok_mono; [apply extends_snoc; apply has_key_false; exact Hk|].
      eapply I; eauto.
    + exfalso. assert (lookup i S = None) by (eapply lookup_same_keys; eauto). congruence.
  - destruct (lookup i m) as [e1|] eqn:Lm1.
    + exfalso. assert (lookup i m = None) by (eapply lookup_same_keys; [symmetry; exact K|exact L1]). congruence.
    + cbn [lookup] in L0, Lm. destruct (str_eqb i id) eqn:E; [|discriminate].
      apply str_eqb_eq in E. subst i. injection L0 as <-. injection Lm as <-. exact Hok.
Qed.

Lemma wfS_snoc S id d : wfS S -> wf_descr d -> wfS (S ++ [(id, d)]).
Proof.
  intros W Wd i d0 L. rewrite lookup_app in L. destruct (lookup i S) eqn:L1.
  - injection L as <-. eapply W; eauto.
  - cbn [lookup] in L. destruct (str_eqb i id); [|discriminate]. injection L as <-. exact Wd.
Qed.

Lemma new_entry_spec nc S id init d :
  parse_init_str init = Ok d -> has_key id S = false ->
  exists e, new_entry nc init = Ok e /\ entry_ok nc (S ++ [(id, d)]) id d e.
Proof.
  intros Hp Hk. unfold new_entry. rewrite Hp. cbn [bind].
  set (e0 := mk_entry init (d_parent d) (Some (d_fg d)) (Some (d_bg d)) (d_mods d) None).
  assert (pristine d e0) as P0 by (repeat split).
  destruct (d_parent d) as [p|] eqn:Ep.
  - exists e0. split; [reflexivity|]. split; [cbn; congruence|]. left. split; [exact P0|congruence].
  - destruct (resolve_entry_root nc d e0 (parse_init_str_wf _ _ Hp) P0 eq_refl) as (e' & Hr & Ha & Hpa & _).
    exists e'. split; [exact Hr|]. split; [rewrite Hpa; cbn; congruence|].
    right. exists (root_res d). split; [|exact Ha].
    apply R_root; [|exact Ep]. rewrite lookup_app. apply has_key_false in Hk. rewrite Hk.
    cbn [lookup]. rewrite str_eqb_refl. reflexivity.
Qed.

Lemma insert_spec nc : forall items S m,
  valid items -> wfS S -> Inv nc S m ->
  exists m', insert_items nc m items = Ok m' /\ Inv nc (union_add S items) m' /\
             wfS (union_add S items) /\ keep m m'.
Proof.
  induction items as [|[id init] r IH]; intros S m Hv W HI; cbn [insert_items union_add].
  - exists m. splits; auto. intros x e H. exact H.
  - inversion Hv as [|? ? [d Hd] Hv']; subst. cbn [snd] in Hd.
    rewrite (has_key_same id m S (proj1 HI)).
    destruct (has_key id S) eqn:Hk; [apply IH; assumption|].
    rewrite Hd. destruct (new_entry_spec nc S id init d Hd Hk) as (e & He & Hok).
    rewrite He. cbn [bind].
    destruct (IH (S ++ [(id, d)]) (m ++ [(id, e)]) Hv') as (m' & Hi & HI' & W' & Hkeep).
    + apply wfS_snoc; [exact W|eapply parse_init_str_wf; eauto].
    + apply Inv_snoc; assumption.
    + exists m'. splits; auto.
      intros x ex Lx. apply Hkeep. rewrite lookup_app, Lx. reflexivity.
Qed.

Lemma insert_nochange nc m : forall items,
  existsb (fun it => negb (has_key (fst it) m)) items = false -> insert_items nc m items = Ok m.
Proof.
  induction items as [|[id init] r IH]; cbn [insert_items existsb fst]; intros H; [reflexivity|].
  apply orb_false_elim in H as [H1 H2]. apply negb_false_iff in H1. rewrite H1. apply IH. exact H2.
Qed.

Lemma union_nochange S : forall items,
  existsb (fun it => negb (has_key (fst it) S)) items = false -> union_add S items = S.
Proof.
  induction items as [|[id init] r IH]; cbn [union_add existsb fst]; intros H; [reflexivity|].
  apply orb_false_elim in H as [H1 H2]. apply negb_false_iff in H1. rewrite H1. apply IH. exact H2.
Qed.

Lemma existsb_ext_keys {A} (f g : A -> bool) l : (forall x, f x = g x) -> existsb f l = existsb g l.
Proof. intros H. induction l as [|x r IH]; cbn [existsb]; [reflexivity|]. rewrite H, IH. reflexivity. Qed.

(* ------------------------------------------------------------------ get_color against the spec *)
(* what the statement demands of get_color(id): the formatter of id's resolved
   description (of the default syntax for an unknown id), no effects while the chain is
   incomplete *)
Definition spec_color (nc : bool) (S : dset) (id : str) (f : fmt) : Prop :=
  let t := if has_key id S then id else dflt_id in
  (exists r, resolves S t r /\ f = spec_fmt nc r) \/ (incomplete S t /\ f = []).

Lemma entry_color nc S m t : Inv nc S m -> saturated S m ->
  (exists r, resolves S t r /\ match lookup t m with Some e => match e_fmt e with Some f => f | None => [] end | None => [] end = spec_fmt nc r)
  \/ (incomplete S t /\ match lookup t m with Some e => match e_fmt e with Some f => f | None => [] end | None => [] end = []).
Proof.
  intros HI Hs. destruct (lookup t m) as [e|] eqn:Le.
  - destruct (e_fmt e) as [f|] eqn:Fe.
    + left. destruct (Inv_resolved nc S m t e HI Le) as (r & R & (_ & _ & _ & F)); [congruence|].
      exists r. split; [exact R|congruence].
    + right. split; [|reflexivity]. intros r R. destruct (Hs _ _ R) as (e2 & L2 & F2). congruence.
  - right. split; [|reflexivity]. intros r R.
    assert (exists d, lookup t S = Some d) as [d Ld] by (inversion R; eauto).
    destruct (Inv_lookup_m _ _ _ _ _ HI Ld) as [e Le']. congruence.
Qed.

Lemma get_color_spec nc S c id : c_nocolor c = nc -> Inv nc S (c_map c) -> saturated S (c_map c) ->
  spec_color nc S id (get_color c id).
Proof.
  intros _ HI Hs. unfold spec_color, get_color.
  rewrite <- (has_key_same id (c_map c) S (proj1 HI)). unfold has_key.
  destruct (lookup id (c_map c)) as [e|] eqn:Le.
  - pose proof (entry_color nc S (c_map c) id HI Hs) as H. rewrite Le in H. exact H.
  - pose proof (entry_color nc S (c_map c) dflt_id HI Hs) as H.
    destruct (lookup dflt_id (c_map c)); exact H.
Qed.

(* ------------------------------------------------------------------ add_new_items *)
Definition cache_ok (c : conf) : Prop :=
  forall snap, c_cache c = Some snap -> snap = map (get_color c) accessors.

Definition good (nc : bool) (S : dset) (c : conf) : Prop :=
  c_nocolor c = nc /\ wfS S /\ Inv nc S (c_map c) /\ saturated S (c_map c) /\ cache_ok c.

Lemma add_new_items_spec nc S c items :
  good nc S c -> valid items -> acyclic (union_add S items) ->
  exists c', add_new_items c items = Ok c' /\ good nc (union_add S items) c' /\ mono (c_map c) (c_map c').
Proof.
  intros (Hnc & W & HI & Hs & Hc) Hv Hac. unfold add_new_items.
  destruct items as [|it0 items0] eqn:Eit.
  { exists c. split; [reflexivity|]. split; [exact (conj Hnc (conj W (conj HI (conj Hs Hc))))|apply mono_refl]. }
  rewrite <- Eit in *. clear Eit it0 items0. rewrite Hnc.
  destruct (insert_spec nc items S (c_map c) Hv W HI) as (m1 & Hins & HI1 & W1 & Hkeep).
  rewrite Hins. cbn [bind].
  destruct (resolve_pending_spec nc _ m1 W1 Hac HI1) as (m2 & Hres & HI2 & Hs2 & Hm2 & Hsame).
  rewrite Hres. cbn [bind]. eexists. split; [reflexivity|]. split.
  - split; [reflexivity|]. split; [exact W1|]. split; [exact HI2|]. split; [exact Hs2|].
    intros snap. cbn [c_cache].
    destruct (existsb (fun it => negb (has_key (fst it) (c_map c))) items) eqn:Enew; [discriminate|].
    intros Hsnap.
    (* nothing new was registered: the registry is unchanged *)
    assert (m1 = c_map c) as E1.
    { rewrite (insert_nochange nc (c_map c) items Enew) in Hins. congruence. }
    assert (union_add S items = S) as E2.
    { apply union_nochange. rewrite <- Enew. apply existsb_ext_keys. intros it.
      rewrite (has_key_same (fst it) (c_map c) S (proj1 HI)). reflexivity. }
    assert (m2 = c_map c) as E3.
    { rewrite <- E1. apply Hsame. rewrite E1, E2. exact Hs. }
    rewrite (Hc snap Hsnap). apply map_ext. intros a. unfold get_color. cbn [c_map]. rewrite E3. reflexivity.
  - cbn [c_map]. intros x e Lx Fx. apply Hm2; [apply Hkeep; exact Lx|exact Fx].
Qed.

(* ------------------------------------------------------------------ histories *)
(* what can happen to a configuration object: a registration batch (the constructor is
   two of them: the explicit configuration, then BUILT_IN_CONFIG) or get_palette() *)
Inductive hop :=
| HReg (items : batch)
| HPal.

Fixpoint run_hops (c : conf) (h : list hop) : res conf :=
  match h with
  | [] => Ok c
  | HReg items :: r => bind (add_new_items c items) (fun c' => run_hops c' r)
  | HPal :: r => run_hops (fst (get_palette c)) r
  end.

Fixpoint union_hops (S : dset) (h : list hop) : dset :=
  match h with
  | [] => S
  | HReg items :: r => union_hops (union_add S items) r
  | HPal :: r => union_hops S r
  end.

Definition valid_hops (h : list hop) : Prop :=
  Forall (fun o => match o with HReg items => valid items | HPal => True end) h.

Definition conf0 (nc : bool) : conf := mk_conf nc [] None.

Lemma extends_union_hops h : forall S, extends S (union_hops S h).
Proof.
  induction h as [|[items|] r IH]; intros S; cbn [union_hops]; [apply extends_refl| |apply IH].
  eapply extends_trans; [apply extends_union_add|apply IH].
Qed.

Lemma get_palette_map c : c_map (fst (get_palette c)) = c_map c /\ c_nocolor (fst (get_palette c)) = c_nocolor c.
Proof. unfold get_palette. destruct (c_cache c); split; reflexivity. Qed.

Lemma get_color_map c c' id : c_map c = c_map c' -> get_color c id = get_color c' id.
Proof. intros E. unfold get_color. rewrite E. reflexivity. Qed.

Lemma get_palette_good nc S c : good nc S c -> good nc S (fst (get_palette c)).
Proof.
  intros (Hnc & W & HI & Hs & Hc). destruct (get_palette_map c) as [Em En].
  split; [congruence|]. split; [exact W|]. rewrite Em. split; [exact HI|]. split; [exact Hs|].
  unfold get_palette, cache_ok in *. destruct (c_cache c) as [snap0|] eqn:Ec; cbn [fst].
  - rewrite Ec. exact Hc.
  - cbn [c_cache]. intros snap Hsnap. assert (snap = map (get_color c) accessors) as -> by congruence.
    apply map_ext. intros a. apply get_color_map. reflexivity.
Qed.

Lemma get_palette_current nc S c : good nc S c -> snd (get_palette c) = map (get_color c) accessors.
Proof.
  intros (_ & _ & _ & _ & Hc). unfold get_palette. destruct (c_cache c) as [snap|] eqn:Ec; cbn [snd].
  - apply Hc. exact Ec.
  - reflexivity.
Qed.

Lemma hops_spec nc : forall h S c,
  good nc S c -> valid_hops h -> acyclic (union_hops S h) ->
  exists c', run_hops c h = Ok c' /\ good nc (union_hops S h) c' /\ mono (c_map c) (c_map c').
Proof.
  induction h as [|[items|] r IH]; intros S c Hg Hv Hac; cbn [run_hops union_hops] in *.
  - exists c. split; [reflexivity|]. split; [exact Hg|apply mono_refl].
  - inversion Hv as [|? ? Hv1 Hv2]; subst.
    destruct (add_new_items_spec nc S c items Hg Hv1) as (c1 & Ha & Hg1 & Hm1).
    { eapply acyclic_mono; [apply extends_union_hops|exact Hac]. }
    rewrite Ha. cbn [bind].
    destruct (IH _ c1 Hg1 Hv2 Hac) as (c' & Hr & Hg' & Hm').
    exists c'. split; [exact Hr|]. split; [exact Hg'|eapply mono_trans; eauto].
  - inversion Hv as [|? ? Hv1 Hv2]; subst.
    destruct (IH S _ (get_palette_good nc S c Hg) Hv2 Hac) as (c' & Hr & Hg' & Hm').
    exists c'. split; [exact Hr|]. split; [exact Hg'|].
    rewrite (proj1 (get_palette_map c)) in Hm'. exact Hm'.
Qed.

Lemma good0 nc : good nc [] (conf0 nc).
Proof.
  split; [reflexivity|]. split; [intros id d H; discriminate|]. split.
  - split; [reflexivity|]. intros id d e H. discriminate.
  - split.
    + intros id r R. inversion R; discriminate.
    + intros snap H. discriminate.
Qed.

Lemma run_hops_app h1 : forall c h2,
  run_hops c (h1 ++ h2) = bind (run_hops c h1) (fun c' => run_hops c' h2).
Proof.
  induction h1 as [|[items|] r IH]; intros c h2; cbn [app run_hops bind]; [reflexivity| |apply IH].
  destruct (add_new_items c items); cbn [bind]; [apply IH|reflexivity].
Qed.

Lemma union_hops_app h1 : forall S h2, union_hops S (h1 ++ h2) = union_hops (union_hops S h1) h2.
Proof. induction h1 as [|[items|] r IH]; intros S h2; cbn [app union_hops]; auto. Qed.

Lemma new_conf_hops nc init builtin :
  new_conf nc init builtin = run_hops (conf0 nc) [HReg (flatten init); HReg (flatten builtin)].
Proof.
  unfold new_conf, conf0. cbn [run_hops].
  destruct (add_new_items _ (flatten init)) as [c1|]; cbn [bind]; [|reflexivity].
  destruct (add_new_items c1 (flatten builtin)); reflexivity.
Qed.

(* ------------------------------------------------------------------ consequences *)
Lemma resolved_as_inj nc r1 r2 e : resolved_as nc r1 e -> resolved_as nc r2 e -> r1 = r2.
Proof.
  intros (A1 & A2 & A3 & _) (B1 & B2 & B3 & _). destruct r1, r2; cbn in *. congruence.
Qed.

Definition resolved_entry (nc : bool) (c : conf) (id : str) (r : rdescr) : Prop :=
  exists e, lookup id (c_map c) = Some e /\ e_fmt e = Some (spec_fmt nc r) /\
            e_fg e = r_fg r /\ e_bg e = r_bg r /\ e_mods e = r_mods r.

Lemma good_resolved_iff nc S c id r : good nc S c -> (resolves S id r <-> resolved_entry nc c id r).
Proof.
  intros (Hnc & W & HI & Hs & Hc). split.
  - intros R. destruct (Hs _ _ R) as (e & Le & Fe).
    destruct (Inv_resolved _ _ _ _ _ HI Le Fe) as (r' & R' & A).
    rewrite (resolves_fun _ _ _ R _ R'). destruct A as (A1 & A2 & A3 & A4).
    exists e. auto.
  - intros (e & Le & Fe & A1 & A2 & A3).
    destruct (Inv_resolved _ _ _ _ _ HI Le) as (r' & R' & A); [congruence|].
    assert (r = r') as ->; [|exact R'].
    eapply resolved_as_inj; [|exact A]. repeat split; assumption.
Qed.

Lemma good_unresolved nc S c id e :
  good nc S c -> incomplete S id -> lookup id (c_map c) = Some e -> e_fmt e = None.
Proof.
  intros (Hnc & W & HI & Hs & Hc) Hi Le. destruct (e_fmt e) eqn:Fe; [|reflexivity].
  destruct (Inv_resolved _ _ _ _ _ HI Le) as (r & R & _); [congruence|]. exfalso. exact (Hi _ R).
Qed.

Lemma spec_color_fun nc S1 S2 id f1 f2 :
  (forall i, lookup i S1 = lookup i S2) ->
  spec_color nc S1 id f1 -> spec_color nc S2 id f2 -> f1 = f2.
Proof.
  intros E. unfold spec_color, has_key. rewrite E.
  set (t := if match lookup id S2 with Some _ => true | None => false end then id else dflt_id).
  assert (extends S1 S2) as E12 by (intros i d H; rewrite <- E; exact H).
  assert (extends S2 S1) as E21 by (intros i d H; rewrite E; exact H).
  intros [(r1 & R1 & ->)|[I1 ->]] [(r2 & R2 & ->)|[I2 ->]].
  - rewrite (resolves_fun _ _ _ (resolves_mono _ _ _ _ E12 R1) _ R2). reflexivity.
  - exfalso. exact (I2 _ (resolves_mono _ _ _ _ E12 R1)).
  - exfalso. exact (I1 _ (resolves_mono _ _ _ _ E21 R2)).
  - reflexivity.
Qed.
