(* C01/Lemmas.v -- soundness of the parse loop (LLP/Parse.v) by a stack invariant.
   Every value collected on the stack is a finished, valid tree of the USER's
   grammar, except possibly the last child of a production that ends in a
   suffix symbol: that one is a "suffix node" whose children are the remainder
   of a user production (relation [expands]).  Completion splices it away. *)
From Coq Require Import ZArith List Bool Lia.
From AK Require Import Common.Err LLP.Base LLP.Parse C01.Basics C01.Spec.
Import ListNotations.
Local Open Scope nat_scope.

(* ---------------- the tree predicates, Forall form ---------------- *)
Lemma fold_and_Forall : forall A (P : A -> Prop) l,
  fold_right (fun c acc => P c /\ acc) True l <-> Forall P l.
Proof.
  induction l as [|x l IH]; cbn.
  - split; auto.
  - rewrite IH. split.
    + intros [H1 H2]. now constructor.
    + intros H. inversion H; subst. now split.
Qed.

Lemma valid_tree_node : forall ug n ch sp,
  valid_tree ug (Node n ch sp) <-> In (map tree_name ch) (uprods ug n) /\ Forall (valid_tree ug) ch.
Proof. intros. cbn [valid_tree]. now rewrite fold_and_Forall. Qed.

Lemma no_helper_node : forall sfxs n ch sp,
  no_helper sfxs (Node n ch sp) <-> mem n sfxs = false /\ Forall (no_helper sfxs) ch.
Proof. intros. cbn [no_helper]. now rewrite fold_and_Forall. Qed.

Lemma kinds_ok_node : forall it n ch sp,
  kinds_ok it (Node n ch sp) <-> it n = false /\ Forall (kinds_ok it) ch.
Proof. intros. cbn [kinds_ok]. now rewrite fold_and_Forall. Qed.

Lemma no_helper_name : forall sfxs t, no_helper sfxs t -> mem (tree_name t) sfxs = false.
Proof. intros sfxs [n v sp|n ch sp] H; cbn in *; tauto. Qed.

(* ---------------- expansion of suffix symbols, as a relation ---------------- *)
Section Expands.
  Variables (fg : grammar) (sfxs : list sym).

  (* [expands p e]: e is one of the productions that the factorized production p stands for *)
  Inductive expands : list sym -> list sym -> Prop :=
  | ex_nil : expands [] []
  | ex_plain : forall p, p <> [] -> mem (last p []) sfxs = false -> expands p p
  | ex_sfx : forall p r e, p <> [] -> mem (last p []) sfxs = true ->
      In r (grules fg (last p [])) -> expands (rprod r) e -> expands p (removelast p ++ e).
End Expands.

Section Sound.
  Variables (ug : ugrammar) (fg : grammar) (sfxs : list sym).
  Variable is_term : sym -> bool.
  Variable table : sym -> sym -> list rule.
  Variable toks : list token.
  Variable start : sym.

  (* what the proof needs of the factorization ... *)
  Hypothesis Hsound : forall X r e, mem X sfxs = false -> In r (grules fg X) ->
      expands fg sfxs (rprod r) e -> In e (uprods ug X).
  Hypothesis Hlast : forall X r, In r (grules fg X) -> only_last_sfx sfxs (rprod r) = true.
  (* ... of the symbol classes ... *)
  Hypothesis Hterm : forall s, mem s sfxs = true -> is_term s = false.
  Hypothesis Hstart : mem start sfxs = false.
  Hypothesis Hend : is_term END_TOKEN = true.
  (* ... and of the parse table: nothing but containment in the grammar *)
  Hypothesis Htbl : forall nt tok r, In r (table nt tok) -> In r (grules fg nt).

  Definition good (v : tree) : Prop := valid_tree ug v /\ no_helper sfxs v /\ kinds_ok is_term v.

  Definition sfx_node (v : tree) : Prop :=
    match v with
    | Leaf _ _ _ => False
    | Node g ch _ => mem g sfxs = true /\ Forall good ch /\
                     exists r, In r (grules fg g) /\ expands fg sfxs (rprod r) (map tree_name ch)
    end.

  Definition elem_ok (v : tree) : Prop := good v \/ sfx_node v.

  Record frame_ok (f : frame) : Prop := {
    fo_ne : falts f <> [];
    fo_names : map tree_name (fvals f) = firstn (length (fvals f)) (cur_prod f);
    fo_vals : Forall elem_ok (fvals f);
    fo_le : fstart f <= fcur f;
    fo_yield : flat_map leaves (fvals f) = map tok_pair (slice toks (fstart f) (fcur f)) }.

  Definition normal_frame (f : frame) : Prop :=
    is_term (fsym f) = false /\ forall r, In r (falts f) -> In r (grules fg (fsym f)).

  Definition init_rule : rule := mkRule INIT_SYM [start; END_TOKEN] (-1).

  Definition bottom_frame (f : frame) : Prop :=
    fsym f = INIT_SYM /\ fstart f = 0 /\ falts f = [init_rule].

  Fixpoint stack_ok (st : list frame) : Prop :=
    match st with
    | [] => False
    | f :: rest =>
        frame_ok f /\
        match rest with
        | [] => bottom_frame f
        | g :: _ => normal_frame f /\ fstart f = fcur g /\
                    nth_error (cur_prod g) (length (fvals g)) = Some (fsym f) /\
                    stack_ok rest
        end
    end.

  (* ---------- elementary facts ---------- *)
  Lemma sfx_not_good : forall v, mem (tree_name v) sfxs = true -> elem_ok v -> sfx_node v.
  Proof.
    intros v H [[_ [Hn _]]|Hs]; [|assumption].
    apply no_helper_name in Hn. congruence.
  Qed.

  Lemma nonsfx_good : forall v, mem (tree_name v) sfxs = false -> elem_ok v -> good v.
  Proof.
    intros v H [Hg|Hs]; [assumption|].
    destruct v as [n x sp|n ch sp]; cbn in *; [contradiction|]. destruct Hs as [Hs _]. congruence.
  Qed.

  Lemma sfx_node_leaves : forall v, sfx_node v -> leaves v = flat_map leaves (tree_children v).
  Proof. intros [n x sp|n ch sp] H; cbn in *; [contradiction|reflexivity]. Qed.

  Lemma fo_len : forall f, frame_ok f -> length (fvals f) <= length (cur_prod f).
  Proof.
    intros f H. pose proof (fo_names f H) as E. apply (f_equal (@length _)) in E.
    rewrite map_length, firstn_length in E. lia.
  Qed.

  Lemma mk_node_shape : forall f, exists sp, mk_node toks f = Node (fsym f) (fvals f) sp.
  Proof.
    intros f. unfold mk_node. destruct (fvals f) as [|v0 vs] eqn:E.
    - eexists. reflexivity.
    - destruct (Nat.ltb (fstart f) (fcur f)); eexists; reflexivity.
  Qed.

  Lemma only_last_sfx_removelast : forall p s, only_last_sfx sfxs p = true -> In s (removelast p) -> mem s sfxs = false.
  Proof.
    intros p s H Hs. unfold only_last_sfx in H. rewrite forallb_forall in H.
    apply H in Hs. now apply negb_true_iff in Hs.
  Qed.

  (* children whose names are not suffix symbols are finished trees *)
  Lemma elems_good : forall vs, Forall elem_ok vs ->
    (forall s, In s (map tree_name vs) -> mem s sfxs = false) -> Forall good vs.
  Proof.
    intros vs H Hn. rewrite Forall_forall in *. intros v Hv.
    apply nonsfx_good; [|now apply H]. apply Hn. now apply in_map.
  Qed.

  (* ---------- completion of a production: splice ---------- *)
  (* the children of the completed (and spliced) element: finished trees whose
     names are an expansion of the production, with the same leaves *)
  Lemma splice_children : forall X p vs sp,
    only_last_sfx sfxs p = true -> Forall elem_ok vs -> map tree_name vs = p ->
    exists ch, splice sfxs p (Node X vs sp) = Node X ch sp /\ Forall good ch /\
               expands fg sfxs p (map tree_name ch) /\ flat_map leaves ch = flat_map leaves vs.
  Proof.
    intros X p vs sp Hl0 Hv Hn. unfold splice.
    pose proof (only_last_sfx_removelast p) as Hl. specialize (fun s => Hl s Hl0). clear Hl0.
    destruct p as [|s0 p0] eqn:Ep.
    - destruct vs; [|discriminate]. exists []. repeat split; constructor.
    - rewrite <- Ep in *. assert (Hne : p <> []) by (rewrite Ep; discriminate).
      clear Ep s0 p0.
      destruct (mem (last p []) sfxs) eqn:Em.
      + (* trailing suffix symbol: vs = vs0 ++ [vl], vl a suffix node *)
        destruct (snoc_cases _ p) as [->|[p' [g ->]]]; [contradiction|].
        apply map_snoc_inv in Hn as [vs0 [vl [-> [Hn0 Hg]]]].
        rewrite last_snoc in Em. rewrite removelast_snoc in Hl.
        apply Forall_app in Hv as [Hv0 Hvl]. apply Forall_inv in Hvl.
        assert (Hs : sfx_node vl) by (apply sfx_not_good; [rewrite Hg|]; assumption).
        assert (Hg0 : Forall good vs0).
        { apply elems_good; [assumption|]. intros s Hs'. rewrite Hn0 in Hs'.
          now apply Hl. }
        rewrite removelast_snoc, last_snoc.
        exists (vs0 ++ tree_children vl). split; [reflexivity|].
        destruct vl as [n x sp'|n ch sp']; cbn in Hs; [contradiction|].
        destruct Hs as [_ [Hch [r [Hr He]]]]. cbn [tree_children tree_name] in *. subst g p'.
        split; [|split].
        * apply Forall_app. now split.
        * rewrite map_app.
          pose proof (ex_sfx fg sfxs (map tree_name vs0 ++ [n]) r (map tree_name ch)) as E.
          rewrite last_snoc, removelast_snoc in E. apply E; assumption.
        * rewrite !flat_map_app. cbn [flat_map leaves]. now rewrite app_nil_r.
      + (* no suffix symbol at all *)
        exists vs. split; [reflexivity|]. split; [|split; [|reflexivity]].
        * apply elems_good; [assumption|]. intros s Hs. rewrite Hn in Hs.
          destruct (snoc_cases _ p) as [->|[p' [g ->]]]; [contradiction|].
          rewrite last_snoc in Em. rewrite removelast_snoc in Hl.
          apply in_app_or in Hs as [Hs|[<-|[]]]; [|assumption].
          now apply Hl.
        * rewrite Hn. now apply ex_plain.
  Qed.

  (* the element built for symbol X from such children *)
  Lemma node_elem_ok : forall X r ch sp,
    is_term X = false -> In r (grules fg X) -> Forall good ch ->
    expands fg sfxs (rprod r) (map tree_name ch) -> elem_ok (Node X ch sp).
  Proof.
    intros X r ch sp Ht Hr Hch He. destruct (mem X sfxs) eqn:Em.
    - right. cbn. split; [assumption|]. split; [assumption|]. now exists r.
    - left. unfold good. rewrite valid_tree_node, no_helper_node, kinds_ok_node.
      rewrite Forall_forall in Hch. repeat split; try assumption.
      + eapply Hsound; eassumption.
      + rewrite Forall_forall. intros v Hv. now apply Hch.
      + rewrite Forall_forall. intros v Hv. now apply Hch.
      + rewrite Forall_forall. intros v Hv. now apply Hch.
  Qed.

  Lemma complete_frame : forall f cur more,
    frame_ok f -> falts f = cur :: more -> length (fvals f) = length (rprod cur) ->
    only_last_sfx sfxs (rprod cur) = true ->
    exists ch sp, splice sfxs (rprod cur) (mk_node toks f) = Node (fsym f) ch sp /\ Forall good ch /\
                  expands fg sfxs (rprod cur) (map tree_name ch) /\
                  flat_map leaves ch = flat_map leaves (fvals f).
  Proof.
    intros f cur more Hf Ea El Hl.
    destruct (mk_node_shape f) as [sp ->].
    pose proof (fo_names f Hf) as Hn. unfold cur_prod in Hn. rewrite Ea, El, firstn_all in Hn.
    destruct (splice_children (fsym f) (rprod cur) (fvals f) sp Hl (fo_vals f Hf) Hn) as [ch [E [H1 [H2 H3]]]].
    now exists ch, sp.
  Qed.

  (* ---------- roll-back ---------- *)
  Lemma rollback_ok : forall st st', stack_ok st -> rollback st = Some st' -> stack_ok st'.
  Proof.
    induction st as [|f rest IH]; intros st' Hs Hr; [discriminate|].
    cbn [rollback] in Hr. cbn [stack_ok] in Hs. destruct Hs as [Hf Hrest].
    destruct (falts f) as [|r1 [|r2 more]] eqn:Ea.
    - destruct rest as [|g rest']; [discriminate|]. apply IH; [|assumption]. tauto.
    - destruct rest as [|g rest']; [discriminate|]. apply IH; [|assumption]. tauto.
    - injection Hr as <-. cbn [stack_ok]. split.
      + constructor; cbn [falts fvals fstart fcur].
        * discriminate.
        * reflexivity.
        * constructor.
        * lia.
        * now rewrite slice_nil.
      + destruct rest as [|g rest'].
        * destruct Hrest as [_ [_ Hb]]. congruence.
        * destruct Hrest as [[Ht Hn] [Hst [Hnth Hrest]]]. cbn [fsym fstart falts]. split; [|tauto].
          split; [assumption|]. intros r Hr. apply Hn. rewrite Ea. now right.
  Qed.

  (* ---------- one step ---------- *)
  Lemma next_matched_ok : forall f v newpos s,
    frame_ok f -> nth_error (cur_prod f) (length (fvals f)) = Some s -> tree_name v = s ->
    elem_ok v -> fcur f <= newpos ->
    leaves v = map tok_pair (slice toks (fcur f) newpos) ->
    frame_ok (next_matched f v newpos).
  Proof.
    intros f v newpos s Hf Hnth Hname Hv Hle Hy.
    constructor; cbn [next_matched falts fvals fstart fcur].
    - apply (fo_ne f Hf).
    - replace (cur_prod (next_matched f v newpos)) with (cur_prod f) by reflexivity.
      rewrite map_app, app_length. cbn [map length]. rewrite Nat.add_1_r.
      rewrite (firstn_snoc_nth _ _ _ _ Hnth), (fo_names f Hf), Hname. reflexivity.
    - apply Forall_app. split; [apply (fo_vals f Hf)|]. now constructor.
    - pose proof (fo_le f Hf). lia.
    - rewrite flat_map_app. cbn [flat_map]. rewrite app_nil_r, (fo_yield f Hf), Hy, <- map_app.
      f_equal. apply slice_app; [apply (fo_le f Hf)|assumption].
  Qed.

  Lemma stack_ok_replace_top : forall f f' rest,
    stack_ok (f :: rest) -> frame_ok f' ->
    fsym f' = fsym f -> fstart f' = fstart f -> falts f' = falts f ->
    stack_ok (f' :: rest).
  Proof.
    intros f f' rest Hs Hf' E1 E2 E3. cbn [stack_ok] in *. destruct Hs as [_ Hs]. split; [assumption|].
    destruct rest as [|g rest'].
    - unfold bottom_frame in *. now rewrite E1, E2, E3.
    - unfold normal_frame in *. now rewrite E1, E2, E3.
  Qed.

  Lemma step_ok : forall st st', stack_ok st -> step is_term table sfxs toks st = Running st' -> stack_ok st'.
  Proof.
    intros st st' Hs Hstep. destruct st as [|top rest]; [discriminate|].
    cbn [step] in Hstep. destruct (falts top) as [|cur more] eqn:Ea; [discriminate|].
    pose proof Hs as Hs0. cbn [stack_ok] in Hs. destruct Hs as [Hf Hrest].
    destruct (Nat.eqb (length (fvals top)) (length (rprod cur))) eqn:El.
    - (* production matched *)
      apply Nat.eqb_eq in El.
      destruct rest as [|par rest'].
      + destruct (tree_children _) as [|? [|? [|? ?]]]; discriminate.
      + injection Hstep as <-.
        destruct Hrest as [[Ht Hn] [Hst [Hnth Hrest]]].
        assert (Hr : In cur (grules fg (fsym top))) by (apply Hn; rewrite Ea; now left).
        destruct (complete_frame top cur more Hf Ea El (Hlast _ _ Hr)) as [ch [sp [E [Hch [He Hy]]]]].
        rewrite E.
        assert (Hpar : frame_ok par) by (destruct rest'; cbn [stack_ok] in Hrest; tauto).
        apply stack_ok_replace_top with (f := par); try reflexivity; [assumption|].
        apply next_matched_ok with (s := fsym top); try assumption.
        * reflexivity.
        * eapply node_elem_ok; eassumption.
        * rewrite <- Hst. apply (fo_le top Hf).
        * cbn [leaves]. rewrite Hy, (fo_yield top Hf), Hst. reflexivity.
    - destruct (nth_error toks (fcur top)) as [tk|] eqn:Etk; [|discriminate].
      destruct (nth_error (rprod cur) (length (fvals top))) as [cs|] eqn:Ecs; [|discriminate].
      assert (Hcs : nth_error (cur_prod top) (length (fvals top)) = Some cs)
        by (unfold cur_prod; now rewrite Ea).
      destruct (is_term cs) eqn:Eterm.
      + destruct (sym_eqb (tname tk) cs) eqn:Enm.
        * (* terminal matched *)
          injection Hstep as <-. apply sym_eqb_eq in Enm.
          apply stack_ok_replace_top with (f := top); try reflexivity; [assumption|].
          apply next_matched_ok with (s := cs); try assumption.
          -- reflexivity.
          -- left. unfold good. cbn. repeat split; [|assumption].
             destruct (mem cs sfxs) eqn:Em; [|reflexivity]. apply Hterm in Em. congruence.
          -- lia.
          -- cbn [leaves]. rewrite (slice_snoc _ toks (fcur top) (fcur top) tk) by (try lia; assumption).
             rewrite slice_nil. cbn. unfold tok_pair. now rewrite Enm.
        * destruct (rollback (top :: rest)) as [st1|] eqn:Er; [|discriminate].
          injection Hstep as <-. eapply rollback_ok; eassumption.
      + destruct (table cs (tname tk)) as [|r0 rs] eqn:Etab.
        * destruct (rollback (top :: rest)) as [st1|] eqn:Er; [|discriminate].
          injection Hstep as <-. eapply rollback_ok; eassumption.
        * (* expansion *)
          injection Hstep as <-. cbn [stack_ok]. split; [|split; [|split; [|split]]].
          -- constructor; cbn [falts fvals fstart fcur].
             ++ discriminate.
             ++ reflexivity.
             ++ constructor.
             ++ lia.
             ++ now rewrite slice_nil.
          -- split; cbn [fsym falts]; [assumption|]. intros r Hr. apply (Htbl cs (tname tk)). now rewrite Etab.
          -- reflexivity.
          -- cbn [fsym]. assumption.
          -- assumption.
  Qed.

  (* ---------- the result ---------- *)
  (* what a finished parse returns *)
  Definition result_ok (t : tree) : Prop :=
    tree_name t = start /\ good t /\
    exists n tk, nth_error toks n = Some tk /\ tname tk = END_TOKEN /\
                 leaves t = map tok_pair (firstn n toks).

  Lemma end_not_sfx : mem END_TOKEN sfxs = false.
  Proof. destruct (mem END_TOKEN sfxs) eqn:E; [|reflexivity]. apply Hterm in E. congruence. Qed.

  Lemma step_done : forall st t, stack_ok st -> step is_term table sfxs toks st = Done t -> result_ok t.
  Proof.
    intros st t Hs Hstep. destruct st as [|top rest]; [discriminate|].
    cbn [step] in Hstep. destruct (falts top) as [|cur more] eqn:Ea; [discriminate|].
    cbn [stack_ok] in Hs. destruct Hs as [Hf Hrest].
    destruct (Nat.eqb (length (fvals top)) (length (rprod cur))) eqn:El.
    2:{ destruct (nth_error toks (fcur top)); [|discriminate].
        destruct (nth_error (rprod cur) (length (fvals top))); [|discriminate].
        destruct (is_term l).
        - destruct (sym_eqb (tname t0) l); [discriminate|]. destruct (rollback (top :: rest)); discriminate.
        - destruct (table l (tname t0)); [|discriminate]. destruct (rollback (top :: rest)); discriminate. }
    apply Nat.eqb_eq in El.
    destruct rest as [|par rest']; [|discriminate].
    destruct Hrest as [Hsym [Hst0 Halts]]. rewrite Ea in Halts. injection Halts as -> ->.
    cbn [init_rule rprod] in *.
    pose proof (fo_names top Hf) as Hn. unfold cur_prod in Hn. rewrite Ea, El in Hn. cbn [rprod init_rule length firstn] in Hn.
    destruct (mk_node_shape top) as [sp E]. rewrite E in Hstep.
    unfold splice in Hstep. cbn [last] in Hstep. rewrite end_not_sfx in Hstep. cbn [tree_children] in Hstep.
    destruct (fvals top) as [|root [|e [|? ?]]] eqn:Ev; try discriminate.
    injection Hstep as <-. cbn [map] in Hn. injection Hn as Hn1 Hn2.
    pose proof (fo_vals top Hf) as Hv. rewrite Ev in Hv.
    inversion Hv as [|? ? Hroot Hv']; subst. inversion Hv' as [|? ? He _]; subst.
    apply nonsfx_good in Hroot; [|now rewrite Hn1].
    apply nonsfx_good in He; [|rewrite Hn2; apply end_not_sfx].
    split; [assumption|]. split; [assumption|].
    pose proof (fo_yield top Hf) as Hy. rewrite Ev, Hst0, slice_0 in Hy. cbn [flat_map] in Hy. rewrite app_nil_r in Hy.
    destruct e as [en ev esp|en ech esp].
    2:{ destruct He as [_ [_ Hk]]. cbn in Hk, Hn2. destruct Hk as [Hk _]. rewrite Hn2 in Hk. congruence. }
    cbn [leaves tree_name] in *.
    symmetry in Hy. apply map_snoc_inv in Hy as [l0 [tk [Hl [Hm Hp]]]].
    exists (length l0), tk.
    assert (Hfn : firstn (length l0) toks = l0 /\ nth_error toks (length l0) = Some tk).
    { rewrite <- (firstn_skipn (fcur top) toks) at 1 2. rewrite Hl. split.
      - rewrite <- app_assoc, firstn_app, firstn_all, Nat.sub_diag. cbn. now rewrite app_nil_r.
      - rewrite <- app_assoc, nth_error_app2 by lia. now rewrite Nat.sub_diag. }
    destruct Hfn as [Hfn Hnth]. split; [assumption|]. split.
    - unfold tok_pair in Hp. injection Hp as Hp _. now rewrite Hp.
    - now rewrite Hfn.
  Qed.

  Lemma run_pow_ok : forall k st st', stack_ok st ->
    run_pow is_term table sfxs toks k st = Running st' -> stack_ok st'.
  Proof.
    induction k as [|k IH]; intros st st' Hs Hr; cbn [run_pow] in Hr.
    - eapply step_ok; eassumption.
    - destruct (run_pow is_term table sfxs toks k st) as [st1| | |] eqn:E; try discriminate.
      eapply IH; [|eassumption]. eapply IH; eassumption.
  Qed.

  Lemma run_pow_done : forall k st t, stack_ok st ->
    run_pow is_term table sfxs toks k st = Done t -> result_ok t.
  Proof.
    induction k as [|k IH]; intros st t Hs Hr; cbn [run_pow] in Hr.
    - eapply step_done; eassumption.
    - destruct (run_pow is_term table sfxs toks k st) as [st1|t1| |] eqn:E; try discriminate.
      + eapply IH; [|eassumption]. eapply run_pow_ok; eassumption.
      + injection Hr as <-. eapply IH; eassumption.
  Qed.

  Lemma init_stack_ok : stack_ok (init_stack start).
  Proof.
    unfold init_stack. cbn [stack_ok]. split.
    - constructor; cbn [falts fvals fstart fcur].
      + discriminate.
      + reflexivity.
      + constructor.
      + lia.
      + now rewrite slice_nil.
    - repeat split.
  Qed.

  Lemma parse_result_ok : forall k t, parse is_term table sfxs toks k start = Ok t -> result_ok t.
  Proof.
    intros k t H. unfold parse in H.
    destruct (run_pow is_term table sfxs toks k (init_stack start)) as [st1|t1| |] eqn:E; try discriminate.
    injection H as <-. eapply run_pow_done; [apply init_stack_ok|eassumption].
  Qed.
End Sound.
