(* C19/Lemmas.v -- declarations: closed form of the eager registration, the
   invariant "dependents = transitive descendants", exact failure condition. *)
From Coq Require Import ZArith List Bool Lia.
From AK Require Import gen.C19_Consts C19.Model.
Import ListNotations.
Open Scope Z_scope.

(* ------------------------------------------------------------------ *)
(* obligations on the source shape read by gen_consts                   *)

Lemma reg_idempotent_true : reg_idempotent = true.
Proof. reflexivity. Qed.

(* ------------------------------------------------------------------ *)
(* strings, membership, lookup                                          *)

Lemma str_eqb_spec a b : reflect (a = b) (str_eqb a b).
Proof.
  revert b. induction a as [|x a IH]; intros [|y b]; cbn [str_eqb]; try (constructor; congruence).
  destruct (Z.eqb_spec x y) as [->|N]; cbn [andb].
  - destruct (IH b) as [->|N]; constructor; congruence.
  - constructor; congruence.
Qed.

Lemma str_eqb_refl a : str_eqb a a = true.
Proof. destruct (str_eqb_spec a a); congruence. Qed.

Lemma str_eqb_eq a b : str_eqb a b = true <-> a = b.
Proof. destruct (str_eqb_spec a b); split; congruence. Qed.

Lemma str_eqb_neq a b : str_eqb a b = false <-> a <> b.
Proof. destruct (str_eqb_spec a b); split; congruence. Qed.

Lemma str_eq_dec (a b : str) : {a = b} + {a <> b}.
Proof. destruct (str_eqb_spec a b); [left|right]; assumption. Qed.

Lemma mem_In x l : mem x l = true <-> In x l.
Proof.
  unfold mem. rewrite existsb_exists. split.
  - intros (y & Hy & E). apply str_eqb_eq in E. subst. exact Hy.
  - intros H. exists x. split; [exact H|apply str_eqb_refl].
Qed.

Lemma mem_false x l : mem x l = false <-> ~ In x l.
Proof. rewrite <- mem_In. destruct (mem x l); split; congruence. Qed.

Lemma mem_app x a b : mem x (a ++ b) = mem x a || mem x b.
Proof. unfold mem. apply existsb_app. Qed.

Lemma lookup_none {A} k (l : list (str * A)) : lookup k l = None <-> ~ In k (map fst l).
Proof.
  induction l as [|[k' v] r IH]; cbn [lookup map fst In]; [tauto|].
  destruct (str_eqb_spec k k') as [->|N].
  - split; [discriminate|]. intros H. exfalso. apply H. left. reflexivity.
  - rewrite IH. split; [intros H [E|I]; [congruence|tauto]|tauto].
Qed.

Lemma lookup_some_in {A} k (l : list (str * A)) v : lookup k l = Some v -> In (k, v) l.
Proof.
  induction l as [|[k' v'] r IH]; cbn [lookup In]; [discriminate|].
  destruct (str_eqb_spec k k') as [->|N].
  - intros [= ->]. left. reflexivity.
  - intros H. right. apply IH. exact H.
Qed.

Lemma lookup_in_some {A} k (l : list (str * A)) : In k (map fst l) -> exists v, lookup k l = Some v.
Proof.
  intros H. destruct (lookup k l) eqn:E; [eauto|]. apply lookup_none in E. contradiction.
Qed.

Lemma lookup_app_none {A} k (l : list (str * A)) v :
  lookup k l = None -> lookup k (l ++ [(k, v)]) = Some v.
Proof.
  induction l as [|[k' v'] r IH]; cbn [lookup app].
  - rewrite str_eqb_refl. reflexivity.
  - destruct (str_eqb k k'); [discriminate|]. exact IH.
Qed.

(* ------------------------------------------------------------------ *)
(* st_mapM with functions that do not fail                              *)

Lemma map_fst_snd {A B} (l : list (A * B)) : map (fun e => (fst e, snd e)) l = l.
Proof. induction l as [|[a b] r IH]; cbn; [reflexivity|]. rewrite IH. reflexivity. Qed.

Lemma st_mapM_map f (h g : str * parser -> parser) (st : state) :
  (forall e, In e st -> f (fst e) (h e) = Ret (g e)) ->
  st_mapM f (map (fun e => (fst e, h e)) st) = Ret (map (fun e => (fst e, g e)) st).
Proof.
  induction st as [|e r IH]; intros H; cbn [map st_mapM]; [reflexivity|].
  rewrite (H e) by (left; reflexivity).
  rewrite IH by (intros e' He'; apply H; right; exact He'). reflexivity.
Qed.

Lemma st_mapM_pure f (g : str * parser -> parser) (st : state) :
  (forall e, In e st -> f (fst e) (snd e) = Ret (g e)) ->
  st_mapM f st = Ret (map (fun e => (fst e, g e)) st).
Proof.
  intros H. rewrite <- (map_fst_snd st) at 1. apply (st_mapM_map f snd g). exact H.
Qed.

(* an exception of st_mapM is an exception of the function *)
Lemma st_mapM_raise f (st : state) x :
  st_mapM f st = Raise x -> exists e, In e st /\ exists pa, f (fst e) pa = Raise x.
Proof.
  induction st as [|[q pa] r IH]; cbn [st_mapM]; [discriminate|].
  destruct (f q pa) eqn:E.
  - destruct (st_mapM f r) eqn:E2; [discriminate|]. intros [= ->].
    destruct (IH eq_refl) as (e & He & R). exists e. split; [right; exact He|exact R].
  - intros [= ->]. exists (q, pa). split; [left; reflexivity|]. exists pa. exact E.
Qed.

(* ------------------------------------------------------------------ *)
(* closed form of the registration loops                                *)

Definition add_dep (name : str) (id : nat) (b : bool) (pa : parser) : parser :=
  if b then set_deps pa (p_deps pa ++ [(name, id)]) else pa.

(* the new parser is registered in [q] when one of the parents [ps] is [q]
   itself or one of [q]'s dependents *)
Definition reaches (ps : list str) (q : str) (pa : parser) : bool :=
  existsb (fun p => str_eqb q p || mem p (dep_names pa)) ps.

Lemma dep_names_add_dep name id b pa :
  dep_names (add_dep name id b pa) = dep_names pa ++ (if b then [name] else []).
Proof.
  unfold add_dep, dep_names. destruct b; cbn; [|rewrite app_nil_r; reflexivity].
  rewrite map_app. reflexivity.
Qed.

Lemma add_dep_fields name id b pa :
  p_id (add_dep name id b pa) = p_id pa /\ p_internal (add_dep name id b pa) = p_internal pa /\
  p_flags (add_dep name id b pa) = p_flags pa /\ p_poss (add_dep name id b pa) = p_poss pa /\
  p_vals (add_dep name id b pa) = p_vals pa.
Proof. destruct b; cbn; auto. Qed.

Lemma register_add_dep name id b pa :
  ~ In name (dep_names pa) ->
  register name id (add_dep name id b pa) = Ret (add_dep name id true pa).
Proof.
  intros H. apply lookup_none in H. unfold register. destruct b; cbn [add_dep].
  - cbn [set_deps p_deps]. rewrite (lookup_app_none _ _ _ H), reg_idempotent_true, Nat.eqb_refl. reflexivity.
  - rewrite H. reflexivity.
Qed.

Lemma mem_dep_names_add_dep p name id b pa :
  p <> name -> mem p (dep_names (add_dep name id b pa)) = mem p (dep_names pa).
Proof.
  intros N. rewrite dep_names_add_dep, mem_app. destruct b; cbn; [|apply orb_false_r].
  apply str_eqb_neq in N. rewrite N. cbn. apply orb_false_r.
Qed.

Lemma reg_parent_closed name id (st : state) (R : str * parser -> bool) p :
  (forall e, In e st -> ~ In name (dep_names (snd e))) -> p <> name ->
  reg_parent name id (map (fun e => (fst e, add_dep name id (R e) (snd e))) st) p =
  Ret (map (fun e => (fst e, add_dep name id (R e || (str_eqb (fst e) p || mem p (dep_names (snd e)))) (snd e))) st).
Proof.
  intros Hn Hp. unfold reg_parent.
  rewrite (st_mapM_map _ _ (fun e => add_dep name id (R e || str_eqb (fst e) p) (snd e))).
  - cbn [bind'].
    apply (st_mapM_map _ (fun e => add_dep name id (R e || str_eqb (fst e) p) (snd e))).
    intros e He. rewrite mem_dep_names_add_dep by exact Hp.
    destruct (mem p (dep_names (snd e))).
    + rewrite register_add_dep by (apply Hn; exact He). rewrite !orb_true_r. reflexivity.
    + rewrite !orb_false_r. reflexivity.
  - intros e He. destruct (str_eqb (fst e) p).
    + rewrite register_add_dep by (apply Hn; exact He). rewrite orb_true_r. reflexivity.
    + rewrite orb_false_r. reflexivity.
Qed.

Lemma reg_parents_closed name id (st : state) :
  (forall e, In e st -> ~ In name (dep_names (snd e))) ->
  forall ps done, ~ In name ps ->
  foldM (reg_parent name id) ps
        (map (fun e => (fst e, add_dep name id (reaches done (fst e) (snd e)) (snd e))) st) =
  Ret (map (fun e => (fst e, add_dep name id (reaches (done ++ ps) (fst e) (snd e)) (snd e))) st).
Proof.
  intros Hn. induction ps as [|p ps IH]; intros done Hps; cbn [foldM].
  - rewrite app_nil_r. reflexivity.
  - rewrite (reg_parent_closed name id st (fun e => reaches done (fst e) (snd e)) p Hn)
      by (intros E; apply Hps; left; exact E).
    cbn [bind'].
    replace (map (fun e => (fst e, add_dep name id
               (reaches done (fst e) (snd e) || (str_eqb (fst e) p || mem p (dep_names (snd e)))) (snd e))) st)
      with (map (fun e => (fst e, add_dep name id (reaches (done ++ [p]) (fst e) (snd e)) (snd e))) st).
    + rewrite IH by (intros E; apply Hps; right; exact E). rewrite <- app_assoc. reflexivity.
    + apply map_ext. intros e. unfold reaches. rewrite existsb_app. cbn [existsb].
      rewrite orb_false_r. reflexivity.
Qed.

Lemma forallb_mem_incl ps l : forallb (fun p => mem p l) ps = true <-> incl ps l.
Proof.
  rewrite forallb_forall. unfold incl. split; intros H p Hp; [apply mem_In|apply mem_In]; auto.
Qed.

Definition declared (st : state) (d : decl) : state :=
  map (fun e => (fst e, add_dep (d_name d) (length st) (reaches (d_parents d) (fst e) (snd e)) (snd e))) st
  ++ [(d_name d, mkP (length st) (d_internal d) [] [] [] [])].

Definition declarable (st : state) (d : decl) : Prop :=
  d_name d <> [] /\ ~ In (d_name d) (keys st) /\ incl (d_parents d) (keys st).

Lemma declare_ok (st : state) d :
  (forall e, In e st -> incl (dep_names (snd e)) (keys st)) ->
  declarable st d -> declare st d = Ret (declared st d).
Proof.
  intros Hdeps (Hne & Hfresh & Hpar). unfold declare.
  destruct (d_name d) as [|c0 n0] eqn:En; [congruence|]. cbn [is_nil]. rewrite <- En in *.
  apply mem_false in Hfresh. rewrite Hfresh.
  apply forallb_mem_incl in Hpar. rewrite Hpar. cbn [negb].
  apply mem_false in Hfresh. apply forallb_mem_incl in Hpar.
  pose proof (reg_parents_closed (d_name d) (length st) st) as C.
  specialize (C ltac:(intros e He I; apply Hfresh; apply (Hdeps e He); exact I) (d_parents d) []
                ltac:(intros I; apply Hfresh; apply Hpar; exact I)).
  cbn [app reaches existsb] in C.
  replace (map (fun e => (fst e, add_dep (d_name d) (length st) false (snd e))) st) with st in C
    by (symmetry; apply map_fst_snd).
  rewrite C. reflexivity.
Qed.

Lemma declare_not_declarable (st : state) d :
  ~ declarable st d -> declare st d = Raise AssertionError.
Proof.
  intros H. unfold declare. destruct (d_name d) as [|c0 n0] eqn:En; [reflexivity|]. cbn [is_nil].
  rewrite <- En in *.
  destruct (mem (d_name d) (keys st)) eqn:E1; [reflexivity|].
  destruct (forallb (fun p => mem p (keys st)) (d_parents d)) eqn:E2; [|reflexivity].
  exfalso. apply H. split; [congruence|]. split; [apply mem_false; exact E1|apply forallb_mem_incl; exact E2].
Qed.

Lemma declarable_dec st d : {declarable st d} + {~ declarable st d}.
Proof.
  unfold declarable.
  destruct (str_eq_dec (d_name d) []); [right; tauto|].
  destruct (in_dec str_eq_dec (d_name d) (keys st)); [right; tauto|].
  destruct (forallb (fun p => mem p (keys st)) (d_parents d)) eqn:E.
  - left. apply forallb_mem_incl in E. tauto.
  - right. intros (_ & _ & H). apply forallb_mem_incl in H. congruence.
Qed.

(* ------------------------------------------------------------------ *)
(* the declared graph                                                   *)

Definition names (ds : list decl) : list str := map d_name ds.

Definition parent_of (ds : list decl) (p c : str) : Prop :=
  exists d, In d ds /\ d_name d = c /\ In p (d_parents d).

(* p is a transitive parent (ancestor) of c *)
Inductive anc (ds : list decl) : str -> str -> Prop :=
| anc_parent p c : parent_of ds p c -> anc ds p c
| anc_step p m c : anc ds p m -> parent_of ds m c -> anc ds p c.

(* every parent refers to an earlier declaration; names are new and not empty *)
Fixpoint wf_from (seen : list str) (ds : list decl) : Prop :=
  match ds with
  | [] => True
  | d :: r => (d_name d <> [] /\ ~ In (d_name d) seen /\ incl (d_parents d) seen)
              /\ wf_from (seen ++ [d_name d]) r
  end.
Definition wf (ds : list decl) : Prop := wf_from [] ds.

Lemma wf_from_app seen a b :
  wf_from seen (a ++ b) <-> wf_from seen a /\ wf_from (seen ++ names a) b.
Proof.
  revert seen. induction a as [|d a IH]; intros seen; cbn [app wf_from names map].
  - rewrite app_nil_r. tauto.
  - rewrite IH. rewrite <- app_assoc. cbn [app]. tauto.
Qed.

Lemma NoDup_snoc {A} (l : list A) x : NoDup l -> ~ In x l -> NoDup (l ++ [x]).
Proof.
  induction 1 as [|y l Hy ND IH]; intros Hx; cbn [app].
  - constructor; [intros []|constructor].
  - constructor.
    + intros I. apply in_app_or in I as [I|[E|[]]]; [contradiction|]. apply Hx. left. symmetry. exact E.
    + apply IH. intros I. apply Hx. right. exact I.
Qed.

Lemma wf_from_facts seen ds :
  wf_from seen ds -> NoDup seen ->
  NoDup (seen ++ names ds) /\
  forall d, In d ds -> d_name d <> [] /\ incl (d_parents d) (seen ++ names ds).
Proof.
  revert seen. induction ds as [|d r IH]; intros seen W ND; cbn [names map].
  - rewrite app_nil_r. split; [exact ND|]. intros d [].
  - destruct W as ((Hne & Hfresh & Hpar) & W).
    assert (NoDup (seen ++ [d_name d])) as ND'.
    { apply NoDup_snoc; assumption. }
    destruct (IH _ W ND') as (ND2 & F). rewrite <- app_assoc in ND2, F. cbn [app] in ND2, F.
    split; [exact ND2|]. intros d' [<-|I].
    + split; [exact Hne|]. intros p Hp. apply in_or_app. left. apply Hpar. exact Hp.
    + apply F. exact I.
Qed.

(* ------------------------------------------------------------------ *)
(* ancestors when a declaration is appended                             *)

Lemma parent_of_mono ds ds' p c : incl ds ds' -> parent_of ds p c -> parent_of ds' p c.
Proof. intros I (d & Hd & E & Hp). exists d. auto. Qed.

Lemma anc_mono ds ds' p c : incl ds ds' -> anc ds p c -> anc ds' p c.
Proof.
  intros I. induction 1 as [p c H|p m c _ IH H].
  - apply anc_parent. eapply parent_of_mono; eassumption.
  - eapply anc_step; [exact IH|]. eapply parent_of_mono; eassumption.
Qed.

Lemma parent_of_child_in ds p c : parent_of ds p c -> In c (names ds).
Proof. intros (d & Hd & <- & _). apply in_map. exact Hd. Qed.

Lemma anc_child_in ds p c : anc ds p c -> In c (names ds).
Proof. destruct 1 as [p c H|p m c _ H]; eapply parent_of_child_in; exact H. Qed.

Section Snoc.
  Variables (ds : list decl) (d : decl).
  Hypothesis Hpars : forall d', In d' ds -> incl (d_parents d') (names ds).
  Hypothesis Hfresh : ~ In (d_name d) (names ds).
  Hypothesis Hpar : incl (d_parents d) (names ds).

  Lemma parent_of_snoc p c :
    parent_of (ds ++ [d]) p c <->
    (c <> d_name d /\ parent_of ds p c) \/ (c = d_name d /\ In p (d_parents d)).
  Proof.
    split.
    - intros (d' & Hd' & E & Hp). apply in_app_or in Hd' as [I|[<-|[]]].
      + left. split.
        * intros E'. apply Hfresh. rewrite <- E', <- E. apply in_map. exact I.
        * exists d'. auto.
      + right. auto.
    - intros [(N & H)|(-> & H)].
      + eapply parent_of_mono; [|exact H]. intros x Hx. apply in_or_app. left. exact Hx.
      + exists d. split; [apply in_or_app; right; left; reflexivity|]. auto.
  Qed.

  Lemma parent_of_parent_in p c : parent_of ds p c -> In p (names ds).
  Proof. intros (d' & Hd' & _ & Hp). apply (Hpars d' Hd'). exact Hp. Qed.

  Lemma anc_snoc p c :
    anc (ds ++ [d]) p c <->
    (c <> d_name d /\ anc ds p c) \/
    (c = d_name d /\ (In p (d_parents d) \/ exists m, In m (d_parents d) /\ anc ds p m)).
  Proof.
    split.
    - induction 1 as [p c H|p m c _ IH H].
      + apply parent_of_snoc in H as [(N & H)|(E & H)].
        * left. split; [exact N|apply anc_parent; exact H].
        * right. split; [exact E|left; exact H].
      + apply parent_of_snoc in H as [(N & H)|(E & H)].
        * left. split; [exact N|].
          destruct IH as [(_ & A)|(E & _)].
          -- eapply anc_step; eassumption.
          -- exfalso. apply Hfresh. rewrite <- E. eapply parent_of_parent_in. exact H.
        * right. split; [exact E|]. right. exists m. split; [exact H|].
          destruct IH as [(_ & A)|(E' & _)]; [exact A|].
          exfalso. apply Hfresh. rewrite <- E'. apply Hpar. exact H.
    - assert (incl ds (ds ++ [d])) as I by (intros x Hx; apply in_or_app; left; exact Hx).
      intros [(N & A)|(-> & [H|(m & Hm & A)])].
      + eapply anc_mono; eassumption.
      + apply anc_parent. apply parent_of_snoc. right. auto.
      + eapply anc_step; [eapply anc_mono; eassumption|]. apply parent_of_snoc. right. auto.
  Qed.

  (* the appended command has no descendants yet *)
  Lemma anc_snoc_new c : ~ anc (ds ++ [d]) (d_name d) c.
  Proof.
    intros A. remember (d_name d) as n eqn:En. induction A as [p c H|p m c _ IH H]; [|auto].
    subst p. apply parent_of_snoc in H as [(_ & H)|(_ & H)].
    - apply Hfresh. eapply parent_of_parent_in. exact H.
    - apply Hfresh. apply Hpar. exact H.
  Qed.
End Snoc.

(* ------------------------------------------------------------------ *)
(* invariant: state = image of the declarations processed so far         *)

Definition entry_ok (ds : list decl) (d : decl) (e : str * parser) : Prop :=
  fst e = d_name d /\ p_internal (snd e) = d_internal d /\
  p_flags (snd e) = [] /\ p_poss (snd e) = [] /\ p_vals (snd e) = [] /\
  NoDup (dep_names (snd e)) /\ ~ In (fst e) (dep_names (snd e)) /\
  forall c, In c (dep_names (snd e)) <-> anc ds (d_name d) c.

Definition Inv (ds : list decl) (st : state) : Prop := Forall2 (entry_ok ds) ds st.

Lemma Forall2_keys ds0 ds (st : state) : Forall2 (entry_ok ds0) ds st -> keys st = names ds.
Proof.
  induction 1 as [|d e ds st H _ IH]; [reflexivity|].
  unfold keys, names in *. cbn [map]. rewrite IH. destruct H as (-> & _). reflexivity.
Qed.

Lemma Inv_keys ds st : Inv ds st -> keys st = names ds.
Proof. apply Forall2_keys. Qed.

Lemma Forall2_in_r {A B} (P : A -> B -> Prop) la lb b :
  Forall2 P la lb -> In b lb -> exists a, In a la /\ P a b.
Proof.
  induction 1 as [|a' b' la lb H _ IH]; intros I; [destruct I|].
  destruct I as [<-|I].
  - exists a'. split; [left; reflexivity|exact H].
  - destruct (IH I) as (a & Ha & Pa). exists a. split; [right; exact Ha|exact Pa].
Qed.

Lemma Forall2_in_l {A B} (P : A -> B -> Prop) la lb a :
  Forall2 P la lb -> In a la -> exists b, In b lb /\ P a b.
Proof.
  induction 1 as [|a' b' la lb H _ IH]; intros I; [destruct I|].
  destruct I as [<-|I].
  - exists b'. split; [left; reflexivity|exact H].
  - destruct (IH I) as (b & Hb & Pb). exists b. split; [right; exact Hb|exact Pb].
Qed.

Lemma Forall2_map_r {A B} (P Q : A -> B -> Prop) (g : B -> B) la lb :
  Forall2 P la lb -> (forall a b, In a la -> P a b -> Q a (g b)) -> Forall2 Q la (map g lb).
Proof.
  induction 1 as [|a b la lb H _ IH]; intros F; cbn [map]; constructor.
  - apply F; [left; reflexivity|exact H].
  - apply IH. intros a' b' I. apply F. right. exact I.
Qed.

Lemma Inv_deps_incl ds st : Inv ds st -> forall e, In e st -> incl (dep_names (snd e)) (keys st).
Proof.
  intros I e He c Hc. rewrite (Inv_keys _ _ I).
  destruct (Forall2_in_r _ _ _ _ I He) as (d & _ & (_ & _ & _ & _ & _ & _ & A)).
  apply A in Hc. eapply anc_child_in. exact Hc.
Qed.

Lemma reaches_spec ps q pa :
  reaches ps q pa = true <-> exists p, In p ps /\ (q = p \/ In p (dep_names pa)).
Proof.
  unfold reaches. rewrite existsb_exists. split; intros (p & Hp & H); exists p; (split; [exact Hp|]).
  - apply orb_prop in H as [H|H]; [left; apply str_eqb_eq; exact H|right; apply mem_In; exact H].
  - apply orb_true_iff. destruct H as [H|H]; [left; apply str_eqb_eq; exact H|right; apply mem_In; exact H].
Qed.

Lemma Inv_step ds st d :
  wf ds -> Inv ds st -> declarable st d -> Inv (ds ++ [d]) (declared st d).
Proof.
  intros W I (Hne & Hfresh & Hpar).
  pose proof (Inv_keys _ _ I) as K. rewrite K in Hfresh, Hpar.
  destruct (wf_from_facts [] ds W (NoDup_nil _)) as (ND & F). cbn [app] in ND, F.
  assert (forall d', In d' ds -> incl (d_parents d') (names ds)) as Hpars by (intros d' Hd'; apply F; exact Hd').
  unfold Inv, declared. apply Forall2_app.
  - eapply Forall2_map_r; [exact I|].
    intros d0 e Hd0 (E1 & E2 & E3 & E4 & E4v & E5 & E6 & E7).
    set (b := reaches (d_parents d) (fst e) (snd e)).
    destruct (add_dep_fields (d_name d) (length st) b (snd e)) as (_ & A2 & A3 & A4 & A4v).
    unfold entry_ok. cbn [fst snd]. rewrite A2, A3, A4, A4v, dep_names_add_dep.
    assert (~ In (d_name d) (dep_names (snd e))) as Hnd.
    { intros Hc. apply Hfresh. apply E7 in Hc. eapply anc_child_in. exact Hc. }
    assert (fst e <> d_name d) as Hq.
    { intros E. apply Hfresh. rewrite <- E, E1. apply in_map. exact Hd0. }
    repeat split; try assumption.
    + destruct b; [|rewrite app_nil_r; exact E5]. apply NoDup_snoc; assumption.
    + intros Hc. apply in_app_or in Hc as [Hc|Hc]; [contradiction|].
      destruct b; [destruct Hc as [Hc|[]]; congruence|destruct Hc].
    + intros Hc. apply (anc_snoc ds d Hpars Hfresh Hpar).
      apply in_app_or in Hc as [Hc|Hc].
      * left. split; [intros ->; contradiction|apply E7; exact Hc].
      * destruct b eqn:Eb; [|destruct Hc]. destruct Hc as [<-|[]]. right. split; [reflexivity|].
        apply reaches_spec in Eb as (p & Hp & [Hq'|Hd]).
        -- left. rewrite <- E1, Hq'. exact Hp.
        -- right. exists p. split; [exact Hp|apply E7; exact Hd].
    + intros A. apply (anc_snoc ds d Hpars Hfresh Hpar) in A. apply in_or_app.
      destruct A as [(N & A)|(-> & A)].
      * left. apply E7. exact A.
      * right. assert (b = true) as ->; [|left; reflexivity].
        apply reaches_spec. destruct A as [Hp|(m & Hm & A)].
        -- exists (d_name d0). split; [exact Hp|left; exact E1].
        -- exists m. split; [exact Hm|right; apply E7; exact A].
  - constructor; [|constructor]. unfold entry_ok. cbn [fst snd p_internal p_flags p_poss p_vals dep_names p_deps map].
    split; [reflexivity|]. split; [reflexivity|]. split; [reflexivity|]. split; [reflexivity|]. split; [reflexivity|].
    split; [constructor|]. split; [intros []|]. intros c. split; [intros []|].
    intros A. exfalso. eapply (anc_snoc_new ds d Hpars Hfresh Hpar). exact A.
Qed.

Lemma wf_snoc ds d : wf ds -> (d_name d <> [] /\ ~ In (d_name d) (names ds) /\ incl (d_parents d) (names ds)) -> wf (ds ++ [d]).
Proof.
  intros W H. unfold wf. apply wf_from_app. split; [exact W|]. cbn [app wf_from]. split; [exact H|exact I].
Qed.

(* well-formed declarations never fail, and the result satisfies the invariant *)
Lemma build_from_ok rest : forall done st,
  wf done -> Inv done st -> wf_from (names done) rest ->
  exists st', foldM declare rest st = Ret st' /\ Inv (done ++ rest) st'.
Proof.
  induction rest as [|d rest IH]; intros done st W I WR; cbn [foldM].
  - exists st. rewrite app_nil_r. auto.
  - destruct WR as (Hd & WR).
    assert (declarable st d) as D by (unfold declarable; rewrite (Inv_keys _ _ I); exact Hd).
    rewrite (declare_ok st d (Inv_deps_incl _ _ I) D). cbn [bind'].
    destruct (IH (done ++ [d]) (declared st d)) as (st' & E & I').
    + apply wf_snoc; assumption.
    + apply Inv_step; assumption.
    + unfold names. rewrite map_app. exact WR.
    + exists st'. rewrite <- app_assoc in I'. auto.
Qed.

(* conversely: whenever no declaration raises, the list is well-formed; and the
   only exception is AssertionError *)
Lemma build_from_conv rest : forall done st,
  wf done -> Inv done st ->
  (forall st', foldM declare rest st = Ret st' -> wf_from (names done) rest) /\
  (forall x, foldM declare rest st = Raise x -> x = AssertionError /\ ~ wf_from (names done) rest).
Proof.
  induction rest as [|d rest IH]; intros done st W I; cbn [foldM].
  - split; [intros; exact Logic.I|discriminate].
  - destruct (declarable_dec st d) as [D|D].
    + rewrite (declare_ok st d (Inv_deps_incl _ _ I) D). cbn [bind'].
      assert (d_name d <> [] /\ ~ In (d_name d) (names done) /\ incl (d_parents d) (names done)) as Hd
        by (rewrite <- (Inv_keys _ _ I); exact D).
      destruct (IH (done ++ [d]) (declared st d)) as (A & B).
      * apply wf_snoc; assumption.
      * apply Inv_step; assumption.
      * unfold names in A, B. rewrite map_app in A, B. cbn [map] in A, B.
        split.
        -- intros st' E. cbn [wf_from]. split; [exact Hd|]. eapply A. exact E.
        -- intros x E. destruct (B x E) as (-> & N). split; [reflexivity|].
           cbn [wf_from]. intros (_ & WR). apply N. exact WR.
    + rewrite (declare_not_declarable st d D). cbn [bind']. split; [discriminate|].
      intros x [= <-]. split; [reflexivity|]. cbn [wf_from]. intros (Hd & _). apply D.
      unfold declarable. rewrite (Inv_keys _ _ I). exact Hd.
Qed.

Lemma Inv_nil : Inv [] [].
Proof. constructor. Qed.

Lemma build_ok ds : wf ds -> exists st, build ds = Ret st /\ Inv ds st.
Proof.
  intros W. destruct (build_from_ok ds [] [] Logic.I Inv_nil W) as (st & E & I). exists st. auto.
Qed.

Lemma build_ret_wf ds st : build ds = Ret st -> wf ds /\ Inv ds st.
Proof.
  intros E. destruct (build_from_conv ds [] [] Logic.I Inv_nil) as (A & _).
  pose proof (A st E) as W. split; [exact W|].
  destruct (build_ok ds W) as (st' & E' & I). congruence.
Qed.

Lemma build_raise ds x : build ds = Raise x -> x = AssertionError /\ ~ wf ds.
Proof. intros E. destruct (build_from_conv ds [] [] Logic.I Inv_nil) as (_ & B). exact (B x E). Qed.

Lemma wf_dec ds : {wf ds} + {~ wf ds}.
Proof.
  destruct (build ds) as [st|x] eqn:E.
  - left. apply (build_ret_wf ds st E).
  - right. apply (build_raise ds x E).
Qed.

(* ------------------------------------------------------------------ *)
(* theorems about declarations                                          *)

Lemma declare_never_fails_l ds : wf ds <-> exists st, build ds = Ret st.
Proof.
  split.
  - intros W. destruct (build_ok ds W) as (st & E & _). eauto.
  - intros (st & E). apply (build_ret_wf ds st E).
Qed.

Lemma dependents_are_descendants_l ds st :
  build ds = Ret st ->
  keys st = names ds /\
  forall p pa, In (p, pa) st ->
    NoDup (dep_names pa) /\ forall q, In q (dep_names pa) <-> anc ds p q.
Proof.
  intros E. destruct (build_ret_wf ds st E) as (_ & I). split; [apply Inv_keys; exact I|].
  intros p pa H. destruct (Forall2_in_r _ _ _ _ I H) as (d & _ & (E1 & _ & _ & _ & _ & E5 & _ & E7)).
  cbn [fst snd] in *. subst p. auto.
Qed.
