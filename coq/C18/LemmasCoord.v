(* C18/LemmasCoord.v -- the text of a cell coordinate and _coord_sort_key:
   column letters are the bijective base-26 numeral of the column (all columns, beyond Z),
   the row number is read back by int(), and the order of the sort keys is the order of
   (column, row). *)
From Coq Require Import ZArith List Bool Lia.
From AK Require Import Common.Sx Common.Err C18.Base gen.C18_Consts C18.Model C18.Lemmas.
Import ListNotations.
Open Scope Z_scope.

(* ------------------------------------------------------------------ *)
(* column letters                                                      *)

Lemma col_name_aux_acc : forall fuel n acc, col_name_aux fuel n acc = col_name_aux fuel n [] ++ acc.
Proof.
  induction fuel as [|f IH]; intros n acc; cbn [col_name_aux]; [reflexivity|].
  destruct (n <? 26); [reflexivity|].
  rewrite (IH _ (_ :: acc)), (IH _ [_]), <- app_assoc. reflexivity.
Qed.

Lemma col_name_aux_fuel : forall f1 f2 n acc,
  0 <= n < Z.of_nat f1 -> n < Z.of_nat f2 -> col_name_aux f1 n acc = col_name_aux f2 n acc.
Proof.
  induction f1 as [|f1 IH]; intros f2 n acc H1 H2; [lia|].
  destruct f2 as [|f2]; [lia|]. cbn [col_name_aux].
  destruct (Z.ltb_spec n 26); [reflexivity|].
  apply IH; Z.div_mod_to_equations; lia.
Qed.

(* the letters of column n (0-based) *)
Definition cn (n : Z) : str := col_name_aux (S (Z.to_nat n)) n [].

Lemma col_name_cn c : col_name c = cn (Z.of_nat c).
Proof. unfold col_name, cn. rewrite Nat2Z.id. reflexivity. Qed.

Lemma cn_small n : 0 <= n < 26 -> cn n = [65 + n].
Proof.
  intros H. unfold cn. cbn [col_name_aux].
  destruct (Z.ltb_spec n 26); [|lia]. rewrite Z.mod_small by lia. reflexivity.
Qed.

Lemma cn_big n : 26 <= n -> cn n = cn (n / 26 - 1) ++ [65 + n mod 26].
Proof.
  intros H. unfold cn at 1. cbn [col_name_aux].
  destruct (Z.ltb_spec n 26); [lia|].
  rewrite col_name_aux_acc. f_equal. unfold cn.
  apply col_name_aux_fuel; rewrite ?Nat2Z.inj_succ, ?Z2Nat.id; Z.div_mod_to_equations; lia.
Qed.

Lemma cn_nonempty n : 0 <= n -> cn n <> [].
Proof.
  intros H. destruct (Z.ltb_spec n 26).
  - rewrite cn_small by lia. discriminate.
  - rewrite cn_big by lia. intros E. apply app_eq_nil in E as [_ E]. discriminate.
Qed.

Definition is_letter (ch : Z) : Prop := 65 <= ch <= 90.

Lemma cn_letters : forall k n, 0 <= n < Z.of_nat k -> Forall is_letter (cn n).
Proof.
  induction k as [|k IH]; intros n H; [lia|].
  destruct (Z.ltb_spec n 26).
  - rewrite cn_small by lia. constructor; [unfold is_letter; lia|constructor].
  - rewrite cn_big by lia. apply Forall_app. split.
    + apply IH. Z.div_mod_to_equations; lia.
    + constructor; [unfold is_letter; Z.div_mod_to_equations; lia|constructor].
Qed.

Lemma col_name_letters c : Forall is_letter (col_name c).
Proof. rewrite col_name_cn. apply (cn_letters (S c)). lia. Qed.

(* ------------------------------------------------------------------ *)
(* python < on strings                                                 *)

Lemma str_ltb_irrefl : forall a, str_ltb a a = false.
Proof. induction a as [|x a IH]; cbn [str_ltb]; [reflexivity|]. rewrite Z.ltb_irrefl. exact IH. Qed.

Lemma str_ltb_asym : forall a b, str_ltb a b = true -> str_ltb b a = false.
Proof.
  induction a as [|x a IH]; intros [|y b] H; cbn [str_ltb] in *; try reflexivity; try discriminate.
  destruct (Z.ltb_spec x y), (Z.ltb_spec y x); try reflexivity; try lia; try discriminate.
  apply IH. exact H.
Qed.

Lemma str_ltb_app_same : forall p s t, str_ltb (p ++ s) (p ++ t) = str_ltb s t.
Proof. induction p as [|x p IH]; intros s t; cbn [app str_ltb]; [reflexivity|]. rewrite Z.ltb_irrefl. apply IH. Qed.

Lemma str_ltb_app_eqlen : forall p q s t,
  length p = length q -> str_ltb p q = true -> str_ltb (p ++ s) (q ++ t) = true.
Proof.
  induction p as [|x p IH]; intros [|y q] s t Hl H; cbn [length] in Hl; try discriminate.
  cbn [app str_ltb] in *. destruct (x <? y); [reflexivity|]. destruct (y <? x); [discriminate|].
  apply IH; [lia|exact H].
Qed.

(* the order python's tuple comparison puts on (len(col), col) *)
Definition name_lt (a b : str) : Prop :=
  (length a < length b)%nat \/ (length a = length b /\ str_ltb a b = true).

(* the column letters grow with the column, in that order: A < B < ... < Z < AA < AB < ... *)
Lemma cn_mono : forall k a b, 0 <= a < b -> b < Z.of_nat k -> name_lt (cn a) (cn b).
Proof.
  induction k as [|k IH]; intros a b Hab Hk; [lia|].
  destruct (Z.ltb_spec b 26) as [Hb|Hb].
  - rewrite !cn_small by lia. right. split; [reflexivity|]. cbn [str_ltb].
    destruct (Z.ltb_spec (65 + a) (65 + b)); [reflexivity|lia].
  - rewrite (cn_big b) by lia. destruct (Z.ltb_spec a 26) as [Ha|Ha].
    + rewrite cn_small by lia. left. rewrite app_length. cbn [length].
      pose proof (cn_nonempty (b / 26 - 1)) as Hne.
      destruct (cn (b / 26 - 1)); [exfalso; apply Hne; [Z.div_mod_to_equations; lia|reflexivity]|].
      cbn [length]. lia.
    + rewrite (cn_big a) by lia.
      destruct (Z.eq_dec (a / 26) (b / 26)) as [E|E].
      * rewrite E. right. rewrite !app_length. split; [reflexivity|].
        rewrite str_ltb_app_same. cbn [str_ltb].
        destruct (Z.ltb_spec (65 + a mod 26) (65 + b mod 26)); [reflexivity|].
        Z.div_mod_to_equations; lia.
      * assert (Hlt : name_lt (cn (a / 26 - 1)) (cn (b / 26 - 1))).
        { apply IH; Z.div_mod_to_equations; lia. }
        destruct Hlt as [Hlt|[Hl Hlt]].
        -- left. rewrite !app_length. cbn [length]. lia.
        -- right. rewrite !app_length. split; [cbn [length]; lia|].
           apply str_ltb_app_eqlen; assumption.
Qed.

Lemma col_name_mono c c' : (c < c')%nat -> name_lt (col_name c) (col_name c').
Proof. intros H. rewrite !col_name_cn. apply (cn_mono (S c')); lia. Qed.

(* ------------------------------------------------------------------ *)
(* decimal row numbers                                                 *)

Definition is_dig (ch : Z) : Prop := 48 <= ch <= 57.

Lemma dec_aux_acc : forall fuel n acc, dec_aux fuel n acc = dec_aux fuel n [] ++ acc.
Proof.
  induction fuel as [|f IH]; intros n acc; cbn [dec_aux]; [reflexivity|].
  destruct (n <? 10); [reflexivity|].
  rewrite (IH _ (_ :: acc)), (IH _ [_]), <- app_assoc. reflexivity.
Qed.

(* fuel (S f) is enough for every n < 2^(S f) *)
Lemma dec_aux_fuel : forall f1 f2 n acc,
  0 <= n < 2 ^ Z.of_nat (S f1) -> n < 2 ^ Z.of_nat (S f2) ->
  dec_aux (S f1) n acc = dec_aux (S f2) n acc.
Proof.
  induction f1 as [|f1 IH]; intros f2 n acc H1 H2; cbn [dec_aux].
  - change (2 ^ Z.of_nat 1) with 2 in H1. destruct (Z.ltb_spec n 10); [reflexivity|lia].
  - destruct (Z.ltb_spec n 10); [reflexivity|].
    destruct f2 as [|f2]; [change (2 ^ Z.of_nat 1) with 2 in H2; lia|].
    rewrite (Nat2Z.inj_succ (S f1)), Z.pow_succ_r in H1 by lia.
    rewrite (Nat2Z.inj_succ (S f2)), Z.pow_succ_r in H2 by lia.
    apply IH; Z.div_mod_to_equations; lia.
Qed.

Definition dn (n : Z) : str := dec_aux (S (Z.to_nat n)) n [].

Lemma pow2_gt n : 0 <= n -> n < 2 ^ Z.of_nat (S (Z.to_nat n)).
Proof.
  intros H. rewrite Nat2Z.inj_succ, Z2Nat.id by lia.
  pose proof (Z.pow_gt_lin_r 2 n ltac:(lia) H). rewrite Z.pow_succ_r by lia. lia.
Qed.

Lemma dec_pos_dn n : 0 < n -> dec_pos n = dn n.
Proof.
  intros H. unfold dec_pos, dn. apply dec_aux_fuel.
  - rewrite Nat2Z.inj_succ, Z2Nat.id by apply Z.log2_nonneg.
    pose proof (Z.log2_spec n H). lia.
  - apply pow2_gt. lia.
Qed.

Lemma dn_small n : 0 <= n < 10 -> dn n = [48 + n].
Proof.
  intros H. unfold dn. cbn [dec_aux]. destruct (Z.ltb_spec n 10); [|lia].
  rewrite Z.mod_small by lia. reflexivity.
Qed.

Lemma dn_big n : 10 <= n -> dn n = dn (n / 10) ++ [48 + n mod 10].
Proof.
  intros H. unfold dn at 1. cbn [dec_aux]. destruct (Z.ltb_spec n 10); [lia|].
  rewrite dec_aux_acc. f_equal. unfold dn.
  destruct (Z.to_nat n) as [|m] eqn:Em; [lia|].
  apply dec_aux_fuel.
  - split; [Z.div_mod_to_equations; lia|].
    assert (Hn : n < 2 ^ Z.of_nat (S (S m))) by (rewrite <- Em; apply pow2_gt; lia).
    rewrite (Nat2Z.inj_succ (S m)), Z.pow_succ_r in Hn by lia.
    Z.div_mod_to_equations; lia.
  - apply pow2_gt. Z.div_mod_to_equations; lia.
Qed.

Lemma int_of_digits_snoc s d : int_of_digits (s ++ [d]) = 10 * int_of_digits s + (d - 48).
Proof. unfold int_of_digits. rewrite fold_left_app. reflexivity. Qed.

Lemma dn_spec : forall k n, 0 <= n < Z.of_nat k ->
  Forall is_dig (dn n) /\ int_of_digits (dn n) = n.
Proof.
  induction k as [|k IH]; intros n H; [lia|].
  destruct (Z.ltb_spec n 10).
  - rewrite dn_small by lia. split; [constructor; [unfold is_dig; lia|constructor]|].
    unfold int_of_digits. cbn [fold_left]. lia.
  - rewrite dn_big by lia. destruct (IH (n / 10)) as [H1 H2]; [Z.div_mod_to_equations; lia|]. split.
    + apply Forall_app. split; [exact H1|]. constructor; [unfold is_dig; Z.div_mod_to_equations; lia|constructor].
    + rewrite int_of_digits_snoc, H2. Z.div_mod_to_equations; lia.
Qed.

Lemma dec_pos_spec n : 0 < n -> Forall is_dig (dec_pos n) /\ int_of_digits (dec_pos n) = n.
Proof.
  intros H. rewrite dec_pos_dn by exact H. apply (dn_spec (S (Z.to_nat n))). lia.
Qed.

(* ------------------------------------------------------------------ *)
(* _coord_sort_key on a coordinate                                     *)

Lemma drop_digits_all : forall ds rest, Forall is_dig ds -> drop_digits (ds ++ rest) = drop_digits rest.
Proof.
  induction ds as [|d ds IH]; intros rest H; [reflexivity|]. inversion H as [|? ? Hd Hds]; subst.
  cbn [app drop_digits]. unfold is_digit, is_dig in *.
  destruct (Z.leb_spec 48 d), (Z.leb_spec d 57); try lia. cbn [andb]. apply IH. exact Hds.
Qed.

Lemma drop_digits_letters : forall s, Forall is_letter s -> drop_digits s = s.
Proof.
  intros [|c s] H; [reflexivity|]. inversion H as [|? ? Hc _]; subst. cbn [drop_digits].
  unfold is_digit, is_letter in *. destruct (Z.leb_spec 48 c), (Z.leb_spec c 57); try lia; reflexivity.
Qed.

Lemma rstrip_digits_spec ls ds : Forall is_letter ls -> Forall is_dig ds -> rstrip_digits (ls ++ ds) = ls.
Proof.
  intros Hl Hd. unfold rstrip_digits. rewrite rev_app_distr.
  rewrite drop_digits_all by (apply Forall_rev; exact Hd).
  rewrite drop_digits_letters by (apply Forall_rev; exact Hl). apply rev_involutive.
Qed.

Lemma skipn_app_len {A} : forall (a b : list A), skipn (length a) (a ++ b) = b.
Proof. induction a as [|x a IH]; intros b; [reflexivity|]. cbn. apply IH. Qed.

(* the key of the cell in row r, column c (0-based): (number of column letters, letters, r+1) *)
Lemma coord_key_spec r c :
  coord_sort_key (coord_text r c) = (length (col_name c), col_name c, Z.of_nat r + 1).
Proof.
  unfold coord_sort_key, coord_text.
  destruct (dec_pos_spec (Z.of_nat r + 1)) as [Hd Hi]; [lia|].
  rewrite rstrip_digits_spec by (auto using col_name_letters).
  rewrite skipn_app_len, Hi. reflexivity.
Qed.

(* order of the cells: by column, then by row *)
Definition pos_leb (p q : nat * nat) : bool :=
  Nat.ltb (snd p) (snd q) || (Nat.eqb (snd p) (snd q) && Nat.leb (fst p) (fst q)).

Lemma key_ltb_name_lt a b n m :
  name_lt a b -> key_ltb (length a, a, n) (length b, b, m) = true /\
                 key_ltb (length b, b, m) (length a, a, n) = false.
Proof.
  intros [H|[Hl H]]; unfold key_ltb.
  - destruct (Nat.ltb_spec (length a) (length b)); [|lia].
    destruct (Nat.ltb_spec (length b) (length a)); [lia|]. auto.
  - rewrite Hl, Nat.ltb_irrefl, H, (str_ltb_asym _ _ H). auto.
Qed.

Lemma coord_leb_pos r c r' c' :
  coord_leb (coord_text r c) (coord_text r' c') = pos_leb (r, c) (r', c').
Proof.
  unfold coord_leb, pos_leb. rewrite !coord_key_spec. cbn [fst snd].
  destruct (lt_eq_lt_dec c c') as [[H|H]|H].
  - destruct (key_ltb_name_lt _ _ (Z.of_nat r + 1) (Z.of_nat r' + 1) (col_name_mono c c' H)) as [_ ->].
    destruct (Nat.ltb_spec c c'); [reflexivity|lia].
  - subst c'. unfold key_ltb. rewrite !Nat.ltb_irrefl, str_ltb_irrefl, Nat.eqb_refl. cbn [orb andb].
    destruct (Z.ltb_spec (Z.of_nat r' + 1) (Z.of_nat r + 1)), (Nat.leb_spec r r'); try reflexivity; lia.
  - destruct (key_ltb_name_lt _ _ (Z.of_nat r' + 1) (Z.of_nat r + 1) (col_name_mono c' c H)) as [-> _].
    destruct (Nat.ltb_spec c c'); [lia|]. destruct (Nat.eqb_spec c c'); [lia|]. reflexivity.
Qed.
